"""Helpers for implementation-only metamorphic relations ("twins"): running op lists on real
bandits, canonical outputs, copying random-stream positions between structurally equal bandits."""
import copy
import math

import numpy as np

from . import scenario as S
from .recrng import REC
from . import binz as binzmod
from mabwiser.utils import _BaseRNG


def quiet(f):
    """run without recording generator events (twins do not need the tape)"""
    def g(*a, **k):
        old = REC.enabled
        REC.enabled = False
        try:
            return f(*a, **k)
        finally:
            REC.enabled = old
    g.__name__ = f.__name__
    g.__doc__ = f.__doc__
    return g


def plain_rng(f):
    """run with the library's own generator objects (the recording subclass overrides copying and pickling,
    which would hide what the library does there)"""
    from . import recrng

    def g(*a, **k):
        was = recrng._installed
        if was:
            recrng.uninstall()
        try:
            return f(*a, **k)
        finally:
            if was:
                recrng.install()
    g.__name__ = f.__name__
    g.__doc__ = f.__doc__
    return g


def canon(x):
    """canonical python value of a library result"""
    if isinstance(x, dict):
        return [(canon_label(k), canon(v)) for k, v in x.items()]
    if isinstance(x, (list, tuple)):
        return [canon(v) for v in x]
    if isinstance(x, np.ndarray):
        return [canon(v) for v in x.tolist()]
    if isinstance(x, (np.floating, float)):
        return float(x)
    if isinstance(x, (np.integer, int)) and not isinstance(x, bool):
        return int(x)
    if isinstance(x, (np.str_, str)):
        return str(x)
    return x


def canon_label(k):
    return canon(k)


def same(a, b, rtol=0.0):
    """structural equality of canonical values; NaN equals NaN; floats within rtol (0 = bit-for-bit)"""
    if isinstance(a, float) and isinstance(b, (float, int)) or isinstance(b, float) and isinstance(a, (float, int)):
        a = float(a)
        b = float(b)
        if math.isnan(a) and math.isnan(b):
            return True
        if rtol == 0.0:
            return a == b
        return abs(a - b) <= rtol * max(1.0, abs(a), abs(b))
    if isinstance(a, (list, tuple)) and isinstance(b, (list, tuple)):
        return len(a) == len(b) and all(same(x, y, rtol) for x, y in zip(a, b))
    return a == b


def _int_rows(mab, c):
    """integral contexts as integer-typed rows when the scenario asks for it"""
    if c is None or not getattr(mab, "_verif_int_ctx", False):
        return c
    try:
        if all(float(v) == int(v) for row in c for v in row):
            return [[int(v) for v in row] for row in c]
    except (TypeError, ValueError, OverflowError):
        pass
    return c


def apply_op(mab, op):
    """apply one scenario op to a real bandit; returns a canonical outcome"""
    kind = op["op"]
    if kind in ("fit", "pfit", "pexp", "pred") and op.get("c") is not None and op.get("ctypeok", True):
        op = dict(op, c=_int_rows(mab, op["c"]))
    try:
        if kind in ("fit", "pfit"):
            d = list(op["d"]) if op.get("typeok", True) else tuple(op["d"])
            r = [S.ImplRun._reward(x) for x in op["r"]]
            c = op.get("c")
            if c is not None and not op.get("ctypeok", True):
                c = tuple(tuple(x) for x in c)
            if getattr(mab, "_verif_reward_dtype", None) and op.get("typeok", True):
                r = S.reward_container({"reward_dtype": mab._verif_reward_dtype}, r)
            if getattr(mab, "_verif_as_pandas", False) and op.get("typeok", True) and op.get("ctypeok", True) \
                    and len(d) > 0 and len(d) == len(r) and all(x is not None for x in r):
                import pandas as pd
                d, r = pd.Series(d), pd.Series(r)
                if c is not None and len(c) == len(d) and len({len(row) for row in c}) == 1:
                    c = pd.DataFrame(c)
            (mab.fit if kind == "fit" else mab.partial_fit)(d, r, c)
            if c is not None and len(c) > 0:
                mab._verif_width = len(c[0])        # width of the last *accepted* training call
            return ("ok",)
        if kind in ("pexp", "pred"):
            c = op.get("c")
            if c is not None and not op.get("ctypeok", True):
                c = tuple(tuple(x) for x in c)
            w = getattr(mab, "_verif_width", None)
            if getattr(mab, "_verif_as_pandas", False) and isinstance(c, list) and c and w is not None \
                    and all(isinstance(row, list) and len(row) == w for row in c) and (len(c) == 1 or w == 1):
                # a pandas Series query: one row of w features, or several rows of one feature; the facade tells the two
                # apart by the width the bandit was trained with
                import pandas as pd
                c = pd.Series(c[0] if w > 1 or len(c) == 1 else [row[0] for row in c])
            res = (mab.predict_expectations if kind == "pexp" else mab.predict)(c)
            return ("ok", canon(copy.deepcopy(res)))
        if kind == "add":
            b = op.get("binz")
            bf = None
            if b is not None:
                bf = binzmod.BINZ[b] if op.get("callable", True) else "not-callable"
            mab.add_arm(S.arm_value(op["arm"]), bf)
            return ("ok",)
        if kind == "rem":
            mab.remove_arm(S.arm_value(op["arm"]))
            return ("ok",)
        if kind == "warm":
            feats = {a: list(v) for a, v in op["feats"]}
            if not op.get("typeok", True):
                feats = list(feats.items())
            mab.warm_start(feats, op["q"])
            return ("ok",)
        if kind == "cold":
            return ("ok", canon(list(mab.cold_arms)))
        if kind == "arms":
            return ("ok", canon(list(mab.arms)))
        raise ValueError("unknown op " + kind)
    except Exception as e:  # noqa: BLE001
        return ("raised", type(e).__name__)


def apply_ops(mab, ops):
    return [apply_op(mab, op) for op in ops]


def register_labels(scn):
    """set the arm-id table used by arm-dependent binarizers"""
    labels = []

    def add(a):
        if not isinstance(a, dict) and a not in labels:
            labels.append(a)
    for a in scn["cfg"]["arms"]:
        add(a)
    for op in scn["ops"] + scn.get("cont", []) + scn.get("queries", []):
        if op["op"] in ("fit", "pfit"):
            for a in op["d"]:
                add(a)
        elif op["op"] in ("add", "rem"):
            add(op["arm"])
        elif op["op"] == "warm":
            for a, _ in op["feats"]:
                add(a)
    binzmod.set_table(labels)
    return labels


# ------------------------------------------------------------------ random streams

def collect_rngs(obj, path="", seen=None, out=None, depth=0):
    """all generator objects reachable from a bandit, with their access paths"""
    if seen is None:
        seen = set()
        out = []
    if id(obj) in seen or depth > 8:
        return out
    if isinstance(obj, _BaseRNG):
        seen.add(id(obj))
        out.append((path, obj))
        return out
    if isinstance(obj, (int, float, str, bytes, bool, type(None), np.ndarray, np.generic)):
        return out
    seen.add(id(obj))
    if isinstance(obj, dict):
        for k, v in obj.items():
            collect_rngs(v, "%s[%r]" % (path, canon(k)), seen, out, depth + 1)
    elif isinstance(obj, (list, tuple)):
        for i, v in enumerate(obj):
            collect_rngs(v, "%s[%d]" % (path, i), seen, out, depth + 1)
    elif hasattr(obj, "__dict__") and type(obj).__module__.startswith("mabwiser"):
        for k, v in vars(obj).items():
            collect_rngs(v, "%s.%s" % (path, k), seen, out, depth + 1)
    return out


def rng_states(mab):
    return {p: copy.deepcopy(r.rng.bit_generator.state) for p, r in collect_rngs(mab)}


def sync_rngs(dst, src):
    """copy every random-stream position of `src` onto the generator at the same path in `dst`;
    returns the paths that exist on one side only"""
    s = dict(collect_rngs(src))
    d = dict(collect_rngs(dst))
    for p, r in d.items():
        if p in s:
            r.rng.bit_generator.state = copy.deepcopy(s[p].rng.bit_generator.state)
    return sorted(set(s) ^ set(d))


def first_diff(a, b, rtol=0.0):
    """index and values of the first differing outcome of two outcome lists"""
    for i, (x, y) in enumerate(zip(a, b)):
        if not same(x, y, rtol):
            return i, x, y
    if len(a) != len(b):
        return min(len(a), len(b)), None, None
    return None


def is_linear(cfg):
    return cfg["lp"]["k"] in ("lingreedy", "linucb", "lints")
