#!/venv/bin/python
"""vcheck — decision procedure of one check run (DESIGN.md §5).

  vcheck.py check C01 [--tier quick|thorough]
  vcheck.py replay replays/C01-xxxx.json
  vcheck.py setup

exit 0 = property held on everything explored (KNOWN-FINDING lines allowed)
exit 1 = `VIOLATION property=<id> replay=<path>` printed
exit 2 = the check itself could not run (timeouts, harness-internal errors)
"""
import argparse
import importlib
import json
import os
import sys
import time
import traceback

HERE = os.path.dirname(os.path.abspath(__file__))
sys.path.insert(0, os.path.dirname(HERE))

from harness import common  # noqa: E402
from harness import audit as A  # noqa: E402
from harness import core as C  # noqa: E402

PROPS = ["C%02d" % i for i in range(1, 21)]
CHECKER_CMD = "cd lean/MabModel && lake build MabModel driver && (print axioms of every property theorem) | lake env lean --stdin  (thorough: + lake env leanchecker MabModel.Props.<id>)"


def prop_module(pid):
    return importlib.import_module("harness.props.%s" % pid.lower())


def do_check(pid, tier):
    seed = common.seed_from_env()
    ctx = C.Ctx(pid, tier, seed)
    mod = prop_module(pid)

    # 1. proof obligations
    try:
        au = A.run_audit()
    except Exception as e:  # noqa: BLE001
        au = {"build_ok": False, "build_log": repr(e), "forbidden": [], "axioms": {}}
    obligations = A.obligations(au, mod.THEOREMS)
    proof_problems = []
    if not au["build_ok"]:
        proof_problems.append("lake build failed: " + au.get("build_log", "")[-400:])
    if au.get("forbidden"):
        proof_problems.append("forbidden tokens: " + "; ".join(au["forbidden"][:5]))
    for o in obligations:
        if not o["discharged"]:
            proof_problems.append("theorem %s not discharged (axioms: %r)" % (o["name"], o["axioms"]))
    if tier == "thorough" and au["build_ok"] and getattr(mod, "LEANCHECK", True):
        try:
            ok, log = A.leanchecker(["MabModel.Props.%s" % pid])
            ctx.notes.append("leanchecker MabModel.Props.%s: %s" % (pid, "ok" if ok else "FAILED"))
            if not ok:
                proof_problems.append("leanchecker failed: " + log[-300:])
        except Exception as e:  # noqa: BLE001
            ctx.notes.append("leanchecker could not be run: %r" % (e,))

    # 2. known findings: replay each listed witness on the real code
    known_all = [f for f in C.load_known() if f.get("property") == pid and f.get("status") == "known"]
    for f in known_all:
        w = f.get("witness")
        if not w:
            continue
        try:
            still = mod.replay({"property": pid, "kind": w["kind"], "scenario": w["scenario"], "detail": w.get("detail")})
        except Exception as e:  # noqa: BLE001
            still = None
            ctx.notes.append("witness of %s could not be replayed: %r" % (f["id"], e))
        ctx.variant[f["id"]] = "present" if still else "absent"
        if still:
            ctx.known_printed.append({"id": f["id"], "what": f["what"]})

    # 3.-4. correspondence, failing-input search
    mod.run(ctx)

    # 5. verdict
    known = [f for f in C.load_known() if f.get("property") == pid and f.get("status") == "known"]
    new_violations = []
    for v in ctx.violations:
        fid = None
        if hasattr(mod, "attribute"):
            try:
                fid = mod.attribute(v, known)
            except Exception:  # noqa: BLE001
                fid = None
        if fid:
            if fid not in [k["id"] for k in ctx.known_printed]:
                f = [k for k in known if k["id"] == fid][0]
                ctx.known_printed.append({"id": fid, "what": f["what"]})
        else:
            new_violations.append(v)
    for k in ctx.known_printed:
        print("KNOWN-FINDING: property=%s %s" % (pid, k["what"]))

    rc = 0
    lines = []
    if new_violations:
        v = new_violations[0]
        path = C.write_replay(pid, {"property": pid, "kind": v["kind"], "reason": v["reason"],
                                    "scenario": v["scenario"], "detail": {k: v[k] for k in v if k not in ("kind", "reason", "scenario")},
                                    "seed": seed, "tier": tier,
                                    "broken_obligations": proof_problems})
        lines.append("VIOLATION property=%s replay=%s" % (pid, path))
        rc = 1
    elif ctx.state_divergences and not (proof_problems or ctx.unavailable):
        d = ctx.state_divergences[0]
        path = C.write_replay(pid, {"property": pid, "kind": "state-divergence",
                                    "reason": "the correspondence 'abstraction of the real object graph = state of the model' "
                                              "(harness/absstate.py against the driver's state line) no longer checks, and no "
                                              "history was found on which rejections, arms, outputs or sampler requests differ: "
                                              + d["reason"],
                                    "scenario": d["scenario"], "detail": {"k1": d.get("k1")},
                                    "broken_correspondence": "state abstraction (harness/absstate.py) = model state (Driver.lean showState)",
                                    "broken_obligations": proof_problems, "seed": seed, "tier": tier})
        lines.append("VIOLATION property=%s replay=%s no-failing-input-found" % (pid, path))
        rc = 1
    elif proof_problems or ctx.unavailable:
        path = C.write_replay(pid, {"property": pid, "kind": "unchecked-obligation",
                                    "reason": "the property is no longer shown to hold: " + "; ".join(
                                        proof_problems + ctx.unavailable + [d["reason"] for d in ctx.state_divergences])[:1500],
                                    "broken_obligations": proof_problems, "unavailable_correspondence": ctx.unavailable,
                                    "scenario": None, "seed": seed, "tier": tier})
        lines.append("VIOLATION property=%s replay=%s no-failing-input-found" % (pid, path))
        rc = 1
    ctx.violations = new_violations
    C.write_evidence(ctx, obligations, CHECKER_CMD, mod.LEVEL_NOTE,
                     extra={"proof_problems": proof_problems, "forbidden_tokens_found": au.get("forbidden", []),
                            "audit_cached": au.get("cached", False)})
    for ln in lines:
        print(ln)
    print("%s %s tier=%s seed=%d evaluations=%d distinct=%d traces=%d twins=%d wall=%.1fs" % (
        pid, "FAIL" if rc else "ok", tier, seed, ctx.evaluations, len(ctx.skeletons), ctx.traces_validated,
        ctx.twins_run, time.time() - ctx.t0))
    return rc


def do_replay(path):
    payload = json.load(open(path))
    pid = payload["property"]
    mod = prop_module(pid)
    if payload.get("scenario") is None:
        print("replay %s: no concrete input recorded (%s)" % (path, payload.get("reason", "")[:300]))
        au = A.run_audit()
        obligations = A.obligations(au, mod.THEOREMS)
        bad = [o["name"] for o in obligations if not o["discharged"]]
        print("obligations not discharged now: %r" % bad)
        return 1 if bad or not au["build_ok"] else 0
    reason = mod.replay(payload)
    if reason:
        print("replay %s: still fails: %s" % (path, reason))
        return 1
    print("replay %s: passes now" % path)
    return 0


def do_setup():
    t0 = time.time()
    au = A.run_audit(force=True)
    print("lake build: %s (%.0fs); theorems with axioms read: %d; forbidden tokens: %d" % (
        "ok" if au["build_ok"] else "FAILED", time.time() - t0, len(au["axioms"]), len(au["forbidden"])))
    if not au["build_ok"]:
        print(au["build_log"][-2000:])
        return 1
    # harness self-test: one tiny scenario through implementation and model
    from harness import model as M
    scn = {"cfg": {"lp": {"k": "ucb", "alpha": 1.0}, "np": None, "arms": [1, 2], "seed": 1, "binz": None},
           "ops": [{"op": "fit", "d": [1, 1, 2], "r": [1, 0, 1], "c": None}, {"op": "pexp", "c": None}]}
    f = M.check_one(scn)
    print("self-test: %s" % ("ok" if f is None else f))
    return 0 if f is None else 1


def main():
    ap = argparse.ArgumentParser()
    sub = ap.add_subparsers(dest="cmd", required=True)
    c = sub.add_parser("check")
    c.add_argument("prop")
    c.add_argument("--tier", default=os.environ.get("VERIF_TIER", "quick"), choices=["quick", "thorough"])
    r = sub.add_parser("replay")
    r.add_argument("path")
    sub.add_parser("setup")
    a = ap.parse_args()
    try:
        if a.cmd == "check":
            sys.exit(do_check(a.prop, a.tier))
        elif a.cmd == "replay":
            sys.exit(do_replay(a.path))
        else:
            sys.exit(do_setup())
    except SystemExit:
        raise
    except Exception:  # noqa: BLE001
        traceback.print_exc()
        sys.exit(2)


if __name__ == "__main__":
    main()
