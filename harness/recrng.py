"""Recording generator: a subclass of mabwiser's own _NumpyRNG installed by replacing `create_rng`
in every mabwiser module.  Forwards every call to the real generator and logs
(stream id, kind, params, answer) plus deep-copy lineage.  No change to /repo is needed."""
import copy

import numpy as np

from . import common  # noqa: F401  (sets sys.path / thread env)
import mabwiser.utils as U

_MODULES = ("mabwiser.utils", "mabwiser.mab", "mabwiser.neighbors", "mabwiser.approximate",
            "mabwiser.clusters", "mabwiser.treebandit", "mabwiser.simulator")


class Recorder:
    def __init__(self):
        self.events = []          # current op
        self.next_id = 0
        self.origin = {}          # sid -> ('new', seed, creation_index) | ('copy', parent_sid)
        self.n_new = 0
        self.enabled = True

    def begin_op(self):
        self.events = []

    def new_sid(self, origin):
        sid = self.next_id
        self.next_id += 1
        self.origin[sid] = origin
        return sid

    def root_and_depth(self, sid):
        depth = 0
        while self.origin[sid][0] == "copy":
            sid = self.origin[sid][1]
            depth += 1
        return sid, depth


REC = Recorder()


class RecRNG(U._NumpyRNG):
    def __init__(self, seed):
        super().__init__(seed)
        self.sid = REC.new_sid(("new", int(seed)))
        if REC.enabled:
            REC.events.append(("new", self.sid, int(seed)))

    def __deepcopy__(self, memo):
        c = RecRNG.__new__(RecRNG)
        memo[id(self)] = c
        c.seed = self.seed
        c.rng = copy.deepcopy(self.rng, memo)
        c.sid = REC.new_sid(("copy", self.sid))
        return c

    def __reduce__(self):
        # pickling (joblib processes, C19): restore as a recording generator with the same state
        return (_restore, (self.seed, self.rng.bit_generator.state, self.sid))

    def _rec(self, kind, params, size, out):
        if REC.enabled:
            REC.events.append(("req", self.sid, kind, params, size, np.asarray(out, dtype=float).reshape(-1).tolist()))
        return out

    def rand(self, size=None):
        return self._rec("rand", [], size, super().rand(size))

    def randint(self, low, high=None, size=None):
        return self._rec("randint", [], size, super().randint(low, high, size))

    def choice(self, a, size=None, p=None):
        return self._rec("choice", [] if p is None else [float(x) for x in p], size, super().choice(a, size, p))

    def beta(self, a, b, size=None):
        return self._rec("beta", [float(a), float(b)], size, super().beta(a, b, size))

    def standard_normal(self, size=None):
        return self._rec("normal", [], size, super().standard_normal(size))

    def multivariate_normal(self, mean, cov, size=None):
        return self._rec("mvn", np.asarray(mean, dtype=float).reshape(-1).tolist()
                         + np.asarray(cov, dtype=float).reshape(-1).tolist(), size,
                         super().multivariate_normal(mean, cov, size))

    def dirichlet(self, alpha, size=None):
        return self._rec("dirichlet", [float(x) for x in alpha], size, super().dirichlet(alpha, size))


def _restore(seed, state, parent_sid):
    c = RecRNG.__new__(RecRNG)
    c.seed = seed
    c.rng = np.random.default_rng(0)
    c.rng.bit_generator.state = state
    c.sid = REC.new_sid(("copy", parent_sid)) if parent_sid in REC.origin else REC.new_sid(("new", int(seed)))
    return c


_installed = False
_orig = {}


def install():
    global _installed
    if _installed:
        return
    import importlib
    mods = [importlib.import_module(name) for name in _MODULES]      # import everything first ...
    if "true" not in _orig:
        _orig["true"] = U.create_rng                                  # ... the library's own factory
    for mod in mods:
        if hasattr(mod, "create_rng"):
            mod.create_rng = lambda seed: RecRNG(seed)
    _installed = True


def uninstall():
    global _installed
    import importlib
    for name in _MODULES:
        mod = importlib.import_module(name)
        if hasattr(mod, "create_rng"):
            mod.create_rng = _orig["true"]
    _installed = False
