"""Binarizer family shared with the Lean driver (`binzOf?` in Driver.lean).  Module-level functions so
that bandits holding them can be pickled.  Arm-dependent ones look the arm's id up in ARM_ID."""

ARM_ID = {}


def set_table(labels):
    ARM_ID.clear()
    for i, a in enumerate(labels):
        ARM_ID[_key(a)] = i


def _key(a):
    # numpy scalars and python scalars of equal value share an entry
    try:
        return a.item()
    except AttributeError:
        return a


def b1(arm, r):
    return 1 if r > 0.5 else 0


def b2(arm, r):
    return 1 if r > ARM_ID[_key(arm)] + 1 else 0


def b3(arm, r):
    return 1 if r <= 0.5 else 0


def b4(arm, r):
    if ARM_ID[_key(arm)] % 2 == 0:
        return 1 if r >= 2 else 0
    return 1 if r < 1 else 0


BINZ = {1: b1, 2: b2, 3: b3, 4: b4}
