"""Worker for C04: runs scripted scenarios in a fresh interpreter and prints one digest per scenario.

  python c04_worker.py alone        < scenarios.json     each scenario on its own
  python c04_worker.py interleaved  < scenarios.json     each scenario interleaved with the construction, training and
                                                          prediction of other bandits (other seeds; policy tuple objects
                                                          shared between bandits with equal configuration, default-
                                                          constructed tuples included)
Plain mabwiser (no recording generator, no harness imports besides the binarizer table)."""
import hashlib
import json
import os
import sys
import warnings

for _v in ("OMP_NUM_THREADS", "OPENBLAS_NUM_THREADS", "MKL_NUM_THREADS"):
    os.environ.setdefault(_v, "1")
warnings.filterwarnings("ignore")
sys.path.insert(0, os.environ.get("MABWISER_REPO", "/repo"))
sys.path.insert(0, os.path.dirname(os.path.dirname(os.path.abspath(__file__))))

import numpy as np  # noqa: E402
from mabwiser.mab import MAB, LearningPolicy as LP, NeighborhoodPolicy as NP  # noqa: E402
from harness import binz as B  # noqa: E402

_POLICY_CACHE = {}


def make_lp(lp, binz_id, share):
    key = ("lp", json.dumps(lp, sort_keys=True), binz_id)
    if share and key in _POLICY_CACHE:
        return _POLICY_CACHE[key]
    k = lp["k"]
    if k == "greedy":
        o = LP.EpsilonGreedy(epsilon=lp["eps"])
    elif k == "ucb":
        o = LP.UCB1(alpha=lp["alpha"])
    elif k == "softmax":
        o = LP.Softmax(tau=lp["tau"])
    elif k == "thompson":
        o = LP.ThompsonSampling(B.BINZ[binz_id]) if binz_id else LP.ThompsonSampling()
    elif k == "popularity":
        o = LP.Popularity()
    elif k == "random":
        o = LP.Random()
    elif k == "lingreedy":
        o = LP.LinGreedy(epsilon=lp["eps"], l2_lambda=lp["lam"], scale=lp.get("scale", False))
    elif k == "linucb":
        o = LP.LinUCB(alpha=lp["alpha"], l2_lambda=lp["lam"], scale=lp.get("scale", False))
    else:
        o = LP.LinTS(alpha=lp["alpha"], l2_lambda=lp["lam"], scale=lp.get("scale", False))
    _POLICY_CACHE[key] = o
    return o


def make_np(npc, share):
    if npc is None:
        return None
    key = ("np", json.dumps(npc, sort_keys=True))
    if share and key in _POLICY_CACHE:
        return _POLICY_CACHE[key]
    k = npc["k"]
    if k == "radius":
        o = NP.Radius(radius=npc["r"], metric=npc["metric"], no_nhood_prob_of_arm=npc.get("probs"))
    elif k == "knn":
        o = NP.KNearest(k=npc["kk"], metric=npc["metric"])
    elif k == "lsh":
        o = NP.LSHNearest(n_dimensions=npc["ndim"], n_tables=npc["ntab"], no_nhood_prob_of_arm=npc.get("probs"))
    elif k == "clusters":
        o = NP.Clusters(n_clusters=npc["n"], is_minibatch=npc.get("mini", False))
    else:
        tp = npc.get("params")
        o = NP.TreeBandit() if tp is None else NP.TreeBandit(tree_parameters=tp if share else dict(tp))
    _POLICY_CACHE[key] = o
    return o


def make(cfg, share, seed_shift=0):
    return MAB(list(cfg["arms"]), make_lp(cfg["lp"], cfg.get("binz"), share), make_np(cfg.get("np"), share),
               seed=cfg.get("seed", 1) + seed_shift, n_jobs=cfg.get("n_jobs", 1), backend=cfg.get("backend"))


def canon(x):
    if isinstance(x, dict):
        return [(canon(k), canon(v)) for k, v in x.items()]
    if isinstance(x, (list, tuple)):
        return [canon(v) for v in x]
    if isinstance(x, (float, np.floating)):
        return float(x).hex()
    if isinstance(x, (np.integer,)):
        return int(x)
    if isinstance(x, np.str_):
        return str(x)
    return x


def apply(mab, op):
    k = op["op"]
    try:
        if k in ("fit", "pfit"):
            (mab.fit if k == "fit" else mab.partial_fit)(list(op["d"]), list(op["r"]), op.get("c"))
            return "ok"
        if k in ("pexp", "pred"):
            return canon((mab.predict_expectations if k == "pexp" else mab.predict)(op.get("c")))
        if k == "add":
            mab.add_arm(op["arm"], B.BINZ[op["binz"]] if op.get("binz") else None)
            return "ok"
        if k == "rem":
            mab.remove_arm(op["arm"])
            return "ok"
        if k == "warm":
            mab.warm_start({a: list(v) for a, v in op["feats"]}, op["q"])
            return "ok"
    except Exception as e:  # noqa: BLE001
        return "raised:" + type(e).__name__
    return "?"


def labels_of(scn):
    out = []
    for a in scn["cfg"]["arms"]:
        if a not in out:
            out.append(a)
    for op in scn["ops"]:
        for a in (op.get("d") or []) + ([op["arm"]] if op["op"] in ("add", "rem") else []) + [x for x, _ in op.get("feats", [])]:
            if not isinstance(a, dict) and a not in out:
                out.append(a)
    return out


def main():
    mode = sys.argv[1]
    scns = json.load(sys.stdin)
    state0 = np.random.get_state()[1][:4].tolist()
    digests = []
    for i, scn in enumerate(scns):
        B.set_table(labels_of(scn))
        outs = []
        if mode == "alone":
            m = make(scn["cfg"], share=False)
            for op in scn["ops"]:
                outs.append(apply(m, op))
        else:
            others = [scns[(i + 1) % len(scns)], scns[(i + 2) % len(scns)], scn]
            o_mabs = []
            m = None
            # constructions interleaved: one other bandit before, the rest after the main one
            try:
                o_mabs.append(make(others[0]["cfg"], share=True, seed_shift=17))
            except Exception:  # noqa: BLE001
                o_mabs.append(None)
            m = make(scn["cfg"], share=True)
            for j, o in enumerate(others[1:], 1):
                try:
                    o_mabs.append(make(o["cfg"], share=True, seed_shift=17 + j))
                except Exception:  # noqa: BLE001
                    o_mabs.append(None)
            n = max(len(scn["ops"]), max(len(o["ops"]) for o in others))
            for t in range(n):
                if t < len(scn["ops"]):
                    outs.append(apply(m, scn["ops"][t]))
                for oi, (om, o) in enumerate(zip(o_mabs, others)):
                    if om is not None and t < len(o["ops"]):
                        B.set_table(labels_of(o))
                        apply(om, o["ops"][t])
                        if oi == 2 and t == 0:
                            # the bandit built from the very same policy tuple objects changes its arms
                            apply(om, {"op": "add", "arm": "zz_other" if isinstance(scn["cfg"]["arms"][0], str) else 987654})
                        B.set_table(labels_of(scn))
        digests.append(hashlib.sha256(json.dumps(outs, default=str).encode()).hexdigest()[:16])
    untouched = np.random.get_state()[1][:4].tolist() == state0
    print(json.dumps({"digests": digests, "global_numpy_state_untouched": untouched}))


if __name__ == "__main__":
    main()
