"""Shared helpers: exact rationals, symbolic expectations, tolerances, paths."""
import math
import os
import sys
from fractions import Fraction

VERIF = os.path.dirname(os.path.dirname(os.path.abspath(__file__)))
REPO = os.environ.get("MABWISER_REPO", "/repo")
LEAN_DIR = os.path.join(VERIF, "lean", "MabModel")
DRIVER_BIN = os.path.join(LEAN_DIR, ".lake", "build", "bin", "driver")

# single-threaded numerical kernels (property C04 assumes it; also 10x faster test runs)
for _v in ("OMP_NUM_THREADS", "OPENBLAS_NUM_THREADS", "MKL_NUM_THREADS"):
    os.environ.setdefault(_v, "1")

if REPO not in sys.path:
    sys.path.insert(0, REPO)

EPS_MACH = 2.220446049250313e-16
RTOL = 1e-9


def rat(x):
    """exact rational string of a python/numpy number"""
    if isinstance(x, bool):
        x = int(x)
    if isinstance(x, int):
        return str(x)
    f = Fraction(float(x))
    return str(f.numerator) if f.denominator == 1 else "%d/%d" % (f.numerator, f.denominator)


def rats(xs):
    xs = list(xs)
    return ",".join(rat(x) for x in xs) if xs else "-"


def rows(m):
    m = list(m)
    return ";".join(rats(r) for r in m) if m else "-"


def nats(xs):
    xs = list(xs)
    return ",".join(str(int(x)) for x in xs) if xs else "-"


def natrows(m):
    m = list(m)
    return ";".join(nats(r) for r in m) if m else "-"


def parse_rat(s):
    return Fraction(s)


def eval_expect(s):
    """float value of a symbolic expectation printed by the driver"""
    if s == "nan":
        return float("nan")
    tag, _, rest = s.partition(":")
    if tag == "v":
        return float(Fraction(rest))
    if tag == "u":
        mean, alpha, N, n = rest.split(":")
        N = int(N)
        n = int(n)
        if N <= 0:
            return float("nan")
        return float(Fraction(mean)) + float(Fraction(alpha)) * math.sqrt((2 * math.log(N)) / n)
    if tag == "s":
        tau, m, ms = rest.split(":")
        ms = [Fraction(x) for x in ms.split("_")] if ms else []
        tau = Fraction(tau)
        m = Fraction(m)
        mx = max(ms)
        den = sum(math.exp(float((x - mx) / tau)) for x in ms)
        return math.exp(float((m - mx) / tau)) / den
    if tag == "l":
        xb, alpha, q = rest.split(":")
        q = float(Fraction(q))
        return float(Fraction(xb)) + float(Fraction(alpha)) * math.sqrt(q if q > 0 else 0.0)
    raise ValueError("bad expect " + s)


def close(a, b, rtol=RTOL, scale=1.0):
    if isinstance(a, float) and isinstance(b, float) and math.isnan(a) and math.isnan(b):
        return True
    try:
        return abs(a - b) <= rtol * max(1.0, abs(a), abs(b), scale)
    except TypeError:
        return False


def seed_from_env(default=20260929):
    try:
        return int(os.environ.get("VERIF_SEED", default))
    except ValueError:
        return default
