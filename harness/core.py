"""Check context: budgets, statistics, violations, shrinking, replay files, evidence."""
import copy
import hashlib
import json
import os
import time

from . import common
from . import gen as G
from . import model as M

KNOWN_FILE = os.path.join(common.VERIF, "known_findings.json")
REPLAY_DIR = os.path.join(common.VERIF, "replays")
CORPUS_DIR = os.path.join(common.VERIF, "corpus")
EVIDENCE_DIR = os.path.join(common.VERIF, "evidence")

TRUSTED_BASE = [
    "Lean 4.33 kernel; axioms limited to propext, Classical.choice, Quot.sound (audited on every run with #print axioms)",
    "Mathlib modules imported by MabModel/Props and MabModel/Lemmas",
    "the hand-written model is tied to /repo only on the inputs the correspondence check samples (harness/scenario.py: encoder, recording generator, tolerance rules)",
    "modelled rather than verified: float64 rounding (model is exact rational arithmetic), math.sqrt/log/exp, numpy bit generators and samplers (answers replayed from a recorded tape), numpy.linalg.inv (model inverts exactly and checks A*Ainv=I), scipy cdist for irrational metrics, scikit-learn KMeans / DecisionTreeRegressor / StandardScaler (cell assignment is an oracle), joblib backends and OS scheduling, pickle/deepcopy machinery, pandas containers",
]


def load_known():
    try:
        return json.load(open(KNOWN_FILE))["findings"]
    except (OSError, ValueError, KeyError):
        return []


class Ctx:
    def __init__(self, prop, tier, seed):
        self.prop = prop
        self.tier = tier
        self.seed = seed
        self.t0 = time.time()
        self.stats = {}
        self.dist = {}
        self.violations = []          # {kind, scenario, reason, ...}
        self.known_printed = []
        self.samples = []
        self.evaluations = 0
        self.skeletons = set()
        self.traces_validated = 0
        self.twins_run = 0
        self.notes = []
        self.unavailable = []         # sub-checks that could not run (protocol / driver errors)
        self.state_divergences = []   # model state != abstraction of the real object graph, nothing observable differs
        self.variant = {}
        self.exhaustive = False

    def scale(self, quick, thorough):
        return thorough if self.tier == "thorough" else quick

    def count(self, key, n=1):
        self.dist[key] = self.dist.get(key, 0) + n

    def note_scenario(self, scn):
        self.evaluations += 1
        if G.nontrivial(scn):
            self.skeletons.add(G.skeleton(scn))
        cfg = scn["cfg"]
        self.count("lp_" + cfg["lp"]["k"])
        self.count("np_" + ((cfg.get("np") or {}).get("k", "none")))
        if scn.get("big"):
            self.count("big_scenarios")
        n_rows = sum(len(op.get("d") or []) for op in scn.get("ops", []))
        self.count("rows_le_100" if n_rows <= 100 else ("rows_le_1000" if n_rows <= 1000 else "rows_gt_1000"))
        self.count("arms_le_5" if len(cfg["arms"]) <= 5 else "arms_gt_5")
        if len(self.samples) < 3:
            self.samples.append(compact(scn))

    def add_violation(self, kind, scenario, reason, extra=None):
        v = {"kind": kind, "scenario": scenario, "reason": reason}
        if extra:
            v.update(extra)
        self.violations.append(v)

    # -- model/implementation correspondence over a list of scenarios
    def correspond(self, scenarios, k1=None, label="correspondence"):
        for s in scenarios:
            self.note_scenario(s)
        try:
            fails = M.correspond(scenarios, self.stats, k1=k1)
        except M.DriverError as e:
            self.unavailable.append("%s: %s" % (label, e))
            return []
        self.traces_validated += len(scenarios) - len(fails)
        out = []
        for f in fails:
            if f.get("protocol") or f.get("harness_error"):
                self.unavailable.append("%s: %s" % (label, f["reason"]))
                continue
            out.append((scenarios[f["index"]], f))
        return out


def compact(scn, limit=600):
    s = json.dumps(scn, default=str)
    return scn if len(s) <= limit else {"cfg": scn["cfg"], "ops_head": scn["ops"][:2], "n_ops": len(scn["ops"])}


# ------------------------------------------------------------------ shrinking

def shrink(scn, fails, budget=80):
    """greedy shrinking of a scenario while `fails(scn)` stays true"""
    best = copy.deepcopy(scn)
    n = 0

    def attempt(cand):
        nonlocal best, n
        if n >= budget:
            return False
        n += 1
        try:
            if fails(cand):
                best = cand
                return True
        except Exception:  # noqa: BLE001
            return False
        return False

    changed = True
    while changed and n < budget:
        changed = False
        # drop operations (from the end first)
        i = len(best["ops"]) - 1
        while i >= 0 and n < budget:
            if len(best["ops"]) > 1:
                cand = copy.deepcopy(best)
                del cand["ops"][i]
                if attempt(cand):
                    changed = True
            i -= 1
        # halve batches / query lists
        for i, op in enumerate(best["ops"]):
            if n >= budget:
                break
            if op["op"] in ("fit", "pfit") and len(op["d"]) > 1:
                for sl in (slice(0, len(op["d"]) // 2), slice(len(op["d"]) // 2, None)):
                    cand = copy.deepcopy(best)
                    o = cand["ops"][i]
                    o["d"] = o["d"][sl]
                    o["r"] = o["r"][sl]
                    if o.get("c") is not None:
                        o["c"] = o["c"][sl]
                    if attempt(cand):
                        changed = True
                        break
            elif op["op"] in ("pexp", "pred") and op.get("c") and len(op["c"]) > 1:
                for sl in (slice(0, len(op["c"]) // 2), slice(len(op["c"]) // 2, None)):
                    cand = copy.deepcopy(best)
                    cand["ops"][i]["c"] = cand["ops"][i]["c"][sl]
                    if attempt(cand):
                        changed = True
                        break
    return best


# ------------------------------------------------------------------ replay files and evidence

def write_replay(prop, payload):
    os.makedirs(REPLAY_DIR, exist_ok=True)
    body = json.dumps(payload, indent=1, default=str, sort_keys=True)
    h = hashlib.sha256(body.encode()).hexdigest()[:12]
    path = os.path.join(REPLAY_DIR, "%s-%s.json" % (prop, h))
    with open(path, "w") as f:
        f.write(body)
    return os.path.relpath(path, common.VERIF)


def write_evidence(ctx, obligations, checker_cmd, level_note, extra=None):
    os.makedirs(EVIDENCE_DIR, exist_ok=True)
    discharged = sum(1 for o in obligations if o["discharged"])
    cov = {
        "obligations": len(obligations),
        "discharged": discharged,
        "checker_cmd": checker_cmd,
        "trusted_base": TRUSTED_BASE,
        "theorems": obligations,
        "evaluations": ctx.evaluations,
        "distinct_nontrivial": len(ctx.skeletons),
        "rule": "scenarios are generated from (VERIF_SEED, profile, index) by harness/gen.py; a scenario is non-trivial "
                "if it trains on at least one row and queries afterwards; distinct = distinct op skeletons "
                "(policy, neighbourhood, op kinds with batch sizes and number of distinct decisions)",
        "samples": ctx.samples or [{"note": "no generated scenario in this run"}],
        "traces_validated_against_impl": ctx.traces_validated,
        "twins_run": ctx.twins_run,
        "distribution": ctx.dist,
        "correspondence_counters": ctx.stats,
        "variant_selected": ctx.variant,
        "known_findings_printed": ctx.known_printed,
        "unavailable_subchecks": ctx.unavailable,
        "notes": ctx.notes,
        "exhaustive": ctx.exhaustive,
    }
    if extra:
        cov.update(extra)
    ev = {
        "property_id": ctx.prop,
        "tier": ctx.tier,
        "seed": ctx.seed,
        "level": "proof",
        "coverage": cov,
        "assumptions": [level_note],
        "wall_s": round(time.time() - ctx.t0, 2),
        "violations": len(ctx.violations),
    }
    path = os.path.join(EVIDENCE_DIR, "%s.json" % ctx.prop)
    with open(path, "w") as f:
        json.dump(ev, f, indent=1, default=str)
    return path


def load_corpus(prop):
    d = os.path.join(CORPUS_DIR, prop)
    out = []
    if os.path.isdir(d):
        for f in sorted(os.listdir(d)):
            if f.endswith(".json"):
                try:
                    out.append(json.load(open(os.path.join(d, f))))
                except ValueError:
                    pass
    return out
