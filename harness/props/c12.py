"""C12 — Clusters and TreeBandit condition on exactly the query's cell."""
from .. import gen as G
from .. import twins as TW
from . import base
from .base import replay  # noqa: F401
from .theorems import THEOREMS as _T

THEOREMS = _T["C12"]
LEVEL_NOTE = ("Lean theorems for every cell-assignment oracle: clusters_cell_rows (each cluster policy is fit on exactly the stored rows "
              "labelled with it), clusters_query_cell, tree_leaf_rewards (per arm and leaf exactly that arm's rewards whose leaf it "
              "is; arms without data keep 0). What k-means / CART compute is trusted (oracle). Tied to /repo by the correspondence "
              "(labels_, predict, apply read from the fitted sklearn objects) and by the twin against a fresh policy on the rows of "
              "the query's cell / the leaf statistic.")

PROFILE = {"name": "C12", "lp": G.CF_KINDS + G.LIN_KINDS, "np": ["clusters", "tree"],
           "weights": {"fit": 1, "pfit": 3, "query": 5, "add": 1, "rem": 0.5, "warm": 0}}


def attribute(v, known):
    scn = v.get("scenario") or {}
    cfg = scn.get("cfg") or {}
    if v["kind"] == "twin:cells_vs_fresh_policy" and (cfg.get("np") or {}).get("k") == "clusters" and TW.readds_label(scn):
        if any(k["id"] == "K5" for k in known):
            return "K5"
    return None


def run(ctx):
    base.run_correspondence(ctx, PROFILE, ctx.scale(500, 6000))
    scns = [TW.gen_nhood(ctx.seed, i, ["clusters", "tree"], "C12") for i in range(ctx.scale(400, 5000))]
    base.run_twin(ctx, "cells_vs_fresh_policy", scns)
    huge = [TW.gen_huge(ctx.seed, i, ["clusters", "tree"], "C12", sizes=[(1100, 30, 65), (1500, 700, 65)]) for i in range(ctx.scale(4, 40))]
    base.run_twin(ctx, "cells_vs_fresh_policy", huge, shrink=False)
