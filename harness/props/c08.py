"""C08 — outputs always range over exactly the current arms, one result per context."""
from .. import gen as G
from .. import twins as TW
from .. import twinlib as T
from .. import scenario as S
from . import base
from .base import replay as _replay
from .theorems import THEOREMS as _T

THEOREMS = _T["C08"]
LEVEL_NOTE = ("Lean theorems: keys_eq_arms (after any history the per-arm dictionaries have exactly the current arms as keys, in "
              "arm-list order, duplicate-free, and the arm list follows the specification: added_immediately, removed_never_returns), "
              "predictExp_keys (every dictionary predict_expectations returns has those keys, for every tape), predict_mem (predict is a "
              "key, hence a current arm), unwrap_shape (m > 1 rows -> list of m, one row -> single result). Tied to /repo by the "
              "correspondence (arms, key order and result shape compared after every step, int/float/str labels) and by the twin "
              "checking these invariants on the real bandit under n_jobs in {1,2,3}.")

PROFILE = {"name": "C08", "allow_scale": True, "lp": G.CF_KINDS + G.LIN_KINDS, "np": [None, None] + G.NP_KINDS,
           "weights": {"fit": 1, "pfit": 2, "query": 4, "add": 2.5, "rem": 2, "warm": 0.7, "swap": 1.5}, "n_ops": (5, 12)}


@base.twin("probs_after_arm_change")
@T.quiet
def probs_after_arm_change(scn):
    """known finding K4: predict on an empty neighbourhood with a configured distribution after add_arm"""
    a = S.make_mab(scn["cfg"])
    res = T.apply_ops(a, scn["ops"])
    last = res[-1]
    if last[0] != "ok":
        return "predict raised %s" % (last[1],)
    return None


def replay(payload):
    return _replay(payload)


def run(ctx):
    base.run_correspondence(ctx, PROFILE, ctx.scale(500, 6000))
    scns = [TW.gen_c08(ctx.seed, i) for i in range(ctx.scale(300, 4000))]
    base.run_twin(ctx, "outputs_over_arms", scns)
    # query batches of 2^k + 1 rows (block-wise dispatch must not lose the shape of a short tail block)
    large = [TW.gen_c08_large(ctx.seed, i) for i in range(ctx.scale(12, 120))]
    base.run_twin(ctx, "outputs_over_arms", large, shrink=False)
