"""C02 — linear policies are exact per-arm ridge regressions with the stated bonus."""
from .. import gen as G
from .. import twins as TW
from . import base
from .base import replay  # noqa: F401
from .theorems import THEOREMS as _T

THEOREMS = _T["C02"]
LEVEL_NOTE = ("Lean theorems: lin_statistics + stat_linear (after any history every arm's model holds A = lambda*I + sum x x^T, "
              "Xty = sum y*x over exactly the arm's rows, inverse and coefficients derived from them; lambda*I / 0 for an unobserved "
              "arm), linucb_columns (x.beta + alpha*sqrt(x A^-1 x) per row and arm, no draws), reshape_rowwise / "
              "squeeze_counterexample (shape algebra of the LinTS sample matrix, every m and d), k1_counterexample (known finding "
              "K1: the inverse of a never-observed arm is lambda*I instead of I/lambda). np.linalg.inv is replaced by an exact "
              "inverse whose certificate A*Ainv = I the driver re-checks on every fitted model; scale=True is covered by the "
              "independent numpy.linalg.solve oracle only. Tied to /repo by the correspondence (d in 1..3, m in 1..5, exact "
              "rationals vs floats at 1e-7) and by the twin against ridge regression on the raw history.")

PROFILE = {"dead_feature": True, "big_rate": 0.012, "big_small_batches": True, "name": "C02", "lp": G.LIN_KINDS, "np": [None], "dims": [1, 1, 2, 3],
           "weights": {"fit": 1, "pfit": 3, "query": 4, "add": 1.5, "rem": 0.7, "warm": 0.5}, "query_sizes": [1, 2, 3, 5],
           "allow_scale": True}


def attribute(v, known):
    scn = v.get("scenario") or {}
    if v["kind"] == "twin:linear_vs_normal_equations" and TW.is_k1(scn, v.get("reason")) and any(k["id"] == "K1" for k in known):
        return "K1"
    return None


def run(ctx):
    # the model follows the code: lambda*I for unobserved arms while K1 is present, I/lambda once it is repaired
    k1_fixed = ctx.variant.get("K1") == "absent"
    base.run_correspondence(ctx, PROFILE, ctx.scale(500, 6000), k1=k1_fixed)
    scns = [TW.gen_c02(ctx.seed, i) for i in range(ctx.scale(500, 6000))]
    for s in scns:
        ctx.count("scale_%s" % bool(s["cfg"]["lp"].get("scale")))
    base.run_twin(ctx, "linear_vs_normal_equations", scns)
    large = [TW.gen_c02_large(ctx.seed, i) for i in range(ctx.scale(6, 60))]
    base.run_twin(ctx, "linear_vs_normal_equations", large, shrink=False)
    wide = [TW.gen_c02_wide(ctx.seed, i) for i in range(ctx.scale(9, 90))]
    base.run_twin(ctx, "linear_vs_normal_equations", wide, shrink=False)
