"""C14 — a Thompson binarizer is applied to every reward exactly once."""
from .. import twins as TW
from . import base
from .base import replay  # noqa: F401
from .theorems import THEOREMS as _T

THEOREMS = _T["C14"]
LEVEL_NOTE = ("Lean theorems for every binarizer function: fit_binarizer_once / partialFit_binarizer_once (training a policy that holds a "
              "binarizer = training the same policy without binarizer on the converted rewards, binarizer kept), np_binarize_once "
              "(neighbourhood policies convert on arrival, store converted values, and the policy's own fit does not convert again), "
              "addArm_new_binarizer (a binarizer installed by add_arm applies to subsequent observations only); "
              "tree_binarizer_twice_counterexample is the machine-checked witness of known finding K2 (TreeBandit converts again at "
              "prediction time). Tied to /repo by the correspondence (Thompson under every neighbourhood policy, arm-dependent and "
              "non-idempotent binarizers, add_arm with a new binarizer) and by the twin binarizer vs pre-converted rewards.")

PROFILE = {"name": "C14", "lp": ["thompson"], "np": [None, "radius", "knn", "lsh", "clusters", "tree"], "p_binz": 0.75, "p_add_binz": 0.6,
           "weights": {"fit": 1, "pfit": 4, "query": 3, "add": 2, "rem": 0.5, "warm": 0}}


def attribute(v, known):
    cfg = (v.get("scenario") or {}).get("cfg") or {}
    if v["kind"] == "twin:binarizer_vs_preconverted" and TW.is_k2(cfg) and any(k["id"] == "K2" for k in known):
        return "K2"
    return None


def run(ctx):
    base.run_correspondence(ctx, PROFILE, ctx.scale(500, 6000))
    scns = [TW.gen_c14(ctx.seed, i) for i in range(ctx.scale(500, 6000))]
    base.run_twin(ctx, "binarizer_vs_preconverted", scns)
