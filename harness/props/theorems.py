"""Property theorems (names in namespace Mab unless qualified) — the proof obligations of each check.
`#print axioms` is run on every one of them on every run (harness/audit.py)."""

THEOREMS = {
    "C01": ["cf_refines_log", "cf_statistics", "cf_expectation_greedy", "cf_expectation_ucb", "cf_thompson_counts",
            "readd_is_fresh", "softmax_shares", "softmax_shares_run", "softmax_sum_one", "softmax_share_pos",
            "popularity_normalised", "fit_ends_with_normalize", "partialFit_ends_with_normalize",
            "stat_greedy", "stat_ucb", "stat_softmax", "stat_thompson", "stat_popularity", "stat_random",
            "fitRec_append", "parallelFitIn_closed"],
    "C17": ["rejected_noop", "train_rejected_noop", "query_rejected_noop", "rejected_then_continue"],
}

IMPORTS = {
    "C01": ["MabModel.Props.C01"],
    "C17": ["MabModel.Props.C17"],
}


def all_imports():
    out = []
    for v in IMPORTS.values():
        for m in v:
            if m not in out:
                out.append(m)
    return out


def all_theorems():
    out = []
    for v in THEOREMS.values():
        for t in v:
            full = t if t.startswith("Mab.") or t.startswith("Py.") else "Mab." + t
            if full not in out:
                out.append(full)
    return out
