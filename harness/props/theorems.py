"""Property theorems (names in namespace Mab unless qualified) — the proof obligations of each check.
`#print axioms` is run on every one of them on every run (harness/audit.py)."""

THEOREMS = {
    "C01": ["cf_refines_log", "cf_statistics", "cf_expectation_greedy", "cf_expectation_ucb", "cf_thompson_counts",
            "readd_is_fresh", "softmax_shares", "softmax_shares_run", "softmax_sum_one", "softmax_share_pos",
            "popularity_normalised", "fit_ends_with_normalize", "partialFit_ends_with_normalize",
            "stat_greedy", "stat_ucb", "stat_softmax", "stat_thompson", "stat_popularity", "stat_random",
            "fitRec_append", "parallelFitIn_closed",
            "step_lp", "runHist_lp", "facade_lp_is_trace", "stepOp_norm_congr", "run_norm_congr", "runHist_lp_queries",
            "facade_expectation_greedy", "facade_thompson_counts"],
    "C02": ["lin_statistics", "stat_linear", "gram_accumulates", "k1_counterexample", "k1_lambda_one", "linucb_columns",
            "reshape_rowwise", "squeeze_counterexample", "fitRec_append",
            "toV_mulVec", "toM_matMul", "toM_ident", "inverse_certificate", "beta_unique_solution", "toM_addGram",
            "toV_addXty", "ridge_closed_form", "linucb_bonus_quadratic_form", "scaleRow_unfitted", "scaleRow_fitted", "linear_history_closed_form"],
    "C03": ["radius_exact", "euclid_via_squares", "knn_override_valid", "nanInv_init", "nanInv_addArm", "nanInv_removeArm",
            "empty_nhood_exps", "nhood_from_scratch", "fit_discards", "knn_valid", "sorted_pairs",
            "step_hist", "runHist_hist"],
    "C04": ["noninterference_private", "shared_default_counterexample", "world_step_deterministic", "private_copy_frame"],
    "C05": ["partition_exact_cover", "effectiveJobs_bounds", "splitBySizes_flatten", "chunked_map", "predict_any_partition",
            "fit_tasks_commute", "parallelFitIn_closed", "Py.Dict.foldl_modify",
            "chunkFold_congr", "chunk_split", "nhoodRow_config", "sameConfig_fit", "predictChunk_eq_chunkFold",
            "fit_then_predictExp_congr", "nhoodRow_congr", "nhoodRow_sameCfg", "chunkFold_congr_all", "chunk_split_all",
            "predictChunk_eq_chunkFold_all",
            "predictExp_out_of_norm", "canon_after_query", "clusterStep", "clusterFold_congr", "cluster_chunk_split",
            "predictChunk_eq_clusterFold"],
    "C06": ["incremental_eq_batch", "spec_chunked", "rowsOf_append", "fitRec_append", "first_partial_is_fit", "neighbors_history",
            "post_eq_mapKV", "rec_stats_append", "rec_append_post", "fit_closed", "partialFit_closed", "fit_partialFit_append",
            "chunked_eq_batch_full", "incremental_eq_batch_full",
            "accepted_partial", "accepted_fit", "partialCalls_trace", "facade_incremental_eq_batch",
            "npBinarize_append", "radius_incremental_eq_batch", "knn_incremental_eq_batch", "radius_chunked_eq_batch",
            "knn_chunked_eq_batch", "lshInv_fit_any", "lshInv_partialFit_any", "lshSame_buckets", "lshSame_selectIdx",
            "lshSame_nhoodRow", "lshSame_impPredict", "lsh_incremental_eq_batch", "lsh_incremental_queries", "lsh_chunked_eq_batch",
            "clusters_partialFit_is_fit", "clusters_incremental_eq_batch", "clusters_init_flags", "clusters_fit_keeps",
            "clusters_chunked_eq_batch"],
    "C07": ["fit_discards", "resetFor_congr", "sameConfig_fresh", "fit_after_history_eq_fresh",
            "fit_then_predictExp_congr", "fit_norm_congr", "npBinarize_congr", "impFit_none_congr", "impFit_neighbors_congr",
            "impFit_lsh_congr", "impFit_tree_congr", "impFit_clusters_congr", "facade_fit_discards"],
    "C08": ["keys_eq_arms", "added_immediately", "removed_never_returns", "arms_unchanged_by_training", "unwrap_shape",
            "predictExp_keys", "predict_mem", "argmaxFirst_mem", "draw_length", "chunk_rows",
            "predictExp_keys_greedy", "assembleRows_keys", "predictExp_keys_linear", "predictExp_keys_all", "fit_wf",
            "partialFit_wf", "addArm_wf", "removeArm_wf", "warmStart_wf", "predictExp_wf", "nhoodRow_keys",
            "binv_init", "binv_impFit", "binv_impPartialFit", "binv_impAddArm", "binv_impRemoveArm", "binv_step",
            "binv_reachable", "query_outputs_over_arms"],
    "C09": ["argmax_first", "foldMax_spec", "argmaxFirst_mem", "predict_eq_argmax", "leWith_val",
            "nhoodRow_predict_eq_argmax", "nhoodRow_empty", "treeRow_predict_eq_argmax", "nhood_predictChunk_eq_argmax",
            "clusters_predictChunk_eq_argmax", "tree_predictChunk_eq_argmax", "predictChunk_false_allInl", "splitOuts_toPred",
            "impPredict_eq_argmax"],
    "C10": ["predictExp_readonly", "predict_readonly", "impPredict_readonly", "query_readonly",
            "fit_normT", "partialFit_normT", "addArm_normT", "removeArm_normT", "warmStart_normT", "predictExp_normT",
            "step_norm", "query_norm", "step_np", "norm_bisim", "queried_indistinguishable"],
    "C11": ["hash_scale_invariant", "vecMul_scale", "hash_zero_projection", "planes_fixed_at_fit", "lsh_partial_hist",
            "lsh_nhood_union", "lshInsert_getD", "mem_hashIdx", "hashIdx_append", "lshInv_fit", "lshInv_partialFit",
            "lsh_nhood_exact", "self_collision", "runHist_hist"],
    "C12": ["clusters_cell_rows", "clusters_cell_from_scratch", "clusters_partial_hist", "clusters_query_cell",
            "tree_unobserved_arm", "tree_fit_empty_batch_arm",
            "leafFold_spec", "treeFold_get", "tree_leaf_rewards", "tree_fit_leaf", "tree_partialFit_leaf", "tree_row_arm",
            "tree_leaf_exact", "clusters_readd_counterexample"],
    "C13": ["ws_pairs_spec", "ws_target", "ws_untouched", "cold_arms_spec", "cold_not_trained", "coldToWarm_targets",
            "copyFold_get_target", "copyFold_get_other", "argminFirst_spec",
            "sortRat_sorted", "quantileLin_mono", "ws_monotone_in_quantile", "ws_raises_indep", "warmed_coldToWarm",
            "ws_idempotent"],
    "C14": ["fit_binarizer_once", "partialFit_binarizer_once", "binarize_spec", "binarize_noop_ctxBin", "np_binarize_once",
            "addArm_new_binarizer", "tree_binarizer_twice_counterexample",
            "stepOp_binarizer_once", "stepOp_binz", "run_binarizer_once", "run_binarizer_once_state",
            "chunked_binarizer_once", "rowsOf_converted", "convRel_run", "thompson_counts_binarized",
            "facade_binarizer_once"],
    "C15": ["sim_distance_lookup", "slice_row", "sim_selection_eq_library", "sim_cache_correct", "sim_cache_fresh",
            "shared_cache_counterexample", "radius_exact"],
    "C16": ["split_partition", "random_split_partition", "batches_cover_once", "stats_additive", "min_le_mean_le_max",
            "evaluator_count_total", "evaluator_ordered", "getStats_count_sum", "count_partition", "evaluator_count_total_nn", "evaluator_ordered_nn", "credited_eq_creditedBy"],
    "C17": ["rejected_noop", "train_rejected_noop", "query_rejected_noop", "rejected_then_continue",
            "runHist_erase_rejected", "runOuts_erase_rejected", "accepted_all_ok", "rejected_tape_untouched"],
    "C18": ["series_disambiguation_fit", "series_disambiguation_predict", "column_roundtrip", "caller_cells_untouched", "arms_by_value"],
    "C19": ["copy_bisimilar", "copy_independent", "copy_equal", "shared_copy_counterexample", "noninterference_private",
            "runHist_append", "runOuts_append", "copy_any_time"],
    "C20": ["fit_perm", "partialFit_perm", "fitRec_perm", "rowsOf_perm", "shift_greedy", "shift_ucb", "shift_softmax_invariant",
            "addXty_scale", "gram_ignores_rewards", "listMax_shift",
            "rowsOf_relabel", "fitRec_relabel", "fit_relabel", "partialFit_relabel", "addArm_relabel", "removeArm_relabel",
            "init_relabel", "stepOp_relabel", "run_relabel", "expDict_relabel", "argmaxFirst_relabel", "init_run_relabel",
            "armDistance_relabel", "distanceThreshold_relabel", "coldToWarm_relabel", "warmStart_relabel",
            "predictExp_relabel_greedy", "predictExp_relabel_thompson", "predictExp_relabel_linear", "predictExp_relabel",
            "predict_relabel",
            "npBinarize_relabel", "clustersFitOp_relabel", "treeFitArms_relabel", "impFit_relabel", "impPartialFit_relabel",
            "impAddArm_relabel", "impRemoveArm_relabel", "selectIdx_relabel", "nhoodRow_relabel", "treeLeafExp_relabel",
            "treeRow_relabel", "predictChunk_relabel", "impPredict_relabel", "validateTrain_relabel", "trainShapeErr_relabel",
            "train_relabel", "query_relabel", "step_relabel", "runHist_relabel", "runOuts_relabel", "init_relabel_bandit",
            "relabel_end_to_end",
            "sel_rows", "radius_rows_filter", "nhoodRow_good", "radius_nhoodRow_perm", "radius_predictChunk_perm",
            "radius_impPredict_perm", "radius_impFit_perm", "radius_impPartialFit_perm", "radius_row_order",
            "idx_perm", "range_filterMap", "lsh_selectIdx_nodup", "lsh_rows_perm", "lsh_nhoodRow_perm", "lsh_predictChunk_perm",
            "lsh_impPredict_perm", "lsh_impFit_perm", "lsh_impPartialFit_perm", "lsh_row_order",
            "vadd_right_comm", "madd_right_comm", "addGram_perm", "addXty_perm", "fitRec_perm_all", "fit_perm_all",
            "partialFit_perm_all"],
}

IMPORTS = {
    "C01": ["MabModel.Props.C01", "MabModel.Props.C01b"],
    "C02": ["MabModel.Props.C02", "MabModel.Props.C02b", "MabModel.Props.C02c"],
    "C03": ["MabModel.Props.C03", "MabModel.Props.C03b"],
    "C04": ["MabModel.Props.C04"],
    "C05": ["MabModel.Props.C05", "MabModel.Props.C05b", "MabModel.Props.C05c", "MabModel.Props.C05d"],
    "C06": ["MabModel.Props.C06", "MabModel.Props.C06b", "MabModel.Props.C06c", "MabModel.Props.C06d"],
    "C07": ["MabModel.Props.C07", "MabModel.Props.C05c", "MabModel.Props.C07b", "MabModel.Props.FacadeLift"],
    "C08": ["MabModel.Props.C08", "MabModel.Props.C08b", "MabModel.Props.C08c"],
    "C09": ["MabModel.Props.C09", "MabModel.Props.C09b"],
    "C10": ["MabModel.Props.C10", "MabModel.Props.C10b"],
    "C11": ["MabModel.Props.C11", "MabModel.Props.C03b"],
    "C12": ["MabModel.Props.C12", "MabModel.Props.C12b", "MabModel.Props.C12c"],
    "C13": ["MabModel.Props.C13", "MabModel.Props.C13b"],
    "C14": ["MabModel.Props.C14", "MabModel.Props.C14b", "MabModel.Props.FacadeLift"],
    "C15": ["MabModel.Props.C15"],
    "C16": ["MabModel.Props.C16", "MabModel.Props.C16b"],
    "C17": ["MabModel.Props.C17", "MabModel.Props.C17b"],
    "C18": ["MabModel.Props.C18"],
    "C19": ["MabModel.Props.C19", "MabModel.Props.C19b"],
    "C20": ["MabModel.Props.C20", "MabModel.Props.C20b", "MabModel.Props.C20c", "MabModel.Props.C20d",
            "MabModel.Props.C20e", "MabModel.Props.C20f", "MabModel.Props.C20g",
            "MabModel.Props.C20h", "MabModel.Props.C20i", "MabModel.Props.C20j"],
}


def all_imports():
    out = []
    for v in IMPORTS.values():
        for m in v:
            if m not in out:
                out.append(m)
    return out


def all_theorems():
    out = []
    for v in THEOREMS.values():
        for t in v:
            full = t if t.startswith("Mab.") or t.startswith("Py.") else "Mab." + t
            if full not in out:
                out.append(full)
    return out
