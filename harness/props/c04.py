"""C04 — seeded runs are reproducible and bandit instances are isolated."""
import json
import os
import subprocess

from .. import common
from .. import gen as G
from . import base
from .theorems import THEOREMS as _T

THEOREMS = _T["C04"]
LEVEL_NOTE = ("Lean theorems over a World model (several bandits plus the one mutable cell that can be reached from more than one "
              "bandit - the default tree_parameters dictionary): noninterference_private (with private copies a step of one bandit "
              "leaves every other bandit's state and outputs untouched), shared_default_counterexample (the repaired defect D5), "
              "world_step_deterministic. Partial: process boundaries, hash randomisation and the object graph of the real library "
              "cannot be exhibited by the model; they are sampled by digests of scripted scenarios computed alone in a fresh "
              "interpreter, under PYTHONHASHSEED in {0, 1, random}, and interleaved with the construction / training / prediction of "
              "other bandits that share policy tuple objects, with single-threaded numerical kernels.")

PROFILE = {"name": "C04", "allow_scale": True, "lp": G.CF_KINDS + G.LIN_KINDS, "np": [None] + G.NP_KINDS + ["tree", "radius"],
           "labels": ["str", "int", "str", "float"],
           "weights": {"fit": 1, "pfit": 3, "query": 4, "add": 1.5, "rem": 1, "warm": 1.5}, "n_ops": (3, 8)}
WORKER = os.path.join(common.VERIF, "harness", "c04_worker.py")


def warm_tie_scenario(seed, i):
    """string arms; the first arm stays cold; every trained arm has the same feature vector (exact distance tie),
    so which arm donates depends on the iteration order over the trained arms"""
    import random
    rng = random.Random("%s/C04tie/%s" % (seed, i))
    arms = rng.sample(["music", "travel", "sports", "news", "films", "games", "books"], rng.choice([3, 4, 5]))
    kind = rng.choice(["greedy", "ucb", "thompson", "softmax"])
    lp = G.gen_lp(rng, kind)
    if kind == "greedy":
        lp["eps"] = 0.0
    n = rng.choice([6, 9, 12])
    d = [rng.choice(arms[1:]) for _ in range(n)]
    r = [rng.choice([0, 1]) for _ in range(n)]
    vec = [float(rng.randint(1, 3)), float(rng.randint(1, 3))]
    feats = [[a, list(vec)] for a in arms]
    feats[0][1] = [vec[0] + 1.0, vec[1]]
    ops = [{"op": "fit", "d": d, "r": r, "c": None}, {"op": "warm", "feats": feats, "q": 1.0},
           {"op": "pexp", "c": None}, {"op": "pred", "c": None}]
    return {"cfg": {"lp": lp, "np": None, "arms": arms, "seed": rng.randint(0, 10 ** 6), "binz": None, "n_jobs": 1}, "ops": ops}


def probs_scenario(seed, i):
    """a configured empty-neighbourhood distribution (a caller-owned list inside the policy tuple) and queries
    without neighbours"""
    import random
    rng = random.Random("%s/C04probs/%s" % (seed, i))
    arms = rng.sample([1, 2, 3, 4, 5, 6], 3)
    npc = rng.choice([{"k": "radius", "r": 1.0, "metric": "euclidean", "probs": [0.25, 0.5, 0.25]},
                      {"k": "lsh", "ndim": 3, "ntab": 1, "probs": [0.5, 0.0, 0.5]}])
    n = rng.choice([4, 6])
    d = [rng.choice(arms) for _ in range(n)]
    r = [rng.choice([0, 1, 2]) for _ in range(n)]
    c = [[float(rng.randint(0, 2)), float(rng.randint(0, 2))] for _ in range(n)]
    far = [[50.0 + j, -40.0] for j in range(3)] if npc["k"] == "radius" else [[0.0, 0.0], [0.0, 0.0]]
    ops = [{"op": "fit", "d": d, "r": r, "c": c}, {"op": "pred", "c": far}, {"op": "pfit", "d": d[:2], "r": r[:2], "c": c[:2]},
           {"op": "pred", "c": far}, {"op": "pexp", "c": far[:1]}]
    return {"cfg": {"lp": {"k": "greedy", "eps": 0.0}, "np": npc, "arms": arms, "seed": rng.randint(0, 10 ** 6), "binz": None,
                    "n_jobs": 1}, "ops": ops}


def tree_added_arm_scenario(seed, i):
    """TreeBandit whose trees really consume their random_state (a random feature per split, or tied split candidates):
    arms of the constructor and an arm added after the fit, both trained, then queried - every tree must be seeded by the
    bandit's seed, whenever it was created"""
    import random
    rng = random.Random("%s/C04tree/%s" % (seed, i))
    arms = [1, 2, 3]
    params = rng.choice([{"max_features": 1}, {"splitter": "random"}, {"max_features": 1, "splitter": "random"}, None])
    lp = G.gen_lp(rng, rng.choice(["ucb", "greedy"]))
    if "eps" in lp:
        lp["eps"] = 0.0
    d_feat = 3

    def row():
        if params is None:
            v = float(rng.randint(0, 3))
            return [v] * d_feat                      # identical columns: every split candidate ties
        return [float(rng.randint(0, 5)) for _ in range(d_feat)]
    n = 18
    fit = {"op": "fit", "d": [arms[j % 3] for j in range(n)], "r": [rng.choice([0, 1, 2, 5]) for _ in range(n)], "c": [row() for _ in range(n)]}
    m = 10
    more = {"op": "pfit", "d": [4] * m, "r": [rng.choice([0, 1, 2, 5]) for _ in range(m)], "c": [row() for _ in range(m)]}
    qs = [[float(rng.randint(0, 5)) for _ in range(d_feat)] for _ in range(8)]
    ops = [fit, {"op": "pexp", "c": qs}, {"op": "add", "arm": 4, "binz": None}, more, {"op": "pexp", "c": qs}, {"op": "pred", "c": qs}]
    return {"cfg": {"lp": lp, "np": {"k": "tree", "params": params}, "arms": arms, "seed": rng.randint(0, 10 ** 6), "binz": None,
                    "n_jobs": 1}, "ops": ops}


def knn_pair_scenario(seed, i):
    """two KNearest bandits with long, different histories that are asked the same query rows in opposite order (in the
    interleaved mode scenario i runs next to scenario i + 1): nothing one of them looked up may reach the other"""
    import random
    first = i % 30 == 13
    rq = random.Random("%s/C04pairQ/%s" % (seed, i // 30))
    q1 = [[float(rq.randint(0, 9)), float(rq.randint(0, 9))] for _ in range(12)]
    q2 = [[float(rq.randint(0, 9)), float(rq.randint(0, 9))] for _ in range(12)]
    rng = random.Random("%s/C04pair/%s" % (seed, i))
    n = 2100
    arms = [1, 2, 3]
    fit = {"op": "fit", "d": [rng.choice(arms) for _ in range(n)], "r": [rng.choice([0, 1, 2, 5]) for _ in range(n)],
           "c": [[float(rng.randint(0, 9)), float(rng.randint(0, 9))] for _ in range(n)]}
    a, b = (q1, q2) if first else (q2, q1)
    ops = [fit, {"op": "pexp", "c": a}, {"op": "pexp", "c": b}, {"op": "pred", "c": a}]
    return {"cfg": {"lp": {"k": "ucb", "alpha": 1.0}, "np": {"k": "knn", "kk": 5, "metric": "euclidean"}, "arms": arms,
                    "seed": rng.randint(0, 10 ** 6), "binz": None, "n_jobs": 1}, "ops": ops}


def lints_thin_arm_scenario(seed, i):
    """LinTS with ten features of magnitude 1e4 and an arm with fewer rows than features: whatever numpy makes of the
    ill-conditioned covariance (values or a LinAlgError), it is the same in every process"""
    import random
    rng = random.Random("%s/C04lints/%s" % (seed, i))
    arms = [1, 2, 3]
    d = 10
    n = 40
    dec = [arms[j % 2] for j in range(n)] + [3, 3]
    ctx = [[1e4 * rng.randint(1, 5) + rng.randint(0, 9) for _ in range(d)] for _ in dec]
    rew = [rng.choice([0, 1, 2]) for _ in dec]
    q = [[1e4 * rng.randint(1, 5) for _ in range(d)] for _ in range(3)]
    ops = [{"op": "fit", "d": dec, "r": rew, "c": ctx}, {"op": "pexp", "c": q},
           {"op": "pfit", "d": [3, 1], "r": [1, 0], "c": [ctx[0], ctx[1]]}, {"op": "pexp", "c": q}, {"op": "pred", "c": q}]
    return {"cfg": {"lp": {"k": "lints", "alpha": 1.0, "lam": 1.0}, "np": None, "arms": arms,
                    "seed": rng.randint(0, 10 ** 6), "binz": None, "n_jobs": 1}, "ops": ops}


def gen(seed, i):
    if i % 30 in (13, 14):
        return knn_pair_scenario(seed, i)
    if i % 30 == 20:
        return lints_thin_arm_scenario(seed, i)
    if i % 6 == 3:
        return tree_added_arm_scenario(seed, i)
    if i % 6 == 5:
        return warm_tie_scenario(seed, i)
    if i % 6 == 4:
        return probs_scenario(seed, i)
    scn = G.gen_scenario(seed, i, PROFILE)
    npc = scn["cfg"].get("np")
    import random
    r2 = random.Random("%s/C04x/%s" % (seed, i))
    if npc and npc["k"] in ("radius", "knn", "lsh", "clusters") and r2.random() < 0.3:
        # several thread workers (results must not depend on them) and, for the exact neighbourhood policies,
        # now and then a metric that scipy evaluates with data-dependent parameters
        scn["cfg"]["n_jobs"] = r2.choice([2, 3])
        scn["cfg"]["backend"] = "threading"
        if npc["k"] in ("radius", "knn") and r2.random() < 0.5:
            npc["metric"] = r2.choice(["seuclidean", "mahalanobis", "canberra", "cosine"])
    if npc and npc["k"] == "clusters" and r2.random() < 0.4:
        npc["mini"] = True
    if npc and npc["k"] == "tree":
        # a tree's random_state only matters when split candidates tie: train on duplicated feature columns,
        # query with diverging columns (DESIGN.md section 7, C04)
        for op in scn["ops"]:
            if op["op"] in ("fit", "pfit") and op.get("c"):
                op["c"] = [[row[0]] * len(row) for row in op["c"]]
    return scn


def run_worker(mode, scns, hashseed):
    env = dict(os.environ, PYTHONHASHSEED=str(hashseed), MABWISER_REPO=common.REPO)
    p = subprocess.run(["/venv/bin/python", WORKER, mode], input=json.dumps(scns), capture_output=True, text=True,
                       env=env, timeout=3000)
    if p.returncode != 0:
        raise RuntimeError("worker %s failed: %s" % (mode, p.stderr[-500:]))
    return json.loads(p.stdout.strip().splitlines()[-1])


def digest_fails(scn_list, idx):
    """re-check one scenario (with its two interleaving partners) in all modes"""
    base_ = run_worker("alone", scn_list, 0)["digests"]
    for mode, hs in (("alone", 1), ("alone", "random"), ("interleaved", 0)):
        got = run_worker(mode, scn_list, hs)["digests"]
        if got[idx] != base_[idx]:
            return "digest of the scripted scenario differs: alone/PYTHONHASHSEED=0 %s vs %s/PYTHONHASHSEED=%s %s" % (
                base_[idx], mode, hs, got[idx])
    return None


def replay(payload):
    if payload["kind"] == "digest":
        s = payload["scenario"]
        return digest_fails(s["scenarios"], s["index"])
    return base.replay(payload)


def run(ctx):
    n = ctx.scale(90, 1500)
    scns = [gen(ctx.seed, i) for i in range(n)]
    for s in scns:
        ctx.note_scenario(s)
    try:
        ref = run_worker("alone", scns, 0)
        runs = [("alone", 1, run_worker("alone", scns, 1)), ("alone", "random", run_worker("alone", scns, "random")),
                ("interleaved", 0, run_worker("interleaved", scns, 0))]
        if ctx.tier == "thorough":
            runs.append(("interleaved", "random", run_worker("interleaved", scns, "random")))
            runs.append(("alone", 2, run_worker("alone", scns, 2)))
    except Exception as e:  # noqa: BLE001
        ctx.unavailable.append("digest workers: %r" % (e,))
        return
    ctx.twins_run += len(runs) * n
    if not ref["global_numpy_state_untouched"] or not all(r[2]["global_numpy_state_untouched"] for r in runs):
        ctx.add_violation("global_state", {"scenarios": scns[:3], "index": 0}, "a call changed the global numpy random state")
    reported = 0
    for mode, hs, r in runs:
        for i, (u, v) in enumerate(zip(ref["digests"], r["digests"])):
            if u != v and reported < 2:
                reported += 1
                k = len(scns)
                trio = [scns[i], scns[(i + 1) % k], scns[(i + 2) % k]]
                ctx.add_violation("digest", {"scenarios": trio, "index": 0, "cfg": scns[i]["cfg"]},
                                  "scenario %d: digest alone/PYTHONHASHSEED=0 %s differs from %s/PYTHONHASHSEED=%s %s" % (i, u, mode, hs, v))
        ctx.count("mode_%s_hs%s" % (mode, hs), len(r["digests"]))
    ctx.traces_validated = n if not ctx.violations else 0
