"""C07 — fit discards everything learned before."""
from .. import gen as G
from .. import twins as TW
from . import base
from .base import replay  # noqa: F401
from .theorems import THEOREMS as _T

THEOREMS = _T["C07"]
LEVEL_NOTE = ("Lean theorem fit_discards: fit(D) on any policy state equals fit(D) on any other state with the same configuration "
              "and arm list (statistics, statuses, warm-start copies, per-arm models and their generator assignment, num_features "
              "and row counts are all overwritten); fit_after_history_eq_fresh instantiates it with a freshly constructed policy "
              "after any history. Tied to /repo by the correspondence on refit scenarios (new data of other size / feature count) "
              "and by the twin 'refitted bandit vs fresh bandit given the same generator state before fit(D)' for every policy "
              "combination incl. LSH tables and planes, clusters, trees.")

PROFILE = {"name": "C07", "allow_scale": True, "lp": G.CF_KINDS + G.LIN_KINDS, "np": [None, None] + G.NP_KINDS,
           "weights": {"fit": 3, "pfit": 3, "query": 3, "add": 1, "rem": 0.7, "warm": 0.7}}


def run(ctx):
    base.run_correspondence(ctx, PROFILE, ctx.scale(300, 4000))
    scns = [TW.gen_c07(ctx.seed, i) for i in range(ctx.scale(500, 8000))]
    base.run_twin(ctx, "refit_vs_fresh", scns)
    # clusters left without a row by the new data set (about as many clusters as rows, duplicates, mini-batch k-means)
    orphan = [TW.gen_c07_orphan(ctx.seed, i) for i in range(ctx.scale(40, 600))]
    base.run_twin(ctx, "refit_vs_fresh", orphan, shrink=False)
