"""C11 — LSHNearest neighbourhoods are the sign-random-projection collisions."""
from .. import gen as G
from .. import twins as TW
from . import base
from .base import replay  # noqa: F401
from .theorems import THEOREMS as _T

THEOREMS = _T["C11"]
LEVEL_NOTE = ("Lean theorems over the model of _LSHNearest (hyper-planes = recorded standard_normal answers, exact rationals): "
              "hash_scale_invariant (c > 0 leaves every sign and hence the hash unchanged), hash_eq_iff_signs (binary code is "
              "injective in the sign pattern), lsh_insert_spec / lsh_offset (row i of a later chunk is stored under start+i in the "
              "bucket of its hash). Float hash codes are exact for n_dimensions <= 53 (assumed). Tied to /repo by the correspondence "
              "(planes from the tape) and by the twin against the collision set computed from mab._imp.table_to_plane, plus the "
              "metamorphic predict_expectations(c*X) = predict_expectations(X).")

PROFILE = {"big_rate": 0.012, "big_small_batches": True, "big_batches": [40, 513, 701], "name": "C11", "lp": G.CF_KINDS + G.LIN_KINDS, "np": ["lsh"],
           "weights": {"fit": 1, "pfit": 3, "query": 5, "add": 1, "rem": 0.5, "warm": 0, "bad": 0.7},
           "bad_classes": ["width"]}    # a rejected partial_fit (wrong number of columns) must not disturb the positions


def run(ctx):
    base.run_correspondence(ctx, PROFILE, ctx.scale(500, 6000))
    scns = [TW.gen_nhood(ctx.seed, i, ["lsh"], "C11") for i in range(ctx.scale(400, 5000))]
    base.run_twin(ctx, "lsh_vs_collisions", scns)
