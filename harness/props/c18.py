"""C18 — results are independent of the data container type; inputs are never modified."""
import random

import numpy as np

from .. import model as M
from .. import scenario as S
from .. import twins as TW
from ..common import rats
from . import base
from .base import replay as _replay
from .theorems import THEOREMS as _T

THEOREMS = _T["C18"]
LEVEL_NOTE = ("Lean theorems over the conversion logic: series_disambiguation_fit / series_disambiguation_predict (the rules "
              "len(decisions) > 1 and num_features == 1 reconstruct the intended matrix for every single-row or single-feature "
              "input), caller_cells_untouched (World model with private copies: no operation writes a caller-owned or the shared "
              "default parameter dictionary), arms_by_value. Partial: numpy / pandas container internals are runtime behaviour. Tied "
              "to /repo by comparing MAB.__convert_context on Series with the executable rule, by running every scenario with lists "
              "and with ndarray (C / Fortran / int / non-contiguous) / Series / DataFrame containers (identical outputs required), and "
              "by byte-level snapshots of every caller object before and after each call.")


def series_rule(ctx, n):
    import pandas as pd
    from mabwiser.mab import MAB, LearningPolicy as LP
    rng = random.Random("%s/series" % ctx.seed)
    lines, want = [], []
    for _ in range(n):
        L = rng.choice([1, 2, 3, 5])
        vals = [float(rng.randint(0, 9)) for _ in range(L)]
        from_fit = rng.random() < 0.5
        if from_fit:
            nd = rng.choice([1, L]) if L > 1 else 1
            mab = MAB([1, 2], LP.LinUCB())
            got = mab._MAB__convert_context(pd.Series(vals), np.asarray([1] * nd))
            lines.append("call series %s 1 %d 0" % (rats(vals), nd))
        else:
            d = rng.choice([1, L])
            mab = MAB([1, 2], LP.LinUCB())
            mab.fit([1, 2], [0, 1], [[0.0] * d, [1.0] * d])
            got = mab._MAB__convert_context(pd.Series(vals))
            lines.append("call series %s 0 0 %d" % (rats(vals), d))
        want.append([[float(x) for x in row] for row in np.asarray(got).tolist()])
    try:
        outs = M.run_driver(lines)
    except M.DriverError as e:
        ctx.unavailable.append("series rule: %s" % e)
        return
    from fractions import Fraction
    for line, w, o in zip(lines, want, outs):
        g = [[float(Fraction(x)) for x in row.split(",")] for row in o.split(";")]
        ctx.count("series_rule_cases")
        if g != w:
            ctx.add_violation("model:series", {"line": line}, "implementation %r, model %r" % (w, g))
            return
        ctx.traces_validated += 1


def replay(payload):
    if payload["kind"].startswith("model:"):
        return "re-run the check: " + payload["reason"]
    return _replay(payload)


def run(ctx):
    series_rule(ctx, ctx.scale(200, 2000))
    scns = [TW.gen_c18(ctx.seed, i) for i in range(ctx.scale(400, 6000))]
    for s in scns:
        ctx.note_scenario(s)
        ctx.count("variant_" + s["variant"])
    base.run_twin(ctx, "containers_and_caller_objects", scns)
