"""C16 — Simulator bookkeeping is a faithful account of the data."""
import math
import random

import numpy as np

from .. import model as M
from .. import twins as TW
from .. import twinlib as T
from ..common import rat, rats, nats
from . import base
from .base import replay as _replay
from .theorems import THEOREMS as _T

THEOREMS = _T["C16"]
LEVEL_NOTE = ("Lean theorems: split_partition / random_split_partition, batches_cover_once (every test size and batch size, also when the "
              "batch size does not divide), stats_additive (train + test counts and sums = totals, any rearrangement), "
              "min_le_mean_le_max, evaluator_count_total, evaluator_ordered. The realised split (train_test_split, "
              "int(n*(1-test_size)) in floats) is an input. Tied to /repo by comparing Simulator.get_arm_stats, default_evaluator and "
              "the batch loop with the executable model on generated data, and by checking the public attributes of complete runs.")


def model_vs_impl(ctx, n):
    """get_arm_stats / default_evaluator / batch bounds: implementation vs Lean model"""
    from mabwiser.simulator import Simulator, default_evaluator
    rng = random.Random("%s/c16" % ctx.seed)
    lines, checks = [], []
    for i in range(n):
        k = rng.choice([2, 3, 4])
        arms = list(range(k))
        m = rng.choice([1, 2, 5, 9, 16])
        dec = [rng.choice(arms[:rng.choice([k, k, k - 1])]) for _ in range(m)]
        rew = [rng.choice([0, 1, 2, -1, 0.5, 1.25, 3]) for _ in range(m)]
        pred = [rng.choice(arms) for _ in range(m)]
        train = [rng.choice([0, 0.5, 1, 2, -1]) for _ in arms]
        # statistics
        stats = {}
        for a in arms:
            rs = np.asarray([r for d, r in zip(dec, rew) if d == a], dtype=float)
            stats[a] = Simulator.get_stats(rs) if rs.size else {"count": 0, "sum": 0, "min": 0, "max": 0, "mean": 0}
        lines.append("sim stats arms=%s d=%s r=%s" % (nats(arms), nats(dec), rats(rew)))
        checks.append(("stats", (arms, dec, rew), stats))
        # evaluator
        ats = {a: {"min": train[a], "mean": train[a], "max": train[a]} for a in arms}
        ev = default_evaluator(arms, np.asarray(dec), np.asarray(rew, dtype=float), pred, ats, "mean", 0, False)
        lines.append("sim eval arms=%s d=%s r=%s p=%s t=%s" % (nats(arms), nats(dec), rats(rew), nats(pred), rats(train)))
        checks.append(("eval", (arms, dec, rew, pred, train), ev))
        # evaluator, neighbourhood branch: one record of per-arm statistics per test row (empty record, or an arm without
        # neighbours, falls back to the training statistic)
        nrows, enc = [], []
        for _ in range(m):
            if rng.random() < 0.2:
                nrows.append({})
                enc.append("e")
            else:
                row, parts = {}, []
                for a in arms:
                    if rng.random() < 0.3:
                        row[a] = {}
                        parts.append("-")
                    else:
                        v = rng.choice([0, 0, 0.5, 1, 2, -1, 1.75])
                        row[a] = {"min": v, "mean": v, "max": v}
                        parts.append(rat(v))
                nrows.append(row)
                enc.append(",".join(parts))
        evn = default_evaluator(arms, np.asarray(dec), np.asarray(rew, dtype=float), pred, (ats, nrows), "mean", 0, True)
        lines.append("sim evalnn arms=%s d=%s r=%s p=%s t=%s n=%s" % (nats(arms), nats(dec), rats(rew), nats(pred), rats(train),
                                                                      ";".join(enc)))
        checks.append(("evalnn", (arms, dec, rew, pred, train, enc), evn))
        # batches
        nb = rng.choice([1, 2, 3, 5, 7, 12])
        bb = rng.choice([1, 2, 3, 4, 5])
        bb = min(bb, nb)
        bounds = []
        start = 0
        for _ in range(int(math.ceil(nb / bb))):
            stop = min(start + bb, nb + 1)
            bounds.append((start, min(stop, nb)))
            start += bb
        lines.append("sim batches %d %d" % (nb, bb))
        checks.append(("batches", (nb, bb), bounds))
    try:
        outs = M.run_driver(lines)
    except M.DriverError as e:
        ctx.unavailable.append("simulator bookkeeping model: %s" % e)
        return
    from fractions import Fraction
    for (kind, inp, want), got in zip(checks, outs):
        ctx.count("model_" + kind)
        ok = True
        if kind == "batches":
            g = [tuple(int(x) for x in p.split(",")) for p in got.split(";")] if got else []
            ok = g == want
        elif kind == "stats":
            for part in got.split(";"):
                a, _, v = part.partition("=")
                c, s, mn, mx, me = v.split(":")
                w = want[int(a)]
                ok = ok and int(c) == int(w["count"]) and all(
                    T.same(float(Fraction(x)), float(w[k]), 1e-12) for x, k in ((s, "sum"), (mn, "min"), (mx, "max"), (me, "mean")))
        else:
            for part in got.split(";"):
                a, _, v = part.partition("=")
                c, s = v.split(":")
                w = want[int(a)]
                ok = ok and int(c) == int(w["count"]) and (int(c) == 0 or T.same(float(Fraction(s)), float(w["sum"]), 1e-12))
        if not ok:
            ctx.add_violation("model:" + kind, {"kind": kind, "input": inp}, "implementation %r, model %r" % (want, got))
            return
        ctx.traces_validated += 1


def replay(payload):
    if payload["kind"].startswith("model:"):
        return "re-run the check (bookkeeping model comparison): " + payload["reason"]
    return _replay(payload)


def run(ctx):
    model_vs_impl(ctx, ctx.scale(300, 4000))
    scns = [TW.gen_sim(ctx.seed, 50000 + i) for i in range(ctx.scale(120, 2500))]
    for s in scns:
        ctx.evaluations += 1
        ctx.skeletons.add("%s|%s|%s|%d|%s" % (s["is_ordered"], s["batch_size"], s["is_quick"], len(s["decisions"]), s["test_size"]))
        if len(ctx.samples) < 2:
            ctx.samples.append({k: v for k, v in s.items() if k not in ("contexts", "cfg", "ops")})
    base.run_twin(ctx, "simulator_bookkeeping", scns, shrink=False)
