"""C17 — a rejected call changes nothing."""
from .. import gen as G
from .. import twins as TW
from . import base
from .base import replay  # noqa: F401
from .theorems import THEOREMS as _T

THEOREMS = _T["C17"]
LEVEL_NOTE = ("Lean theorem rejected_noop over the facade model: for every state, operation, argument, oracle and tape, a "
              "rejected call returns the identical bandit state and random streams. The model's 'all checks precede all "
              "writes' structure is tied to /repo by running malformed calls of every rejection class at random positions of "
              "valid histories (model vs implementation) and by the twin 'continuation on the bandit = continuation on a "
              "deep copy taken before the rejected call'. Shape errors at prediction time and silently broadcasting widths "
              "(1 feature) are outside the property.")


def run(ctx):
    n = ctx.scale(500, 6000)
    scns = [TW.gen_c17(ctx.seed, i) for i in range(n)]
    for s in scns:
        for op in s["ops"]:
            if op.get("bad"):
                ctx.count("bad_" + op["bad"])
    # model vs implementation on the malformed stream (one worker: the recorded draws must arrive in program order)
    corr = [dict(s, cfg=dict(s["cfg"], n_jobs=1, backend=None)) if s["cfg"].get("np") else s for s in scns]
    found = 0
    for i in range(0, len(corr), 400):
        for scn, f in ctx.correspond(corr[i:i + 400]):
            found += 1
            if found <= 2:
                from .. import core as C
                small = C.shrink(scn, lambda s: base.corr_fails(s) is not None)
                ctx.add_violation("correspondence", small, base.corr_fails(small) or f["reason"],
                                  {"model_line": f.get("model_line"), "impl": f.get("impl")})
            else:
                ctx.add_violation("correspondence", scn, f["reason"])
    base.run_twin(ctx, "rejected_vs_never_made", scns)
    scaled = [TW.gen_c17_scaled(ctx.seed, i) for i in range(ctx.scale(250, 3000))]
    base.run_twin(ctx, "rejected_vs_never_made", scaled)
