"""C09 — predict returns the arm with the highest expectation."""
from .. import gen as G
from .. import twins as TW
from . import base
from .base import replay  # noqa: F401
from .theorems import THEOREMS as _T

THEOREMS = _T["C09"]
LEVEL_NOTE = ("Lean theorems argmax_first (the modelled utils.argmax / np.argmax returns the first key in dictionary order attaining "
              "the maximum, for every total transitive comparison) and predict_eq_argmax (the model's predict is that arg-max of "
              "what predict_expectations computes from the same state and draws). Tied to /repo by the correspondence on predict "
              "outputs (model predictions recomputed from the recorded draws) and by the twin predict-on-a-deep-copy vs "
              "predict_expectations-on-another-deep-copy, including exact ties. TreeBandit with EpsilonGreedy(eps>0) is excluded "
              "by the property.")

PROFILE = {"name": "C09", "allow_scale": True, "lp": G.CF_KINDS + G.LIN_KINDS, "np": [None, None] + G.NP_KINDS,
           "weights": {"fit": 1, "pfit": 2, "query": 5, "add": 1, "rem": 0.7, "warm": 0.5}}


def run(ctx):
    base.run_correspondence(ctx, PROFILE, ctx.scale(300, 4000))
    scns = [TW.gen_c09(ctx.seed, i) for i in range(ctx.scale(500, 8000))]
    base.run_twin(ctx, "predict_vs_expectations", scns)
    large = [TW.gen_c09_large(ctx.seed, i) for i in range(ctx.scale(8, 80))]
    base.run_twin(ctx, "predict_vs_expectations", large, shrink=False)
