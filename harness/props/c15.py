"""C15 — the Simulator reports what the public API would have produced."""
from .. import twins as TW
from . import base
from .base import replay  # noqa: F401
from .theorems import THEOREMS as _T

THEOREMS = _T["C15"]
LEVEL_NOTE = ("Lean theorems for the logic the Simulator adds on top of the library: sim_distance_lookup / slice_row (a worker started at "
              "`start` reads the distance vector of exactly the row it predicts, any partition), sim_selection_eq_library (the "
              "re-implemented Radius selection over the shared list = the library's selection by recomputation), sim_cache_correct / "
              "sim_cache_fresh (with a per-metric cache every neighbour bandit gets the distances of its own metric); "
              "shared_cache_counterexample documents the repaired defect D6. The drivers (offline / online protocols, batch loop) "
              "are tied to /repo by replaying every simulation through the public API (fit/predict/predict_expectations/partial_fit "
              "on deep copies of the original bandits, same split incl. the order of training rows) and comparing all predictions "
              "and, for deterministic policies, expectations.")


def gen(seed, i):
    return TW.gen_sim(seed, i)


def run(ctx):
    scns = [TW.gen_sim(ctx.seed, i) for i in range(ctx.scale(220, 2500))]
    for s in scns:
        ctx.evaluations += 1
        ctx.skeletons.add("|".join("%s/%s" % (b["lp"]["k"], (b.get("np") or {}).get("k")) for b in s["bandits"]) +
                          "|%s|%s|%s|%d" % (s["is_ordered"], s["batch_size"], s["is_quick"], len(s["decisions"])))
        ctx.count("online" if s["batch_size"] else "offline")
        ctx.count("ordered" if s["is_ordered"] else "random_split")
        for b in s["bandits"]:
            ctx.count("np_" + str((b.get("np") or {}).get("k")))
        if len(ctx.samples) < 2:
            ctx.samples.append({k: v for k, v in s.items() if k not in ("decisions", "rewards", "contexts", "cfg", "ops")})
    base.run_twin(ctx, "simulator_vs_public_api", scns, shrink=False)
    ctx.traces_validated = ctx.twins_run - len(ctx.violations)
