"""C06 — incremental training equals batch training."""
from .. import gen as G
from .. import twins as TW
from . import base
from .base import replay  # noqa: F401
from .theorems import THEOREMS as _T

THEOREMS = _T["C06"]
LEVEL_NOTE = ("Lean theorem incremental_eq_batch: from any reachable state, fit on a prefix followed by partial_fit on any chunking "
              "leaves for every arm the same learned record (sums, counts, means, UCB with the same N, Thompson counters, linear A / "
              "Xty / inverse / coefficients) as one fit on the concatenation - exact rational arithmetic, every policy kind. Stored "
              "histories of neighbourhood policies concatenate (neighbors_history). Tied to /repo by the model/implementation "
              "correspondence on chunked histories and by batch-vs-chunked twins with random-stream positions copied across "
              "(bit-for-bit for count/sum and neighbourhood policies, 1e-9 for linear). Float rounding is outside the model.")

PROFILE = {"name": "C06", "allow_scale": True, "lp": G.CF_KINDS + G.LIN_KINDS, "np": [None, None, "radius", "knn", "lsh", "clusters"],
           "weights": {"fit": 1, "pfit": 5, "query": 3, "add": 0.5, "rem": 0.3, "warm": 0}}


def run(ctx):
    base.run_correspondence(ctx, PROFILE, ctx.scale(300, 4000))
    scns = [TW.gen_c06(ctx.seed, i) for i in range(ctx.scale(500, 8000))]
    for s in scns:
        ctx.count("chunks_%d" % (len(s["cuts"]) + 1))
    base.run_twin(ctx, "batch_vs_chunked", scns)
    large = [TW.gen_c06_large(ctx.seed, i) for i in range(ctx.scale(6, 60))]
    base.run_twin(ctx, "batch_vs_chunked", large, shrink=False)
    wide = [TW.gen_c06_wide(ctx.seed, i) for i in range(ctx.scale(9, 90))]
    base.run_twin(ctx, "batch_vs_chunked", wide, shrink=False)
