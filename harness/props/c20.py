"""C20 — results are invariant to arm names and to the order of training rows."""
from .. import gen as G
from .. import twins as TW
from . import base
from .base import replay  # noqa: F401
from .theorems import THEOREMS as _T

THEOREMS = _T["C20"]
LEVEL_NOTE = ("Lean theorems: fit_perm / partialFit_perm (for every context-free policy, training on any permutation of a batch gives "
              "the identical state - exact rational sums), fitRec_perm, shift_greedy, shift_ucb (means shift by the constant, the "
              "bonus is untouched), shift_softmax_invariant (real exp), addXty_scale + gram_ignores_rewards (Xty is linear in the "
              "rewards, the Gram matrix ignores them: ridge coefficients scale). Relabelling equivariance is the free theorem of "
              "the model's polymorphism in the arm type (not machine-checked) and is tied to the code by relabelled twins "
              "(int <-> str <-> float, labels of different lengths); row order for linear policies and neighbourhood policies is "
              "checked by permuted twins at 1e-9.")

PROFILE = {"name": "C20", "allow_scale": True, "lp": G.CF_KINDS + G.LIN_KINDS, "np": [None, None] + G.NP_KINDS,
           "labels": ["int", "str", "float"],
           "weights": {"fit": 1, "pfit": 3, "query": 3, "add": 1, "rem": 0.7, "warm": 0.5}}


def run(ctx):
    base.run_correspondence(ctx, PROFILE, ctx.scale(300, 4000))
    scns = [TW.gen_c20(ctx.seed, i) for i in range(ctx.scale(250, 4000))]
    for s in scns:
        ctx.count("relabel_to_" + s["target"])
    base.run_twin(ctx, "relabel_equivariance", scns)
    det = [TW.gen_c20_det(ctx.seed, i) for i in range(ctx.scale(400, 6000))]
    base.run_twin(ctx, "row_permutation", det)
    base.run_twin(ctx, "reward_shift_scale", det)
    large = [TW.gen_c20_large(ctx.seed, i) for i in range(ctx.scale(10, 100))]
    base.run_twin(ctx, "row_permutation", large, shrink=False)
    huge = [dict(TW.gen_huge(ctx.seed, i, ["radius", "lsh"], "C20", sizes=[(1100, 30, 65), (1500, 700, 65)]), perm_seed=i, tol=1e-9)
            for i in range(ctx.scale(4, 40))]
    base.run_twin(ctx, "row_permutation", huge, shrink=False)
