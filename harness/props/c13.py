"""C13 — warm_start only initialises cold arms, from their nearest trained arm."""
from .. import twins as TW
from . import base
from .base import replay  # noqa: F401
from .theorems import THEOREMS as _T

THEOREMS = _T["C13"]
LEVEL_NOTE = ("Lean theorems over the model of BaseMAB._warm_start and the policies' _copy_arms: ws_pairs_spec (targets are cold, "
              "sources are trained and closest among trained arms, within the quantile threshold), ws_target (the target receives "
              "an exact copy of the source's learned state as it was before the call, is flagged warm with the source recorded), "
              "ws_untouched (every other arm - trained or previously warm-started - keeps learned state and status), "
              "cold_arms_spec. cosine distances enter as oracle values (scipy cdist), the quantile is numpy's linear interpolation "
              "computed exactly. Tied to /repo by the correspondence on histories with warm_start (cold_arms compared after every "
              "op, expectations and sampler parameters after the call) and by twins for idempotence and monotonicity in the quantile.")


def run(ctx):
    base.run_correspondence(ctx, TW.WARM_PROFILE, ctx.scale(500, 6000))
    scns = [TW.gen_c13(ctx.seed, i) for i in range(ctx.scale(300, 4000))]
    base.run_twin(ctx, "warm_start_laws", scns)
