"""C19 — copies and pickles of a bandit behave identically to the original."""
import json
import os
import pickle
import subprocess
import tempfile

from .. import common
from .. import scenario as S
from .. import twins as TW
from .. import twinlib as T
from . import base
from .base import replay as _replay
from .theorems import THEOREMS as _T

THEOREMS = _T["C19"]
LEVEL_NOTE = ("Lean theorems: copy_bisimilar (an equal state gives equal outputs, states and stream consumption under every operation "
              "sequence - determinism of the model's step), copy_independent / copy_equal (World model: a copy duplicates everything "
              "reachable from the bandit; with private parameter copies neither original nor copy can influence the other), "
              "shared_copy_counterexample. Partial - the largest runtime share of all properties: that copy.deepcopy and the pickle "
              "round trip deliver such a faithful private duplicate (reduce protocol, default factories, memoised aliasing, functions "
              "pickled by reference) cannot be exhibited by the model; it is sampled at random points of random histories with "
              "deepcopy and pickle protocols 2..5, including restoring in a fresh interpreter, comparing every continuation.")

RESTORE = r'''
import sys, json, pickle, os, warnings
warnings.filterwarnings("ignore")
sys.path.insert(0, os.environ["MABWISER_REPO"]); sys.path.insert(0, os.environ["VERIF_ROOT"])
from harness import twinlib as T, twins as TW
jobs = json.load(open(sys.argv[1]))
out = []
for job in jobs:
    scn = job["scn"]
    T.register_labels(dict(scn, ops=scn["ops"] + scn["cont"]))
    mab = pickle.loads(bytes.fromhex(job["blob"]))
    res = T.quiet(T.apply_ops)(mab, scn["cont"] + [{"op": "cold"}, {"op": "arms"}])
    out.append(json.dumps(res, default=str))
print(json.dumps(out))
'''


@T.plain_rng
def fresh_interpreter(ctx, scns):
    """pickle in this process, restore and continue in a fresh interpreter, compare with the original"""
    jobs, expect = [], []
    for scn in scns:
        T.register_labels(dict(scn, ops=scn["ops"] + scn["cont"]))
        a = S.make_mab(scn["cfg"])
        T.quiet(T.apply_ops)(a, scn["ops"])
        try:
            blob = pickle.dumps(a, protocol=4)
        except Exception as e:  # noqa: BLE001
            ctx.add_violation("twin:copy_vs_original", dict(scn, how="pickle4"), "pickle.dumps raised %r" % (e,))
            return
        jobs.append({"scn": scn, "blob": blob.hex()})
        res = T.quiet(T.apply_ops)(a, scn["cont"] + [{"op": "cold"}, {"op": "arms"}])
        expect.append(json.dumps(res, default=str))
    with tempfile.NamedTemporaryFile("w", suffix=".json", delete=False) as f:
        json.dump(jobs, f)
        path = f.name
    try:
        env = dict(os.environ, MABWISER_REPO=common.REPO, VERIF_ROOT=common.VERIF)
        p = subprocess.run(["/venv/bin/python", "-c", RESTORE, path], capture_output=True, text=True, env=env, timeout=3000)
    finally:
        os.unlink(path)
    if p.returncode != 0:
        ctx.unavailable.append("fresh-interpreter restore failed: %s" % p.stderr[-400:])
        return
    got = json.loads(p.stdout.strip().splitlines()[-1])
    for scn, e, g in zip(scns, expect, got):
        ctx.twins_run += 1
        if e != g:
            ctx.add_violation("twin:copy_vs_original", dict(scn, how="pickle4"),
                              "restored in a fresh interpreter: continuation differs from the original's: %s vs %s" % (g[:300], e[:300]))
            return


def replay(payload):
    return _replay(payload)


def run(ctx):
    scns = [TW.gen_c19(ctx.seed, i) for i in range(ctx.scale(400, 6000))]
    for s in scns:
        ctx.note_scenario(s)
        ctx.count("how_" + s["how"])
    base.run_twin(ctx, "copy_vs_original", scns)
    large = [TW.gen_c19_large(ctx.seed, i) for i in range(ctx.scale(12, 120))]
    base.run_twin(ctx, "copy_vs_original", large, shrink=False)
    fresh_interpreter(ctx, [s for s in scns[:ctx.scale(60, 600)] if (s["cfg"].get("binz") is None or True)])
