"""C03 — Radius and KNearest use exactly the observations in the neighbourhood."""
from .. import gen as G
from .. import twins as TW
from . import base
from .base import replay  # noqa: F401
from .theorems import THEOREMS as _T

THEOREMS = _T["C03"]
LEVEL_NOTE = ("Lean theorems over the model of _Radius/_KNearest: radius_exact (selected indices = exactly the stored rows at distance "
              "<= r, boundary included), knn_valid (k distinct rows, none farther than an unselected row; an alternative tie-break is "
              "accepted only if valid), history_all_rows, nhood_from_scratch (the worker's reused policy copy is re-fit, which discards "
              "everything: fit_discards), empty_all_nan, invcdf_support. Exact metrics on integer grids are computed in the model "
              "(euclidean via squares). Tied to /repo by the correspondence (radii on realised distances, ties at k) and by the twin "
              "'expectations = fresh learning policy fit on the oracle-selected rows'.")

PROFILE = {"name": "C03", "lp": G.CF_KINDS + G.LIN_KINDS, "np": ["radius", "knn"],
           "weights": {"fit": 1, "pfit": 3, "query": 5, "add": 1, "rem": 0.5, "warm": 0}}


def run(ctx):
    base.run_correspondence(ctx, PROFILE, ctx.scale(500, 6000))
    ctx.count("knn_tie_rows_skipped", ctx.stats.get("knn_tie_skipped", 0))
    scns = [TW.gen_nhood(ctx.seed, i, ["radius", "knn"], "C03") for i in range(ctx.scale(400, 5000))]
    base.run_twin(ctx, "nhood_vs_fresh_policy", scns)
    # long histories, many query rows (block-wise distance computations must keep row positions)
    huge = [TW.gen_huge(ctx.seed, i, ["radius", "knn"], "C03", sizes=[(1100, 30, 65), (2100, 30, 520)]) for i in range(ctx.scale(4, 40))]
    base.run_twin(ctx, "chunk_vs_rows", huge, shrink=False)
    base.run_twin(ctx, "nhood_vs_fresh_policy", [dict(h, ops=[h["ops"][0], h["ops"][2], dict(h["ops"][3], c=h["ops"][3]["c"][-40:])])
                                               for h in huge[:ctx.scale(2, 20)]], shrink=False)
