"""Shared pieces of the per-property check modules."""
import copy

from .. import core as C
from .. import gen as G
from .. import model as M


TWINS = {}      # name -> fn(scenario) -> reason | None   (implementation-only metamorphic relations)


def twin(name):
    def deco(f):
        TWINS[name] = f
        return f
    return deco


def corr_fails(scn, k1=None):
    f = M.check_one(scn, k1=k1)
    return f["reason"] if f and not (f.get("protocol") or f.get("harness_error")) else None


def run_correspondence(ctx, profile, n, k1=None, corpus=True, batch=400):
    """corpus first, then `n` generated scenarios; every disagreement is shrunk and reported"""
    scns = []
    if corpus:
        scns += [s for s in C.load_corpus(ctx.prop) if s.get("kind", "correspondence") == "correspondence"]
        scns = [s.get("scenario", s) for s in scns]
    scns += [G.gen_scenario(ctx.seed, i, profile) for i in range(n)]
    found = 0
    for i in range(0, len(scns), batch):
        part = scns[i:i + batch]
        for scn, f in ctx.correspond(part, k1=k1):
            if f.get("state_only"):
                # the correspondence no longer checks on this history, yet nothing the property talks about differs:
                # not a failing input (the search continues: other scenarios, the implementation-only relations)
                if len(ctx.state_divergences) < 3:
                    ctx.state_divergences.append({"scenario": scn, "reason": f["reason"], "k1": k1})
                continue
            found += 1
            if found <= 3:
                small = C.shrink(scn, lambda s: corr_fails(s, k1) is not None)
                reason = corr_fails(small, k1) or f["reason"]
                ctx.add_violation("correspondence", small, reason, {"k1": k1, "model_line": f.get("model_line"),
                                                                   "impl": f.get("impl")})
            else:
                ctx.add_violation("correspondence", scn, f["reason"], {"k1": k1})
    return found


def run_twin(ctx, name, scenarios, shrink=True):
    """run an implementation-only relation over scenarios (on the library's own generator objects: the recording
    subclass used by the correspondence overrides copying / pickling and is not needed here)"""
    from .. import twinlib as T
    fn = T.plain_rng(TWINS[name])
    found = 0
    for scn in scenarios:
        ctx.twins_run += 1
        try:
            reason = fn(scn)
        except Exception as e:  # noqa: BLE001
            ctx.unavailable.append("twin %s crashed: %r" % (name, e))
            continue
        if reason:
            found += 1
            small = scn
            if shrink and found <= 2:
                def still(s):
                    try:
                        return fn(s) is not None
                    except Exception:  # noqa: BLE001
                        return False
                small = C.shrink(scn, still, budget=60)
                reason = fn(small) or reason
            ctx.add_violation("twin:" + name, small, reason)
    return found


def replay(payload):
    kind = payload["kind"]
    scn = payload["scenario"]
    if kind in ("correspondence", "state-divergence"):
        return corr_fails(scn, (payload.get("detail") or {}).get("k1"))
    if kind.startswith("twin:"):
        from .. import twinlib as T
        return T.plain_rng(TWINS[kind[5:]])(scn)
    return "unknown replay kind %r" % kind


def mk(scn):
    """fresh implementation bandit for a scenario's configuration"""
    from .. import scenario as S
    return S.make_mab(scn["cfg"])
