"""C05 — results do not depend on n_jobs, backend or scheduling."""
import multiprocessing as mp

from .. import model as M
from .. import scenario as S
from .. import twins as TW
from . import base
from .base import replay as _replay
from .theorems import THEOREMS as _T

THEOREMS = _T["C05"]
LEVEL_NOTE = ("Lean theorems: _partition_contexts is an exact ordered cover for all n, n_jobs, cpu (partition_exact_cover); every "
              "contiguous partition with a row-local worker reduces to the row-wise map (chunked_map); per-arm fit tasks commute "
              "(fit_tasks_commute). Partial: real thread pre-emption, process scheduling and pickling are outside the model; they "
              "are sampled by running the library under n_jobs/backends, by calling _predict_contexts on whole batches vs single "
              "rows with the same seeds, and by executing _fit_arm in different task orders.")


def partition_table(ctx, nmax):
    """`_partition_contexts(n)` for all n <= nmax and a grid of n_jobs against the model (exhaustive)"""
    cfg = {"lp": {"k": "greedy", "eps": 0.0}, "np": {"k": "radius", "r": 1.0, "metric": "euclidean"}, "arms": [1, 2], "seed": 1}
    cpu = mp.cpu_count()
    lines, expect = [], []
    for n in range(1, nmax + 1):
        for j in sorted(set(list(range(1, min(n + 2, 12))) + [n, n + 1, -1, -2, -cpu, -cpu - 3, 10 ** 6])):
            if j == 0:
                continue
            mab = S.make_mab(dict(cfg, n_jobs=j))
            jobs, sizes, starts = mab._imp._partition_contexts(n)
            lines.append("call partition %d %d %d" % (n, j, cpu))
            expect.append((n, j, "%d | %s | %s" % (jobs, ",".join(map(str, sizes)), ",".join(map(str, starts)))))
    try:
        outs = M.run_driver(lines)
    except M.DriverError as e:
        ctx.unavailable.append("partition table: %s" % e)
        return
    ctx.count("partition_cases", len(lines))
    for (n, j, exp), got in zip(expect, outs):
        if exp != got.strip():
            ctx.add_violation("partition", {"n": n, "n_jobs": j, "cpu": cpu},
                              "_partition_contexts(%d) with n_jobs=%d: implementation %r, model %r" % (n, j, exp, got))
            return


def replay(payload):
    if payload["kind"] == "partition":
        s = payload["scenario"]
        cfg = {"lp": {"k": "greedy", "eps": 0.0}, "np": {"k": "radius", "r": 1.0, "metric": "euclidean"}, "arms": [1, 2], "seed": 1}
        mab = S.make_mab(dict(cfg, n_jobs=s["n_jobs"]))
        jobs, sizes, starts = mab._imp._partition_contexts(s["n"])
        got = M.run_driver(["call partition %d %d %d" % (s["n"], s["n_jobs"], s["cpu"])])[0].strip()
        exp = "%d | %s | %s" % (jobs, ",".join(map(str, sizes)), ",".join(map(str, starts)))
        return None if exp == got else "implementation %r, model %r" % (exp, got)
    return _replay(payload)


def attribute(v, known):
    scn = v.get("scenario") or {}
    cfg = scn.get("cfg")
    if cfg and TW.is_k3(cfg) and v["kind"] in ("twin:njobs_vs_one", "twin:chunk_vs_rows"):
        for k in known:
            if k["id"] == "K3":
                return "K3"
    return None


def run(ctx):
    partition_table(ctx, ctx.scale(40, 200))
    ctx.exhaustive = False
    n = ctx.scale(60, 500)
    scns = [TW.gen_c05(ctx.seed, i) for i in range(n)]
    if ctx.tier == "thorough":
        for i, s in enumerate(scns):
            if i % 5 == 0:
                s["backend"] = "loky"
            elif i % 5 == 1:
                s["backend"] = "multiprocessing"
    for s in scns:
        ctx.note_scenario(s)
        ctx.count("jobs_%s" % s["jobs"])
        ctx.count("backend_%s" % s.get("backend"))
    base.run_twin(ctx, "njobs_vs_one", scns)
    large = [TW.gen_c05_large(ctx.seed, i) for i in range(ctx.scale(6, 60))]
    base.run_twin(ctx, "njobs_vs_one", large, shrink=False)
    readd = [TW.gen_c05_readd(ctx.seed, i) for i in range(ctx.scale(12, 120))]
    base.run_twin(ctx, "njobs_vs_one", readd, shrink=False)
    huge = [TW.gen_huge(ctx.seed, i, ["radius", "knn", "clusters", "lsh"], "C05", det=False) for i in range(ctx.scale(6, 60))]
    base.run_twin(ctx, "chunk_vs_rows", huge, shrink=False)
    # ... and against process pools (what a query leaves on the bandit is lost in a worker process)
    base.run_twin(ctx, "njobs_vs_one", [dict(h, jobs=2, backend=[None, "loky", "multiprocessing"][i % 3]) for i, h in
                                        enumerate(TW.gen_huge(ctx.seed, 100 + i, ["radius", "knn", "tree"], "C05") for i in range(ctx.scale(3, 30)))],
                  shrink=False)
    more = [TW.gen_c05(ctx.seed, 10000 + i) for i in range(ctx.scale(200, 2000))]
    base.run_twin(ctx, "chunk_vs_rows", more)
    base.run_twin(ctx, "fit_task_orders", more)
