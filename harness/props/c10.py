"""C10 — prediction is read-only."""
from .. import gen as G
from .. import twins as TW
from . import base
from .base import replay  # noqa: F401
from .theorems import THEOREMS as _T

THEOREMS = _T["C10"]
LEVEL_NOTE = ("Lean theorems predictExp_readonly / predict_readonly (a learning policy's predict* returns the policy it was called "
              "on; a Thompson policy only remembers the last draw, a field nothing reads), impPredict_readonly and query_readonly "
              "(under every neighbourhood policy a query returns the identical bandit state: history, tables, planes, cluster "
              "policies, leaf rewards, template policy). In the model worker copies are values; that the real deep copies are "
              "private is tied by the correspondence (which would see any learned-state drift in later outputs) and by the twin "
              "'queried bandit vs never-queried deep copy with all random-stream positions copied across' under arbitrary "
              "continuations, n_jobs in {1,2}.")

PROFILE = {"name": "C10", "allow_scale": True, "lp": G.CF_KINDS + G.LIN_KINDS, "np": [None, None] + G.NP_KINDS,
           "weights": {"fit": 1, "pfit": 3, "query": 6, "add": 1, "rem": 0.7, "warm": 0.5}, "n_ops": (5, 12)}


def run(ctx):
    base.run_correspondence(ctx, PROFILE, ctx.scale(300, 4000))
    scns = [TW.gen_c10(ctx.seed, i) for i in range(ctx.scale(150, 3000))]
    base.run_twin(ctx, "queried_vs_unqueried", scns)
