"""C01 — context-free policies compute the documented statistic of each arm's history."""
from .. import gen as G
from . import base
from .base import replay  # noqa: F401

from .theorems import THEOREMS as _T
THEOREMS = _T["C01"]
LEVEL_NOTE = ("Lean theorems over the model of greedy/UCB1/Softmax/Thompson/Popularity/Random for all histories over "
              "{fit, partial_fit, add_arm, remove_arm}; tie to /repo by correspondence on generated histories "
              "(predict_expectations, sampler request parameters). Float rounding and the samplers are outside the model.")

PROFILE = {"long_batches": True, "name": "C01", "lp": G.CF_KINDS, "np": [None],
           "weights": {"fit": 1, "pfit": 4, "query": 3, "add": 2, "rem": 1.5, "warm": 0}}


def run(ctx):
    n = ctx.scale(600, 8000)
    base.run_correspondence(ctx, PROFILE, n)
