"""The abstraction function of the refinement: what the real object graph of a bandit holds, in the vocabulary of the
model's state (`Bandit`, `LP`, `ArmSt` in lean/MabModel/MabModel/Core), and the comparison with the state the driver prints
after every step (` | state=` field, `showState` in Driver.lean).

The correspondence on outputs says that model and implementation *answer* alike; this check says that they *hold* the same
thing after every operation — sums, counts, means, stored expectations, Beta counters, status flags, ridge matrices, the
stored history, LSH buckets, per-cluster policies, leaf reward lists — so a corrupted field is reported at the step that
corrupts it, not when (and if) a later query happens to expose it.
"""
import math
from fractions import Fraction

import numpy as np

from .common import eval_expect, close

RTOL = 1e-6


class StateMismatch(Exception):
    pass


# ------------------------------------------------------------------ the model's side

def _fr(s):
    return float(Fraction(s))


def _vec(s):
    return [_fr(x) for x in s.split(",")] if s else []


def _mat(s):
    return [_vec(r) for r in s.split(";")] if s else []


def _lp(s):
    total, nf, arms, recs = s.split("&", 3)
    out = {"total": int(total), "nf": None if nf == "-" else int(nf),
           "arms": [int(x) for x in arms.split(",")] if arms else [], "st": []}
    for r in recs.split("!") if recs else []:
        f = r.split("@")
        out["st"].append({"arm": int(f[0]), "cnt": int(f[1]), "sum": _fr(f[2]), "mean": _fr(f[3]), "exp": eval_expect(f[4]),
                          "succ": _fr(f[5]), "fail": _fr(f[6]), "trained": f[7][0] == "1", "warm": f[7][1] == "1",
                          "inited": f[7][2] == "1", "warm_by": None if f[8] == "-" else int(f[8]),
                          "A": _mat(f[9]), "Xty": _vec(f[10]), "beta": _vec(f[11]), "Ainv": _mat(f[12])})
    return out


def parse_state(s):
    sec = {}
    for part in s.split("#"):
        k, _, v = part.partition(":")
        sec[k] = v
    out = {"fit": sec["fit"] == "1", "lp": _lp(sec["lp"])}
    out["hist"] = []
    for r in sec["hist"].split("!") if sec["hist"] else []:
        a, rw, c = r.split("@")
        out["hist"].append((int(a), _fr(rw), _vec(c)))
    out["npexp_keys"] = [int(p.split("=")[0]) for p in sec["npexp"].split(",")] if sec["npexp"] else []
    out["tables"] = []
    if sec["tab"] != "" or "%" in sec["tab"]:
        for t in sec["tab"].split("%"):
            d = {}
            for e in t.split("!") if t else []:
                h, _, idx = e.partition("@")
                d[int(h)] = [int(x) for x in idx.split(",")] if idx else []
            out["tables"].append(d)
    out["lps"] = [_lp(x) for x in sec["lps"].split("%")] if sec["lps"] else []
    out["leaf"] = {}
    for r in sec["leaf"].split("!") if sec["leaf"] else []:
        a, _, body = r.partition("@")
        d = {}
        for e in body.split(";") if body else []:
            leaf, _, rews = e.partition(">")
            d[int(leaf)] = _vec(rews)
        out["leaf"][int(a)] = d
    return out


# ------------------------------------------------------------------ the implementation's side

def _f(x):
    return float(x)


def impl_lp(lp, run):
    """the fields of one learning-policy object, per arm"""
    name = type(lp).__name__
    out = {"class": name, "arms": [run.id_of(a) for a in lp.arms], "keys": [run.id_of(a) for a in lp.arm_to_expectation],
           "st": {}, "total": getattr(lp, "total_count", None), "nf": getattr(lp, "num_features", None)}
    for a in lp.arm_to_expectation:
        r = {}
        st = lp.arm_to_status.get(a)
        if st is not None:
            r["trained"] = bool(st["is_trained"])
            r["warm"] = bool(st["is_warm"])
            r["warm_by"] = None if st["warm_started_by"] is None else run.id_of(st["warm_started_by"])
        if name in ("_EpsilonGreedy", "_Popularity", "_UCB1", "_Softmax"):
            r["cnt"] = int(lp.arm_to_count[a])
            r["sum"] = _f(lp.arm_to_sum[a])
            r["exp"] = _f(lp.arm_to_expectation[a])
        if name in ("_UCB1", "_Softmax"):
            r["mean"] = _f(lp.arm_to_mean[a])
        if name == "_ThompsonSampling":
            r["succ"] = _f(lp.arm_to_success_count[a])
            r["fail"] = _f(lp.arm_to_fail_count[a])
            r["exp"] = _f(lp.arm_to_expectation[a])
        if name == "_Linear":
            m = lp.arm_to_model[a]
            r["inited"] = m.A is not None
            if m.A is not None:
                r["A"] = np.asarray(m.A, dtype=float).tolist()
                r["Ainv"] = np.asarray(m.A_inv, dtype=float).tolist()
                r["Xty"] = np.asarray(m.Xty, dtype=float).reshape(-1).tolist()
                r["beta"] = np.asarray(m.beta, dtype=float).reshape(-1).tolist()
        out["st"][run.id_of(a)] = r
    # every per-arm dictionary of the object has exactly the keys of arm_to_expectation
    for attr in ("arm_to_count", "arm_to_sum", "arm_to_mean", "arm_to_success_count", "arm_to_fail_count", "arm_to_model",
                 "arm_to_status", "arm_to_exponent"):
        d = getattr(lp, attr, None)
        if isinstance(d, dict) and set(d.keys()) != set(lp.arm_to_expectation.keys()):
            out.setdefault("key_sets", []).append((attr, sorted(run.id_of(a) for a in d)))
    return out


def impl_state(run):
    mab = run.mab
    imp = mab._imp
    name = type(imp).__name__
    out = {"fit": bool(mab._is_initial_fit), "class": name}
    if name in ("_Radius", "_KNearest", "_LSHNearest", "_Clusters"):
        if name != "_Clusters":
            out["lp"] = impl_lp(imp.lp, run)       # (_Clusters keeps no template: one policy per cluster)
        if imp.decisions is not None:
            d = [run.id_of(a) for a in np.asarray(imp.decisions).tolist()]
            r = [float(x) for x in np.asarray(imp.rewards, dtype=float).reshape(-1)]
            c = np.asarray(imp.contexts, dtype=float)
            out["hist"] = [(a, x, row.tolist()) for a, x, row in zip(d, r, c)]
            out["hist_lengths"] = (len(d), len(r), len(c))
        else:
            out["hist"] = []
        out["npexp_keys"] = [run.id_of(a) for a in imp.arm_to_expectation]
    elif name == "_TreeBandit":
        out["lp"] = impl_lp(imp.lp, run)
        out["npexp_keys"] = [run.id_of(a) for a in imp.arm_to_expectation]
        out["leaf"] = {run.id_of(a): {int(k): [float(x) for x in np.asarray(v, dtype=float).reshape(-1)] for k, v in d.items()}
                       for a, d in imp.arm_to_leaf_to_rewards.items()}
    else:
        out["lp"] = impl_lp(imp, run)
    if name == "_LSHNearest":
        out["tables"] = [{int(h): [int(i) for i in idx] for h, idx in imp.table_to_hash_to_index[k].items() if len(idx) > 0}
                         for k in sorted(imp.table_to_hash_to_index)]
    if name == "_Clusters":
        out["lps"] = [impl_lp(lp, run) for lp in imp.lp_list]
    return out


# ------------------------------------------------------------------ comparison

def _close(a, b, scale=1.0):
    return close(float(a), float(b), rtol=RTOL, scale=scale)


def _cmp_vec(what, a, b, scale=None):
    if len(a) != len(b):
        raise StateMismatch("%s: length %d in the implementation, %d in the model" % (what, len(a), len(b)))
    sc = scale if scale is not None else max([abs(x) for x in a] + [abs(x) for x in b] + [1.0])
    for x, y in zip(a, b):
        if not _close(x, y, sc):
            raise StateMismatch("%s: implementation %r, model %r" % (what, a, b))


def _cmp_mat(what, a, b):
    if len(a) != len(b):
        raise StateMismatch("%s: %d rows in the implementation, %d in the model" % (what, len(a), len(b)))
    sc = max([abs(x) for r in a for x in r] + [abs(x) for r in b for x in r] + [1.0])
    for i, (r, s) in enumerate(zip(a, b)):
        _cmp_vec("%s row %d" % (what, i), r, s, sc)


def cmp_lp(where, il, ml, linear_ok=True):
    if il["arms"] != ml["arms"]:
        raise StateMismatch("%s: arm list %r, model %r" % (where, il["arms"], ml["arms"]))
    mkeys = [r["arm"] for r in ml["st"]]
    if il["keys"] != mkeys:
        raise StateMismatch("%s: keys of arm_to_expectation %r, model %r" % (where, il["keys"], mkeys))
    if il.get("key_sets"):
        raise StateMismatch("%s: per-arm dictionaries with other keys than arm_to_expectation: %r" % (where, il["key_sets"]))
    cls = il["class"]
    if cls == "_UCB1" and il["total"] != ml["total"]:
        raise StateMismatch("%s: total_count %r, model %r" % (where, il["total"], ml["total"]))
    if cls == "_Linear" and il["nf"] != ml["nf"]:
        raise StateMismatch("%s: num_features %r, model %r" % (where, il["nf"], ml["nf"]))
    for mr in ml["st"]:
        a = mr["arm"]
        ir = il["st"][a]
        w = "%s arm#%d" % (where, a)
        for k in ("trained", "warm", "warm_by", "cnt", "inited"):
            if k in ir and ir[k] != mr[k]:
                raise StateMismatch("%s: %s is %r, model %r" % (w, k, ir[k], mr[k]))
        scale = max(abs(ir.get("sum", 0.0)), 1.0)
        for k in ("sum", "mean", "succ", "fail"):
            if k in ir and not _close(ir[k], mr[k], scale):
                raise StateMismatch("%s: %s is %r, model %r" % (w, k, ir[k], mr[k]))
        if "exp" in ir:
            e, m = ir["exp"], mr["exp"]
            if not ((math.isnan(e) and math.isnan(m)) or _close(e, m, max(abs(ir.get("mean", 0.0)), 1.0))):
                raise StateMismatch("%s: stored expectation %r, model %r" % (w, e, m))
        if ir.get("inited") and linear_ok:
            _cmp_mat(w + " A", ir["A"], mr["A"])
            _cmp_vec(w + " Xty", ir["Xty"], mr["Xty"])
            _cmp_mat(w + " A_inv", ir["Ainv"], mr["Ainv"])
            _cmp_vec(w + " beta", ir["beta"], mr["beta"])


def compare_state(ist, mst):
    """raise StateMismatch where the abstraction of the real object graph differs from the model's state"""
    if ist["fit"] != mst["fit"]:
        raise StateMismatch("_is_initial_fit is %r, model %r" % (ist["fit"], mst["fit"]))
    if "lp" in ist:
        cmp_lp("policy", ist["lp"], mst["lp"])
    if "npexp_keys" in ist and ist["npexp_keys"] != mst["npexp_keys"]:
        raise StateMismatch("neighbourhood arm_to_expectation keys %r, model %r" % (ist["npexp_keys"], mst["npexp_keys"]))
    if "hist" in ist:
        if "hist_lengths" in ist and len(set(ist["hist_lengths"])) != 1:
            raise StateMismatch("stored decisions / rewards / contexts have different lengths %r" % (ist["hist_lengths"],))
        if len(ist["hist"]) != len(mst["hist"]):
            raise StateMismatch("stored history has %d rows, model %d" % (len(ist["hist"]), len(mst["hist"])))
        for i, (x, y) in enumerate(zip(ist["hist"], mst["hist"])):
            if x[0] != y[0] or not _close(x[1], y[1], max(abs(x[1]), 1.0)):
                raise StateMismatch("stored row %d: (arm#%d, reward %r), model (arm#%d, %r)" % (i, x[0], x[1], y[0], y[1]))
            _cmp_vec("stored context %d" % i, x[2], y[2])
    if "tables" in ist:
        mt = [{h: idx for h, idx in t.items() if idx} for t in mst["tables"]]
        # (a line of empty tables and no table at all print alike: pad)
        n = max(len(ist["tables"]), len(mt))
        it = ist["tables"] + [{}] * (n - len(ist["tables"]))
        mt = mt + [{}] * (n - len(mt))
        for k, (x, y) in enumerate(zip(it, mt)):
            if x != y:
                raise StateMismatch("hash table %d: buckets %r, model %r" % (k, dict(sorted(x.items())), dict(sorted(y.items()))))
    if "lps" in ist:
        if len(ist["lps"]) != len(mst["lps"]):
            raise StateMismatch("%d cluster policies, model %d" % (len(ist["lps"]), len(mst["lps"])))
        for k, (x, y) in enumerate(zip(ist["lps"], mst["lps"])):
            cmp_lp("cluster %d" % k, x, y)
    if "leaf" in ist:
        if sorted(ist["leaf"]) != sorted(mst["leaf"]):
            raise StateMismatch("arms with leaf stores %r, model %r" % (sorted(ist["leaf"]), sorted(mst["leaf"])))
        for a, d in ist["leaf"].items():
            md = mst["leaf"][a]
            if sorted(d) != sorted(md):
                raise StateMismatch("arm#%d: leaves %r, model %r" % (a, sorted(d), sorted(md)))
            for leaf, rews in d.items():
                _cmp_vec("arm#%d leaf %d rewards" % (a, leaf), rews, md[leaf])
