"""Running the Lean driver and the model-vs-implementation correspondence over scenarios."""
import os
import subprocess
import tempfile

from . import common
from . import scenario as S


class DriverError(Exception):
    pass


def driver_cmd():
    if os.path.exists(common.DRIVER_BIN):
        return [common.DRIVER_BIN]
    return ["lake", "env", "lean", "--run", "Driver.lean"]


def run_driver(lines, timeout=600):
    """feed lines to the driver; returns its output lines"""
    data = "\n".join(lines) + "\n"
    try:
        p = subprocess.run(driver_cmd(), input=data, capture_output=True, text=True, cwd=common.LEAN_DIR,
                           timeout=timeout)
    except (OSError, subprocess.TimeoutExpired) as e:
        raise DriverError("driver could not be run: %r" % (e,))
    if p.returncode != 0:
        raise DriverError("driver exited with %d: %s" % (p.returncode, p.stderr[-500:]))
    return p.stdout.splitlines()


def correspond(scenarios, stats=None, k1=None):
    """Run every scenario on the implementation and on the model; returns a list of failures
    {index, op_index, reason}.  `stats` (dict) collects counters."""
    stats = stats if stats is not None else {}
    prepared = []
    all_lines = []
    for idx, scn in enumerate(scenarios):
        if k1 is not None:
            scn = dict(scn, k1fixed=k1)
        try:
            run, recs, lines = S.run_impl(scn)
        except Exception as e:  # noqa: BLE001
            prepared.append((idx, scn, None, None, "harness could not run scenario: %r" % (e,)))
            continue
        prepared.append((idx, scn, run, recs, None))
        all_lines.extend(lines)
    outs = run_driver(all_lines)
    failures = []
    pos = 0
    for idx, scn, run, recs, err in prepared:
        if err is not None:
            failures.append({"index": idx, "op_index": -1, "reason": err, "harness_error": True})
            continue
        n = 1 + len(scn["ops"])
        mine = outs[pos:pos + n]
        pos += n
        if len(mine) < n:
            failures.append({"index": idx, "op_index": -1, "reason": "driver produced too few lines", "protocol": True})
            continue
        if mine[0] != "new-ok":
            failures.append({"index": idx, "op_index": -1, "reason": "driver rejected cfg: " + mine[0], "protocol": True})
            continue
        state_div = None
        n_before = len(failures)
        for j, (op, rec, line) in enumerate(zip(scn["ops"], recs, mine[1:])):
            stats["ops"] = stats.get("ops", 0) + 1
            stats["op_" + op["op"]] = stats.get("op_" + op["op"], 0) + 1
            if rec["raised"]:
                stats["rejected"] = stats.get("rejected", 0) + 1
            try:
                mout = S.parse_out(line)
                pending = []
                S.compare_op(op, run, rec, mout, stats, pending=pending)
                if state_div is None:
                    try:
                        S.compare_state(op, rec, mout, stats)
                    except S.Mismatch as m:
                        # the refinement relation is broken here; what the property talks about (rejections, arms,
                        # outputs, sampler requests) is still compared on the rest of the history: a disagreement there
                        # is the concrete failing input, this alone is not
                        state_div = {"index": idx, "op_index": j, "reason": str(m), "model_line": line[:400], "state_only": True,
                                     "impl": {"raised": rec["raised"], "result": repr(rec["result"])[:400]}}
                for row in pending:
                    verdict = resolve_tie(scn, run, recs, j, row)
                    stats["knn_tie_" + verdict] = stats.get("knn_tie_" + verdict, 0) + 1
                    if verdict == "unexplained":
                        raise S.Mismatch("row %d: the k-th distance is tied, and no valid choice of the k nearest rows "
                                         "reproduces the implementation's answer" % row)
            except S.Mismatch as m:
                failures.append({"index": idx, "op_index": j, "reason": str(m), "model_line": line[:400],
                                 "impl": {"raised": rec["raised"], "result": repr(rec["result"])[:400]}})
                break
            except Exception as e:  # noqa: BLE001
                failures.append({"index": idx, "op_index": j, "reason": "harness parse error %r on %r" % (e, line[:200]),
                                 "protocol": True})
                break
        if state_div is not None and len(failures) == n_before:
            failures.append(state_div)
    return failures


TIE_CAP = 80


def resolve_tie(scn, run, recs, j, row):
    """KNearest, k-th distance tied, model (stable choice / numpy's choice) and implementation disagree on query row `row` of
    op `j`: re-run the model with every valid choice of the k nearest rows (all rows strictly closer than the k-th distance plus
    any subset of the tied ones); 'resolved' if one of them reproduces the implementation's answer for that row, 'unexplained' if
    none does (a violation: no valid tie-break explains the answer), 'capped' if there are too many choices to enumerate."""
    import itertools
    op, rec = scn["ops"][j], recs[j]
    kd = (rec.get("oracle") or {}).get("kd")
    npc = scn["cfg"].get("np") or {}
    if not kd or npc.get("k") != "knn" or row >= len(kd):
        return "capped"
    d = kd[row]
    k = npc["kk"]
    if k > len(d):
        return "capped"
    dk = sorted(d)[k - 1]
    strict = [i for i, x in enumerate(d) if x < dk]
    tied = [i for i, x in enumerate(d) if x == dk]
    need = k - len(strict)
    n_alt = 1
    for t in range(need):
        n_alt = n_alt * (len(tied) - t) // (t + 1)
    if need < 0 or n_alt > TIE_CAP:
        return "capped"
    prefix = [S.enc_new(scn["cfg"], run, k1=scn.get("k1fixed", False))]
    for op0, rec0 in zip(scn["ops"][:j], recs[:j]):
        prefix.extend(S.enc_op(op0, run, rec0))
    lines, n_lines = [], []
    for extra in itertools.combinations(tied, need):
        alt = dict(rec, oracle=dict(rec["oracle"], ksets=[list(x) for x in rec["oracle"]["ksets"]]))
        alt["oracle"]["ksets"][row] = strict + list(extra)
        ls = prefix + S.enc_op(op, run, alt)
        lines.extend(ls)
        n_lines.append(1 + j + 1)
    try:
        outs = run_driver(lines)
    except DriverError:
        return "capped"
    pos = 0
    for n in n_lines:
        mine = outs[pos:pos + n]
        pos += n
        if len(mine) < n:
            return "capped"
        try:
            mout = S.parse_out(mine[-1])
            still = []
            S.compare_op(op, run, rec, mout, {}, pending=still, only_row=row)
            if not still:
                return "resolved"
        except S.Mismatch:
            continue
        except Exception:  # noqa: BLE001
            return "capped"
    return "unexplained"


def check_one(scn, k1=None):
    """failure reason for a single scenario, or None"""
    f = correspond([scn], k1=k1)
    return f[0] if f else None
