"""Scenario execution on the real library, encoding for the Lean driver, and comparison.

A scenario is JSON-serialisable:
  {"cfg": {"lp": {...}, "np": {...}|None, "arms": [...], "seed": int, "binz": id|None,
           "n_jobs": 1, "backend": None},
   "ops": [ {"op": "fit"|"pfit", "d": [...], "r": [...], "c": [[...]]|None, "typeok": True, "ctypeok": True},
            {"op": "pexp"|"pred", "c": [[...]]|None, "ctypeok": True},
            {"op": "add", "arm": label|{"special": ..}, "binz": id|None, "callable": True},
            {"op": "rem", "arm": ...},
            {"op": "warm", "feats": [[label, [..]], ..], "q": float, "typeok": True} ]}
"""
import copy
import math
import warnings

import numpy as np

from . import common
from .common import rat, rats, rows, nats, natrows, eval_expect, close
from . import recrng
from .recrng import REC
from . import binz as binzmod
from . import absstate

warnings.filterwarnings("ignore")

recrng.install()
from mabwiser.mab import MAB, LearningPolicy as LP, NeighborhoodPolicy as NP  # noqa: E402
from scipy.spatial.distance import cdist  # noqa: E402


# ------------------------------------------------------------------ construction

def make_lp(lp, binz_id=None):
    k = lp["k"]
    if k == "greedy":
        return LP.EpsilonGreedy(epsilon=lp["eps"])
    if k == "ucb":
        return LP.UCB1(alpha=lp["alpha"])
    if k == "softmax":
        return LP.Softmax(tau=lp["tau"])
    if k == "thompson":
        return LP.ThompsonSampling(binzmod.BINZ[binz_id]) if binz_id else LP.ThompsonSampling()
    if k == "popularity":
        return LP.Popularity()
    if k == "random":
        return LP.Random()
    if k == "lingreedy":
        return LP.LinGreedy(epsilon=lp["eps"], l2_lambda=lp["lam"], scale=lp.get("scale", False))
    if k == "linucb":
        return LP.LinUCB(alpha=lp["alpha"], l2_lambda=lp["lam"], scale=lp.get("scale", False))
    if k == "lints":
        return LP.LinTS(alpha=lp["alpha"], l2_lambda=lp["lam"], scale=lp.get("scale", False))
    raise ValueError(k)


def make_np(npc):
    if npc is None:
        return None
    k = npc["k"]
    if k == "radius":
        return NP.Radius(radius=npc["r"], metric=npc["metric"], no_nhood_prob_of_arm=npc.get("probs"))
    if k == "knn":
        return NP.KNearest(k=npc["kk"], metric=npc["metric"])
    if k == "lsh":
        return NP.LSHNearest(n_dimensions=npc["ndim"], n_tables=npc["ntab"], no_nhood_prob_of_arm=npc.get("probs"))
    if k == "clusters":
        return NP.Clusters(n_clusters=npc["n"], is_minibatch=npc.get("mini", False))
    if k == "tree":
        tp = npc.get("params")
        return NP.TreeBandit() if tp is None else NP.TreeBandit(tree_parameters=dict(tp))
    raise ValueError(k)


def make_mab(cfg, arms=None):
    mab = MAB(list(cfg["arms"]) if arms is None else arms, make_lp(cfg["lp"], cfg.get("binz")), make_np(cfg.get("np")),
              seed=cfg.get("seed", 123456), n_jobs=cfg.get("n_jobs", 1), backend=cfg.get("backend"))
    if cfg.get("int_ctx"):
        mab._verif_int_ctx = True        # twinlib.apply_op passes integral contexts as integer-typed rows
    if cfg.get("reward_dtype"):
        mab._verif_reward_dtype = cfg["reward_dtype"]
    if cfg.get("as_pandas"):
        mab._verif_as_pandas = True      # ... and decisions / rewards / contexts as pandas containers
    return mab


EXACT_METRICS = ("cityblock", "chebyshev", "sqeuclidean", "euclidean")

REWARD_DTYPES = {"bool": (0, 1), "uint8": (0, 255), "int8": (-128, 127), "int16": (-32768, 32767), "int32": (-2 ** 31, 2 ** 31 - 1)}


def reward_container(cfg, r):
    """the rewards of one training call as the caller's container: a list, or (cfg["reward_dtype"]) a numpy array of a
    narrow / boolean dtype when every reward of the batch is an integer that the dtype holds exactly"""
    dt = cfg.get("reward_dtype")
    if not dt or not r or any(x is None or isinstance(x, (str, bool)) or x != int(x) for x in r):
        return r
    lo, hi = REWARD_DTYPES[dt]
    if any(not lo <= x <= hi for x in r):
        return r
    return np.array([int(x) for x in r], dtype=dt)


def arm_value(a):
    """python value of an arm argument in a scenario"""
    if isinstance(a, dict):
        s = a["special"]
        return {"none": None, "nan": np.nan, "inf": np.inf}[s]
    return a


def as_matrix(c):
    return None if c is None else np.asarray(c, dtype=float)


# ------------------------------------------------------------------ implementation run

class ImplRun:
    """Drives the real MAB through a scenario, one op at a time, recording what the model needs."""

    def __init__(self, cfg):
        self.cfg = cfg
        self.ids = {}
        for a in cfg["arms"]:
            self.id_of(a)
        binzmod.set_table(self._labels())
        REC.begin_op()
        self.mab = make_mab(cfg)
        self.main_sid = self.mab._rng.sid
        self.reward_scale = 0.0          # largest |reward| handed to the bandit so far (scale of "near tie")

    def _labels(self):
        return [k for k, _ in sorted(self.ids.items(), key=lambda kv: kv[1])]

    def id_of(self, a):
        key = a.item() if hasattr(a, "item") else a
        if key not in self.ids:
            self.ids[key] = len(self.ids)
            binzmod.set_table(self._labels())
        return self.ids[key]

    # -- one operation
    def step(self, op):
        mab = self.mab
        rec = {"raised": None, "result": None, "oracle": {}}
        kind = op["op"]
        # register labels first so that ids are stable for binarizers
        if kind in ("fit", "pfit"):
            for a in op["d"]:
                self.id_of(a)
        elif kind in ("add", "rem") and not isinstance(op["arm"], dict):
            self.id_of(op["arm"])
        elif kind == "warm":
            for a, _ in op["feats"]:
                self.id_of(a)
        REC.begin_op()
        pre = self._pre_oracle(op)
        try:
            if kind in ("fit", "pfit"):
                d = list(op["d"]) if op.get("typeok", True) else tuple(op["d"])
                r = [self._reward(x) for x in op["r"]]
                self.reward_scale = max([self.reward_scale] + [abs(x) for x in r if isinstance(x, (int, float)) and x == x
                                                               and abs(x) != float("inf")])
                if op.get("typeok", True):
                    r = reward_container(self.cfg, r)
                c = op.get("c")
                if c is not None and not op.get("ctypeok", True):
                    c = tuple(tuple(x) for x in c)
                (mab.fit if kind == "fit" else mab.partial_fit)(d, r, c)
            elif kind in ("pexp", "pred"):
                c = op.get("c")
                if c is not None and not op.get("ctypeok", True):
                    c = tuple(tuple(x) for x in c)
                rec["result"] = copy.deepcopy((mab.predict_expectations if kind == "pexp" else mab.predict)(c))
            elif kind == "add":
                b = op.get("binz")
                bf = None
                if b is not None:
                    bf = binzmod.BINZ[b] if op.get("callable", True) else "not-callable"
                mab.add_arm(arm_value(op["arm"]), bf)
            elif kind == "rem":
                mab.remove_arm(arm_value(op["arm"]))
            elif kind == "warm":
                feats = {a: list(v) for a, v in op["feats"]}
                if not op.get("typeok", True):
                    feats = list(feats.items())
                mab.warm_start(feats, op["q"])
            else:
                raise ValueError("unknown op " + kind)
        except Exception as e:  # noqa: BLE001 - the library's rejection is the observable
            rec["raised"] = type(e).__name__
            rec["message"] = str(e)[:200]
        rec["events"] = list(REC.events)
        rec["arms"] = list(mab.arms)
        try:
            rec["cold"] = list(mab.cold_arms)
        except Exception as e:  # noqa: BLE001
            rec["cold"] = ["<error %s>" % type(e).__name__]
        if rec["raised"] is None:
            rec["oracle"] = self._post_oracle(op, pre)
        # the abstraction of the object graph after the step (also after a rejected call: nothing may have changed)
        try:
            rec["state"] = absstate.impl_state(self)
        except Exception as e:  # noqa: BLE001
            rec["state"] = None
            rec["state_error"] = "%s: %s" % (type(e).__name__, str(e)[:200])
        return rec

    def _scaler_oracle(self, op, imp, out):
        """scale=True: the per-arm StandardScaler statistics are an oracle (scikit-learn); the model receives the
        training rows as the arm's scaler transformed them in this call, and every fitted scaler's (mean_, scale_)"""
        scalers = {}
        for a in self.mab.arms:
            sc = getattr(imp.arm_to_model.get(a), "scaler", None)
            if sc is not None and hasattr(sc, "scale_") and hasattr(sc, "mean_"):
                scalers[a] = sc
        out["scalers"] = [(self.id_of(a), [float(v) for v in sc.mean_], [float(v) for v in sc.scale_])
                          for a, sc in scalers.items()]
        c = op.get("c")
        if c is None:
            return
        scaled = []
        for a, row in zip(op["d"], c):
            key = a.item() if hasattr(a, "item") else a
            sc = next((v for k, v in scalers.items() if k == key), None)
            try:
                ok = sc is not None and len(row) == len(sc.mean_)
            except TypeError:
                ok = False
            if ok:
                scaled.append([float(v) for v in sc.transform(np.asarray([row], dtype="float64"))[0]])
            else:
                scaled.append(list(row))
        out["scaled_c"] = scaled

    @staticmethod
    def _reward(x):
        if x is None:
            return None
        if isinstance(x, str):
            return {"nan": float("nan"), "inf": float("inf"), "-inf": float("-inf")}[x]
        return x

    # -- oracles (values of external code the model takes as inputs)
    def _pre_oracle(self, op):
        """values that must be read before the op mutates the bandit"""
        imp = self.mab._imp
        pre = {}
        npc = self.cfg.get("np")
        if npc and npc["k"] == "tree" and op["op"] in ("fit", "pfit"):
            pre["had_tree"] = {self.id_of(a): bool(len(imp.arm_to_leaf_to_rewards.get(a, {}))) for a in self.mab.arms}
        return pre

    def _post_oracle(self, op, pre):
        imp = self.mab._imp
        npc = self.cfg.get("np")
        out = {}
        if not npc:
            if self.cfg["lp"].get("scale") and op["op"] in ("fit", "pfit") and hasattr(imp, "arm_to_model"):
                self._scaler_oracle(op, imp, out)
            return out
        k = npc["k"]
        kind = op["op"]
        if k == "clusters":
            if kind in ("fit", "pfit"):
                out["labels"] = [int(x) for x in imp.kmeans.labels_]
            elif kind in ("pexp", "pred"):
                out["cells"] = [int(x) for x in imp.kmeans.predict(np.ascontiguousarray(as_matrix(op["c"])))]
        elif k == "tree":
            if kind in ("fit", "pfit"):
                d = np.asarray(op["d"])
                c = as_matrix(op["c"])
                leaves = []
                for a in self.mab.arms:
                    mask = d == a
                    if mask.any() and len(imp.arm_to_leaf_to_rewards[a]) > 0:
                        leaves.append([int(x) for x in imp.arm_to_tree[a].apply(c[mask])])
                    else:
                        leaves.append([])
                out["leaves"] = leaves
            elif kind in ("pexp", "pred"):
                c = as_matrix(op["c"])
                ql = []
                for row in c:
                    r = []
                    for a in self.mab.arms:
                        if len(imp.arm_to_leaf_to_rewards[a]) > 0:
                            r.append(int(imp.arm_to_tree[a].apply([row])[0]))
                        else:
                            r.append(0)
                    ql.append(r)
                out["qleaves"] = ql
        elif k in ("radius", "knn") and kind in ("pexp", "pred"):
            c = as_matrix(op["c"])
            if npc["metric"] not in EXACT_METRICS:
                out["dists"] = [cdist(imp.contexts, row[np.newaxis, :], metric=npc["metric"]).reshape(-1).tolist()
                                for row in c]
            if k == "knn":
                # a tie-break for the k nearest rows (the model checks that it is a valid one)
                out["ksets"] = [[int(j) for j in np.argpartition(
                    cdist(imp.contexts, row[np.newaxis, :], metric=npc["metric"]).reshape(-1), npc["kk"] - 1)[:npc["kk"]]]
                    for row in c]
                # the distances themselves (not sent to the driver): used to enumerate every valid choice of the k nearest
                # rows when the k-th distance is tied and model and implementation disagree (model.resolve_tie)
                out["kd"] = [cdist(imp.contexts, row[np.newaxis, :], metric=npc["metric"]).reshape(-1).tolist() for row in c]
        return out

    # -- labels of recorded requests
    def stream_label(self, sid, events):
        root, depth = REC.root_and_depth(sid)
        if root == self.main_sid:
            base = "main"
        else:
            news = [e[1] for e in events if e[0] == "new"]
            base = "row%d" % news.index(root) if root in news else "stale"
        return base if depth == 0 else "copy(%s)" % base


# ------------------------------------------------------------------ encoding for the driver

def enc_kind(lp):
    k = lp["k"]
    if k == "greedy":
        return "greedy:" + rat(lp["eps"])
    if k == "ucb":
        return "ucb:" + rat(lp["alpha"])
    if k == "softmax":
        return "softmax:" + rat(lp["tau"])
    if k in ("thompson", "popularity", "random"):
        return k
    if k == "lingreedy":
        return "lingreedy:%s:%s" % (rat(lp["eps"]), rat(lp["lam"]))
    if k == "linucb":
        return "linucb:%s:%s" % (rat(lp["alpha"]), rat(lp["lam"]))
    if k == "lints":
        return "lints:%s:%s" % (rat(lp["alpha"]), rat(lp["lam"]))
    raise ValueError(k)


def enc_np(npc):
    if not npc:
        return "none"
    k = npc["k"]
    metric = npc.get("metric")
    m = metric if metric in EXACT_METRICS else "oracle"
    if k == "radius":
        return "radius:%s:%s:%s" % (rat(npc["r"]), m, rats(npc["probs"]) if npc.get("probs") else "-")
    if k == "knn":
        return "knn:%d:%s" % (npc["kk"], m)
    if k == "lsh":
        return "lsh:%d:%d:%s" % (npc["ndim"], npc["ntab"], rats(npc["probs"]) if npc.get("probs") else "-")
    if k == "clusters":
        return "clusters:%d" % npc["n"]
    if k == "tree":
        return "tree"
    raise ValueError(k)


def enc_new(cfg, run, k1=False):
    return "new kind=%s np=%s arms=%s binz=%s k1=%d" % (
        enc_kind(cfg["lp"]), enc_np(cfg.get("np")), nats(run.id_of(a) for a in cfg["arms"]),
        cfg.get("binz") or "-", 1 if k1 else 0)


def enc_reward(x):
    if x is None or isinstance(x, str):
        return "x"
    if isinstance(x, float) and not math.isfinite(x):
        return "x"
    return rat(x)


def enc_arm(a, run):
    if isinstance(a, dict):
        return a["special"]
    return str(run.id_of(a))


def enc_ctx(c):
    return "none" if c is None else rows(c)


def enc_op(op, run, rec, ksets=None):
    """driver lines for one op: tape, oracle, then the op itself"""
    lines = []
    for e in rec["events"]:
        if e[0] == "req":
            lines.append("tape " + rats(e[5]))
    o = rec.get("oracle", {})
    if "labels" in o:
        lines.append("oracle labels " + nats(o["labels"]))
    if "cells" in o:
        lines.append("oracle cells " + nats(o["cells"]))
    if "leaves" in o:
        lines.append("oracle leaves " + natrows(o["leaves"]))
    if "qleaves" in o:
        lines.append("oracle qleaves " + natrows(o["qleaves"]))
    if "dists" in o:
        lines.append("oracle dists " + rows(o["dists"]))
    if "ksets" in o:
        lines.append("oracle ksets " + natrows(o["ksets"]))
    kind = op["op"]
    if kind in ("fit", "pfit"):
        lines.append("%s type=%d ctype=%d d=%s r=%s c=%s" % (
            kind, 1 if op.get("typeok", True) else 0, 1 if op.get("ctypeok", True) else 0,
            nats(run.id_of(a) for a in op["d"]),
            ",".join(enc_reward(x) for x in op["r"]) if op["r"] else "-", enc_ctx(o.get("scaled_c", op.get("c")))))
        for aid, mu, sc in o.get("scalers", []):
            lines.append("scaler %d mu=%s sc=%s" % (aid, rats(mu), rats(sc)))
    elif kind in ("pexp", "pred"):
        lines.append("%s ctype=%d c=%s" % (kind, 1 if op.get("ctypeok", True) else 0, enc_ctx(op.get("c"))))
    elif kind == "add":
        lines.append("add %s binz=%s callable=%d" % (enc_arm(op["arm"], run), op.get("binz") or "-",
                                                    1 if op.get("callable", True) else 0))
    elif kind == "rem":
        lines.append("rem %s" % enc_arm(op["arm"], run))
    elif kind == "warm":
        keys = [a for a, _ in op["feats"]]
        vecs = [list(v) for _, v in op["feats"]]
        featok = len({len(v) for v in vecs}) <= 1
        raw = []
        for i, vi in enumerate(vecs):
            r = []
            for j, vj in enumerate(vecs):
                if i == j or not featok:
                    r.append("0")
                else:
                    dd = cdist(np.asarray([vi], dtype=float), np.asarray([vj], dtype=float), metric="cosine")[0][0]
                    r.append("n" if np.isnan(dd) else rat(dd))
            raw.append(",".join(r))
        lines.append("warm type=%d feat=%d q=%s keys=%s raw=%s" % (
            1 if op.get("typeok", True) else 0, 1 if featok else 0, rat(op["q"]),
            nats(run.id_of(a) for a in keys), ";".join(raw) if raw else "-"))
    return lines


# ------------------------------------------------------------------ parsing driver output

def parse_dict(s):
    if not s:
        return []
    out = []
    for kv in s.split(","):
        k, _, v = kv.partition("=")
        out.append((int(k), v))
    return out


def parse_out(line):
    parts = [p.strip() for p in line.split(" | ")]
    res = {"head": parts[0]}
    for p in parts[1:]:
        k, _, v = p.partition("=")
        res[k] = v
    res["err"] = res["head"][4:] if res["head"].startswith("err:") else None
    res["arms_l"] = [int(x) for x in res.get("arms", "").split(",") if x != ""]
    res["cold_l"] = [int(x) for x in res.get("cold", "").split(",") if x != ""]
    out = res.get("out", "-")
    res["single"] = None
    res["rows"] = None
    if out != "-":
        mode, _, body = out.partition(" ")
        res["single"] = mode == "one"
        rws = body.split(";") if body != "" else ([""] if mode == "one" else [])
        parsed = []
        for r in rws:
            if "@" in r:
                a, _, d = r.partition("@")
                parsed.append((None if a == "?" else int(a), parse_dict(d)))
            else:
                parsed.append((None, parse_dict(r)))
        res["rows"] = parsed
    res["reqs_l"] = []
    for r in res.get("reqs", "").split(" "):
        if r:
            stream, kind, size, params = r.split("/", 3)
            res["reqs_l"].append((stream, kind, int(size), [p for p in params.split("~") if p]))
    res["ties_l"] = [x == "1" for x in res.get("ties", "").split(",") if x != ""]
    res["flags_l"] = [x for x in res.get("flags", "").split(",") if x]
    return res


# ------------------------------------------------------------------ comparison

class Mismatch(Exception):
    pass


def compare_state(op, rec, mout, stats):
    """the refinement relation itself: abstraction of the real object graph = the model's state, after every step"""
    if "state" not in mout:
        return
    if rec.get("state") is None:
        raise Mismatch("state abstraction failed on the implementation: %s" % rec.get("state_error"))
    try:
        absstate.compare_state(rec["state"], absstate.parse_state(mout["state"]))
    except absstate.StateMismatch as e:
        raise Mismatch("state after %s%s: %s" % (op["op"], " (rejected)" if rec["raised"] else "", e))
    stats["states_compared"] = stats.get("states_compared", 0) + 1


def _canon_result(result, single_expected):
    """impl result -> (is_single, list of rows)"""
    if isinstance(result, list):
        return False, result
    return True, [result]


def compare_op(op, run, rec, mout, stats, ptol=1e-7, pending=None, only_row=None):
    """Raise Mismatch with a reason if model output `mout` and impl record `rec` differ on the
    observables.  `stats` collects ambiguity counters."""
    kind = op["op"]
    if "bad-op" in mout["head"]:
        raise Mismatch("driver rejected the line (bad-op)")
    if (rec["raised"] is not None) != (mout["err"] is not None):
        raise Mismatch("rejection differs: impl raised %r, model err %r" % (rec["raised"], mout["err"]))
    arms_ids = [run.id_of(a) for a in rec["arms"]]
    if arms_ids != mout["arms_l"]:
        raise Mismatch("arms differ: impl %r model %r" % (arms_ids, mout["arms_l"]))
    cold_ids = [run.id_of(a) for a in rec["cold"]] if not (rec["cold"] and str(rec["cold"][0]).startswith("<error")) else None
    if cold_ids is not None and cold_ids != mout["cold_l"]:
        raise Mismatch("cold_arms differ: impl %r model %r" % (cold_ids, mout["cold_l"]))
    if rec["raised"] is not None:
        return
    bad_flags = [f for f in mout["flags_l"] if f in ("underflow", "leftover", "certfail")]
    # requests
    reqs = [e for e in rec["events"] if e[0] == "req"]
    if len(reqs) != len(mout["reqs_l"]):
        raise Mismatch("number of sampler requests differs: impl %d model %d (%s)" % (
            len(reqs), len(mout["reqs_l"]), ",".join(bad_flags)))
    for i, (e, m) in enumerate(zip(reqs, mout["reqs_l"])):
        _, sid, ekind, params, size, ans = e
        label = run.stream_label(sid, rec["events"])
        if ekind != m[1]:
            raise Mismatch("request %d kind: impl %s model %s" % (i, ekind, m[1]))
        if len(ans) != m[2]:
            raise Mismatch("request %d (%s) size: impl %d model %d" % (i, ekind, len(ans), m[2]))
        if label != m[0]:
            raise Mismatch("request %d (%s) stream: impl %s model %s" % (i, ekind, label, m[0]))
        if ekind in ("beta", "dirichlet", "mvn", "choice"):
            mp = [eval_expect(p) for p in m[3]]
            if ekind == "dirichlet":
                mp = [p + common.EPS_MACH for p in mp]
            if len(mp) != len(params):
                raise Mismatch("request %d (%s) parameter count: impl %d model %d" % (i, ekind, len(params), len(mp)))
            scale = max([abs(x) for x in params] + [1.0])
            for a, b in zip(params, mp):
                if not close(a, b, rtol=ptol, scale=scale):
                    raise Mismatch("request %d (%s) parameters: impl %r model %r" % (i, ekind, params, mp))
    if bad_flags:
        raise Mismatch("model flags: " + ",".join(bad_flags))
    if kind not in ("pexp", "pred"):
        return
    single, rws = _canon_result(rec["result"], None)
    if mout["single"] is None:
        raise Mismatch("model produced no output")
    if single != mout["single"]:
        raise Mismatch("result shape: impl %s model %s" % ("single" if single else "list", "single" if mout["single"] else "list"))
    if len(rws) != len(mout["rows"]):
        raise Mismatch("number of results: impl %d model %d" % (len(rws), len(mout["rows"])))
    ties = mout["ties_l"]
    for i, (ir, (marm, mdict)) in enumerate(zip(rws, mout["rows"])):
        if only_row is not None and i != only_row:
            continue
        tie = ties[i] if i < len(ties) else False
        mvals = [(k, eval_expect(v)) for k, v in mdict]
        if kind == "pexp":
            if not isinstance(ir, dict):
                raise Mismatch("row %d: impl returned %r, not a dict" % (i, type(ir).__name__))
            ikeys = [run.id_of(a) for a in ir.keys()]
            if ikeys != [k for k, _ in mvals]:
                raise Mismatch("row %d keys: impl %r model %r" % (i, ikeys, [k for k, _ in mvals]))
            ok = all(close(float(a), b, rtol=ptol) for a, (_, b) in zip(ir.values(), mvals))
            if not ok:
                if tie and pending is not None:
                    pending.append(i)           # decided by model.resolve_tie over every valid tie-break
                    continue
                raise Mismatch("row %d expectations: impl %r model %r" % (
                    i, [float(x) for x in ir.values()], [b for _, b in mvals]))
        else:
            iid = run.id_of(ir) if ir in run.ids or hasattr(ir, "item") else None
            if iid is None or iid not in arms_ids:
                raise Mismatch("row %d: impl predicted %r which is not a current arm" % (i, ir))
            if marm == iid:
                continue
            # near-tie among the model's expectations?
            finite = [v for _, v in mvals if not math.isnan(v)]
            if finite:
                mx = max(finite)
                if run.cfg["lp"]["k"] in ("lingreedy", "linucb", "lints") or (run.cfg.get("np") or {}).get("k") == "tree":
                    # expectations through a matrix inverse / float sums of leaf rewards: rounding relative to 1
                    near = [k for k, v in mvals if not math.isnan(v) and close(v, mx, rtol=1e-7)]
                else:
                    # sums and means of rewards (plus O(1) bonuses computed with sqrt / log / exp): two expectations are
                    # "the same up to rounding" relative to the magnitude of the rewards and of the expectations - not
                    # relative to 1, or tiny rewards would make every arm a near tie
                    tol = 1e-12 * max([abs(v) for v in finite] + [run.reward_scale])
                    near = [k for k, v in mvals if not math.isnan(v) and abs(v - mx) <= tol]
                if iid in near and len(near) > 1:
                    stats["argmax_near_tie_skipped"] = stats.get("argmax_near_tie_skipped", 0) + 1
                    continue
            if tie and pending is not None:
                pending.append(i)
                continue
            raise Mismatch("row %d prediction: impl %r (id %s) model %r; model expectations %r" % (
                i, ir, iid, marm, mvals))


def run_impl(scn):
    """run a whole scenario on the implementation; returns (run, [rec...], lines)"""
    run = ImplRun(scn["cfg"])
    recs = []
    lines = [enc_new(scn["cfg"], run, k1=scn.get("k1fixed", False))]
    for op in scn["ops"]:
        rec = run.step(op)
        recs.append(rec)
        lines.extend(enc_op(op, run, rec))
    return run, recs, lines
