"""Proof obligations: build the Lean development, grep for forbidden tokens, and read the axioms of
every property theorem from `#print axioms` (MabModel/Audit.lean)."""
import hashlib
import json
import os
import re
import subprocess
import time

from . import common

ALLOWED_AXIOMS = {"propext", "Classical.choice", "Quot.sound"}
FORBIDDEN = [r"\bsorry\b", r"\badmit\b", r"^\s*axiom\s", r"\bnative_decide\b", r"\bbv_decide\b",
             r"\bimplemented_by\b", r"\bunsafe\s", r"maxHeartbeats\s+0\b"]
CACHE = os.path.join(common.LEAN_DIR, ".lake", "audit_cache.json")


def lean_sources():
    out = []
    for root, dirs, files in os.walk(common.LEAN_DIR):
        dirs[:] = [d for d in dirs if d != ".lake"]
        for f in files:
            if f.endswith(".lean") or f in ("lakefile.toml",):
                out.append(os.path.join(root, f))
    return sorted(out)


def strip_comments(text):
    text = re.sub(r"/-.*?-/", "", text, flags=re.S)
    return "\n".join(line.split("--")[0] for line in text.splitlines())


def source_hash():
    h = hashlib.sha256()
    from .props import theorems as T
    h.update(repr(sorted(T.THEOREMS.items())).encode())
    for p in lean_sources():
        h.update(p.encode())
        with open(p, "rb") as f:
            h.update(f.read())
    return h.hexdigest()


def forbidden_tokens():
    hits = []
    for p in lean_sources():
        if not p.endswith(".lean"):
            continue
        code = strip_comments(open(p).read())
        for i, line in enumerate(code.splitlines(), 1):
            for pat in FORBIDDEN:
                if re.search(pat, line):
                    hits.append("%s:%d: %s" % (os.path.relpath(p, common.LEAN_DIR), i, line.strip()[:80]))
    return hits


def _run(cmd, timeout):
    p = subprocess.run(cmd, cwd=common.LEAN_DIR, capture_output=True, text=True, timeout=timeout)
    return p.returncode, p.stdout + p.stderr


def build(timeout=3000):
    """`lake build` of the library (models + proofs) and of the driver executable."""
    rc, out = _run(["lake", "build", "MabModel", "driver"], timeout)
    return rc == 0, out[-3000:]


def run_audit(force=False, timeout=3000):
    """returns {build_ok, build_log, forbidden, axioms: {theorem: [axioms]}, hash, cached}"""
    h = source_hash()
    if not force and os.path.exists(CACHE) and os.path.exists(common.DRIVER_BIN):
        try:
            c = json.load(open(CACHE))
            if c.get("hash") == h and c.get("build_ok"):
                # make sure the build really is up to date (no-op when fresh)
                ok, log = build(timeout)
                if ok:
                    c["cached"] = True
                    return c
        except (ValueError, OSError):
            pass
    t0 = time.time()
    ok, log = build(timeout)
    res = {"hash": h, "build_ok": ok, "build_log": "" if ok else log, "forbidden": forbidden_tokens(),
           "axioms": {}, "cached": False}
    if ok:
        from .props import theorems as T
        src = "".join("import %s\n" % m for m in T.all_imports())
        src += "".join("#print axioms %s\n" % t for t in T.all_theorems())
        p = subprocess.run(["lake", "env", "lean", "--stdin"], cwd=common.LEAN_DIR, input=src,
                           capture_output=True, text=True, timeout=timeout)
        rc, out = p.returncode, p.stdout + p.stderr
        res["audit_rc"] = rc
        # "'Mab.foo' depends on axioms: [propext, Quot.sound]" / "'Mab.foo' does not depend on any axioms"
        for m in re.finditer(r"'([^']+)' depends on axioms: \[([^\]]*)\]", out, flags=re.S):
            res["axioms"][m.group(1)] = [a.strip() for a in m.group(2).replace("\n", " ").split(",") if a.strip()]
        for m in re.finditer(r"'([^']+)' does not depend on any axioms", out):
            res["axioms"][m.group(1)] = []
        if rc != 0:
            res["audit_log"] = out[-2000:]
    res["wall_s"] = round(time.time() - t0, 1)
    try:
        os.makedirs(os.path.dirname(CACHE), exist_ok=True)
        json.dump(res, open(CACHE, "w"))
    except OSError:
        pass
    return res


def obligations(audit, theorem_names):
    """per-theorem status for one property"""
    out = []
    for name in theorem_names:
        full = name if name.startswith("Mab.") or name.startswith("Py.") else "Mab." + name
        ax = audit["axioms"].get(full)
        ok = audit["build_ok"] and ax is not None and set(ax) <= ALLOWED_AXIOMS
        out.append({"name": full, "axioms": ax, "discharged": bool(ok)})
    return out


def leanchecker(modules, timeout=3000):
    rc, out = _run(["lake", "env", "leanchecker"] + modules, timeout)
    return rc == 0, out[-1500:]
