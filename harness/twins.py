"""Implementation-only metamorphic relations (the failing-input search of the properties whose
statement is itself a relation between two runs of the library)."""
import copy
import math
import pickle
import random

import numpy as np

from . import gen as G
from . import scenario as S
from . import twinlib as T
from .props.base import twin

ALL_LP = G.CF_KINDS + G.LIN_KINDS


def _gen(seed, index, profile):
    rng = random.Random("%s/%s/%s" % (seed, profile.get("name", ""), index))
    g = G.Gen(rng, profile)
    # a fifth of the contextual scenarios pass integral contexts as *integer-typed* containers (own stream, so that
    # the scenario stream stays what it was)
    if g.contextual and random.Random("%s/int/%s/%s" % (seed, profile.get("name", ""), index)).random() < 0.2:
        g.cfg["int_ctx"] = True
    # ... and a sixth pass decisions / rewards as pandas Series and contexts as a DataFrame (both sides of a relation alike)
    if random.Random("%s/pd/%s/%s" % (seed, profile.get("name", ""), index)).random() < 0.16:
        g.cfg["as_pandas"] = True
    # ... and a tenth hand the rewards over as a boolean / narrow-integer numpy array (batches of integers only)
    r3 = random.Random("%s/rdt/%s/%s" % (seed, profile.get("name", ""), index))
    if r3.random() < 0.1:
        g.cfg["reward_dtype"] = r3.choice(["bool", "bool", "uint8", "int8", "int16", "int32"])
    # a quarter of the neighbourhood-policy scenarios run with several (thread) workers: both sides of a relation
    # use the same configuration, and results do not depend on n_jobs (C05).  TreeBandit with randomised leaf policies
    # is excluded: its workers share the bandit's generator (known finding K3), so thread timing would leak in.
    r2 = random.Random("%s/jobs/%s/%s" % (seed, profile.get("name", ""), index))
    if g.npk is not None and g.cfg.get("n_jobs", 1) == 1 and not _k3_cfg(g.cfg) and r2.random() < 0.25:
        g.cfg["n_jobs"] = r2.choice([2, 3])
        g.cfg["backend"] = "threading"
    return rng, g


def _k3_cfg(cfg):
    return (cfg.get("np") or {}).get("k") == "tree" and (
        cfg["lp"]["k"] in ("thompson", "softmax", "popularity", "random", "lints") or
        (cfg["lp"]["k"] in ("greedy", "lingreedy") and cfg["lp"].get("eps", 0) > 0))


def _tol(cfg):
    # bit-for-bit for count/sum based and neighbourhood policies, rounding for linear ones
    return 1e-9 if T.is_linear(cfg) else 0.0


# ------------------------------------------------------------------ C06 incremental = batch

def gen_c06(seed, index):
    prof = {"name": "C06", "lp": ALL_LP, "np": [None, None, "radius", "knn", "lsh", "clusters"],
            "unknown_labels": True}
    rng, g = _gen(seed, index, prof)
    if index % 10 == 1:
        # Thompson Sampling with an arm-dependent, non-idempotent binarizer (a reward converted twice changes) under each
        # neighbourhood policy in turn, and without one
        np_turn = ["clusters", "radius", "knn", "lsh", None][(index // 10) % 5]
        rng, g = _gen(seed, index, dict(prof, name="C06t", lp=["thompson"], np=[np_turn], p_binz=1.0))
        g.binz = [2, 4][(index // 50) % 2]
        g.cfg["binz"] = g.binz
    n = rng.choice([2, 3, 5, 8, 12, 16])
    d, r, c = g.batch(n)
    n = len(d)
    k = rng.randint(1, min(4, n - 1)) if n > 1 else 0
    cuts = sorted(rng.sample(range(1, n), k)) if n > 1 else []
    npc = g.cfg["np"]
    first = cuts[0] if cuts else n
    if npc and npc["k"] == "clusters":
        cuts = [x for x in cuts if x >= npc["n"] + 1]
    if npc and npc["k"] == "knn":
        cuts = [x for x in cuts if x >= npc["kk"]]
    g.stored = list(c or [])
    g.fitted = True
    for _ in range(rng.randint(1, 3)):
        g.op_query()
    return {"cfg": g.cfg, "ops": [], "rows": {"d": d, "r": r, "c": c}, "cuts": cuts, "queries": g.ops}


def gen_c06_large(seed, index):
    """histories of more than 2^11 rows cut so that single chunks exceed 2^10 rows (block-wise code paths), and
    one-row chunks after a long prefix"""
    rng = random.Random("%s/C06-large/%s" % (seed, index))
    kinds = ["linucb", "greedy", "lingreedy", "ucb", "thompson", "linucb"]
    lpk = kinds[index % len(kinds)]
    lp = G.gen_lp(rng, lpk)
    if "eps" in lp:
        lp["eps"] = 0.0
    npk = rng.choice([None, None, "knn", "radius"]) if lpk not in G.LIN_KINDS else None
    arms = [1, 2, 3]
    d = 2
    npc = G.gen_np(rng, npk, len(arms), d)
    if npc and npc["k"] == "radius":
        npc["probs"] = None
    n = rng.choice([2100, 2300])
    dec = [arms[0] if rng.random() < 0.9 else rng.choice(arms[1:]) for _ in range(n)]
    rew = [float(rng.choice([0, 1])) for _ in range(n)]
    contextual = npk is not None or lpk in G.LIN_KINDS
    ctx = [[float(rng.randint(0, 4)), float(rng.randint(0, 4))] for _ in range(n)] if contextual else None
    cuts = rng.choice([[1030], [1040, 2080], [1025, 1026, 1027], [5, 1100]])
    q = {"op": "pexp", "c": [[1.0, 2.0], [3.0, 0.0]] if contextual else None}
    cfg = {"lp": lp, "np": npc, "arms": arms, "seed": rng.randint(0, 10 ** 6), "binz": None, "n_jobs": 1}
    return {"cfg": cfg, "ops": [], "rows": {"d": dec, "r": rew, "c": ctx}, "cuts": cuts, "queries": [q]}


def gen_c06_wide(seed, index):
    """linear policies with 16 features and l2_lambda != 1, an arm that is missing from the first chunk and then arrives
    one row (two rows) at a time: whatever short-cut updates the inverse for thin chunks must agree with one fit"""
    rng = random.Random("%s/C06-wide/%s" % (seed, index))
    lpk = ["linucb", "lingreedy", "lints"][index % 3]
    lp = G.gen_lp(rng, lpk)
    lp["lam"] = rng.choice([0.5, 2.0, 4.0])
    if "eps" in lp:
        lp["eps"] = 0.0
    if lpk == "lints":
        lp["alpha"] = 1e-9
    arms = [1, 2, 3, 4]
    d = rng.choice([16, 16, 9])
    n0 = 60
    dec = [arms[i % 3] for i in range(n0)]
    tail = rng.choice([6, 10])
    dec += [4 if rng.random() < 0.7 else rng.choice(arms[:3]) for _ in range(tail)]
    n = len(dec)
    rew = [float(rng.choice([0, 1, 2, 3])) for _ in range(n)]
    ctx = [[float(rng.randint(0, 4)) for _ in range(d)] for _ in range(n)]
    step = rng.choice([1, 2])
    cuts = list(range(n0, n, step))
    q = {"op": "pexp", "c": [[float(rng.randint(0, 4)) for _ in range(d)] for _ in range(3)]}
    cfg = {"lp": lp, "np": None, "arms": arms, "seed": rng.randint(0, 10 ** 6), "binz": None, "n_jobs": 1}
    return {"cfg": cfg, "ops": [], "rows": {"d": dec, "r": rew, "c": ctx}, "cuts": cuts, "queries": [q]}


@twin("batch_vs_chunked")
@T.quiet
def batch_vs_chunked(scn):
    T.register_labels({"cfg": scn["cfg"], "ops": [{"op": "fit", "d": scn["rows"]["d"]}]})
    rows = scn["rows"]
    a = S.make_mab(scn["cfg"])
    b = S.make_mab(scn["cfg"])
    n = len(rows["d"])

    def part(i, j):
        return (rows["d"][i:j], rows["r"][i:j], None if rows["c"] is None else rows["c"][i:j])
    o1 = T.apply_op(a, dict(op="fit", d=rows["d"], r=rows["r"], c=rows["c"]))
    bounds = [0] + list(scn["cuts"]) + [n]
    o2 = None
    for idx, (i, j) in enumerate(zip(bounds, bounds[1:])):
        d, r, c = part(i, j)
        o2 = T.apply_op(b, dict(op="fit" if idx == 0 else "pfit", d=d, r=r, c=c))
        if o2[0] != "ok":
            break
    if o1[0] != "ok" or o2[0] != "ok":
        if o1[0] != o2[0]:
            return "batch fit %r but chunked training %r" % (o1, o2)
        return None
    T.sync_rngs(b, a)
    ra = T.apply_ops(a, scn["queries"])
    rb = T.apply_ops(b, scn["queries"])
    diff = T.first_diff(ra, rb, _tol(scn["cfg"]))
    if diff:
        return "query %d differs: batch %r vs chunked(cuts=%r) %r" % (diff[0], diff[1], scn["cuts"], diff[2])
    return None


# ------------------------------------------------------------------ C07 fit discards everything

def gen_c07(seed, index):
    prof = {"name": "C07", "lp": ALL_LP, "np": [None, None] + G.NP_KINDS,
            "weights": {"fit": 1, "pfit": 3, "query": 2, "add": 1.5, "rem": 1, "warm": 1}, "end_query": False,
            "n_ops": (2, 7)}
    rng, g = _gen(seed, index, prof)
    scn = g.build()
    # new data set D with possibly another number of features
    if g.contextual and rng.random() < 0.35:
        g.d = rng.choice([1, 2, 3])
        g.stored = []
    same_shape = g.contextual and g.fitted and len(g.stored) >= 1 and rng.random() < 0.4
    if same_shape:
        # D has exactly the shape of the history it replaces, and the bandit answered a query on the old history
        # (anything keyed by the size or shape of the history must not survive the call)
        n_old = len(g.stored)
        g.ops = []
        g.op_query(rng.choice(["pexp", "pred"]))
        scn["ops"] = scn["ops"] + g.ops
        d, r, c = g.batch(n_old)
        d, r, c = d[:n_old], r[:n_old], c[:n_old]
    else:
        d, r, c = g.batch(rng.choice([1, 2, 4, 7, 12]))
    g.stored = list(c or [])
    g.ops = []
    for _ in range(rng.randint(1, 3)):
        g.op_query()
    if g.npk is None and rng.random() < 0.5:
        g.op_warm()
        g.op_query("pexp")
    cont = [op for op in g.ops]
    return {"cfg": scn["cfg"], "ops": scn["ops"], "refit": {"d": d, "r": r, "c": c}, "cont": cont}


def gen_c07_orphan(seed, index):
    """Clusters with about as many clusters as the new data set D has (distinct) rows, after a larger first fit:
    a cluster that ends up without a single row of D must answer like the cluster of a fresh bandit (its policy is
    re-fit on an empty slice), not from what it learned before. Queries cover a grid so that every centre is hit."""
    rng = random.Random("%s/C07-orphan/%s" % (seed, index))
    lpk = rng.choice(["greedy", "ucb", "softmax", "thompson", "linucb", "lingreedy"])
    lp = G.gen_lp(rng, lpk)
    if "eps" in lp:
        lp["eps"] = 0.0
    n = rng.choice([5, 6, 7, 8])
    arms = [1, 2, 3]
    mini = rng.random() < 0.7
    cfg = {"lp": lp, "np": {"k": "clusters", "n": n, "mini": mini}, "arms": arms, "seed": rng.randint(0, 10 ** 6),
           "binz": None, "n_jobs": 1}
    rew = (lambda: rng.choice([0, 1])) if lpk == "thompson" else (lambda: rng.choice([1, 2, 3, 5, 8]))
    n1 = rng.choice([40, 80, 150])
    big = index % 10 == 9          # D with more than 2^10 rows and no unique clustering
    if big:
        n = 4
        cfg["np"]["n"] = n
    pt = lambda: [round(rng.uniform(-2, 2), 2), round(rng.uniform(-2, 2), 2)]      # noqa: E731
    fit1 = {"op": "fit", "d": [rng.choice(arms) for _ in range(n1)], "r": [rew() for _ in range(n1)], "c": [pt() for _ in range(n1)]}
    n2 = n + rng.choice([0, 1, 2, 4, 7]) if not big else rng.choice([1100, 1500])
    if rng.random() < 0.4 and not big:
        # fewer distinct rows than clusters
        base = [pt() for _ in range(rng.randint(2, n - 1))]
        c2 = [list(rng.choice(base)) for _ in range(n2)]
    else:
        c2 = [pt() for _ in range(n2)]
    refit = {"d": [rng.choice(arms) for _ in range(n2)], "r": [rew() for _ in range(n2)], "c": c2}
    grid = [[-2 + 0.5 * i, -2 + 0.5 * j] for i in range(9) for j in range(9)]
    return {"cfg": cfg, "ops": [fit1, {"op": "pexp", "c": [pt()]}], "refit": refit, "cont": [{"op": "pexp", "c": grid}, {"op": "pred", "c": grid}]}


@twin("refit_vs_fresh")
@T.quiet
def refit_vs_fresh(scn):
    from mabwiser.mab import MAB
    T.register_labels(scn)
    a = S.make_mab(scn["cfg"])
    T.apply_ops(a, scn["ops"])
    fresh = MAB(list(a.arms), a.learning_policy, a.neighborhood_policy, seed=a.seed, n_jobs=a.n_jobs, backend=a.backend)
    for k, v in vars(a).items():
        if k.startswith("_verif_") and k != "_verif_width":
            setattr(fresh, k, v)             # the same choice of containers on both sides
    if hasattr(a, "_verif_width"):
        del a._verif_width                   # (the width of the old history says nothing about D)
    fresh._rng.rng.bit_generator.state = copy.deepcopy(a._rng.rng.bit_generator.state)
    refit = dict(op="fit", **scn["refit"])
    o1 = T.apply_op(a, refit)
    o2 = T.apply_op(fresh, refit)
    if o1 != o2:
        return "fit(D): refitted bandit %r, fresh bandit %r" % (o1, o2)
    if o1[0] != "ok":
        return None
    cont = scn["cont"] + [{"op": "cold"}]
    ra = T.apply_ops(a, cont)
    rb = T.apply_ops(fresh, cont)
    diff = T.first_diff(ra, rb, _tol(scn["cfg"]))
    if diff:
        return "after fit(D), step %d (%s): refitted %r vs fresh %r" % (diff[0], cont[diff[0]]["op"], diff[1], diff[2])
    return None


# ------------------------------------------------------------------ C09 predict = argmax of expectations

def cold_first_scenario(rng, g):
    """an arm listed first is never observed, then warm started from a later arm (ties with its source)"""
    arms = g.arms
    others = arms[1:]
    n = rng.choice([3, 5, 8])
    d = [rng.choice(others) for _ in range(n)]
    sign = rng.choice([1, 1, -1])
    r = [sign * abs(G.gen_reward(rng, g.lpk, g.binz)) if g.lpk != "thompson" else rng.choice([0, 1]) for _ in range(n)]
    c = [G.gen_row(rng, g.d) for _ in range(n)] if g.contextual else None
    dim = 2
    feats = [[a, [float(rng.randint(-3, 3)) for _ in range(dim)]] for a in arms]
    feats[0][1] = list(feats[rng.randrange(1, len(arms))][1])       # duplicate vector: distance 0 to its source
    if all(x == 0 for x in feats[0][1]):
        feats[0][1] = [1.0, 2.0]
        feats[1][1] = [1.0, 2.0]
    ops = [{"op": "fit", "d": d, "r": r, "c": c}, {"op": "warm", "feats": feats, "q": 1.0}]
    g.stored = list(c or [])
    g.fitted = True
    return ops


def gen_c09(seed, index):
    prof = {"name": "C09", "lp": ALL_LP, "np": [None, None] + G.NP_KINDS,
            "weights": {"fit": 1, "pfit": 3, "query": 1, "add": 1.5, "rem": 1, "warm": 0.5}, "end_query": False}
    if index % 10 == 3:
        # the first arm is never observed; the live bandit predicts; a warm start gives the first arm the state of a later arm
        # (an exact tie with its source): the prediction must be the first arm from then on
        kinds = ["ucb", "greedy", "linucb", "ucb", "softmax", "thompson", "lingreedy", "popularity"]
        rng, g = _gen(seed, index, dict(prof, name="C09w", np=[None], lp=[kinds[(index // 10) % len(kinds)]], n_arms=[2, 3, 4]))
        if "eps" in g.cfg["lp"]:
            g.cfg["lp"]["eps"] = 0.0
        ops = cold_first_scenario(rng, g)
        g.ops = []
        g.op_query("pred")
        ops = [ops[0]] + g.ops + [ops[1]]
        g.ops = []
        g.op_query("pexp")
        return {"cfg": g.cfg, "ops": ops, "queries": g.ops}
    if index % 10 == 7:
        # many arms (more than any block size of 16), only the first few observed and those below zero: every other
        # arm ties exactly at the expectation of a never-observed arm, and the *first* of them must be predicted
        rng, g = _gen(seed, index, dict(prof, name="C09m", np=[None, None, "knn"], lp=["linucb", "lingreedy", "ucb", "greedy", "linucb"]))
        if "eps" in g.cfg["lp"]:
            g.cfg["lp"]["eps"] = 0.0
        arms = [100 + 3 * i for i in range(24)] if index % 20 == 7 else ["item-%02d" % i for i in range(24)]
        g.arms = list(arms)
        g.spare = []
        g.cfg["arms"] = list(arms)
        if g.cfg.get("np"):
            g.cfg["np"]["kk"] = 2
        d, r, c = g.batch(12, allow_unknown=False)
        d = [arms[i % 3] for i in range(len(d))]
        r = [-5 - abs(x) for x in r]
        g.stored = list(c or [])
        g.fitted = True
        g.ops = []
        g.op_query("pexp")
        return {"cfg": g.cfg, "ops": [{"op": "fit", "d": d, "r": r, "c": c}], "queries": g.ops}
    if index % 10 == 9:
        # every observed arm far below zero, the live bandit predicts, then an arm arrives that is never observed (its
        # expectation 0 is the unique maximum for the deterministic policies): nothing a prediction left behind may
        # outlive the arm change
        rng, g = _gen(seed, index, dict(prof, name="C09n", np=[None], lp=["ucb", "greedy", "linucb", "lingreedy", "ucb", "softmax"]))
        if "eps" in g.cfg["lp"]:
            g.cfg["lp"]["eps"] = 0.0
        d, r, c = g.batch(rng.choice([4, 8, 12]), allow_unknown=False)
        d = [g.arms[i % len(g.arms)] for i in range(len(d))]
        r = [-50 - abs(x) for x in r]
        ops = [{"op": "fit", "d": d, "r": r, "c": c}]
        g.stored = list(c or [])
        g.fitted = True
        g.ops = []
        g.op_query("pred")
        if not g.spare:
            g.spare = ["zz-late"] if isinstance(g.arms[0], str) else [987]
        g.op_add()
        if rng.random() < 0.3:
            g.op_query("pexp")
        ops += g.ops
        g.ops = []
        g.op_query("pexp")
        return {"cfg": g.cfg, "ops": ops, "queries": g.ops}
    rng, g = _gen(seed, index, prof)
    if g.npk is None and g.lpk in G.WARM_OK and len(g.arms) >= 2 and rng.random() < 0.3:
        ops = cold_first_scenario(rng, g)
        if rng.random() < 0.6:
            # the live bandit answers a query between training and the warm start (anything a prediction
            # caches must be invalidated by the warm start)
            g.ops = []
            g.op_query(rng.choice(["pred", "pred", "pexp"]))
            ops = [ops[0]] + g.ops + [ops[1]]
        g.ops = []
        g.op_query("pexp")
        return {"cfg": g.cfg, "ops": ops, "queries": g.ops}
    # exact ties on purpose: equal rewards for all arms in some scenarios
    scn = g.build()
    if rng.random() < 0.3:
        for op in scn["ops"]:
            if op["op"] in ("fit", "pfit"):
                op["r"] = [1 for _ in op["r"]]
    r3 = random.Random("%s/C09-small/%s" % (seed, index))
    u3 = r3.random()
    if g.lpk != "thompson" and u3 < 0.2:
        for op in scn["ops"]:
            if op["op"] in ("fit", "pfit"):
                if u3 < 0.1:
                    # tiny rewards: differences far below any "reasonable" rounding of the expectations
                    op["r"] = [x * 2.0 ** -40 if isinstance(x, (int, float)) else x for x in op["r"]]
                else:
                    # decimal rewards: means that are equal in exact arithmetic and an ulp apart in floating point
                    op["r"] = [r3.choice([0.1, 0.2, 0.3, 0.2]) for _ in op["r"]]
    g.ops = []
    # often finish the history with an arm change and a warm start right before the queries
    if g.npk is None and rng.random() < 0.5:
        if rng.random() < 0.7:
            g.op_add()
        g.op_warm()
    r2 = random.Random("%s/C09-live/%s" % (seed, index))
    if r2.random() < 0.3:
        # the live bandit answers a prediction, then an arm arrives that is never observed: whatever the prediction
        # left behind must not outlive the arm change; with all-negative rewards the new arm (expectation 0) is the best
        if g.lpk not in ("thompson", "popularity") and r2.random() < 0.6:
            for op in scn["ops"]:
                if op["op"] in ("fit", "pfit"):
                    op["r"] = [-abs(x) - 1 if isinstance(x, (int, float)) else x for x in op["r"]]
        keep = g.ops
        g.ops = []
        g.op_query("pred")
        g.op_add()
        g.ops = keep + g.ops if r2.random() < 0.3 else g.ops
    tail = g.ops
    g.ops = []
    g.op_query("pexp")
    return {"cfg": scn["cfg"], "ops": scn["ops"] + tail, "queries": g.ops}


def gen_c09_large(seed, index):
    """one query batch of 2^k + 1 rows on a randomised policy: `predict` and `predict_expectations` must see the
    same draws however many rows there are (block-wise processing on one side only would change them)"""
    rng = random.Random("%s/C09-large/%s" % (seed, index))
    kinds = ["lingreedy", "lints", "lingreedy", "lints", "greedy", "thompson", "softmax", "linucb"]
    lpk = kinds[index % len(kinds)]
    lp = G.gen_lp(rng, lpk)
    if "eps" in lp:
        lp["eps"] = 0.5
    npk = None if lpk in G.LIN_KINDS or index % 3 else rng.choice(["radius", "knn", "clusters"])
    arms = [1, 2, 3, 4]
    d = 2
    npc = G.gen_np(rng, npk, len(arms), d)
    if npc and npc["k"] == "radius":
        npc["probs"] = None
        npc["r"] = 3.0
    n = 16
    train_arms = arms[:3]                      # the last arm never receives data
    fit = {"op": "fit", "d": [rng.choice(train_arms) for _ in range(n)],
           "r": [rng.choice([0, 1]) for _ in range(n)],
           "c": [[float(rng.randint(0, 4)) for _ in range(d)] for _ in range(n)] if (npk or lpk in G.LIN_KINDS) else None}
    m = rng.choice([1025, 1025, 2049, 1024, 513])
    if lpk not in G.LIN_KINDS and npk is None:
        m = rng.choice([1025, 2049])          # (the context-free policies appear once per eight scenarios)
    contextual = fit["c"] is not None
    # (context-free policies accept contexts too: one result per row)
    q = {"op": "pexp", "c": [[float(rng.randint(0, 4)) for _ in range(d)] for _ in range(m)] if (contextual or index % 2 == 0) else None}
    cfg = {"lp": lp, "np": npc, "arms": arms, "seed": rng.randint(0, 10 ** 6), "binz": None, "n_jobs": 1}
    return {"cfg": cfg, "ops": [fit], "queries": [q]}


def argmax_first(d):
    best = None
    for k, v in d:
        if best is None or (v > best[1]):
            best = (k, v)
    return best[0]


@twin("predict_vs_expectations")
@T.quiet
def predict_vs_expectations(scn):
    cfg = scn["cfg"]
    if (cfg.get("np") or {}).get("k") == "tree" and cfg["lp"]["k"] == "greedy" and cfg["lp"]["eps"] > 0:
        return None   # exploration defined only inside predict (excluded by the property)
    T.register_labels(scn)
    a = S.make_mab(cfg)
    T.apply_ops(a, scn["ops"])
    for q in scn["queries"]:
        p = copy.deepcopy(a)
        e = copy.deepcopy(a)
        rp = T.apply_op(p, dict(q, op="pred"))
        re = T.apply_op(e, dict(q, op="pexp"))
        if rp[0] != re[0]:
            return "predict %r but predict_expectations %r" % (rp, re)
        if rp[0] != "ok":
            continue
        preds = rp[1] if isinstance(rp[1], list) else [rp[1]]
        exps = re[1] if (re[1] and isinstance(re[1][0], list)) else [re[1]]
        if len(preds) != len(exps):
            return "predict returned %d results, predict_expectations %d" % (len(preds), len(exps))
        arms = T.canon(list(a.arms))
        for i, (pa, ed) in enumerate(zip(preds, exps)):
            if pa not in arms:
                return "row %d: predicted %r is not a current arm" % (i, pa)
            vals = [v for _, v in ed]
            if any(isinstance(v, float) and v != v for v in vals):
                continue   # empty neighbourhood: NaN expectations, arm drawn from the configured distribution
            if pa != argmax_first(ed):
                return "row %d: predict %r but first arg-max of expectations is %r (%r)" % (i, pa, argmax_first(ed), ed)
    return None


# ------------------------------------------------------------------ C10 prediction is read-only

def gen_c10(seed, index):
    prof = {"name": "C10", "lp": ALL_LP, "np": [None, None] + G.NP_KINDS,
            "weights": {"fit": 1, "pfit": 3, "query": 0, "add": 1.5, "rem": 1, "warm": 0.5}, "end_query": False,
            "n_ops": (1, 5)}
    if index % 25 == 3:
        # TreeBandit leaves with hundreds of rewards: query, append to the leaves, query
        h = gen_huge(seed, index, ["tree"], "C10", sizes=[(2400, 40, 65)])
        h["cfg"]["lp"] = {"k": "ucb", "alpha": 1.0} if index % 50 == 3 else h["cfg"]["lp"]
        h["cfg"]["arms"] = [1, 2]
        for op in h["ops"]:
            if op["op"] in ("fit", "pfit"):
                op["d"] = [1 + (i % 2) for i in range(len(op["d"]))]
        return {"cfg": h["cfg"], "ops": [h["ops"][0]], "queries": [dict(h["ops"][1], c=h["ops"][1]["c"][:20])],
                "cont": [h["ops"][2], dict(h["ops"][3], c=h["ops"][3]["c"][:20]), dict(h["ops"][4], c=h["ops"][4]["c"][:20])]}
    if index % 25 == 8:
        # contexts far from the origin (2^27 + small integers, exact in double precision, equal in single precision):
        # two different rows queried one after the other, no training in between
        rng = random.Random("%s/C10-off/%s" % (seed, index))
        npc = G.gen_np(rng, rng.choice(["knn", "radius"]), 3, 2)
        if npc["k"] == "radius":
            npc["probs"] = None
            npc["r"] = 1.5
            npc["metric"] = "euclidean"
        else:
            npc["kk"] = 1
        off = 2.0 ** 27
        pts = [[off + float(rng.randint(0, 6)), off + float(rng.randint(0, 6))] for _ in range(30)]
        arms = [1, 2, 3]
        fit = {"op": "fit", "d": [arms[i % 3] for i in range(30)], "r": [float(rng.choice([0, 1, 2, 5])) for _ in range(30)], "c": pts}
        q1 = {"op": "pexp", "c": [list(pts[0])]}
        q2 = {"op": "pexp", "c": [[pts[0][0] + 3.0, pts[0][1] + 2.0]]}
        cfg = {"lp": _det_lp(rng, linear_ok=False), "np": npc, "arms": arms, "seed": rng.randint(0, 10 ** 6), "binz": None, "n_jobs": 1}
        return {"cfg": cfg, "ops": [fit], "queries": [q1], "cont": [q2, dict(q2, op="pred"), q1]}
    rng, g = _gen(seed, index, prof)
    if index % 5 == 0:
        # every fifth scenario: a policy without neighbourhood policy that supports warm start, kinds in turn
        rng, g = _gen(seed, index, dict(prof, lp=[G.WARM_OK[(index // 5) % len(G.WARM_OK)]], np=[None]))
    if g.npk is None and g.lpk in G.WARM_OK and len(g.arms) >= 2 and (index % 5 == 0 or rng.random() < 0.25):
        # train, answer queries, then warm start a cold arm and query again: whatever a prediction caches must be
        # invalidated by the warm start
        ops = cold_first_scenario(rng, g)
        g.ops = []
        for _ in range(rng.randint(1, 2)):
            g.op_query()
        queries = g.ops
        g.ops = []
        g.op_query("pexp")
        g.op_query("pred")
        return {"cfg": dict(g.cfg, n_jobs=1), "ops": ops[:1], "queries": queries, "cont": ops[1:] + g.ops}
    scn = g.build()
    g.ops = []
    for _ in range(rng.randint(1, 4)):
        g.op_query()
    queries = g.ops
    g.ops = []
    for _ in range(rng.randint(1, 5)):
        k = rng.choice(["pfit", "pfit", "query", "query", "add", "rem", "warm", "swap"])
        if k == "swap":
            n0 = len(g.ops)
            g.op_rem()
            if len(g.ops) > n0:
                g.op_add()
                g.op_query(rng.choice(["pred", "pexp"]))
            continue
        {"pfit": lambda: g.op_train("pfit"), "query": g.op_query, "add": g.op_add, "rem": g.op_rem, "warm": g.op_warm}[k]()
    g.op_query("pexp")
    return {"cfg": dict(scn["cfg"], n_jobs=rng.choice([1, 1, 2])), "ops": scn["ops"], "queries": queries, "cont": g.ops}


@twin("queried_vs_unqueried")
@T.quiet
def queried_vs_unqueried(scn):
    T.register_labels(scn)
    a = S.make_mab(scn["cfg"])
    T.apply_ops(a, scn["ops"])
    u = copy.deepcopy(a)
    T.apply_ops(a, scn["queries"])
    T.sync_rngs(u, a)
    cont = scn["cont"] + [{"op": "cold"}, {"op": "arms"}]
    ra = T.apply_ops(a, cont)
    ru = T.apply_ops(u, cont)
    diff = T.first_diff(ra, ru, 0.0)
    if diff:
        return "continuation step %d (%s): queried bandit %r vs never-queried copy %r" % (
            diff[0], cont[diff[0]]["op"], diff[1], diff[2])
    return None


# ------------------------------------------------------------------ C19 copies and pickles

def gen_c19(seed, index):
    prof = {"name": "C19", "lp": ALL_LP, "np": [None, None] + G.NP_KINDS,
            "weights": {"fit": 1, "pfit": 3, "query": 2, "add": 1.5, "rem": 1, "warm": 1}, "end_query": False,
            "n_ops": (0, 6)}
    rng, g = _gen(seed, index, prof)
    if g.lpk in G.LIN_KINDS and rng.random() < 0.35:
        g.cfg["lp"]["scale"] = True         # per-arm StandardScaler objects are part of the state to be copied
    if rng.random() < 0.12:
        scn = {"cfg": g.cfg, "ops": []}      # copy before the first fit
    else:
        scn = g.build()
    g.ops = []
    if not g.fitted:
        g.op_train("fit")
    for _ in range(rng.randint(1, 5)):
        k = rng.choice(["pfit", "query", "query", "add", "rem", "warm"])
        {"pfit": lambda: g.op_train("pfit"), "query": g.op_query, "add": g.op_add, "rem": g.op_rem, "warm": g.op_warm}[k]()
    g.op_query("pexp")
    return {"cfg": scn["cfg"], "ops": scn["ops"], "cont": g.ops, "how": rng.choice(["deepcopy", "pickle2", "pickle3", "pickle4", "pickle5"])}


def gen_c19_large(seed, index):
    """histories of 2^k + 1 .. 2^(k+1) stored rows (k = 7, 8) under the policies that keep row positions or whole
    histories: whatever representation a copy / pickle chooses for positions and rows must hold all of them"""
    rng = random.Random("%s/C19-large/%s" % (seed, index))
    npk = ["lsh", "lsh", "knn", "radius", "clusters", "lsh"][index % 6]
    lpk = rng.choice(["ucb", "greedy", "softmax", "thompson", "linucb"])
    lp = G.gen_lp(rng, lpk)
    arms = [1, 2, 3]
    d = 2
    npc = G.gen_np(rng, npk, len(arms), d)
    if npc["k"] in ("radius", "lsh"):
        npc["probs"] = None
    ns = [129, 200, 256, 257, 300, 130, 1025, 1777, 2500]
    n = ns[(index + index // 6) % len(ns)]           # every policy meets every length over the indices
    rng.random()
    rew = (lambda: rng.choice([0, 1])) if lpk == "thompson" else (lambda: rng.choice([0, 1, 2, 3, 5]))
    rows = [[float(rng.randint(0, 6)), float(rng.randint(0, 6))] for _ in range(n)]
    if index % 4 == 1 and lpk != "thompson":
        # money with cents, coordinates with a large offset: every value near a whole number relative to its magnitude
        rew = lambda: 100000.0 + rng.choice([0, 1, 2, 3, 5]) + rng.choice([0.77, 0.25, 0.5, 0.01])          # noqa: E731
        rows = [[2500000.0 + x + 0.372, 2500000.0 + y + 0.5] for x, y in rows]
    fit = {"op": "fit", "d": [rng.choice(arms) for _ in range(n)], "r": [rew() for _ in range(n)], "c": rows}
    q = {"op": "pexp", "c": [list(rows[i]) for i in (0, n // 2, n - 1, n - 2, n // 3, (2 * n) // 3)] + [[3.0, 3.0]]}
    more = {"op": "pfit", "d": [rng.choice(arms) for _ in range(5)], "r": [rew() for _ in range(5)],
            "c": [list(rows[rng.randrange(n)]) for _ in range(5)]}
    cfg = {"lp": lp, "np": npc, "arms": arms, "seed": rng.randint(0, 10 ** 6), "binz": None, "n_jobs": 1}
    return {"cfg": cfg, "ops": [fit], "cont": [dict(q), dict(q, op="pred"), more, dict(q)],
            "how": ["deepcopy", "pickle2", "pickle4", "pickle5", "pickle3"][index % 5]}


def _clone(mab, how):
    if how == "deepcopy":
        return copy.deepcopy(mab)
    return pickle.loads(pickle.dumps(mab, protocol=int(how[-1])))


@twin("copy_vs_original")
@T.quiet
@T.plain_rng
def copy_vs_original(scn):
    T.register_labels(scn)
    a = S.make_mab(scn["cfg"])
    T.apply_ops(a, scn["ops"])
    try:
        c = _clone(a, scn["how"])
    except Exception as e:  # noqa: BLE001
        return "%s of the bandit raised %r" % (scn["how"], e)
    ref = copy.deepcopy(a) if scn["how"] != "deepcopy" else pickle.loads(pickle.dumps(a))
    cont = scn["cont"] + [{"op": "cold"}, {"op": "arms"}]
    rc = T.apply_ops(c, cont)          # using the copy first must not affect the original
    ra = T.apply_ops(a, cont)
    rr = T.apply_ops(ref, cont)
    diff = T.first_diff(ra, rc, 0.0)
    if diff:
        return "%s: continuation step %d (%s): original %r vs restored copy %r" % (
            scn["how"], diff[0], cont[diff[0]]["op"], diff[1], diff[2])
    diff = T.first_diff(ra, rr, 0.0)
    if diff:
        return "using the %s copy changed the original: step %d (%s): %r vs reference %r" % (
            scn["how"], diff[0], cont[diff[0]]["op"], diff[1], diff[2])
    return None


# ------------------------------------------------------------------ C17 a rejected call changes nothing

BAD_PROFILE = {"name": "C17", "allow_scale": True, "lp": ALL_LP, "np": [None, None] + G.NP_KINDS,
               "weights": {"fit": 1, "pfit": 3, "query": 3, "add": 1, "rem": 0.7, "warm": 0.5, "bad": 3},
               "n_ops": (3, 9)}


FIRST_CALL_PROFILE = dict(BAD_PROFILE, name="C17f", np=["clusters"], bad_classes=["few_rows"])


def gen_c17(seed, index):
    if index % 25 == 7:
        # the very first training call is a partial_fit that is rejected from inside training
        # (fewer rows than clusters); then a valid history
        rng, g = _gen(seed, index, FIRST_CALL_PROFILE)
        for _ in range(20):
            if g.op_bad() == "few_rows":
                break
        if g.ops and g.ops[-1].get("bad") == "few_rows":
            g.ops[-1]["op"] = "pfit"
        first = list(g.ops)
        g.ops = []
        scn = g.build()
        scn["ops"] = first + [o for o in scn["ops"] if not o.get("bad")]
        return scn
    if index % 25 == 13:
        # pandas containers; a partial_fit rejected from inside training whose contexts have another number of columns
        # (one column against several, or several against one), then *Series* queries: the facade tells "one row of d
        # features" from "d rows of one feature" by what the bandit was trained with, and a rejected call is no training
        rng, g = _gen(seed, index, SERIES_PROFILE)
        g.cfg["as_pandas"] = True
        g.op_train("fit")
        for _ in range(rng.choice([0, 1])):
            g.op_train("pfit")
        d, r, _c = g.batch(rng.choice([1, 2, 4]), allow_unknown=False)
        w = 1 if g.d > 1 else rng.choice([2, 3])
        g.ops.append({"op": "pfit", "d": d, "r": r, "c": [[float(rng.randint(0, 4)) for _ in range(w)] for _ in d],
                      "bad": "width"})
        for _ in range(3):
            rows = g.query_rows(1 if g.d > 1 else rng.choice([2, 3, 5]))
            g.ops.append({"op": rng.choice(["pexp", "pred"]), "c": rows})
        g.op_train("pfit")
        g.op_query()
        return {"cfg": g.cfg, "ops": g.ops}
    if index % 25 == 19:
        # a rejection that is only discovered deep inside a large call: a non-finite reward in row 600 of 700; or a call
        # with another number of columns on a bandit that stores more than 2^13 context values
        rng = random.Random("%s/C17-large/%s" % (seed, index))
        late = index % 50 == 19
        npk = rng.choice([None, "knn", "radius", "lsh"]) if late else rng.choice(["knn", "radius", "lsh"])
        lpk = rng.choice(["greedy", "ucb", "thompson", "linucb"]) if npk is None else rng.choice(["greedy", "ucb", "thompson"])
        lp = G.gen_lp(rng, lpk)
        if "eps" in lp:
            lp["eps"] = 0.0
        arms = [1, 2, 3]
        d = 3 if late else 12
        npc = G.gen_np(rng, npk, len(arms), d)
        if npc and npc["k"] in ("radius", "lsh"):
            npc["probs"] = None
        if npc and npc["k"] == "radius":
            npc["r"] = 2.0
        rew = (lambda: rng.choice([0, 1])) if lpk == "thompson" else (lambda: rng.choice([0, 1, 2, 5]))
        ctxual = npk is not None or lpk in G.LIN_KINDS

        def batch(k, w=d):
            return {"d": [rng.choice(arms) for _ in range(k)], "r": [rew() for _ in range(k)],
                    "c": [[float(rng.randint(0, 4)) for _ in range(w)] for _ in range(k)] if ctxual else None}
        q = {"op": "pexp", "c": [[float(rng.randint(0, 4)) for _ in range(d)] for _ in range(3)] if ctxual else None}
        if late:
            bad = dict(batch(700), op="pfit", bad="nonfinite")
            bad["r"][rng.choice([600, 512, 699])] = rng.choice(["nan", "inf", None])
            ops = [dict(batch(30), op="fit"), dict(q), bad, dict(q), dict(batch(5), op="pfit"), dict(q)]
        else:
            bad = dict(batch(4, w=d + 1), op="pfit", bad="width")
            ops = [dict(batch(700), op="fit"), dict(q), bad, dict(q), dict(batch(6), op="pfit"), dict(q), {"op": "pred", "c": q["c"]}]
        return {"cfg": {"lp": lp, "np": npc, "arms": arms, "seed": rng.randint(0, 10 ** 6), "binz": None, "n_jobs": 1}, "ops": ops}
    rng, g = _gen(seed, index, BAD_PROFILE)
    scn = g.build()
    return scn


SERIES_PROFILE = dict(BAD_PROFILE, name="C17p", np=["radius", "knn", "lsh"], allow_scale=False)

SCALED_BAD_PROFILE = {"name": "C17s", "lp": list(G.LIN_KINDS), "np": [None],
                      "weights": {"fit": 1, "pfit": 3, "query": 3, "add": 2, "rem": 0.7, "warm": 0.3, "bad": 4},
                      "bad_classes": ["width", "width", "nonfinite", "len_ctx", "len_rewards"], "n_ops": (3, 9)}


def gen_c17_scaled(seed, index):
    """linear policies with scale=True (per-arm scalers are learned state too); implementation-only relation"""
    rng, g = _gen(seed, index, SCALED_BAD_PROFILE)
    scn = g.build()
    scn["cfg"] = dict(scn["cfg"], lp=dict(scn["cfg"]["lp"], scale=True))
    return scn


@twin("rejected_vs_never_made")
@T.quiet
def rejected_vs_never_made(scn):
    """run the history; at every op marked bad: it must raise, and the continuation on the bandit
    must equal the continuation on a deep copy taken before the rejected call"""
    T.register_labels(scn)
    ops = scn["ops"]
    for i, op in enumerate(ops):
        if not op.get("bad"):
            continue
        a = S.make_mab(scn["cfg"])
        T.apply_ops(a, [o for o in ops[:i] if not o.get("bad")])
        u = copy.deepcopy(a)
        arms_before = T.canon(list(a.arms))
        res = T.apply_op(a, op)
        if res[0] != "raised":
            # not rejected by the library: outside the property (reported as a statistic by the caller)
            continue
        if T.canon(list(a.arms)) != arms_before:
            return "rejected %s (%s) changed the arm list: %r -> %r" % (op["op"], op["bad"], arms_before, T.canon(list(a.arms)))
        cont = [o for o in ops[i + 1:] if not o.get("bad")] + [{"op": "cold"}, {"op": "arms"}]
        ra = T.apply_ops(a, cont)
        ru = T.apply_ops(u, cont)
        diff = T.first_diff(ra, ru, 0.0)
        if diff:
            return "after rejected %s (%s, raised %s) continuation step %d (%s): bandit %r vs copy taken before the call %r" % (
                op["op"], op["bad"], res[1], diff[0], cont[diff[0]]["op"], diff[1], diff[2])
    return None


# ------------------------------------------------------------------ C05 n_jobs / backend / partition independence

# metrics whose value for one (stored row, query row) pair depends on *other* rows when they are computed for a
# batch (scipy derives the variances / the inverse covariance from the stacked inputs), or that are not covered by
# the exact metrics of the model: used in implementation-vs-implementation relations only
DATA_METRICS = ["seuclidean", "mahalanobis", "seuclidean", "mahalanobis", "canberra", "braycurtis", "cosine", "correlation",
                "minkowski"]


def data_metric(rng, npc, prob):
    if npc and npc.get("k") in ("radius", "knn") and rng.random() < prob:
        npc["metric"] = rng.choice(DATA_METRICS)
        if npc["k"] == "radius":
            npc["r"] = rng.choice([0.5, 1.0, 1.5, 2.0, 3.0])
    return npc


def gen_c05(seed, index):
    prof = {"name": "C05", "lp": ALL_LP, "np": [None] + G.NP_KINDS + G.NP_KINDS,
            "weights": {"fit": 1, "pfit": 2, "query": 3, "add": 1, "rem": 0.5, "warm": 0.3},
            "query_sizes": [1, 2, 3, 4, 5, 7, 9], "n_ops": (3, 8)}
    rng, g = _gen(seed, index, prof)
    scn = g.build()
    data_metric(rng, scn["cfg"].get("np"), 0.3)
    scn["jobs"] = rng.choice([2, 3, 4, -1, 10 ** 6])
    scn["backend"] = rng.choice([None, "threading", "threading", "threading", "threading"])
    if scn["backend"] is None:
        scn["jobs"] = rng.choice([2, 3])      # process pools: keep the number of workers small
    return scn


def gen_c05_large(seed, index):
    """query batches of 2^k + 1 rows under several workers"""
    scn = gen_c08_large(seed, 7000 + index)
    rng = random.Random("%s/C05-large/%s" % (seed, index))
    lp = scn["cfg"]["lp"]
    if (scn["cfg"].get("np") or {}).get("k") != "tree" and rng.random() < 0.5:
        lp = G.gen_lp(rng, rng.choice(["thompson", "softmax"]))
        scn["ops"][0]["r"] = [rng.choice([0, 1]) for _ in scn["ops"][0]["r"]]
    scn["cfg"] = dict(scn["cfg"], lp=lp, n_jobs=1)
    scn["cfg"].pop("backend", None)
    scn["jobs"] = rng.choice([2, 3, 4])
    scn["backend"] = "threading"
    return scn


def gen_c05_readd(seed, index):
    """worker processes see a pickled copy of the bandit, in-process workers the bandit itself: anything a query leaves
    on the bandit would separate the two. History: train, query, remove an arm, add it again under the same label,
    train it again with rows of the same shape (same number of rows per arm, so equal leaf/bucket sizes) but other
    rewards, query. Compared: n_jobs=1 against a process pool."""
    rng = random.Random("%s/C05-readd/%s" % (seed, index))
    npk = ["tree", "tree", "knn", "radius", "lsh", "clusters"][index % 6]
    lpk = rng.choice(["ucb", "ucb", "greedy"] if npk == "tree" else ["ucb", "greedy", "softmax", "thompson", "linucb", "lints"])
    lp = G.gen_lp(rng, lpk)
    if "eps" in lp:
        lp["eps"] = 0.0
    arms = [1, 2, 3]
    d = 2
    npc = G.gen_np(rng, npk, len(arms), d)
    if npc["k"] == "radius":
        npc["probs"] = None
    if npc["k"] == "lsh":
        npc["probs"] = None
    if npc["k"] == "clusters":
        npc["n"] = 2
    k = rng.choice([2, 3, 4])
    rew = (lambda: rng.choice([0, 1])) if lpk == "thompson" else (lambda: rng.choice([0, 1, 2, 3, 5]))
    rows = [[float(rng.randint(0, 3)), float(rng.randint(0, 3))] for _ in range(k)]
    dd, rr, cc = [], [], []
    for a in arms:
        for x in rows:
            dd.append(a); rr.append(rew()); cc.append(list(x))          # noqa: E702
    q = {"op": "pexp", "c": [list(x) for x in rows] + [[1.0, 2.0]]}
    x = arms[-1]
    again = {"op": "pfit", "d": [x] * k, "r": [rew() + 1 for _ in range(k)] if lpk != "thompson" else [rng.choice([0, 1]) for _ in range(k)],
             "c": [list(r) for r in rows]}
    ops = [{"op": "fit", "d": dd, "r": rr, "c": cc}, dict(q), dict(q, op="pred"), {"op": "rem", "arm": x}, {"op": "add", "arm": x, "binz": None},
           again, dict(q), dict(q, op="pred")]
    cfg = {"lp": lp, "np": npc, "arms": arms, "seed": rng.randint(0, 10 ** 6), "binz": None, "n_jobs": 1}
    return {"cfg": cfg, "ops": ops, "jobs": 2, "backend": [None, "loky", "multiprocessing"][index % 3]}


def is_k3(cfg):
    """known finding K3: TreeBandit leaf policies / exploration draw from the bandit's main generator"""
    return (cfg.get("np") or {}).get("k") == "tree" and (
        cfg["lp"]["k"] == "thompson" or (cfg["lp"]["k"] == "greedy" and cfg["lp"]["eps"] > 0))


@twin("njobs_vs_one")
@T.quiet
@T.plain_rng
def njobs_vs_one(scn):
    T.register_labels(scn)
    a = S.make_mab(dict(scn["cfg"], n_jobs=1, backend=None))
    b = S.make_mab(dict(scn["cfg"], n_jobs=scn["jobs"], backend=scn.get("backend")))
    ops = scn["ops"] + [{"op": "cold"}, {"op": "arms"}]
    ra = T.apply_ops(a, ops)
    rb = T.apply_ops(b, ops)
    diff = T.first_diff(ra, rb, 0.0)
    if diff:
        return "step %d (%s): n_jobs=1 gives %r, n_jobs=%r backend=%r gives %r" % (
            diff[0], ops[diff[0]]["op"], diff[1], scn["jobs"], scn.get("backend"), diff[2])
    return None


@twin("chunk_vs_rows")
@T.quiet
def chunk_vs_rows(scn):
    """`_predict_contexts` on a whole batch vs on each row alone with the same seeds"""
    cfg = scn["cfg"]
    if not cfg.get("np"):
        return None
    T.register_labels(scn)
    a = S.make_mab(cfg)
    T.apply_ops(a, [op for op in scn["ops"] if op["op"] not in ("pexp", "pred")])
    imp = a._imp
    if not a._is_initial_fit:
        return None
    for q in [op for op in scn["ops"] if op["op"] in ("pexp", "pred")][:3]:
        rows = np.asarray(q["c"], dtype=float)
        if rows.ndim != 2 or len(rows) < 2:
            continue
        seeds = np.arange(1000, 1000 + len(rows))
        is_predict = q["op"] == "pred"
        st = T.rng_states(a)
        whole_err = None
        try:
            whole = T.canon(imp._predict_contexts(rows, is_predict, seeds, 0))
        except Exception as e:  # noqa: BLE001
            if "shape" in str(e) or "dimension" in str(e):
                return None
            whole_err = e
        # restore the bandit's own streams (TreeBandit draws from them: known finding K3)
        for p, r in T.collect_rngs(a):
            r.rng.bit_generator.state = st[p]
        single, single_err = [], None
        for i in range(len(rows)):
            try:
                single.append(T.canon(imp._predict_contexts(rows[i:i + 1], is_predict, seeds[i:i + 1], i))[0])
            except Exception as e:  # noqa: BLE001
                single_err = e
                break
        for p, r in T.collect_rngs(a):
            r.rng.bit_generator.state = st[p]
        if whole_err is not None or single_err is not None:
            # the rows are handled one after the other: the batch is rejected iff some row alone is
            if (whole_err is None) != (single_err is None):
                return "whole-batch call %s, row-by-row calls %s" % (
                    "raised %r" % (whole_err,) if whole_err is not None else "succeeded",
                    "raised %r" % (single_err,) if single_err is not None else "succeeded")
            continue
        if not T.same(whole, single, 0.0):
            bad = [i for i, (x, y) in enumerate(zip(whole, single)) if not T.same(x, y, 0.0)]
            return "rows %r: _predict_contexts on the whole batch gives %r, row by row with the same seeds %r" % (
                bad, [whole[i] for i in bad[:2]], [single[i] for i in bad[:2]])
    return None


@twin("fit_task_orders")
@T.quiet
def fit_task_orders(scn):
    """per-arm `_fit_arm` tasks executed in different orders give the same model"""
    import itertools
    cfg = scn["cfg"]
    if cfg.get("np") and cfg["np"]["k"] != "tree":
        return None
    T.register_labels(scn)
    train = [op for op in scn["ops"] if op["op"] in ("fit", "pfit")]
    if not train:
        return None
    base = S.make_mab(cfg)
    T.apply_op(base, dict(train[0], op="fit"))
    if not base._is_initial_fit or len(train) < 2:
        return None
    op = train[1]
    d = np.asarray(op["d"])
    r = np.asarray(op["r"], dtype=float)
    c = None if op.get("c") is None else np.asarray(op["c"], dtype=float)
    arms = list(base.arms)
    orders = list(itertools.permutations(arms)) if len(arms) <= 3 else [tuple(arms), tuple(reversed(arms)),
                                                                           tuple(arms[1:] + arms[:1])]
    results = []
    for order in orders:
        m = copy.deepcopy(base)
        imp = m._imp
        if hasattr(imp, "total_count"):
            imp.total_count += len(d)
        try:
            for arm in order:
                imp._fit_arm(arm, d, r, c)
        except Exception:  # noqa: BLE001
            return None
        q = {"op": "pexp", "c": None if c is None else [list(map(float, c[0]))]}
        results.append(T.apply_op(m, q))
    for o, res in zip(orders[1:], results[1:]):
        if not T.same(res, results[0], 1e-12):
            return "task order %r gives %r, order %r gives %r" % (list(orders[0]), results[0], list(o), res)
    return None


# ------------------------------------------------------------------ C13 warm start laws

WARM_PROFILE = {"name": "C13", "allow_scale": True, "warm_readd": True, "lp": list(G.WARM_OK), "np": [None], "n_arms": [2, 3, 4, 5, 5],
                "weights": {"fit": 1, "pfit": 3, "query": 2, "add": 2.5, "rem": 0.7, "warm": 3}, "n_ops": (4, 11)}


def gen_c13(seed, index):
    rng, g = _gen(seed, index, WARM_PROFILE)
    scn = g.build()
    g.ops = []
    if rng.random() < 0.6:
        g.op_add()
    g.op_warm()
    if not g.ops or g.ops[-1]["op"] != "warm":
        g.op_warm()
    warm = [o for o in g.ops if o["op"] == "warm"][-1:]
    pre = [o for o in g.ops if o["op"] != "warm"]
    g.ops = []
    for _ in range(rng.randint(1, 3)):
        k = rng.choice(["pfit", "query", "query"])
        {"pfit": lambda: g.op_train("pfit"), "query": g.op_query}[k]()
    g.op_query("pexp")
    cfg = scn["cfg"]
    if cfg["lp"]["k"] in G.LIN_KINDS and rng.random() < 0.5:
        cfg = dict(cfg, lp=dict(cfg["lp"], scale=True))     # per-arm standardisation is part of the learned state
    return {"cfg": cfg, "ops": scn["ops"] + pre, "warm": warm[0] if warm else None, "cont": g.ops}


@twin("warm_start_laws")
@T.quiet
def warm_start_laws(scn):
    if not scn.get("warm"):
        return None
    T.register_labels(dict(scn, ops=scn["ops"] + [scn["warm"]]))
    a = S.make_mab(scn["cfg"])
    T.apply_ops(a, scn["ops"])
    if not a._is_initial_fit:
        return None
    cold0 = T.canon(list(a.cold_arms))
    once = copy.deepcopy(a)
    r1 = T.apply_op(once, scn["warm"])
    if r1[0] != "ok":
        # a rejected warm start must change nothing (C17); nothing more to check here
        return None
    cold1 = T.canon(list(once.cold_arms))
    snap = copy.deepcopy(once)        # the bandit right after the call
    if not set(map(repr, cold1)) <= set(map(repr, cold0)):
        return "cold_arms after warm_start %r is not a subset of cold_arms before %r" % (cold1, cold0)
    # repeating the call changes nothing
    twice = copy.deepcopy(once)
    T.apply_op(twice, scn["warm"])
    cont = scn["cont"] + [{"op": "cold"}]
    d = T.first_diff(T.apply_ops(once, cont), T.apply_ops(twice, cont), 0.0)
    if d:
        return "repeating warm_start changed the bandit: continuation step %d: once %r, twice %r" % (d[0], d[1], d[2])
    # the set of warm-started arms grows with the quantile
    prev = None
    for q in (0.0, 0.25, 0.5, 0.75, 1.0):
        b = copy.deepcopy(a)
        r = T.apply_op(b, dict(scn["warm"], q=q))
        if r[0] != "ok":
            continue
        cold = set(map(repr, T.canon(list(b.cold_arms))))
        if prev is not None and not cold <= prev[1]:
            return "cold arms at quantile %r (%r) not a subset of those at quantile %r (%r)" % (q, sorted(cold), prev[0], sorted(prev[1]))
        prev = (q, cold)
    # an arm warm started by the call holds an exact copy of a trained arm's learned state: for policies whose
    # expectations are deterministic it reports, for every context, exactly what some arm that was not cold reports
    lp = scn["cfg"]["lp"]
    det = lp["k"] in ("ucb", "linucb") or (lp["k"] in ("greedy", "lingreedy") and lp.get("eps", 0) == 0)
    warmed = [x for x in cold0 if repr(x) not in set(map(repr, cold1))]
    if det and warmed:
        probe = next((o for o in scn["cont"] if o["op"] == "pexp"), None)
        if probe is not None:
            res = T.apply_op(snap, probe)
            if res[0] == "ok":
                rows = res[1] if (res[1] and isinstance(res[1][0], list)) else [res[1]]
                sources = [k for k, _ in rows[0] if repr(k) not in set(map(repr, cold0))]
                for wa in warmed:
                    col = [dict((repr(k), v) for k, v in row)[repr(wa)] for row in rows]
                    if not any(all(dict((repr(k), v) for k, v in row)[repr(src)] == cv for row, cv in zip(rows, col))
                               for src in sources):
                        return "warm-started arm %r reports %r, which is not what any trained arm reports %r" % (wa, col, rows)
    return None


# ------------------------------------------------------------------ C03 / C11 / C12: neighbourhood = oracle-selected rows

DET_LP = ["greedy0", "ucb", "linucb", "lingreedy0"]


def _det_lp(rng, linear_ok=True):
    k = rng.choice(DET_LP if linear_ok else DET_LP[:2])
    if k == "greedy0":
        return {"k": "greedy", "eps": 0.0}
    if k == "ucb":
        return {"k": "ucb", "alpha": rng.choice([0.0, 0.5, 1.0])}
    if k == "linucb":
        return {"k": "linucb", "alpha": rng.choice([0.0, 0.5, 1.0]), "lam": rng.choice([1.0, 1.0, 2.0, 0.5])}
    return {"k": "lingreedy", "eps": 0.0, "lam": rng.choice([1.0, 2.0, 0.5])}


def gen_nhood(seed, index, np_kinds, name):
    if "clusters" in np_kinds and index % 20 == 13:
        # two well separated groups of rows, fit twice: the second data set puts the same row *positions* into the same
        # clusters as the first, with other decisions and rewards (nothing keyed by positions may survive the fit)
        rng = random.Random("%s/%s-same-positions/%s" % (seed, name, index))
        arms = [1, 2, 3]
        k = rng.choice([4, 6])

        def data():
            c = [[float(rng.randint(0, 1)), float(rng.randint(0, 1))] for _ in range(k)] + \
                [[10.0 + rng.randint(0, 1), 10.0 + rng.randint(0, 1)] for _ in range(k)]
            return {"d": [rng.choice(arms) for _ in range(2 * k)], "r": [float(rng.choice([0, 1, 2, 5])) for _ in range(2 * k)], "c": c}
        q = {"op": "pexp", "c": [[0.0, 1.0], [10.0, 11.0]]}
        cfg = {"lp": _det_lp(rng, linear_ok=False), "np": {"k": "clusters", "n": 2, "mini": index % 40 == 13}, "arms": arms,
               "seed": rng.randint(0, 10 ** 6), "binz": None, "n_jobs": 1}
        return {"cfg": cfg, "ops": [dict(data(), op="fit"), dict(q), dict(data(), op="fit"), dict(q), {"op": "pred", "c": q["c"]}]}
    prof = {"name": name, "lp": ["greedy"], "np": np_kinds,
            "weights": {"fit": 1, "pfit": 3, "query": 3, "add": 1, "rem": 0.5, "warm": 0}, "n_ops": (2, 7),
            "unknown_labels": False}
    rng, g = _gen(seed, index, prof)
    g.cfg["lp"] = _det_lp(rng, linear_ok=(g.npk != "tree"))
    g.lpk = g.cfg["lp"]["k"]
    if g.npk == "radius" and rng.random() < 0.5:
        g.cfg["np"]["probs"] = None
    if g.npk == "lsh":
        # hashing is partitioned among workers too
        g.cfg["n_jobs"] = rng.choice([1, 2, 3])
        g.cfg["backend"] = "threading"
    scn = g.build()
    if g.npk == "tree" and rng.random() < 0.4:
        # large-magnitude features with small differences (unix timestamps): scikit-learn trees see float32 values,
        # so the leaf of a query is the leaf `tree.apply` reports, not the one a float64 comparison would give
        scale = rng.choice([97, 211, 389])
        for op in scn["ops"]:
            if op.get("c"):
                op["c"] = [[1.7e9 + v * scale + rng.randint(0, 90) for v in row] for row in op["c"]]
    return scn


def gen_huge(seed, index, np_kinds, name, det=True, sizes=None):
    """the same relations on long histories and many query rows: 1100 .. 2600 stored rows (beyond 2^10 and 2^11, not a
    multiple of any power of two), a further partial_fit, query batches of 65 / 520 rows (rows x queries beyond 2^20)"""
    rng = random.Random("%s/%s-huge/%s" % (seed, name, index))
    npk = np_kinds[index % len(np_kinds)]
    lp = _det_lp(rng, linear_ok=False) if det else G.gen_lp(rng, rng.choice(["thompson", "greedy", "softmax", "ucb"]))
    if not det and "eps" in lp:
        lp["eps"] = 0.5
    arms = [1, 2, 3]
    npc = G.gen_np(rng, npk, len(arms), 2)
    if npc["k"] in ("radius", "lsh"):
        npc["probs"] = None
    if npc["k"] == "radius":
        npc["r"] = 1.0
        npc["metric"] = rng.choice(["euclidean", "cityblock", "chebyshev"])
    if npc["k"] == "knn":
        npc["kk"] = rng.choice([1, 3, 40]) if not det else rng.choice([1, 3])
    if npc["k"] == "clusters":
        npc["n"] = rng.choice([3, 5])
    if npc["k"] == "tree":
        npc["params"] = {"max_depth": 1}
    sizes = sizes or [(1100, 30, 65), (2100, 513, 520), (2600, 30, 520), (1500, 700, 65)]
    n1, n2, m = sizes[(index + index // len(np_kinds)) % len(sizes)]        # every policy meets every size over the indices
    if npc["k"] == "knn" and det:
        pt = lambda: [round(rng.uniform(0, 12), 3), round(rng.uniform(0, 12), 3)]      # noqa: E731  (no ties)
    else:
        pt = lambda: [float(rng.randint(0, 12)), float(rng.randint(0, 12))]            # noqa: E731
    rew = (lambda: rng.choice([0, 1])) if lp["k"] == "thompson" else (lambda: rng.choice([0, 1, 2, 3, 5]))

    def batch(n):
        return {"d": [rng.choice(arms) for _ in range(n)], "r": [rew() for _ in range(n)], "c": [pt() for _ in range(n)]}
    q = [pt() for _ in range(m)]
    ops = [dict(batch(n1), op="fit"), {"op": "pexp", "c": q}, dict(batch(n2), op="pfit"), {"op": "pexp", "c": q},
           {"op": "pred", "c": q[:65]}]
    cfg = {"lp": lp, "np": npc, "arms": arms, "seed": rng.randint(0, 10 ** 6), "binz": None, "n_jobs": 1}
    return {"cfg": cfg, "ops": ops}


def _train_rows(scn, purge_on_remove=False):
    """the rows the bandit has stored after the history (fit replaces, partial_fit appends);
    TreeBandit drops an arm's tree and rewards on remove_arm (purge_on_remove)"""
    d, r, c = [], [], []
    fitted = False
    for op in scn["ops"]:
        if op["op"] == "fit" or (op["op"] == "pfit" and not fitted):
            d, r, c = list(op["d"]), list(op["r"]), list(op["c"])
            fitted = True
        elif op["op"] == "pfit":
            d += list(op["d"])
            r += list(op["r"])
            c += list(op["c"])
        elif op["op"] == "rem" and purge_on_remove:
            keep = [i for i in range(len(d)) if d[i] != op["arm"]]
            d, r, c = [d[i] for i in keep], [r[i] for i in keep], [c[i] for i in keep]
    return d, r, c


def readds_label(scn):
    """an `add_arm` of a label that may already have stored rows: it was removed earlier, or an
    earlier training batch named it while it was not an arm"""
    removed = set()
    trained = set()
    for op in scn["ops"]:
        if op["op"] == "rem" and not isinstance(op["arm"], dict):
            removed.add(repr(op["arm"]))
        elif op["op"] in ("fit", "pfit"):
            for x in op.get("d") or []:
                if not isinstance(x, dict):
                    trained.add(repr(x))
        elif op["op"] == "add" and (repr(op["arm"]) in removed or repr(op["arm"]) in trained):
            return True
    return False


def _fresh_expectations(cfg, arms, d, r, c, query):
    """expectations of the learning policy trained from scratch on exactly these rows"""
    from mabwiser.mab import MAB
    lp = S.make_lp(cfg["lp"], cfg.get("binz"))
    m = MAB(list(arms), lp, None, seed=cfg.get("seed", 1))
    if T.is_linear(cfg):
        m.fit(d, r, c)
        return T.canon(m.predict_expectations([query]))
    m.fit(d, r)
    return T.canon(m.predict_expectations())


def _dist(metric, x, y):
    from scipy.spatial.distance import cdist
    return float(cdist(np.asarray([x], dtype=float), np.asarray([y], dtype=float), metric=metric)[0][0])


@twin("nhood_vs_fresh_policy")
@T.quiet
def nhood_vs_fresh_policy(scn):
    """Radius / KNearest: expectations = learning policy trained from scratch on exactly the stored
    rows within the radius (boundary included) resp. the k nearest rows (any valid tie-break)"""
    cfg = scn["cfg"]
    npc = cfg["np"]
    T.register_labels(scn)
    a = S.make_mab(cfg)
    hist_ops = []
    for op in scn["ops"]:
        if op["op"] not in ("pexp", "pred"):
            T.apply_op(a, op)
            hist_ops.append(op)
            continue
        if not a._is_initial_fit:
            continue
        d, r, c = _train_rows({"ops": hist_ops})
        b = copy.deepcopy(a)
        res = T.apply_op(b, op)
        if res[0] != "ok":
            return "query raised %r" % (res,)
        rows = res[1] if (op["c"] and len(op["c"]) > 1) else [res[1]]
        arms = list(a.arms)
        for qi, q in enumerate(op["c"]):
            dists = [_dist(npc["metric"], x, q) for x in c]
            if npc["k"] == "radius":
                idx_sets = [[i for i, dd in enumerate(dists) if dd <= npc["r"]]]
            else:
                kk = npc["kk"]
                order = sorted(range(len(dists)), key=lambda i: (dists[i], i))
                dk = dists[order[kk - 1]]
                strict = [i for i in range(len(dists)) if dists[i] < dk]
                tied = [i for i in range(len(dists)) if dists[i] == dk]
                import itertools
                need = kk - len(strict)
                combos = list(itertools.islice(itertools.combinations(tied, need), 40))
                idx_sets = [sorted(strict + list(cb)) for cb in combos]
            got = rows[qi]
            if op["op"] == "pred":
                if idx_sets == [[]]:
                    probs = npc.get("probs")
                    if got not in T.canon(arms):
                        return "row %d: empty neighbourhood, predicted %r is not an arm" % (qi, got)
                    if probs and probs[T.canon(arms).index(got)] == 0:
                        return "row %d: empty neighbourhood, predicted arm %r has probability zero" % (qi, got)
                continue
            if idx_sets == [[]]:
                if not all(isinstance(v, float) and v != v for _, v in got) or [k for k, _ in got] != T.canon(arms):
                    return "row %d: empty neighbourhood but expectations are %r (expected NaN for every arm)" % (qi, got)
                continue
            ok = False
            exp = None
            for idx in idx_sets:
                exp = _fresh_expectations(cfg, arms, [d[i] for i in idx], [r[i] for i in idx], [c[i] for i in idx], q)
                if T.same(exp, got, 1e-9):
                    ok = True
                    break
            if not ok:
                return "row %d (query %r): expectations %r differ from the learning policy trained on the %d oracle-selected rows %r: %r" % (
                    qi, q, got, len(idx_sets[0]), idx_sets[0], exp)
    return None


@twin("lsh_vs_collisions")
@T.quiet
def lsh_vs_collisions(scn):
    """LSHNearest: neighbourhood = stored rows sharing the query's sign pattern in at least one table
    (planes read from the fitted bandit); scaling a query by c > 0 changes nothing"""
    cfg = scn["cfg"]
    T.register_labels(scn)
    a = S.make_mab(cfg)
    hist_ops = []
    for op in scn["ops"]:
        if op["op"] not in ("pexp", "pred"):
            T.apply_op(a, op)
            hist_ops.append(op)
            continue
        if not a._is_initial_fit or op["op"] != "pexp":
            continue
        d, r, c = _train_rows({"ops": hist_ops})
        planes = [np.asarray(p, dtype=float) for p in a._imp.table_to_plane.values()]
        b = copy.deepcopy(a)
        b2 = copy.deepcopy(a)
        res = T.apply_op(b, op)
        if res[0] != "ok":
            return "query raised %r" % (res,)
        # any positive factor, tiny ones included (powers of two: the products are exact)
        scale = [4.0, 2.0 ** -40, 2.0 ** -30, 2.0 ** 25, 0.5][(len(hist_ops) + len(op["c"])) % 5]
        res2 = T.apply_op(b2, dict(op, c=[[scale * x for x in row] for row in op["c"]]))
        if not T.is_linear(cfg) and not T.same(res, res2, 0.0):
            return "predict_expectations(%g * X) = %r differs from predict_expectations(X) = %r" % (scale, res2, res)
        rows = res[1] if len(op["c"]) > 1 else [res[1]]
        arms = list(a.arms)
        C = np.asarray(c, dtype=float)
        for qi, q in enumerate(op["c"]):
            qv = np.asarray(q, dtype=float)
            idx = set()
            ambiguous = False
            for P in planes:
                pq = qv @ P
                pc = C @ P
                if np.any(np.abs(pq) < 1e-9) and np.any(pq != 0):
                    ambiguous = True
                sq = pq > 0
                sc = pc > 0
                for i in range(len(c)):
                    if np.array_equal(sc[i], sq):
                        idx.add(i)
            if ambiguous:
                continue
            idx = sorted(idx)
            got = rows[qi]
            if not idx:
                if not all(isinstance(v, float) and v != v for _, v in got):
                    return "row %d: no collision but expectations are %r" % (qi, got)
                continue
            exp = _fresh_expectations(cfg, arms, [d[i] for i in idx], [r[i] for i in idx], [c[i] for i in idx], q)
            if not T.same(exp, got, 1e-9):
                return "row %d (query %r): expectations %r differ from the policy trained on the collision set %r: %r" % (qi, q, got, idx, exp)
    return None


@twin("cells_vs_fresh_policy")
@T.quiet
def cells_vs_fresh_policy(scn):
    """Clusters: policy trained on the rows of the query's k-means cell; TreeBandit: per arm, the
    statistic over that arm's rewards in the query's leaf of that arm's tree (0 without observations)"""
    import math
    cfg = scn["cfg"]
    npc = cfg["np"]
    T.register_labels(scn)
    a = S.make_mab(cfg)
    hist_ops = []
    # leaf bookkeeping for trees: rows per arm are assigned when they arrive (tree frozen at first data)
    for op in scn["ops"]:
        if op["op"] not in ("pexp", "pred"):
            T.apply_op(a, op)
            hist_ops.append(op)
            continue
        if not a._is_initial_fit or op["op"] != "pexp":
            continue
        d, r, c = _train_rows({"ops": hist_ops}, purge_on_remove=(npc["k"] == "tree"))
        b = copy.deepcopy(a)
        res = T.apply_op(b, op)
        if res[0] != "ok":
            return "query raised %r" % (res,)
        rows = res[1] if len(op["c"]) > 1 else [res[1]]
        arms = list(a.arms)
        C = np.ascontiguousarray(np.asarray(c, dtype=float))
        for qi, q in enumerate(op["c"]):
            got = rows[qi]
            if npc["k"] == "clusters":
                km = a._imp.kmeans
                labels = km.labels_
                cell = km.predict(np.ascontiguousarray(np.asarray([q], dtype=float)))[0]
                idx = [i for i in range(len(c)) if labels[i] == cell]
                exp = _fresh_expectations(cfg, arms, [d[i] for i in idx], [r[i] for i in idx], [c[i] for i in idx], q)
                if not T.same(exp, got, 1e-9):
                    return "row %d: expectations %r differ from the policy trained on the %d rows of cluster %d: %r" % (qi, got, len(idx), cell, exp)
            else:
                lpk = cfg["lp"]
                for (arm, val) in got:
                    armobj = [x for x in arms if T.canon(x) == arm][0]
                    rows_a = [i for i in range(len(c)) if T.canon(d[i]) == arm]
                    if not rows_a:
                        if val != 0:
                            return "row %d: arm %r has no observations but expectation %r" % (qi, arm, val)
                        continue
                    tree = a._imp.arm_to_tree[armobj]
                    leaf = tree.apply(np.asarray([q], dtype=float))[0]
                    leaves = tree.apply(C[rows_a])
                    rs = [float(r[i]) for i, lf in zip(rows_a, leaves) if lf == leaf]
                    if not rs:
                        continue
                    mean = sum(rs) / len(rs)
                    if lpk["k"] == "greedy":
                        e = mean
                    else:
                        e = mean + lpk["alpha"] * math.sqrt((2 * math.log(len(rs))) / len(rs))
                    if not T.same(float(e), val, 1e-9):
                        return "row %d arm %r: expectation %r, but the statistic over the %d rewards in leaf %d is %r" % (qi, arm, val, len(rs), leaf, e)
    return None


# ------------------------------------------------------------------ C14 binarizer applied exactly once

def gen_c14(seed, index):
    prof = {"name": "C14", "lp": ["thompson"], "np": [None] + G.NP_KINDS, "p_binz": 0.75, "p_add_binz": 0.6,
            "weights": {"fit": 1, "pfit": 4, "query": 3, "add": 2, "rem": 0.5, "warm": 0}, "n_ops": (3, 9),
            "unknown_labels": False}
    if index % 10 == 6:
        # many arms whose labels are prefixes of one another as text (1, 12, 123 / "item", "item1"), rewards of two and
        # three digits, an arm-dependent binarizer; one training batch of more than 2^10 rows now and then
        rng = random.Random("%s/C14-many/%s" % (seed, index))
        kind = index % 30
        arms = list(range(1, 15)) if kind == 6 else (["item", "item1", "item12", "1", "12", "123", "2", "23"] if kind == 16 else
                                                     [1.5, 1.52, 15.2, 2.0, 20.0, 0.2])
        npk = rng.choice([None, None, "knn", "radius", "clusters"])
        npc = G.gen_np(rng, npk, len(arms), 2)
        if npc and npc["k"] == "radius":
            npc["probs"] = None
            npc["r"] = 3.0
        n = rng.choice([40, 60, 1100])
        rew = lambda: float(rng.choice([3, 12, 20, 23, 0, 2, 112, 1]))      # noqa: E731
        def batch(k):                                                       # noqa: E306
            return {"d": [rng.choice(arms) for _ in range(k)], "r": [rew() for _ in range(k)],
                    "c": [[float(rng.randint(0, 4)), float(rng.randint(0, 4))] for _ in range(k)] if npk else None}
        q = {"op": "pexp", "c": [[1.0, 2.0], [3.0, 3.0]] if npk else None}
        ops = [dict(batch(n), op="fit"), dict(q), dict(batch(30), op="pfit"), dict(q)]
        return {"cfg": {"lp": {"k": "thompson"}, "np": npc, "arms": arms, "seed": rng.randint(0, 10 ** 6), "binz": rng.choice([2, 4]),
                        "n_jobs": 1}, "ops": ops}
    rng, g = _gen(seed, index, prof)
    return g.build()


def is_k2(cfg):
    return (cfg.get("np") or {}).get("k") == "tree" and cfg["lp"]["k"] == "thompson"


@twin("binarizer_vs_preconverted")
@T.quiet
def binarizer_vs_preconverted(scn):
    from . import binz as B
    cfg = scn["cfg"]
    T.register_labels(scn)
    a = S.make_mab(cfg)
    b = S.make_mab(dict(cfg, binz=None))
    cur = cfg.get("binz")
    for i, op in enumerate(scn["ops"]):
        op_b = op
        if op["op"] in ("fit", "pfit") and cur:
            f = B.BINZ[cur]
            op_b = dict(op, r=[f(d, r) for d, r in zip(op["d"], op["r"])])
        elif op["op"] == "add":
            if op.get("binz"):
                cur = op["binz"]
            op_b = dict(op, binz=None)
        ra = T.apply_op(a, op)
        rb = T.apply_op(b, op_b)
        if not T.same(ra, rb, 0.0):
            return "step %d (%s): with binarizer %r, with pre-converted rewards %r" % (i, op["op"], ra, rb)
    return None


# ------------------------------------------------------------------ C08 outputs over exactly the current arms

def gen_c08(seed, index):
    prof = {"name": "C08", "lp": ALL_LP, "np": [None, None] + G.NP_KINDS,
            "weights": {"fit": 1, "pfit": 2, "query": 4, "add": 2.5, "rem": 2, "warm": 0.7, "swap": 1.5},
            "query_sizes": [1, 2, 3, 5, 7], "n_ops": (5, 12)}
    rng, g = _gen(seed, index, prof)
    scn = g.build()
    scn["cfg"]["n_jobs"] = rng.choice([1, 1, 2, 3])
    if scn["cfg"]["n_jobs"] > 1:
        scn["cfg"]["backend"] = "threading"
    return scn


def gen_c08_large(seed, index):
    """query batches around block-size boundaries (2^k + 1 rows): one result per row must hold for every m"""
    rng = random.Random("%s/C08-large/%s" % (seed, index))
    npk = [None, "radius", "knn", "lsh", "clusters", "tree"][index % 6]
    lpk = rng.choice(["linucb", "lingreedy"]) if npk is None else rng.choice(["greedy", "ucb"])
    lp = G.gen_lp(rng, lpk)
    if "eps" in lp:
        lp["eps"] = 0.0
    ltype = rng.choice(["int", "str"])
    pool = list(G.LABEL_SETS[ltype])
    rng.shuffle(pool)
    arms = pool[:3]
    d = 2
    npc = G.gen_np(rng, npk, len(arms), d)
    if npc and npc["k"] == "radius":
        npc["probs"] = None
        npc["r"] = 3.0
    n = 14
    fit = {"op": "fit", "d": [rng.choice(arms) for _ in range(n)], "r": [rng.choice([0, 1, 2, 0.5]) for _ in range(n)],
           "c": [[float(rng.randint(0, 4)) for _ in range(d)] for _ in range(n)]}
    m = rng.choice([1025, 1025, 2049, 513, 257, 129, 65, 1024, 2048])
    rows = [[float(rng.randint(0, 4)) for _ in range(d)] for _ in range(m)]
    cfg = {"lp": lp, "np": npc, "arms": arms, "seed": rng.randint(0, 10 ** 6), "binz": None,
           "n_jobs": rng.choice([1, 1, 2, 3])}
    if cfg["n_jobs"] > 1:
        cfg["backend"] = "threading"
    return {"cfg": cfg, "ops": [fit, {"op": rng.choice(["pred", "pexp"]), "c": rows}]}


@twin("outputs_over_arms")
@T.quiet
def outputs_over_arms(scn):
    """after every step: arms as expected; predict is a current arm; predict_expectations has exactly the
    current arms as keys in arm-list order; m > 1 rows give a list of m results, otherwise a single result"""
    T.register_labels(scn)
    # two bandits constructed from one list object: the history of one is no part of the history of the other
    shared = list(scn["cfg"]["arms"])
    a = S.make_mab(scn["cfg"], arms=shared)
    sibling = S.make_mab(scn["cfg"], arms=shared)
    expected = T.canon(list(scn["cfg"]["arms"]))
    initial = list(expected)
    for i, op in enumerate(scn["ops"]):
        res = T.apply_op(a, op)
        if T.canon(list(sibling.arms)) != initial:
            return "step %d (%s): the arm list of a second bandit constructed from the same list changed: %r, expected %r" % (
                i, op["op"], T.canon(list(sibling.arms)), initial)
        if res[0] == "ok":
            if op["op"] == "add":
                expected = expected + [T.canon(op["arm"])]
            elif op["op"] == "rem":
                expected = [x for x in expected if x != T.canon(op["arm"])]
        arms = T.canon(list(a.arms))
        if arms != expected:
            return "step %d (%s): arms are %r, expected %r" % (i, op["op"], arms, expected)
        if op["op"] not in ("pexp", "pred") or res[0] != "ok":
            continue
        m = None if op["c"] is None else len(op["c"])
        out = res[1]
        if op["op"] == "pred":
            if m is not None and m > 1:
                if not isinstance(out, list) or len(out) != m:
                    return "step %d: predict with %d rows returned %r" % (i, m, out)
                items = out
            else:
                if isinstance(out, list):
                    return "step %d: predict with %r rows returned a list %r" % (i, m, out)
                items = [out]
            for x in items:
                if x not in arms:
                    return "step %d: predicted %r is not a current arm %r" % (i, x, arms)
        else:
            if m is not None and m > 1:
                if not (isinstance(out, list) and len(out) == m and all(isinstance(d, list) and d and isinstance(d[0], tuple) for d in out)):
                    return "step %d: predict_expectations with %d rows returned %d results" % (i, m, len(out) if isinstance(out, list) else -1)
                items = out
            else:
                if not (isinstance(out, list) and out and isinstance(out[0], tuple)):
                    return "step %d: predict_expectations with %r rows did not return a single mapping: %r" % (i, m, out)
                items = [out]
            for d in items:
                if [k for k, _ in d] != arms:
                    return "step %d: keys of predict_expectations %r differ from the current arms %r" % (i, [k for k, _ in d], arms)
    return None


# ------------------------------------------------------------------ C02 linear policies = per-arm ridge regression

def gen_c02(seed, index):
    prof = {"name": "C02", "lp": G.LIN_KINDS, "np": [None], "dims": [1, 1, 2, 3],
            "weights": {"fit": 1, "pfit": 3, "query": 0, "add": 1.5, "rem": 0.5, "warm": 0},
            "query_sizes": [1, 1, 2, 3, 5], "n_ops": (1, 6), "end_query": False, "unknown_labels": False}
    rng, g = _gen(seed, index, prof)
    lp = g.cfg["lp"]
    if lp["k"] == "lingreedy":
        lp["eps"] = 0.0
    if lp["k"] == "lints":
        lp["alpha"] = 1e-9
    scale = rng.random() < 0.25
    if scale:
        lp["scale"] = True
        # single fit (running standardisation is excluded by the property)
        g.op_train("fit")
        if rng.random() < 0.5:
            g.op_add()
        scn = {"cfg": g.cfg, "ops": g.ops}
    else:
        scn = g.build()
    g.ops = []
    for _ in range(rng.randint(1, 3)):
        g.op_query("pexp")
    scn["queries"] = g.ops
    if scale and rng.random() < 0.5:
        # one feature measured in small units: its standard deviation lies between the variance tolerance of the
        # library (1e-6) and 1e-3, so it must still be divided by its standard deviation
        j = rng.randrange(g.d)
        fac = rng.choice([2.0 ** -13, 2.0 ** -12, 2.0 ** -14])
        for op in scn["ops"] + scn["queries"]:
            if op.get("c"):
                op["c"] = [[v * fac if k == j else v for k, v in enumerate(row)] for row in op["c"]]
    return scn


def gen_c02_large(seed, index):
    """a single fit with more than 2^10 rows for one arm, with and without per-arm standardisation"""
    rng = random.Random("%s/C02-large/%s" % (seed, index))
    lp = {"k": rng.choice(["linucb", "lingreedy", "lints"]), "alpha": 1.0, "eps": 0.0, "lam": rng.choice([1.0, 2.0, 0.5])}
    if lp["k"] == "lints":
        lp["alpha"] = 1e-9
    lp["scale"] = index % 2 == 0
    arms = [1, 2, 3][:rng.choice([2, 3])]
    n = rng.choice([1100, 2100, 1030])
    dec = [arms[0] if rng.random() < 0.95 else rng.choice(arms[1:]) for _ in range(n)]
    rew = [float(rng.choice([0, 1, 2, 3])) for _ in range(n)]
    ctx = [[float(rng.randint(0, 4)) + 3.0 * i / n, float(rng.randint(0, 4))] for i in range(n)]
    return {"cfg": {"lp": lp, "np": None, "arms": arms, "seed": rng.randint(0, 10 ** 6), "binz": None, "n_jobs": 1},
            "ops": [{"op": "fit", "d": dec, "r": rew, "c": ctx}],
            "queries": [{"op": "pexp", "c": [[1.0, 2.0], [4.0, 0.0], [2.5, 3.0]]}]}


def gen_c02_wide(seed, index):
    """16 (or 9) features, l2_lambda != 1: a fit, then an arm that receives its rows in thin batches (one or two rows),
    then a larger batch for the same arm - compared with the normal equations of the whole history"""
    w = gen_c06_wide(seed, index)
    rng = random.Random("%s/C02-wide/%s" % (seed, index))
    rows, cuts = w["rows"], w["cuts"]
    n = len(rows["d"])
    bounds = [0] + cuts + [n]
    ops = []
    for j in range(len(bounds) - 1):
        a, b = bounds[j], bounds[j + 1]
        ops.append({"op": "fit" if j == 0 else "pfit", "d": rows["d"][a:b], "r": rows["r"][a:b], "c": rows["c"][a:b]})
    d = len(rows["c"][0])
    k = rng.choice([12, 20])
    ops.append({"op": "pfit", "d": [4 if i % 2 == 0 else rng.choice([1, 2, 3]) for i in range(k)], "r": [float(rng.choice([0, 1, 2, 3])) for _ in range(k)],
                "c": [[float(rng.randint(0, 4)) for _ in range(d)] for _ in range(k)]})
    cfg = dict(w["cfg"], lp=dict(w["cfg"]["lp"]))
    if cfg["lp"]["k"] == "lints":
        cfg["lp"]["alpha"] = 1e-9
    return {"cfg": cfg, "ops": ops, "queries": w["queries"]}


def _ridge_oracle(cfg, arms, d, r, c, query):
    """expectations from numpy.linalg.solve on the per-arm normal equations built from the raw history;
    returns (values, unobserved arms)"""
    lp = cfg["lp"]
    lam = lp["lam"]
    X = np.asarray(c, dtype=float)
    y = np.asarray(r, dtype=float)
    dec = [T.canon(x) for x in d]
    q = np.asarray(query, dtype=float)
    dim = q.shape[1]
    out = []
    unobserved = []
    for arm in arms:
        ca = T.canon(arm)
        idx = [i for i in range(len(dec)) if dec[i] == ca]
        qq = q
        if idx:
            Xa = X[idx]
            ya = y[idx]
            if lp.get("scale"):
                mean = Xa.mean(axis=0)
                std = Xa.std(axis=0)
                std = np.where(std <= 1e-6, 1.0, std)
                Xa = (Xa - mean) / std
                qq = (q - mean) / std
            A = Xa.T @ Xa + lam * np.eye(dim)
            beta = np.linalg.solve(A, Xa.T @ ya)
            Ainv = np.linalg.inv(A)
        else:
            unobserved.append(ca)
            beta = np.zeros(dim)
            Ainv = np.eye(dim) / lam
        val = qq @ beta
        if lp["k"] == "linucb":
            val = val + lp["alpha"] * np.sqrt(np.einsum("ij,jk,ik->i", qq, Ainv, qq))
        out.append((ca, [float(v) for v in val]))
    return out, unobserved


@twin("linear_vs_normal_equations")
@T.quiet
def linear_vs_normal_equations(scn):
    cfg = scn["cfg"]
    T.register_labels(scn)
    a = S.make_mab(cfg)
    T.apply_ops(a, scn["ops"])
    if not a._is_initial_fit:
        return None
    d, r, c = _train_rows(scn, purge_on_remove=True)   # a re-added arm starts from an empty log
    arms = list(a.arms)
    tol = 1e-6 if cfg["lp"]["k"] == "lints" else 1e-8
    for q in scn["queries"]:
        b = copy.deepcopy(a)
        res = T.apply_op(b, q)
        if res[0] != "ok":
            return "query raised %r" % (res,)
        rows = res[1] if len(q["c"]) > 1 else [res[1]]
        oracle, unobserved = _ridge_oracle(cfg, arms, d, r, c, q["c"])
        for i, got in enumerate(rows):
            if [k for k, _ in got] != [k for k, _ in oracle]:
                return "row %d: keys %r vs arms %r" % (i, [k for k, _ in got], [k for k, _ in oracle])
            for (arm, v), (_, ov) in zip(got, oracle):
                scale = max(1.0, abs(ov[i]))
                if abs(v - ov[i]) > tol * scale:
                    return "row %d (x=%r) arm %r%s: library %r, ridge regression on the raw history %r" % (
                        i, q["c"][i], arm, " [never observed]" if arm in unobserved else "", v, ov[i])
    return None


def is_k1(scn, reason):
    """known finding K1: never-observed arm, l2_lambda != 1, LinUCB bonus"""
    lp = scn["cfg"]["lp"]
    return lp["k"] == "linucb" and lp["lam"] != 1.0 and lp["alpha"] > 0 and "[never observed]" in (reason or "")


# ------------------------------------------------------------------ C20 invariance to arm names, row order, reward shift / scale

RELABEL = {"int": lambda i: 100 + 3 * i, "str": lambda i: chr(97 + i) * (1 + i), "float": lambda i: 0.25 + 1.5 * i,
           # ... and onto labels that are falsy (0, 0.0, the empty string)
           "int0": lambda i: i, "float0": lambda i: 1.5 * i, "str0": lambda i: "x" * i}


def gen_c20(seed, index):
    prof = {"name": "C20", "lp": ALL_LP, "np": [None, None] + G.NP_KINDS, "p_binz": 0.0, "p_add_binz": 0.0,
            "weights": {"fit": 1, "pfit": 3, "query": 3, "add": 1, "rem": 0.7, "warm": 0.5}, "unknown_labels": False}
    rng, g = _gen(seed, index, prof)
    scn = g.build()
    scn["target"] = rng.choice(["int", "str", "float"])
    scn["perm_seed"] = rng.randint(0, 10 ** 6)
    if random.Random("%s/C20-falsy/%s" % (seed, index)).random() < 0.3:
        scn["target"] = ["int0", "float0", "str0"][index % 3]
    return scn


def _relabel(scn, kind):
    labels = T.register_labels(scn)
    mp = {repr(a): RELABEL[kind](i) for i, a in enumerate(labels)}

    def f(a):
        return a if isinstance(a, dict) else mp[repr(a)]
    out = copy.deepcopy(scn)
    out["cfg"]["arms"] = [f(a) for a in scn["cfg"]["arms"]]
    for op in out["ops"]:
        if op["op"] in ("fit", "pfit"):
            op["d"] = [f(a) for a in op["d"]]
        elif op["op"] in ("add", "rem"):
            op["arm"] = f(op["arm"])
        elif op["op"] == "warm":
            op["feats"] = [[f(a), v] for a, v in op["feats"]]
    return out, f


def _rename_result(x, f):
    if isinstance(x, tuple) and len(x) == 2 and x[0] in ("ok",):
        return (x[0], _rename_result(x[1], f))
    if isinstance(x, list):
        if x and isinstance(x[0], tuple) and len(x[0]) == 2:
            return [(T.canon(f(k)), v) for k, v in x]
        return [_rename_result(v, f) for v in x]
    if isinstance(x, (int, float, str)):
        return x
    return x


@twin("relabel_equivariance")
@T.quiet
def relabel_equivariance(scn):
    """renaming the arms one-to-one (keeping their order) renames the outputs and changes nothing else"""
    other, f = _relabel(scn, scn.get("target", "str"))
    labels = T.register_labels(scn)
    a = S.make_mab(scn["cfg"])
    ra = T.apply_ops(a, scn["ops"] + [{"op": "cold"}, {"op": "arms"}])
    T.register_labels(other)
    b = S.make_mab(other["cfg"])
    rb = T.apply_ops(b, other["ops"] + [{"op": "cold"}, {"op": "arms"}])
    back = {repr(T.canon(f(x))): T.canon(x) for x in labels}

    def unname(x):
        if isinstance(x, tuple) and x and x[0] == "ok":
            return ("ok",) + tuple(unname(v) for v in x[1:])
        if isinstance(x, list):
            if x and isinstance(x[0], tuple) and len(x[0]) == 2:
                return [(back.get(repr(k), k), v) for k, v in x]
            return [unname(v) for v in x]
        return back.get(repr(x), x) if not isinstance(x, float) else x
    ops = scn["ops"] + [{"op": "cold"}, {"op": "arms"}]
    for i, (x, y) in enumerate(zip(ra, rb)):
        y2 = unname(y)
        # predictions are arm labels: map back; expectations are floats: keep
        if ops[i]["op"] in ("pred", "cold", "arms") and y[0] == "ok":
            y2 = ("ok", _unname_arms(y[1], back))
        if not T.same(x, y2, 0.0):
            return "step %d (%s): original %r, relabelled (%s labels) %r" % (i, ops[i]["op"], x, scn.get("target"), y2)
    return None


def _unname_arms(v, back):
    if isinstance(v, list):
        return [_unname_arms(x, back) for x in v]
    return back.get(repr(v), v)


DET_KINDS = {"greedy": {"eps": 0.0}, "ucb": {}, "lingreedy": {"eps": 0.0}, "linucb": {}}


def gen_c20_det(seed, index):
    prof = {"name": "C20d", "lp": list(DET_KINDS), "np": [None, None, "radius", "lsh"],
            "fix_lp": DET_KINDS, "weights": {"fit": 1, "pfit": 3, "query": 2, "add": 0, "rem": 0, "warm": 0, "swap": 0},
            "unknown_labels": False, "n_ops": (2, 6)}
    rng, g = _gen(seed, index, prof)
    scn = g.build()
    scn["perm_seed"] = rng.randint(0, 10 ** 6)
    scn["shift"] = rng.choice([1.0, -2.5, 8.0])
    scn["scale"] = rng.choice([2.0, 0.5, -4.0])
    return scn


@twin("row_permutation")
@T.quiet
def row_permutation(scn):
    """the same observations in a different row order leave every expectation unchanged (up to rounding)"""
    T.register_labels(scn)
    rng = random.Random(scn.get("perm_seed", 0))
    other = copy.deepcopy(scn)
    for op in other["ops"]:
        if op["op"] in ("fit", "pfit") and len(op["d"]) > 1:
            idx = list(range(len(op["d"])))
            rng.shuffle(idx)
            op["d"] = [op["d"][i] for i in idx]
            op["r"] = [op["r"][i] for i in idx]
            if op.get("c") is not None:
                op["c"] = [op["c"][i] for i in idx]
    a = S.make_mab(scn["cfg"])
    b = S.make_mab(other["cfg"])
    ra = T.apply_ops(a, [o for o in scn["ops"] if o["op"] != "pred"])
    rb = T.apply_ops(b, [o for o in other["ops"] if o["op"] != "pred"])
    d = T.first_diff(ra, rb, scn.get("tol", 1e-9))
    if d:
        return "step %d: original order %r, permuted rows %r" % (d[0], d[1], d[2])
    return None


def gen_c20_large(seed, index):
    """one training call with more than 2^10 / 2^11 rows for one arm (block-wise accumulation must not make the
    result depend on which rows share a block), deterministic policies, with and without per-arm standardisation"""
    rng = random.Random("%s/C20-large/%s" % (seed, index))
    lp = _det_lp(rng, linear_ok=True)
    if index % 2 == 0:
        lp = {"k": rng.choice(["linucb", "lingreedy"]), "alpha": 1.0, "eps": 0.0, "lam": rng.choice([1.0, 2.0]), "scale": True}
    if lp["k"] in G.LIN_KINDS and "scale" not in lp:
        lp["scale"] = rng.random() < 0.5
    arms = [1, 2, 3][:rng.choice([2, 3])]
    n = rng.choice([1100, 1100, 2100, 1030])
    d = 2
    dec = [arms[0] if rng.random() < 0.95 else rng.choice(arms[1:]) for _ in range(n)]
    rew = [float(rng.choice([0, 1, 2, 3])) for _ in range(n)]
    # a trend along the row order, so that the statistics of a leading block differ from those of the whole batch
    ctx = [[float(rng.randint(0, 4)) + 3.0 * i / n, float(rng.randint(0, 4))] for i in range(n)]
    contextual = lp["k"] in G.LIN_KINDS
    ops = [{"op": "fit", "d": dec, "r": rew, "c": ctx if contextual else None},
           {"op": "pexp", "c": [[1.0, 2.0], [4.0, 0.0], [2.5, 3.0]] if contextual else None}]
    return {"cfg": {"lp": lp, "np": None, "arms": arms, "seed": rng.randint(0, 10 ** 6), "binz": None, "n_jobs": 1},
            "ops": ops, "perm_seed": rng.randint(0, 10 ** 6), "tol": 1e-7}


@twin("reward_shift_scale")
@T.quiet
def reward_shift_scale(scn):
    """adding a constant to all rewards shifts greedy/UCB1 expectations by it (every arm observed);
    scaling all rewards scales LinGreedy expectations"""
    cfg = scn["cfg"]
    if cfg.get("np"):
        return None
    k = cfg["lp"]["k"]
    T.register_labels(scn)
    c = scn.get("shift", 1.0)
    sc = scn.get("scale", 2.0)
    if k not in ("greedy", "ucb", "lingreedy"):
        return None
    other = copy.deepcopy(scn)
    for op in other["ops"]:
        if op["op"] in ("fit", "pfit"):
            op["r"] = [(x + c) if k != "lingreedy" else (x * sc) for x in op["r"]]
    a = S.make_mab(cfg)
    b = S.make_mab(cfg)
    ops = [o for o in scn["ops"] if o["op"] != "pred"]
    ops2 = [o for o in other["ops"] if o["op"] != "pred"]
    observed = set()
    for i, (o1, o2) in enumerate(zip(ops, ops2)):
        x = T.apply_op(a, o1)
        y = T.apply_op(b, o2)
        if o1["op"] == "fit" or (o1["op"] == "pfit" and not observed and not a._is_initial_fit):
            observed = set()
        if o1["op"] in ("fit", "pfit"):
            if o1["op"] == "fit":
                observed = set()
            observed |= {repr(T.canon(v)) for v in o1["d"]}
        if len(x) > 1 and x[0] == "ok" and isinstance(x[1], list) and y[0] == "ok":
            if k == "lingreedy":
                sx = _map_vals(x[1], lambda arm, v: v * sc)
            else:
                # the law is stated for observed arms; an unobserved arm keeps the neutral 0
                sx = _map_vals(x[1], lambda arm, v: v + c if repr(arm) in observed else v)
            if not T.same(sx, y[1], 1e-9):
                return "step %d: expectations with rewards %s by %r are %r, expected %r" % (
                    i, "scaled" if k == "lingreedy" else "shifted", sc if k == "lingreedy" else c, y[1], sx)
    return None


def _map_vals(x, f):
    if isinstance(x, list):
        if x and isinstance(x[0], tuple):
            return [(k, f(k, v)) for k, v in x]
        return [_map_vals(v, f) for v in x]
    return x


# ------------------------------------------------------------------ C15 / C16 the Simulator

def gen_sim(seed, index):
    rng = random.Random("%s/sim/%s" % (seed, index))
    contextual = rng.random() < 0.7
    ltype = rng.choice(["int", "str"])
    pool = list(G.LABEL_SETS[ltype])
    rng.shuffle(pool)
    arms = pool[:rng.choice([2, 3, 4])]
    n = rng.choice([12, 15, 20, 23, 30, 41])
    d = rng.choice([1, 2, 3])
    data_arms = arms if rng.random() < 0.8 else arms[:-1]       # an arm absent from the data
    decisions = [rng.choice(data_arms) for _ in range(n)]
    binary = rng.random() < 0.5
    rewards = [rng.choice([0, 1]) if binary else rng.choice([0, 1, 2, 3, 0.5, 1.5, -1]) for _ in range(n)]
    contexts = [[float(rng.randint(0, 4)) for _ in range(d)] for _ in range(n)] if contextual else None
    bandits = []
    for bi in range(rng.choice([1, 2, 3])):
        if contextual:
            npk = rng.choice([None, "radius", "radius", "knn", "knn", "lsh", "clusters", "tree"])
            lpk = rng.choice(["greedy", "ucb", "thompson", "softmax", "lingreedy", "linucb"]) if npk != "tree" else rng.choice(["greedy", "ucb"])
            if npk is None:
                lpk = rng.choice(["lingreedy", "linucb", "lints"])
            if lpk == "thompson" and not binary:
                lpk = "greedy" if rng.random() < 0.5 else "thompson"
        else:
            npk = None
            lpk = rng.choice(["greedy", "ucb", "softmax", "thompson", "popularity", "random"])
            if lpk == "thompson" and not binary and rng.random() < 0.5:
                lpk = "ucb"
            if lpk == "popularity" and not binary:
                lpk = "greedy"
        lp = G.gen_lp(rng, lpk)
        if rng.random() < 0.6 and "eps" in lp:
            lp["eps"] = 0.0
        npc = G.gen_np(rng, npk, len(arms), d)
        if npc and npc["k"] == "knn":
            npc["kk"] = rng.choice([1, 2, 3])
        if npc and npc["k"] == "radius":
            npc["probs"] = None
        data_metric(rng, npc, 0.45)
        # non-binary rewards with Thompson Sampling: a binarizer (the simulator hands its own arrays to the bandits,
        # which must not be written to)
        bz = rng.choice([1, 2, 3, 4]) if (lpk == "thompson" and not binary) else None
        bandits.append({"lp": lp, "np": npc, "arms": list(arms), "seed": rng.randint(0, 10 ** 6), "binz": bz,
                        "n_jobs": rng.choice([1, 1, 2]), "backend": None})
    test_size = rng.choice([0.2, 0.3, 0.4, 0.5])
    boundary = rng.random() < 0.08
    if boundary:
        # n * (1 - test_size) lands just below an integer in floating point: 90 * 0.7 = 62.99999999999999
        n, test_size = 90, 0.3
        decisions = [rng.choice(data_arms) for _ in range(n)]
        rewards = [rng.choice([0, 1]) if binary else rng.choice([0, 1, 2, 3, 0.5, 1.5, -1]) for _ in range(n)]
        contexts = [[float(rng.randint(0, 4)) for _ in range(d)] for _ in range(n)] if contextual else None
        bandits = bandits[:1]
        bandits[0]["n_jobs"] = 1
    # Radius bandits: put the radius exactly on a realised (irrational) euclidean distance now and then
    for bc in bandits:
        npc = bc.get("np")
        if npc and npc["k"] == "radius" and contexts and rng.random() < 0.5:
            cands = []
            for _ in range(12):
                i, j = rng.randrange(n), rng.randrange(n)
                dd = float(np.sqrt(sum((a - b) ** 2 for a, b in zip(contexts[i], contexts[j]))))
                if dd > 0 and dd != int(dd):
                    cands.append(dd)
            # prefer a distance that a lower-precision copy would round *up* (boundary sensitivity)
            up = [x for x in cands if float(np.float32(x)) > x]
            dd = rng.choice(up) if up else (rng.choice(cands) if cands else 0.0)
            if dd > 0:
                npc["metric"] = "euclidean"
                # exactly on, just inside or just outside a realised distance
                npc["r"] = dd * rng.choice([1.0, 1.0 - 1e-9, 1.0 + 1e-9, 1.0 - 1e-9])
    n_test = n - int(n * (1 - test_size))
    batch = rng.choice([0, 0, 1, 2, 3, n_test // 2 or 1, n_test])
    batch = min(batch, max(1, n_test - 1)) if batch else 0
    rs = random.Random("%s/sim-scale/%s" % (seed, index))
    u = rs.random()
    offset_used = False
    if u < 0.08 and ltype == "int":
        # numeric labels of large magnitude that differ in the last digit (ids)
        mp = {a: 100000 + i for i, a in enumerate(arms)}
        arms = [mp[a] for a in arms]
        decisions = [mp[a] for a in decisions]
        for bc in bandits:
            bc["arms"] = list(arms)
    elif u < 0.16 and contextual and not any(bc["lp"]["k"] in G.LIN_KINDS for bc in bandits):
        # contexts far from the origin with unit spread (ids, timestamps): exact in binary floating point (not for the
        # linear policies: the normal equations become numerically singular)
        off = 2.0 ** 27
        contexts = [[off + v for v in row] for row in contexts]
        offset_used = True
        # at least one bandit that measures euclidean distances between those rows
        if not (bandits[0].get("np") and bandits[0]["np"]["k"] in ("radius", "knn")) and bandits[0]["lp"]["k"] != "thompson":
            bandits[0]["np"] = rs.choice([{"k": "knn", "kk": 2, "metric": "euclidean"},
                                          {"k": "radius", "r": 1.5, "metric": "euclidean", "probs": None}])
            if bandits[0]["lp"]["k"] in ("popularity", "random"):
                bandits[0]["lp"] = {"k": "ucb", "alpha": 1.0}
        for bc in bandits:
            if bc.get("np") and bc["np"]["k"] in ("radius", "knn"):
                bc["np"]["metric"] = "euclidean"
                if bc["np"]["k"] == "radius":
                    bc["np"]["r"] = rs.choice([1.0, 1.5, 2.0])
    elif u < 0.22 and contextual:
        for bc in bandits:
            if bc.get("np") and bc["np"]["k"] == "lsh":
                bc["np"]["ndim"] = rs.choice([9, 12, 16])
    elif u < 0.28 and contextual and not boundary:
        # a long log replayed online in batches of more than 100 rows
        n = rs.choice([420, 640])
        decisions = [rng.choice(data_arms if u >= 0.08 else arms) for _ in range(n)]
        rewards = [rng.choice([0, 1]) if binary else rng.choice([0, 1, 2, 3, 0.5, 1.5, -1]) for _ in range(n)]
        contexts = [[float(rng.randint(0, 4)) for _ in range(d)] for _ in range(n)]
        test_size = 0.5
        batch = rs.choice([130, 200])
        bandits = bandits[:2]
        for bc in bandits:
            bc["n_jobs"] = 1
    return {"bandits": bandits, "decisions": decisions, "rewards": rewards, "contexts": contexts, "test_size": test_size,
            "scaler": (random.Random("%s/sim-scaler/%s" % (seed, index)).choice([None, None, None, "standard", "minmax"])
                       if contextual and not offset_used else None),
            "is_ordered": True if boundary else rng.random() < 0.5, "batch_size": batch, "is_quick": rng.random() < 0.5, "seed": rng.randint(0, 10 ** 6),
            "cfg": {"lp": bandits[0]["lp"], "np": bandits[0]["np"], "arms": arms}, "ops": []}


def _deterministic_expectations(cfg):
    k = cfg["lp"]["k"]
    return k == "ucb" or k == "linucb" or (k in ("greedy", "lingreedy") and cfg["lp"].get("eps", 0) == 0)


def _make_scaler(kind):
    if not kind:
        return None
    from sklearn.preprocessing import StandardScaler, MinMaxScaler
    return StandardScaler() if kind == "standard" else MinMaxScaler()


def run_simulator(scn):
    import logging
    from mabwiser.simulator import Simulator
    mabs = [S.make_mab(c) for c in scn["bandits"]]
    originals = [copy.deepcopy(m) for m in mabs]
    lg = logging.getLogger()
    before = list(lg.handlers)
    level = lg.level
    logging.disable(logging.CRITICAL)
    try:
        sim = Simulator([("b%d" % i, m) for i, m in enumerate(mabs)], list(scn["decisions"]), list(scn["rewards"]),
                        None if scn["contexts"] is None else [list(r) for r in scn["contexts"]],
                        scaler=_make_scaler(scn.get("scaler")), test_size=scn["test_size"], is_ordered=scn["is_ordered"], batch_size=scn["batch_size"],
                        seed=scn["seed"], is_quick=scn["is_quick"])
        sim.run()
    finally:
        for h in list(lg.handlers):
            if h not in before:
                lg.removeHandler(h)
        lg.setLevel(level)
        logging.disable(logging.NOTSET)
    return sim, originals


def _split(scn):
    from sklearn.model_selection import train_test_split
    n = len(scn["decisions"])
    dec = np.asarray(scn["decisions"])
    rew = np.asarray(scn["rewards"])
    ctx = None if scn["contexts"] is None else np.asarray(scn["contexts"], dtype=float)
    if scn["is_ordered"]:
        k = int(n * (1 - scn["test_size"]))
        tr = list(range(k))
        te = list(range(k, n))
    else:
        tr, te = train_test_split(list(range(n)), test_size=scn["test_size"], random_state=scn["seed"])
    return dec, rew, ctx, list(tr), list(te)


@twin("simulator_vs_public_api")
@T.quiet
def simulator_vs_public_api(scn):
    T.register_labels({"cfg": {"arms": scn["bandits"][0]["arms"]}, "ops": []})
    try:
        sim, originals = run_simulator(scn)
    except Exception as e:  # noqa: BLE001
        return "Simulator.run raised %r" % (e,)
    dec, rew, ctx, tr, te = _split(scn)
    if [int(x) for x in sim.test_indices] != [int(x) for x in te]:
        return "test_indices %r differ from the split %r" % (list(sim.test_indices), te)
    if scn.get("scaler") and ctx is not None:
        # the documented protocol: the scaler is fit on the training contexts and applied to both parts
        sc = _make_scaler(scn["scaler"])
        ctx2 = np.array(ctx, dtype=float)
        ctx2[tr] = sc.fit_transform(ctx[tr])
        ctx2[te] = sc.transform(ctx[te])
        ctx = ctx2
    bs = scn["batch_size"]
    for i, (cfg, m) in enumerate(zip(scn["bandits"], originals)):
        name = "b%d" % i
        ctxual = m.is_contextual
        preds = []
        exps = []
        det = _deterministic_expectations(cfg)
        npk = (cfg.get("np") or {}).get("k")
        nbr = npk in ("radius", "knn", "lsh")
        if ctxual:
            m.fit(dec[tr], rew[tr], ctx[tr])
        else:
            m.fit(dec[tr], rew[tr])
        batches = [te] if bs == 0 else [te[j:j + bs] for j in range(0, len(te), bs)]
        for b in batches:
            if ctxual:
                if det:
                    shadow = copy.deepcopy(m)
                    e = shadow.predict_expectations(ctx[b])
                    exps += e if isinstance(e, list) else [e]
                p = m.predict(ctx[b])
                preds += p if isinstance(p, list) else [p]
                if not nbr:
                    m.predict_expectations(ctx[b])       # the protocol reads expectations after predicting
            else:
                if det:
                    # context-free: one expectation record per batch, read before the batch is learned
                    exps.append(copy.deepcopy(m).predict_expectations())
                preds += [m.predict() for _ in b]
            if bs > 0:
                if ctxual:
                    m.partial_fit(dec[b], rew[b], ctx[b])
                else:
                    m.partial_fit(dec[b], rew[b])
        got = T.canon(list(sim.bandit_to_predictions[name]))
        want = T.canon(preds)
        if got != want:
            bad = [j for j, (x, y) in enumerate(zip(got, want)) if x != y][:5]
            return "bandit %d (%s/%s): Simulator predictions differ from the public-API replay at test rows %r: %r vs %r" % (
                i, cfg["lp"]["k"], npk, bad, [got[j] for j in bad], [want[j] for j in bad]) if len(got) == len(want) else \
                "bandit %d: Simulator reports %d predictions, the replay %d" % (i, len(got), len(want))
        if not ctxual and det:
            rep = sim.bandit_to_expectations[name]
            gote = T.canon(list(rep) if isinstance(rep, list) else [rep])
            wante = T.canon(exps)
            if len(gote) != len(wante) or not T.same(gote, wante, 1e-9):
                bad = [j for j, (x, y) in enumerate(zip(gote, wante)) if not T.same(x, y, 1e-9)][:3]
                return "bandit %d (%s): Simulator reports %d expectation records %r, the public-API replay %d records %r (first differences at %r)" % (
                    i, cfg["lp"]["k"], len(gote), gote[:3], len(wante), wante[:3], bad)
        if ctxual and det:
            gote = T.canon(list(sim.bandit_to_expectations[name]))
            wante = T.canon(exps)
            # empty neighbourhood: the Simulator reports {} where the public API reports NaN for every arm
            # (both mean "no expectation"; documented in DESIGN.md as an observation, not a finding)
            wante = [[] if (isinstance(w, list) and w and all(isinstance(v, float) and v != v for _, v in w) and g == []) else w
                     for w, g in zip(wante, gote + [None] * len(wante))]
            if len(gote) == len(wante) and not T.same(gote, wante, 1e-9):
                bad = [j for j, (x, y) in enumerate(zip(gote, wante)) if not T.same(x, y, 1e-9)][:3]
                return "bandit %d (%s/%s): Simulator expectations differ from predict_expectations at test rows %r: %r vs %r" % (
                    i, cfg["lp"]["k"], npk, bad, [gote[j] for j in bad], [wante[j] for j in bad])
    return None


def _stats(vals):
    a = np.asarray(vals, dtype=float)
    if a.size == 0:
        return {"count": 0, "sum": 0, "min": 0, "max": 0, "mean": 0, "std": 0}
    return {"count": int(a.size), "sum": float(a.sum()), "min": float(a.min()), "max": float(a.max()), "mean": float(a.mean()),
            "std": float(a.std())}


@twin("simulator_bookkeeping")
@T.quiet
def simulator_bookkeeping(scn):
    T.register_labels({"cfg": {"arms": scn["bandits"][0]["arms"]}, "ops": []})
    try:
        sim, _ = run_simulator(scn)
    except Exception as e:  # noqa: BLE001
        return "Simulator.run raised %r" % (e,)
    n = len(scn["decisions"])
    dec = np.asarray(scn["decisions"])
    rew = np.asarray(scn["rewards"], dtype=float)
    te = [int(x) for x in sim.test_indices]
    if len(set(te)) != len(te) or not all(0 <= x < n for x in te):
        return "test_indices are not distinct row indices: %r" % (te,)
    k = int(n * (1 - scn["test_size"]))
    if scn["is_ordered"] and te != list(range(k, n)):
        return "ordered split: test_indices %r are not the last %d rows" % (te, n - k)
    tr = [i for i in range(n) if i not in set(te)]
    arms = scn["bandits"][0]["arms"]
    for scope, idx, got in (("total", list(range(n)), sim.arm_to_stats_total), ("train", tr, sim.arm_to_stats_train),
                            ("test", te, sim.arm_to_stats_test)):
        for a in arms:
            want = _stats([rew[i] for i in idx if dec[i] == a])
            g = got[a]
            for key in ("count", "sum", "min", "max", "mean"):
                if not T.same(float(g[key]), float(want[key]), 1e-9):
                    return "%s statistics of arm %r: %s is %r, recomputation gives %r" % (scope, a, key, g[key], want[key])
    for a in arms:
        for key in ("count", "sum"):
            if not T.same(float(sim.arm_to_stats_train[a][key] + sim.arm_to_stats_test[a][key]), float(sim.arm_to_stats_total[a][key]), 1e-9):
                return "arm %r: train + test %s differs from total" % (a, key)
    bs = scn["batch_size"]
    for i in range(len(scn["bandits"])):
        name = "b%d" % i
        preds = sim.bandit_to_predictions[name]
        if len(preds) != len(te):
            return "bandit %d: %d predictions for %d test rows" % (i, len(preds), len(te))
        views = []
        if bs == 0:
            views.append(("total", sim.bandit_to_arm_to_stats_min[name], sim.bandit_to_arm_to_stats_avg[name],
                          sim.bandit_to_arm_to_stats_max[name], list(range(len(te)))))
        else:
            for key in sim.bandit_to_arm_to_stats_min[name]:
                rows = list(range(len(te))) if key == "total" else list(range(key * bs, min((key + 1) * bs, len(te))))
                views.append((key, sim.bandit_to_arm_to_stats_min[name][key], sim.bandit_to_arm_to_stats_avg[name][key],
                              sim.bandit_to_arm_to_stats_max[name][key], rows))
            keys = [kk for kk in sim.bandit_to_arm_to_stats_min[name] if kk != "total"]
            want_keys = list(range(int(math.ceil(len(te) / bs))))
            if keys != want_keys:
                return "bandit %d: evaluated batches %r, expected %r" % (i, keys, want_keys)
        for key, mn, av, mx, rows in views:
            cnt = sum(int(mn[a]["count"]) for a in arms)
            if cnt != len(rows):
                return "bandit %d, evaluation %r: evaluated counts sum to %d for %d test rows" % (i, key, cnt, len(rows))
            for a in arms:
                if int(mn[a]["count"]) == 0:
                    continue
                c_pred = sum(1 for j in rows if T.canon(preds[j]) == T.canon(a))
                if int(mn[a]["count"]) != c_pred or int(av[a]["count"]) != c_pred or int(mx[a]["count"]) != c_pred:
                    return "bandit %d, evaluation %r: arm %r credited %d times but predicted %d times" % (i, key, a, int(mn[a]["count"]), c_pred)
                if not (mn[a]["sum"] <= av[a]["sum"] + 1e-9 and av[a]["sum"] <= mx[a]["sum"] + 1e-9):
                    return "bandit %d, evaluation %r, arm %r: min/mean/max analyses not ordered: %r %r %r" % (
                        i, key, a, mn[a]["sum"], av[a]["sum"], mx[a]["sum"])
                # context-free / non-neighbourhood bandits: the credited value is the observed reward on a match,
                # else the arm's training statistic
                cfg = scn["bandits"][i]
                nn = (cfg.get("np") or {}).get("k") in ("radius", "knn", "lsh") and not scn["is_quick"]
                nstats = sim.bandit_to_arm_to_stats_neighborhoods[name] if nn else None
                if True:
                    for stat, view in (("min", mn), ("mean", av), ("max", mx)):
                        want = 0.0
                        for j in rows:
                            if T.canon(preds[j]) != T.canon(a):
                                continue
                            row = te[j]
                            if T.canon(dec[row]) == T.canon(a):
                                want += float(rew[row])
                            elif nn and j < len(nstats) and nstats[j] and nstats[j].get(a):
                                # the predicted arm's statistic within this test row's neighbourhood
                                want += float(nstats[j][a][stat])
                            else:
                                want += float(sim.arm_to_stats_train[a][stat])
                        if not T.same(float(view[a]["sum"]), want, 1e-9):
                            return "bandit %d, evaluation %r (%s), arm %r: sum %r, recomputation %r" % (i, key, stat, a, view[a]["sum"], want)
    return None


# ------------------------------------------------------------------ C18 containers and caller-owned objects

def gen_c18(seed, index):
    prof = {"name": "C18", "lp": ALL_LP, "np": [None, None] + G.NP_KINDS, "p_binz": 0.5,
            "weights": {"fit": 1, "pfit": 3, "query": 3, "add": 1, "rem": 0.5, "warm": 0.7}, "n_ops": (3, 8),
            "dims": [1, 1, 2, 3], "unknown_labels": False}
    if index % 16 == 5:
        # long Python lists whose first 256 entries are integers and whose later entries are not (rewards, contexts,
        # numeric arm labels): the element type of a list is the type of *all* its elements
        rng = random.Random("%s/C18-long/%s" % (seed, index))
        npk = rng.choice([None, "knn", "radius", None])
        lpk = rng.choice(["greedy", "ucb", "linucb", "softmax"]) if npk is None else rng.choice(["greedy", "ucb"])
        lp = G.gen_lp(rng, lpk)
        if "eps" in lp:
            lp["eps"] = 0.0
        arms = [1, 2, 2.5]
        npc = G.gen_np(rng, npk, len(arms), 2)
        if npc and npc["k"] == "radius":
            npc["probs"] = None
            npc["r"] = 2.0
        n = 300
        dec = [rng.choice([1, 2]) for _ in range(270)] + [rng.choice(arms) for _ in range(n - 270)]
        rew = [rng.choice([0, 1, 2, 5]) for _ in range(270)] + [rng.choice([0.5, 1.25, 2, 3.75]) for _ in range(n - 270)]
        ctxual = npk is not None or lpk in G.LIN_KINDS
        ctx = ([[float(rng.randint(0, 4)), float(rng.randint(0, 4))] for _ in range(270)] +
               [[rng.randint(0, 4) + 0.5, rng.randint(0, 4) + 0.25] for _ in range(n - 270)]) if ctxual else None
        q = {"op": "pexp", "c": [[1.0, 2.0], [3.5, 0.25]] if ctxual else None}
        return {"cfg": {"lp": lp, "np": npc, "arms": arms, "seed": rng.randint(0, 10 ** 6), "binz": None, "n_jobs": 1},
                "ops": [{"op": "fit", "d": dec, "r": rew, "c": ctx}, q, {"op": "pred", "c": q["c"]}],
                "variant": rng.choice(["ndarray", "pandas"])}
    if index % 16 == 13:
        # an empty-neighbourhood distribution that passes validation (sums to one within 1e-5) without summing to one exactly
        rng = random.Random("%s/C18-probs/%s" % (seed, index))
        arms = [1, 2, 3]
        npc = rng.choice([{"k": "radius", "r": 0.5, "metric": "euclidean", "probs": [0.33334, 0.33333, 0.33334]},
                          {"k": "lsh", "ndim": 12, "ntab": 1, "probs": [0.5, 0.25, 0.250004]}])
        n = 8
        ops = [{"op": "fit", "d": [arms[i % 3] for i in range(n)], "r": [rng.choice([0, 1, 2]) for _ in range(n)],
                "c": [[float(rng.randint(0, 2)), float(rng.randint(0, 2))] for _ in range(n)]},
               {"op": "pred", "c": [[50.0, -40.0]]}, {"op": "pred", "c": [[60.0, -45.0], [70.0, 80.0]]}]
        return {"cfg": {"lp": {"k": "greedy", "eps": 0.0}, "np": npc, "arms": arms, "seed": rng.randint(0, 10 ** 6), "binz": None,
                        "n_jobs": 1}, "ops": ops, "variant": "ndarray"}
    if index % 8 == 3:
        # stored histories: the first training call names only the shortest string labels (or only integral numeric
        # labels), a later partial_fit brings a longer label (a non-integral one): whatever dtype the first call
        # produced for the stored decisions must widen, in every container
        rng, g = _gen(seed, index, dict(prof, name="C18h", np=["radius", "knn", "lsh", "clusters", "tree", None]))
        if index % 16 == 3:
            arms = ["a", "b", "ab", "abcdefgh"]
        else:
            arms = [1, 2, 2.5, 7.25]
        g.arms = list(arms)
        g.spare = []
        g.cfg["arms"] = list(arms)
        n = max(6, ((g.cfg.get("np") or {}).get("n", 0) or 0) + 4, (g.cfg.get("np") or {}).get("kk", 0) or 0)
        ops = []
        for k, pool in enumerate([arms[:2], arms[2:], arms]):
            d, r, c = g.batch(n, allow_unknown=False)
            d = [rng.choice(pool) for _ in d]
            ops.append({"op": "fit" if k == 0 else "pfit", "d": d, "r": r, "c": c})
            g.stored += list(c or [])
            g.fitted = True
            g.ops = []
            g.op_query("pexp")
            g.op_query("pred")
            ops += g.ops
        return {"cfg": g.cfg, "ops": ops, "variant": rng.choice(["pandas", "ndarray", "pandas"])}
    rng, g = _gen(seed, index, prof)
    scn = g.build()
    # later batches carry non-integral contexts (k/2) so that an integer first batch does not pin the dtype
    first = True
    for op in scn["ops"]:
        if op["op"] in ("fit", "pfit") and op.get("c"):
            if not first and rng.random() < 0.7:
                op["c"] = [[x + rng.choice([0.0, 0.5]) for x in row] for row in op["c"]]
            first = False
    scn["variant"] = rng.choice(["ndarray", "ndarray_f", "ndarray_int", "pandas", "noncontig", "ndarray", "pandas"])
    if scn["cfg"]["lp"]["k"] in G.LIN_KINDS + ["lingreedy"] or scn["cfg"].get("np"):
        rv = random.Random("%s/C18-reuse/%s" % (seed, index))
        if rv.random() < 0.25:
            scn["variant"] = rv.choice(["list_reused", "frame_reused"])
            # repeat the query sizes so that a buffer of the same shape comes back with other numbers
            qs = [op for op in scn["ops"] if op["op"] in ("pexp", "pred") and op.get("c")]
            if qs:
                extra = copy.deepcopy(qs[-1])
                extra["c"] = [[x + 1.0 for x in row] for row in extra["c"]]
                scn["ops"] = scn["ops"] + [extra, copy.deepcopy(qs[-1])]
    # string labels: now and then the first training batch names only the shortest labels, so that a longer label
    # arrives later (fixed-width string arrays must not truncate it, whatever the container)
    arms = scn["cfg"]["arms"]
    if isinstance(arms[0], str) and len({len(a) for a in arms}) > 1 and rng.random() < 0.5:
        short = [a for a in arms if len(a) == min(len(x) for x in arms)]
        for op in scn["ops"]:
            if op["op"] in ("fit", "pfit"):
                op["d"] = [x if (isinstance(x, str) and len(x) == len(short[0])) else rng.choice(short) for x in op["d"]]
                break
    return scn


def _containers(op, variant, first_int_ok, width=None):
    """the same data in another container type"""
    import pandas as pd
    d, r, c = op.get("d"), op.get("r"), op.get("c")
    out = {}
    if d is not None:
        out["d"] = np.asarray(d) if variant != "pandas" else pd.Series(d)
        rr = np.asarray(r, dtype=float)
        if variant == "ndarray_int" and all(float(x).is_integer() for x in r):
            rr = np.asarray(r, dtype=int)
        out["r"] = rr if variant != "pandas" else pd.Series(r)
    if c is not None:
        m = np.asarray(c, dtype=float)
        if variant == "ndarray_int" and np.all(m == np.floor(m)):
            m = m.astype(int)
        if variant == "ndarray_f":
            m = np.asfortranarray(m)
        elif variant == "noncontig":
            wide = np.zeros((m.shape[0], m.shape[1] * 2))
            wide[:, ::2] = m
            m = wide[:, ::2]
        elif variant == "pandas":
            if m.shape[1] == 1 and d is not None and len(d) > 1:
                m = pd.Series(m[:, 0])           # single feature column as a Series
            elif m.shape[0] == 1 and d is not None:
                m = pd.Series(m[0, :])           # single row as a Series
            elif d is None and width is not None and m.shape[1] == width and (m.shape[0] == 1 or width == 1):
                # a query as a Series: one row of `width` features, or several rows of one feature (the facade tells
                # them apart by the number of features the bandit was trained with)
                m = pd.Series(m[0, :] if m.shape[0] == 1 else m[:, 0])
            else:
                m = pd.DataFrame(m)
        out["c"] = m
    return out


def _snap(x):
    import pandas as pd
    if isinstance(x, np.ndarray):
        return ("nd", x.dtype.str, x.shape, x.tobytes())
    if isinstance(x, (pd.Series, pd.DataFrame)):
        return ("pd", pickle.dumps(x))
    return ("py", pickle.dumps(x))


@twin("containers_and_caller_objects")
@T.quiet
def containers_and_caller_objects(scn):
    from . import binz as B
    cfg = scn["cfg"]
    T.register_labels(scn)
    arms_a = list(cfg["arms"])
    arms_b = list(cfg["arms"])
    lp = S.make_lp(cfg["lp"], cfg.get("binz"))
    npo = S.make_np(cfg.get("np"))
    policy_snap = _snap((npo.tree_parameters if hasattr(npo, "tree_parameters") else None,
                         getattr(npo, "no_nhood_prob_of_arm", None)))
    from mabwiser.mab import MAB
    a = MAB(arms_a, lp, npo, seed=cfg.get("seed", 1))
    b = MAB(arms_b, S.make_lp(cfg["lp"], cfg.get("binz")), S.make_np(cfg.get("np")), seed=cfg.get("seed", 1))
    variant = scn.get("variant", "ndarray")
    buffers = {}
    width = None                  # number of features of the last accepted training call
    for i, op in enumerate(scn["ops"]):
        ra = T.apply_op(a, op)
        if op["op"] in ("fit", "pfit") and ra[0] == "ok" and op.get("c"):
            width = len(op["c"][0])
        k = op["op"]
        if k in ("fit", "pfit", "pexp", "pred"):
            cont = _containers(op, "ndarray" if variant.endswith("_reused") else variant, True, width=width)
            if variant.endswith("_reused") and cont.get("c") is not None and k in ("pexp", "pred"):
                # the caller keeps one *query* buffer per shape and overwrites it in place between calls: what the bandit
                # answers depends on the numbers in the buffer at the time of the call, not on the object's identity.
                # (Training containers are always fresh objects: a bandit may keep a view of the array it was trained on,
                # and what happens when the caller later edits that array is outside the property.)
                import pandas as pd
                m = np.asarray(cont["c"], dtype=float)
                key = (variant, m.shape)
                if key not in buffers:
                    buffers[key] = [list(map(float, row)) for row in m] if variant == "list_reused" else pd.DataFrame(m.copy())
                elif variant == "list_reused":
                    for brow, row in zip(buffers[key], m):
                        brow[:] = [float(x) for x in row]
                else:
                    buffers[key].iloc[:, :] = m
                cont["c"] = buffers[key]
            before = {kk: _snap(v) for kk, v in cont.items()}
            try:
                if k in ("fit", "pfit"):
                    (b.fit if k == "fit" else b.partial_fit)(cont["d"], cont["r"], cont.get("c"))
                    rb = ("ok",)
                else:
                    res = (b.predict_expectations if k == "pexp" else b.predict)(cont.get("c"))
                    rb = ("ok", T.canon(copy.deepcopy(res)))
            except Exception as e:  # noqa: BLE001
                rb = ("raised", type(e).__name__)
            for kk, v in cont.items():
                if _snap(v) != before[kk]:
                    return "step %d (%s): the caller's %s container (%s) was modified by the call" % (i, k, {"d": "decisions", "r": "rewards", "c": "contexts"}[kk], variant)
        elif k == "warm":
            feats = {x: list(v) for x, v in op["feats"]}
            before = _snap(feats)
            try:
                b.warm_start(feats, op["q"])
                rb = ("ok",)
            except Exception as e:  # noqa: BLE001
                rb = ("raised", type(e).__name__)
            if _snap(feats) != before:
                return "step %d: warm_start modified the caller's arm-feature dictionary" % i
        else:
            rb = T.apply_op(b, op)
        if not T.same(ra, rb, 0.0):
            return "step %d (%s): lists give %r, %s containers give %r" % (i, k, ra, variant, rb)
        if arms_a != list(cfg["arms"]) or arms_b != list(cfg["arms"]):
            return "step %d (%s): the caller's arms list was modified: %r" % (i, k, arms_a)
    # arm changes at the end (scenarios with a configured empty-neighbourhood distribution contain none: known
    # finding K4 concerns what predict does afterwards, not the caller's objects)
    for extra in ("zz_added_1", "zz_added_2"):
        try:
            a.add_arm(extra if isinstance(cfg["arms"][0], str) else 9000 + len(extra) + len(a.arms))
        except Exception:  # noqa: BLE001
            pass
    try:
        a.remove_arm(a.arms[0])
    except Exception:  # noqa: BLE001
        pass
    if _snap((npo.tree_parameters if hasattr(npo, "tree_parameters") else None,
              getattr(npo, "no_nhood_prob_of_arm", None))) != policy_snap:
        return "a policy parameter object owned by the caller was modified"
    if arms_a != list(cfg["arms"]):
        return "the caller's arms list was modified by an arm change: %r" % (arms_a,)
    # the bandit's arm list is independent of the list it was constructed from
    arms_a.append("zz_caller_side")
    if "zz_caller_side" in a.arms:
        return "the bandit's arm list aliases the caller's list"
    return None
