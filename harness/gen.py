"""Structured scenario generators.  Every random choice derives from one `random.Random` so that a
disagreement replays exactly from (VERIF_SEED, index)."""
import random

CF_KINDS = ["greedy", "ucb", "softmax", "thompson", "popularity", "random"]
LIN_KINDS = ["lingreedy", "linucb", "lints"]
NP_KINDS = ["radius", "knn", "lsh", "clusters", "tree"]
TREE_OK = ("greedy", "ucb", "thompson")
WARM_OK = ("greedy", "ucb", "softmax", "thompson", "popularity", "lingreedy", "linucb", "lints")

LABEL_SETS = {
    "int": [3, 1, 7, 10, 4, 22, 5, 8, 0],          # 0 / 0.0 / "": labels that are falsy
    # labels of different lengths, some a proper prefix of another (fixed-width string arrays truncate silently)
    "str": ["a", "ab", "c", "dd", "d", "abc", "g", "h", ""],
    "float": [0.5, 2.0, 1.25, 7.0, 3.5, 9.0, 4.75, 6.0, 0.0],
}


def gen_lp(rng, kind):
    if kind == "greedy":
        return {"k": "greedy", "eps": rng.choice([0.0, 0.0, 0.25, 0.5, 1.0])}
    if kind == "ucb":
        return {"k": "ucb", "alpha": rng.choice([0.0, 0.5, 1.0, 2.0])}
    if kind == "softmax":
        return {"k": "softmax", "tau": rng.choice([0.25, 1.0, 2.0, 8.0, 0.001, 0.015625])}
    if kind in ("thompson", "popularity", "random"):
        return {"k": kind}
    if kind == "lingreedy":
        return {"k": "lingreedy", "eps": rng.choice([0.0, 0.0, 0.5, 1.0]), "lam": rng.choice([0.5, 1.0, 2.0, 4.0])}
    if kind == "linucb":
        return {"k": "linucb", "alpha": rng.choice([0.0, 0.5, 1.0, 2.0]), "lam": rng.choice([0.5, 1.0, 2.0, 4.0])}
    if kind == "lints":
        return {"k": "lints", "alpha": rng.choice([0.5, 1.0, 0.25]), "lam": rng.choice([0.5, 1.0, 2.0, 4.0])}
    raise ValueError(kind)


def gen_np(rng, kind, n_arms, d):
    if kind is None:
        return None
    if kind == "radius":
        metric = rng.choice(["cityblock", "chebyshev", "sqeuclidean", "euclidean"])
        r = rng.choice([1.0, 2.0, 3.0, 0.5, 1.5, 4.0, 5.0])
        probs = None
        if rng.random() < 0.3:
            w = [rng.choice([0, 1, 1, 2]) for _ in range(n_arms)]
            if sum(w) == 0:
                w[0] = 1
            # exactly representable probabilities summing to one: multiples of 1/8 when possible
            tot = sum(w)
            probs = [x / tot for x in w]
        return {"k": "radius", "r": r, "metric": metric, "probs": probs}
    if kind == "knn":
        return {"k": "knn", "kk": rng.choice([1, 2, 3]), "metric": rng.choice(["cityblock", "chebyshev", "sqeuclidean", "euclidean"])}
    if kind == "lsh":
        # more than 8 hyper-planes per table now and then (hash codes beyond one byte)
        return {"k": "lsh", "ndim": rng.choice([1, 2, 3, 4, 4, 9, 12]), "ntab": rng.choice([1, 2, 3]), "probs": None}
    if kind == "clusters":
        return {"k": "clusters", "n": rng.choice([2, 2, 3]), "mini": rng.random() < 0.25}
    if kind == "tree":
        return {"k": "tree", "params": rng.choice([None, None, {"max_depth": 2}, {"min_samples_leaf": 2}])}
    raise ValueError(kind)


def gen_row(rng, d, grid=4):
    return [float(rng.randint(0, grid)) for _ in range(d)]


def gen_reward(rng, lpk, binz):
    if lpk == "thompson" and not binz:
        return rng.choice([0, 1])
    if lpk == "thompson":
        return rng.choice([0, 1, 2, 3, 0.5, 1.5])
    if lpk == "popularity":
        return rng.choice([0, 0, 1, 2, 3, 0.5, 0.125, 1.75])
    if rng.random() < 0.06:
        return rng.choice([1000, -1000, 65536, 1e6])     # large-magnitude stream
    return rng.choice([0, 1, 2, -1, -3, 5, 0.5, 0.125, -0.75, 1.375])


class Gen:
    """Stateful generator of one scenario (tracks the current arm list and the stored rows)."""

    def __init__(self, rng, profile):
        self.rng = rng
        self.p = profile
        rng_ = rng
        self.lpk = rng_.choice(profile.get("lp", CF_KINDS))
        npk = rng_.choice(profile.get("np", [None]))
        if npk == "tree" and self.lpk not in TREE_OK:
            self.lpk = rng_.choice(TREE_OK)
        if npk == "clusters" and self.lpk == "popularity":
            self.lpk = "greedy"
        self.npk = npk
        self.ltype = rng_.choice(profile.get("labels", ["int", "int", "str", "float"]))
        self.pool = list((BIG_LABELS if profile.get("big") else LABEL_SETS)[self.ltype])
        rng_.shuffle(self.pool)
        n_arms = rng_.choice(profile.get("n_arms", [1, 2, 2, 3, 3, 4, 5]))
        self.arms = self.pool[:n_arms]
        self.spare = self.pool[n_arms:]
        self.removed = []
        self.contextual = npk is not None or self.lpk in LIN_KINDS
        self.d = rng_.choice(profile.get("dims", [1, 2, 2, 3])) if self.contextual else 0
        self.binz = None
        if self.lpk == "thompson" and rng_.random() < profile.get("p_binz", 0.3):
            self.binz = rng_.choice([1, 2, 3, 4])
        self.cfg = {"lp": gen_lp(rng_, self.lpk), "np": gen_np(rng_, npk, n_arms, self.d), "arms": list(self.arms),
                    "seed": rng_.randint(0, 10 ** 6), "binz": self.binz, "n_jobs": 1}
        if profile.get("fix_lp"):
            self.cfg["lp"].update(profile["fix_lp"].get(self.lpk, {}))
        if npk is None and self.lpk in LIN_KINDS and profile.get("allow_scale") and \
                random.Random("scale/%s" % self.cfg["seed"]).random() < 0.3:
            # per-arm standardisation: the scaler statistics are an oracle for the model (model/impl correspondence only)
            self.cfg["lp"]["scale"] = True
        if npk is None and profile.get("free_n_jobs", True):
            # without a neighbourhood policy n_jobs only distributes the per-arm training tasks (no draws are taken
            # there), so every check can vary it; derived from the bandit's seed to keep the scenario stream stable
            nj = random.Random(self.cfg["seed"]).choice([1, 1, 1, 1, 1, 1, 1, 1, 2, 3])
            if nj != 1:
                self.cfg["n_jobs"] = nj
                self.cfg["backend"] = "threading"
        self.stored = []
        self.fitted = False
        self.ops = []

    # -- pieces
    def batch(self, n=None, allow_unknown=True):
        rng = self.rng
        if n is None:
            n = rng.choice(self.p.get("batch_sizes", [1, 2, 3, 4, 6, 8, 12]))
        npc = self.cfg["np"]
        if npc and npc["k"] == "clusters":
            n = max(n, npc["n"] + 3)
        if npc and npc["k"] == "knn":
            n = max(n, npc["kk"])
        # often omit some arms
        pool = list(self.arms)
        if len(pool) > 1 and rng.random() < 0.5:
            pool = rng.sample(pool, rng.randint(1, len(pool) - 1))
        d, r, c = [], [], []
        for _ in range(n):
            if allow_unknown and self.p.get("unknown_labels", True) and self.spare and rng.random() < 0.04:
                d.append(self.spare[-1])
            else:
                d.append(rng.choice(pool))
            r.append(gen_reward(rng, self.lpk, self.binz))
            if self.contextual:
                if self.stored and rng.random() < 0.25:
                    c.append(list(rng.choice(self.stored)))
                else:
                    c.append(gen_row(rng, self.d))
        return d, r, (c if self.contextual else None)

    def op_train(self, kind):
        d, r, c = self.batch()
        self.ops.append({"op": kind, "d": d, "r": r, "c": c})
        if kind == "fit" or not self.fitted:
            self.stored = list(c or [])
        else:
            self.stored += list(c or [])
        self.fitted = True

    def query_rows(self, m):
        rng = self.rng
        out = []
        for _ in range(m):
            u = rng.random()
            if self.stored and u < 0.35:
                out.append(list(rng.choice(self.stored)))
            elif self.stored and u < 0.45:
                out.append([2.0 * x for x in rng.choice(self.stored)])
            elif u < 0.55:
                out.append([float(rng.randint(8, 12)) for _ in range(self.d)])   # far away: empty neighbourhoods
            else:
                out.append(gen_row(rng, self.d))
        return out

    def op_query(self, kind=None):
        rng = self.rng
        kind = kind or rng.choice(["pexp", "pexp", "pred"])
        if self.contextual:
            m = rng.choice(self.p.get("query_sizes", [1, 1, 2, 3, 5]))
            c = self.query_rows(m)
        else:
            m = rng.choice([None, None, 1, 2, 3])
            c = None if m is None else [[float(rng.randint(0, 3))] for _ in range(m)]
        self.ops.append({"op": kind, "c": c})

    def _fixed_arms(self):
        # a configured empty-neighbourhood distribution has one entry per arm and cannot be updated
        # (known finding K4): scenarios with such a distribution keep the arm list fixed
        npc = self.cfg.get("np")
        return bool(npc and npc.get("probs"))

    def op_add(self):
        rng = self.rng
        if self._fixed_arms():
            return
        if self.removed and rng.random() < 0.5:
            a = self.removed.pop()
        elif self.spare:
            a = self.spare.pop(0)
        else:
            return
        b = None
        if self.lpk == "thompson" and rng.random() < self.p.get("p_add_binz", 0.3):
            b = rng.choice([1, 2, 3, 4])
            self.binz = b
        self.arms.append(a)
        self.ops.append({"op": "add", "arm": a, "binz": b})

    def op_rem(self):
        if len(self.arms) <= 2 or self._fixed_arms():
            return
        a = self.rng.choice(self.arms)
        self.arms.remove(a)
        self.removed.append(a)
        self.ops.append({"op": "rem", "arm": a})

    def op_warm(self):
        rng = self.rng
        if self.npk is not None or self.lpk not in WARM_OK:
            return
        dim = rng.choice([1, 2, 3])
        vecs = []
        for a in self.arms:
            u = rng.random()
            if vecs and u < 0.25:
                vecs.append(list(rng.choice(vecs)))
            elif u < 0.35:
                vecs.append([0.0] * dim)
            else:
                vecs.append([float(rng.randint(-3, 4)) for _ in range(dim)])
        order = list(range(len(self.arms)))
        if rng.random() < 0.3:
            rng.shuffle(order)
        feats = [[self.arms[i], vecs[i]] for i in order]
        self.ops.append({"op": "warm", "feats": feats, "q": rng.choice([0.0, 0.25, 0.5, 0.75, 1.0, 0.3])})

    # -- malformed calls (C17): one rejection class, valid for the current configuration
    def op_bad(self):
        rng = self.rng
        npk = self.npk
        classes = ["type_decisions", "len_rewards", "nonfinite", "dup_arm", "arm_none", "arm_nan", "arm_inf",
                   "rem_unknown", "rem_none", "binz_noncallable"]
        if self.contextual:
            classes += ["ctx_type", "len_ctx", "ctx_missing", "pred_ctx_missing", "pred_ctx_type"]
        else:
            classes += ["ctx_superfluous"]
        if self.lpk == "thompson" and not self.binz:
            classes += ["nonbinary"]
        if self.lpk != "thompson":
            classes += ["binz_nonts"]
        if not self.fitted:
            classes += ["not_fit", "not_fit"]
        if self.fitted and self.contextual and self.d >= 2 and (npk in ("radius", "knn", "lsh", "clusters") or
                                                                 (npk is None and self.lpk in LIN_KINDS)):
            classes += ["width", "width"]
        if npk == "clusters":
            classes += ["few_rows"]
        if npk is None and self.lpk in WARM_OK:
            classes += ["warm_type", "warm_q", "warm_keys"]
            if self.fitted:
                classes += ["warm_degenerate"]
        allowed = self.p.get("bad_classes")
        if allowed:
            classes = [c for c in classes if c in allowed] or classes
        cls = rng.choice(classes)
        d, r, c = self.batch(rng.choice([1, 2, 4]), allow_unknown=False)
        kind = rng.choice(["fit", "pfit"])
        op = None
        if cls == "type_decisions":
            op = {"op": kind, "d": d, "r": r, "c": c, "typeok": False}
        elif cls == "len_rewards":
            op = {"op": kind, "d": d, "r": r + [r[0]], "c": c}
        elif cls == "nonfinite":
            r2 = list(r)
            r2[rng.randrange(len(r2))] = rng.choice(["nan", "inf", None])
            op = {"op": kind, "d": d, "r": r2, "c": c}
        elif cls == "nonbinary":
            r2 = list(r)
            r2[rng.randrange(len(r2))] = rng.choice([2, 0.5, -1])
            op = {"op": kind, "d": d, "r": r2, "c": c}
        elif cls == "ctx_type":
            op = {"op": kind, "d": d, "r": r, "c": c, "ctypeok": False}
        elif cls == "len_ctx":
            op = {"op": kind, "d": d, "r": r, "c": c + [c[0]]}
        elif cls == "ctx_missing":
            op = {"op": kind, "d": d, "r": r, "c": None}
        elif cls == "ctx_superfluous":
            op = {"op": kind, "d": d, "r": r, "c": [[0.0] for _ in d]}
        elif cls == "width":
            # one column only where the rejection is certain (stored history cannot be stacked with it); a linear
            # model would broadcast a single column silently (DESIGN section 14), which is no rejected call
            ws = (1, 1, 2, 3, 4) if npk in ("radius", "knn", "lsh") else (2, 3, 4)
            w = rng.choice([x for x in ws if x != self.d])
            op = {"op": "pfit", "d": d, "r": r, "c": [[float(rng.randint(0, 4)) for _ in range(w)] for _ in d]}
        elif cls == "few_rows":
            n = self.cfg["np"]["n"] - 1
            # a first partial_fit is a fit: too few rows are rejected there as well
            cc = c[:n]
            if self.fitted and rng.random() < 0.5:
                # ... with another number of columns than the stored history (the rejected call must not re-dimension
                # anything that survives it)
                w = rng.choice([x for x in (1, 2, 3, 4) if x != self.d])
                cc = [[float(rng.randint(0, 4)) for _ in range(w)] for _ in cc]
            op = {"op": "fit" if self.fitted else rng.choice(["fit", "pfit"]), "d": d[:n], "r": r[:n], "c": cc}
        elif cls == "not_fit":
            op = {"op": rng.choice(["pexp", "pred"]), "c": self.query_rows(1) if self.contextual else None}
        elif cls == "pred_ctx_missing":
            op = {"op": rng.choice(["pexp", "pred"]), "c": None}
        elif cls == "pred_ctx_type":
            op = {"op": rng.choice(["pexp", "pred"]), "c": self.query_rows(2), "ctypeok": False}
        elif cls == "dup_arm":
            op = {"op": "add", "arm": rng.choice(self.arms), "binz": None}
        elif cls in ("arm_none", "arm_nan", "arm_inf"):
            op = {"op": "add", "arm": {"special": cls[4:]}, "binz": None}
        elif cls == "rem_unknown":
            op = {"op": "rem", "arm": self.spare[-1] if self.spare else "zz-unknown"}
        elif cls == "rem_none":
            op = {"op": "rem", "arm": {"special": "none"}}
        elif cls == "binz_nonts":
            op = {"op": "add", "arm": self.spare[-1] if self.spare else "zz-new", "binz": 1}
        elif cls == "binz_noncallable":
            op = {"op": "add", "arm": self.spare[-1] if self.spare else "zz-new", "binz": 1, "callable": False}
        elif cls.startswith("warm_"):
            self.op_warm()
            if not self.ops or self.ops[-1]["op"] != "warm":
                return None
            op = self.ops.pop()
            if cls == "warm_type":
                op["typeok"] = False
            elif cls == "warm_q":
                op["q"] = rng.choice([-0.5, 1.5])
            elif cls == "warm_keys":
                op["feats"] = op["feats"][:-1] if len(op["feats"]) > 1 else op["feats"] + [["zz-extra", op["feats"][0][1]]]
            elif cls == "warm_degenerate":
                op["feats"] = [[a, [0.0, 0.0]] for a, _ in op["feats"]]
        if op is None:
            return None
        op["bad"] = cls
        self.ops.append(op)
        return cls

    def build(self):
        rng = self.rng
        p = self.p
        n_ops = rng.randint(*p.get("n_ops", (3, 10)))
        weights = dict(p.get("weights", {"fit": 1, "pfit": 3, "query": 4, "add": 1.5, "rem": 1, "warm": 0}))
        weights.setdefault("swap", 0.6)
        kinds = list(weights)
        # first op: usually a fit (sometimes partial_fit as the initial fit, or an arm change first)
        u = rng.random()
        if weights.get("bad", 0) > 0 and rng.random() < 0.2:
            self.op_bad()
        if u < 0.7:
            self.op_train("fit")
        elif u < 0.85:
            self.op_train("pfit")
        else:
            self.op_add()
            self.op_train("fit")
        while len(self.ops) < n_ops:
            k = rng.choices(kinds, [weights[x] for x in kinds])[0]
            if k == "fit":
                self.op_train("fit")
            elif k == "pfit":
                self.op_train("pfit")
            elif k == "query":
                self.op_query()
            elif k == "add":
                self.op_add()
            elif k == "rem":
                self.op_rem()
            elif k == "warm":
                self.op_warm()
            elif k == "bad":
                self.op_bad()
            elif k == "swap":
                # replace an arm by another one (same number of arms), then query
                n0 = len(self.ops)
                self.op_rem()
                if len(self.ops) > n0:
                    self.op_add()
                    self.op_query(rng.choice(["pred", "pexp"]))
        if p.get("end_query", True):
            self.op_query("pexp")
            if rng.random() < 0.5:
                self.op_query("pred")
        return {"cfg": self.cfg, "ops": self.ops}


def warm_readd_scenario(rng, g):
    """train two arms, warm start (a cold arm stays cold), remove a *trained* arm and add it again (now untrained),
    warm start again with a cold arm sitting exactly on the re-added arm: the source must be a trained arm"""
    if len(g.arms) < 3:
        g.arms = (g.arms + g.spare)[:3]
        g.cfg["arms"] = list(g.arms)
    A, B, C = g.arms[0], g.arms[1], g.arms[2]
    rest = g.arms[3:]
    n = rng.choice([4, 6, 9])
    d = [rng.choice([A, B]) for _ in range(n - 2)] + [A, B]
    r = [gen_reward(rng, g.lpk, g.binz) for _ in d]
    if g.lpk != "thompson":
        r = [x + (2 if a == B else 0) for a, x in zip(d, r)]      # the two trained arms differ
    c = [gen_row(rng, g.d) for _ in d] if g.contextual else None
    q = {"op": "pexp", "c": [gen_row(rng, g.d)] if g.contextual else None}
    far = [[x, [-1.0, -2.0 - i]] for i, x in enumerate(rest)]           # cosine distances: directions matter
    feats1 = [[A, [1.0, 0.0]], [B, [0.0, 1.0]], [C, [-1.0, -1.0]]] + far
    feats2 = [[A, [3.0, 4.0]], [B, [4.0, 3.0]], [C, [3.0, 4.0]]] + far
    ops = [{"op": "fit", "d": d, "r": r, "c": c}, {"op": "warm", "feats": feats1, "q": 0.0}, dict(q),
           {"op": "rem", "arm": A}, {"op": "add", "arm": A, "binz": None},
           {"op": "warm", "feats": [feats2[1], feats2[2]] + far + [feats2[0]], "q": 1.0}, dict(q), {"op": "pred", "c": q["c"]}]
    g.arms = [B, C] + rest + [A]
    return {"cfg": g.cfg, "ops": ops}


BIG_LABELS = {
    "int": [1000 + 7 * i for i in range(40)] + [0, -3],
    # long labels, labels that look like numbers (and sort differently as strings), a label with spaces
    "str": ["campaign-2024-%03d-variant" % i for i in range(30)] + ["10", "2", "1", "1.0", "02", " a b ", "x" * 40],
    "float": [0.125 * i for i in range(1, 36)] + [-1.5, 1e6, 1e-6],
}


def big_scenario(seed, index, profile):
    """the same kind of history on data of another shape and scale: 20-30 arms, 10-12 context features, batches of several
    hundred to over a thousand rows, dozens of query rows per call, large k / many clusters / many tables, extreme (legal)
    hyper-parameters, rewards and contexts of large magnitude or with many binary places"""
    rng = random.Random("%s/%s/big/%s" % (seed, profile.get("name", ""), index))
    prof = dict(profile)
    prof["n_arms"] = [20, 25, 30]
    prof["dims"] = [10, 12]
    prof["batch_sizes"] = [40, 300, 600, 1100] if not profile.get("big_small_batches") else profile.get("big_batches", [40, 150, 300])
    prof["query_sizes"] = [1, 33, 65]
    prof["n_ops"] = (2, 5)
    w = dict(profile.get("weights", {"fit": 1, "pfit": 3, "query": 4, "add": 1.5, "rem": 1, "warm": 0}))
    w["bad"] = 0
    prof["weights"] = w
    prof["big"] = True
    g = Gen(rng, prof)
    cfg = g.cfg
    lp = cfg["lp"]
    # extreme but legal hyper-parameters
    if lp["k"] == "softmax":
        lp["tau"] = rng.choice([2.0 ** -10, 2.0 ** 10, 1.0])
    if "alpha" in lp and lp["k"] != "lints":
        lp["alpha"] = rng.choice([0.0, 8.0, lp["alpha"]])
    zero_col = False
    if "lam" in lp:
        # (regularisers far below the data - condition numbers beyond 1/eps - are left out: numpy then raises LinAlgError or
        # returns rounding noise depending on the rows, which no exact model can follow)
        lp["lam"] = rng.choice([2.0 ** -4, 2.0 ** 6, lp["lam"]])
    if "eps" in lp:
        lp["eps"] = rng.choice([0.0, 1.0, lp["eps"]])
    npc = cfg.get("np")
    if npc:
        if npc["k"] == "knn":
            npc["kk"] = rng.choice([1, 17, 40])
        elif npc["k"] == "radius":
            npc["r"] = rng.choice([0.5, 6.0, 1000.0])
            npc["probs"] = None
        elif npc["k"] == "lsh":
            # few / many planes and tables, and products n_tables * n_dimensions around the widths of machine words and of
            # the float mantissa (53, 54 .. 63, 64)
            npc["ndim"], npc["ntab"] = rng.choice([(2, 1), (12, 1), (20, 6), (11, 5), (21, 3), (9, 6), (8, 8), (53, 1), (2, 6)])
        elif npc["k"] == "clusters":
            npc["n"] = rng.choice([2, 8, 12])
    scn = g.build()
    if zero_col:
        for op in scn["ops"]:
            if op["op"] in ("fit", "pfit") and op.get("c"):
                op["c"] = [row[:-1] + [0.0] for row in op["c"]]
    scale = rng.choice([1.0, 1.0, 2.0 ** 20, 2.0 ** -12])
    if g.lpk not in ("thompson",) + tuple(LIN_KINDS) and scale != 1.0:
        for op in scn["ops"]:
            if op.get("r") is not None:
                op["r"] = [x * scale if isinstance(x, (int, float)) and not isinstance(x, bool) else x for x in op["r"]]
    scn["big"] = True
    return scn


def warm_many_arms_scenario(rng, g):
    """24 arms, the first few trained, every other arm cold with its own feature vector: distances of every pair matter,
    whatever block size a pairwise-distance routine uses"""
    n_arms = 24
    arms = (g.arms + g.spare + [9000 + i for i in range(n_arms)])[:n_arms] if g.ltype != "str" else ["w%02d" % i for i in range(n_arms)]
    if g.ltype == "float":
        arms = [0.25 * (i + 1) for i in range(n_arms)]
    g.arms = list(arms)
    g.cfg["arms"] = list(arms)
    trained = arms[:4]
    n = 16
    d = [trained[i % 4] for i in range(n)]
    r = [gen_reward(rng, g.lpk, g.binz) for _ in d]
    if g.lpk != "thompson":
        r = [x + 2 * trained.index(a) for a, x in zip(d, r)]
    c = [gen_row(rng, g.d) for _ in d] if g.contextual else None
    # directions spread over the half plane; cold arm i sits next to trained arm i % 4
    import math
    feats = []
    for i, a in enumerate(arms):
        ang = 0.7 * (i % 4) + (0.02 * (i // 4) if i >= 4 else 0.0)
        feats.append([a, [round(math.cos(ang), 6), round(math.sin(ang), 6)]])
    q = {"op": "pexp", "c": [gen_row(rng, g.d)] if g.contextual else None}
    ops = [{"op": "fit", "d": d, "r": r, "c": c}, {"op": "warm", "feats": feats, "q": rng.choice([0.5, 1.0, 0.25])}, q,
           {"op": "pred", "c": q["c"]}]
    return {"cfg": g.cfg, "ops": ops}


def long_batch_scenario(rng, g):
    """every arm observed, then one partial_fit of more than 2^10 rows in which some observed arms do not occur (their
    statistics stay, whatever depends on the total number of observations moves), then ordinary calls"""
    arms = list(g.arms)
    if len(arms) < 3:
        arms = (arms + g.spare)[:3]
        g.arms = list(arms)
        g.cfg["arms"] = list(arms)
    g.cfg["n_jobs"] = 1
    g.cfg.pop("backend", None)

    def batch(pool, k):
        d = [pool[i % len(pool)] if i < len(pool) else rng.choice(pool) for i in range(k)]
        return {"d": d, "r": [gen_reward(rng, g.lpk, g.binz) for _ in d], "c": [gen_row(rng, g.d) for _ in d] if g.contextual else None}
    q = {"op": "pexp", "c": [gen_row(rng, g.d)] if g.contextual else None}
    some = arms[:max(1, len(arms) - 2)]
    ops = [dict(batch(arms, 2 * len(arms)), op="fit"), dict(q), dict(batch(some, rng.choice([1024, 1100, 1500])), op="pfit"), dict(q),
           dict(batch(arms, 5), op="pfit"), dict(q), {"op": "pred", "c": q["c"]}]
    return {"cfg": g.cfg, "ops": ops}


def dead_feature_scenario(rng, g):
    """two features, the second never switched on in training, a regulariser of 2^-60: every arm's A is diagonal with a
    tiny entry, its inverse exact and huge there (condition number far beyond 1/eps, yet nothing is singular and nothing
    is rounded): queries that switch the feature on see the huge variance / bonus"""
    g.d = 2
    g.cfg["lp"]["lam"] = 2.0 ** -60
    g.cfg["lp"].pop("scale", None)
    n = rng.choice([4, 7, 10])

    def batch(k):
        d = [rng.choice(g.arms) for _ in range(k)]
        return {"d": d, "r": [gen_reward(rng, g.lpk, g.binz) for _ in d], "c": [[float(rng.randint(0, 4)), 0.0] for _ in d]}
    q = {"op": "pexp", "c": [[1.0, 1.0], [2.0, 0.0], [0.0, 3.0]]}
    ops = [dict(batch(n), op="fit"), dict(q), dict(batch(3), op="pfit"), dict(q), {"op": "pred", "c": q["c"]}]
    return {"cfg": g.cfg, "ops": ops}


def gen_scenario(seed, index, profile):
    if profile.get("big_rate", 0.02) > 0 and random.Random("%s/%s/bigp/%s" % (seed, profile.get("name", ""), index)).random() < \
            profile.get("big_rate", 0.02):
        return big_scenario(seed, index, profile)
    rng = random.Random("%s/%s/%s" % (seed, profile.get("name", ""), index))
    g = Gen(rng, profile)
    # a seventh of the scenarios hand the rewards over as a boolean / narrow-integer numpy array whenever a batch
    # consists of integers the dtype holds (own stream: the scenario stream stays what it was)
    r2 = random.Random("%s/rdt/%s/%s" % (seed, profile.get("name", ""), index))
    if r2.random() < 0.15:
        g.cfg["reward_dtype"] = r2.choice(["bool", "bool", "uint8", "int8", "int16", "int32"])
    if g.lpk not in ("thompson", "popularity") and r2.random() < 0.08:
        # all-negative rewards: an arm that has never been observed (expectation 0) is then the best arm
        scn = g.build() if not (profile.get("warm_readd") and index % 12 == 5) else None
        if scn is not None:
            for op in scn["ops"]:
                if op.get("r") is not None:
                    op["r"] = [-abs(x) - 1 if isinstance(x, (int, float)) and not isinstance(x, bool) else x for x in op["r"]]
            return scn
    if g.lpk != "thompson" and 0.5 <= r2.random() < 0.56 and not (profile.get("warm_readd") and index % 12 == 5):
        # tiny rewards (units of 2^-40, exact in binary floating point): nothing may treat "small" as "zero" or "equal"
        scn = g.build()
        for op in scn["ops"]:
            if op.get("r") is not None:
                op["r"] = [x * 2.0 ** -40 if isinstance(x, (int, float)) and not isinstance(x, bool) else x for x in op["r"]]
        return scn
    if profile.get("warm_readd") and index % 12 == 5 and g.npk is None and g.lpk in WARM_OK and len(g.arms + g.spare) >= 3:
        return warm_readd_scenario(rng, g)
    if profile.get("warm_readd") and index % 12 == 9 and g.npk is None and g.lpk in WARM_OK:
        return warm_many_arms_scenario(rng, g)
    if profile.get("dead_feature") and index % 40 == 17 and g.npk is None and g.lpk in LIN_KINDS:
        return dead_feature_scenario(rng, g)
    if profile.get("long_batches") and index % 25 == 23 and g.npk is None:
        return long_batch_scenario(rng, g)
    return g.build()


def skeleton(scn):
    """op skeleton used to count distinct scenarios"""
    cfg = scn["cfg"]
    parts = [cfg["lp"]["k"], (cfg.get("np") or {}).get("k", "none"), str(len(cfg["arms"]))]
    for op in scn["ops"]:
        if op["op"] in ("fit", "pfit"):
            parts.append("%s%d/%d" % (op["op"], len(op["d"]), len(set(map(str, op["d"])))))
        elif op["op"] in ("pexp", "pred"):
            parts.append("%s%s" % (op["op"], "N" if op["c"] is None else len(op["c"])))
        else:
            parts.append(op["op"])
    return "|".join(parts)


def nontrivial(scn):
    """a scenario is non-trivial if it trains at least once and queries at least once afterwards"""
    trained = False
    for op in scn["ops"]:
        if op["op"] in ("fit", "pfit") and len(op["d"]) > 0:
            trained = True
        if trained and op["op"] in ("pexp", "pred"):
            return True
    return False
