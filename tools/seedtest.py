#!/usr/bin/env python3
"""Evaluate a seeded defect against the registered checks.

  seedtest.py import <worktree> <i> <name>     confirm (suite passes, demo fails with / passes without) and store under seeded/<name>/
  seedtest.py run <name> [props...]            apply seeded/<name>/patch.diff to /repo, run the quick checks, undo, record results
"""
import json
import os
import shutil
import subprocess
import sys
import tempfile
import time

VERIF = os.path.dirname(os.path.dirname(os.path.abspath(__file__)))
REPO = os.environ.get("MABWISER_REPO", "/repo")
ENV = dict(os.environ, OMP_NUM_THREADS="1", MABWISER_REPO=REPO, PYTHONPATH=REPO)


def sh(cmd, cwd=None, timeout=3600, env=None):
    p = subprocess.run(cmd, cwd=cwd, capture_output=True, text=True, timeout=timeout, env=env or ENV)
    return p.returncode, p.stdout + p.stderr


def run_demo(demo):
    d = tempfile.mkdtemp(prefix="seed-demo-")
    try:
        shutil.copy(demo, os.path.join(d, "demo.py"))
        rc, out = sh(["/venv/bin/python", "demo.py"], cwd=d, timeout=900)
        return rc, out[-600:]
    finally:
        shutil.rmtree(d, ignore_errors=True)


def clean_repo():
    rc, out = sh(["git", "status", "--short", "mabwiser"], cwd=REPO)
    return out.strip() == ""


def do_import(wt, i, name):
    patch = os.path.join(wt, "seed%s.diff" % i)
    demo = os.path.join(wt, "demo%s.py" % i)
    notes = os.path.join(wt, "notes%s.txt" % i)
    assert clean_repo(), "/repo has uncommitted changes"
    meta = {"name": name, "source": "sub-agent given only the property text and a scratch worktree", "ran": []}
    # 1. suite passes with the change (in the scratch worktree)
    sh(["git", "checkout", "--", "mabwiser"], cwd=wt)
    rc, out = sh(["git", "apply", patch], cwd=wt)
    assert rc == 0, out
    rc, out = sh(["/venv/bin/python", "-m", "pytest", "-q", "-p", "no:cacheprovider", "-n", "12", "--timeout=900"], cwd=wt,
                 env=dict(ENV, PYTHONPATH=wt))
    tail = out.strip().splitlines()[-1]
    meta["suite_with_change"] = tail
    sh(["git", "checkout", "--", "mabwiser"], cwd=wt)
    ok_suite = "584 passed" in tail and "1 failed" in tail
    # 2. demo fails with the change applied to /repo, passes without
    rc0, out0 = run_demo(demo)
    rc, out = sh(["git", "apply", patch], cwd=REPO)
    assert rc == 0, out
    try:
        rc1, out1 = run_demo(demo)
    finally:
        sh(["git", "checkout", "--", "."], cwd=REPO)
    meta["demo_clean_exit"] = rc0
    meta["demo_changed_exit"] = rc1
    meta["demo_changed_output"] = out1[-400:]
    meta["confirmed"] = bool(ok_suite and rc0 == 0 and rc1 == 1)
    d = os.path.join(VERIF, "seeded", name)
    os.makedirs(d, exist_ok=True)
    shutil.copy(patch, os.path.join(d, "patch.diff"))
    shutil.copy(demo, os.path.join(d, "demo.py"))
    if os.path.exists(notes):
        meta["needs"] = open(notes).read()[:1500]
    meta["breaks"] = name.split("-")[0]
    json.dump(meta, open(os.path.join(d, "meta.json"), "w"), indent=1)
    print(name, "confirmed" if meta["confirmed"] else "NOT CONFIRMED", tail, rc0, rc1)


def do_run(name, props):
    d = os.path.join(VERIF, "seeded", name)
    meta = json.load(open(os.path.join(d, "meta.json")))
    assert clean_repo(), "/repo has uncommitted changes"
    rc, out = sh(["git", "apply", os.path.join(d, "patch.diff")], cwd=REPO)
    assert rc == 0, out
    results = {}
    try:
        for p in props:
            t = time.time()
            rc, out = sh(["/venv/bin/python", "harness/vcheck.py", "check", p, "--tier", "quick"], cwd=VERIF, timeout=3000)
            viol = [ln for ln in out.splitlines() if ln.startswith("VIOLATION")]
            results[p] = {"exit": rc, "violation": viol[0] if viol else None, "wall_s": round(time.time() - t, 1)}
            print("  %s %s exit=%d %s" % (name, p, rc, viol[0] if viol else ""))
    finally:
        sh(["git", "checkout", "--", "."], cwd=REPO)
    meta.setdefault("detected_by", {})
    meta["detected_by"].update(results)
    meta["ran"] = sorted(set(meta.get("ran", []) + ["vcheck.py check %s --tier quick" % p for p in props]))
    json.dump(meta, open(os.path.join(d, "meta.json"), "w"), indent=1)


if __name__ == "__main__":
    if sys.argv[1] == "import":
        do_import(sys.argv[2], sys.argv[3], sys.argv[4])
    else:
        do_run(sys.argv[2], sys.argv[3:])
