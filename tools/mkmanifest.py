#!/usr/bin/env python3
"""Regenerates MANIFEST.json from the table below (kept next to the checks so that both change together)."""
import json
import os

HERE = os.path.dirname(os.path.dirname(os.path.abspath(__file__)))

CHECKS = {
    "C01": dict(
        text="Lean 4 proof (full): refinement theorem cf_refines_log — for every policy kind, arm list and finite history "
             "over fit/partial_fit/add_arm/remove_arm the learned record of every current arm is the documented statistic "
             "of exactly that arm's log since the last fit/add (running mean, UCB1 with current N, Softmax shares of the "
             "current means summing to 1, Popularity means normalised to 1, Thompson 1+successes/1+failures). Tied to /repo "
             "by a correspondence check: the executable model and the real MAB are run on the same generated histories and "
             "must agree on predict_expectations, arms, and every sampler request (kind, stream, parameters).",
        ref="7 (C01)",
        note="Model = exact rationals; float rounding, sqrt/log/exp and numpy samplers are outside the model (recorded tape). "
             "The model is tied to the code only on sampled histories.",
        technique="Lean 4 refinement proof by induction over operation lists + model/implementation correspondence (differential)"),
}

NOT_APPLICABLE = {}


def main():
    checks = []
    for pid in sorted(CHECKS):
        c = CHECKS[pid]
        checks.append({
            "property_id": pid,
            "quick_cmd": "/venv/bin/python harness/vcheck.py check %s --tier quick" % pid,
            "thorough_cmd": "/venv/bin/python harness/vcheck.py check %s --tier thorough" % pid,
            "evidence_file": "evidence/%s.json" % pid,
            "replay_cmd_template": "/venv/bin/python harness/vcheck.py replay {path}",
            "engine": "lean4+correspondence",
            "level_claimed": {"category": "proof", "text": c["text"], "design_ref": c["ref"]},
            "level_note": c["note"],
            "technique": c["technique"],
        })
    all_ids = ["C%02d" % i for i in range(1, 21)]
    na = []
    for pid in all_ids:
        if pid not in CHECKS:
            na.append({"property_id": pid, "reason": NOT_APPLICABLE.get(
                pid, "check not built yet in this session (planned: Lean model + correspondence, see DESIGN.md section 7)")})
    m = {
        "version": 1,
        "setup_cmd": "/venv/bin/python harness/vcheck.py setup",
        "hooks": {"guard": "MABWISER_VERIF", "enable": "no hooks: the harness monkey-patches create_rng at import time; nothing is compiled into /repo",
                  "baseline_off_cmd": "cd /repo && OMP_NUM_THREADS=1 /venv/bin/python -m pytest -q -p no:cacheprovider --timeout=900 -n 8",
                  "source_commits": [], "add_only": True},
        "engines": [{"name": "lean4+correspondence", "path": "lean/MabModel + harness/",
                     "serves_properties": sorted(CHECKS),
                     "kind_free_text": "hand-written Lean 4 model with machine-checked theorems (lake build, #print axioms audit) "
                                       "and a Python correspondence harness driving the real library and the compiled model driver"}],
        "checks": checks,
        "not_applicable": na,
        "notes": "All checks share one Lean project (lean/MabModel) built by setup_cmd; every check re-runs lake build (no-op when fresh), "
                 "the axiom audit, and the correspondence against /repo's current working tree. Fixes to genuine defects are 'fix:' commits "
                 "in /repo recorded in known_findings.json.",
    }
    with open(os.path.join(HERE, "MANIFEST.json"), "w") as f:
        json.dump(m, f, indent=1)
    print("MANIFEST.json: %d checks, %d not_applicable" % (len(checks), len(na)))


if __name__ == "__main__":
    main()
