#!/usr/bin/env python3
"""Regenerates MANIFEST.json from the table below (kept next to the checks so that both change together)."""
import json
import os

HERE = os.path.dirname(os.path.dirname(os.path.abspath(__file__)))

TECH = "Lean 4 theorems (induction / refinement / case analysis, kernel-checked) + model/implementation correspondence (differential) + metamorphic twins as failing-input search"
NOTE = ("Trusted: Lean kernel + axioms propext/Classical.choice/Quot.sound; the hand-written model is tied to /repo only on sampled "
        "inputs; float rounding, sqrt/log/exp, numpy samplers (recorded tape), scikit-learn, scipy cdist, joblib, pickle are outside the model.")

CHECKS = {
    "C01": dict(
        text="Lean 4 proof (full): refinement theorem cf_refines_log - for every policy kind, arm list and finite history "
             "over fit/partial_fit/add_arm/remove_arm the learned record of every current arm is the documented statistic "
             "of exactly that arm's log since the last fit/add (running mean, UCB1 with current N, Softmax shares of the "
             "current means summing to 1, Popularity means normalised to 1, Thompson 1+successes/1+failures); facade_lp_is_trace lifts it to the public API "
             "(the facade hands the policy exactly the accepted calls of any history). Tied to /repo "
             "by a correspondence check: the executable model and the real MAB are run on the same generated histories and "
             "must agree on predict_expectations, arms, every sampler request (kind, stream, parameters) and - after every step - on "
             "the state itself (abstraction of the real object graph = the model's state: sums, counts, means, stored expectations, "
             "Beta counters, status flags).",
        ref="7 (C01)"),
    "C02": dict(
        text="Lean 4 proof (full given the run-time inverse certificate, exact arithmetic): lin_statistics/stat_linear (after any history each arm's model "
             "holds A = lambda*I + sum x x^T and Xty = sum y x over exactly its rows), inverse_certificate + ridge_closed_form + "
             "beta_unique_solution (the list matrices read as Mathlib matrices: a model whose stored inverse passes the certificate "
             "'square, A*B = I' - re-checked by the driver for every fitted arm model on every run - has B = A^-1, coefficients "
             "(X'X+lambda I)^-1 X'y, the unique solution of the normal equations), linucb_bonus_quadratic_form, linucb_columns, "
             "reshape_rowwise + squeeze_counterexample (all m, d), k1_counterexample (known finding K1). scale=True: the per-arm "
             "StandardScaler statistics are an oracle, the model applies them (scaleRow); cross-checked by the numpy.linalg.solve "
             "oracle twin (single fit, small-unit features, > 2^10 rows). Correspondence d in 1..3, m in 1..5, A / Xty / A_inv / beta "
             "of every arm compared after every step.",
        ref="7 (C02)"),
    "C03": dict(
        text="Lean 4 proof (full for exact metrics): runHist_hist (the stored history after any facade history is exactly the rows of the accepted training calls since the last fit), radius_exact (selected rows = exactly those within the radius, boundary included), "
             "knn_override_valid (an alternative tie-break is accepted only if it is a valid set of k nearest rows), nhood_from_scratch "
             "(the reused worker copy behaves like a fresh policy fit on the selected rows - via fit_discards), NaN invariant for empty "
             "neighbourhoods across add_arm/remove_arm. Correspondence with radii on realised distances and ties at k; twin against a "
             "fresh learning policy on the oracle-selected rows.",
        ref="7 (C03)"),
    "C04": dict(
        text="Lean 4 proof (partial): World model of several bandits plus the mutable parameter dictionaries reachable from more than one "
             "place: noninterference_private (any interleaving of constructions, fits, copies and other calls: every bandit's trees are "
             "built with its own seed; default and caller dictionaries never written), shared_default_counterexample (repaired D5). "
             "Processes, hash randomisation and the real object graph cannot be exhibited by the model: sampled by digests of scripted "
             "scenarios alone / under PYTHONHASHSEED 0, 1, random / interleaved with other bandits sharing policy tuple objects.",
        ref="7 (C04)"),
    "C05": dict(
        text="Lean 4 proof (partial): partition_exact_cover (for all n>=1, n_jobs!=0, cpu: sizes positive, sum n, starts = prefix "
             "sums), chunked_map / predict_any_partition, chunk_split_all + predictChunk_eq_chunkFold_all (Radius / KNearest / "
             "LSHNearest: any contiguous split of the query rows gives the single-worker outputs, draws and requests, for every "
             "learning policy incl. Thompson, Random, LinTS), cluster_chunk_split (Clusters), fit_tasks_commute (per-arm fit tasks "
             "in any order give the same model). TreeBandit with randomised leaf policies is known finding K3. Real scheduling, "
             "processes and pickling cannot be exhibited by the model; they are sampled: exhaustive _partition_contexts table vs "
             "model, _predict_contexts whole vs row-by-row with equal seeds (data-dependent metrics included), _fit_arm in all task "
             "orders, n_jobs x backend twins, query batches of 2^k+1 rows.",
        ref="7 (C05)"),
    "C06": dict(
        text="Lean 4 proof (full, exact arithmetic): facade_incremental_eq_batch (MAB.fit then any accepted MAB.partial_fit calls = one fit on the concatenation, through the facade); fit_partialFit_append - (s.fit b1).partialFit b2 = s.fit (b1 ++ b2) as an "
             "equality of whole policy states (statistics, expectations, Softmax / Popularity shares, statuses, models, counters), "
             "every policy kind, with or without binarizer; chunked_eq_batch_full / incremental_eq_batch_full for every chunking "
             "from every reachable state; whole bandit under the neighbourhood policies: radius_chunked_eq_batch / "
             "knn_chunked_eq_batch (identical state), lsh_chunked_eq_batch + lshSame_impPredict (same planes, rows and bucket "
             "contents, hence the same answer to every query), clusters_incremental_eq_batch (partial_fit is a fit on the "
             "accumulated history: same history, labels and per-cluster states given the k-means labels). Correspondence on chunked histories; batch-vs-chunked twins bit-for-bit (1e-9 linear), chunks beyond 2^10 "
             "rows.",
        ref="7 (C06)"),
    "C07": dict(
        text="Lean 4 proof (full): fit_discards - fit(D) on any state equals fit(D) on any state with the same configuration and "
             "arms, in particular a fresh one (fit_after_history_eq_fresh; facade_fit_discards for any facade history); fit_then_predictExp_congr (same outputs and draws "
             "whatever was learned or drawn before); facade level impFit_neighbors_congr (stored history), impFit_lsh_congr (planes "
             "drawn from the same stream position, tables rebuilt), impFit_clusters_congr (labels, every cluster policy), "
             "impFit_tree_congr (leaf stores), impFit_none_congr. Tied by correspondence on refit scenarios and refit-vs-fresh twins "
             "(same-shape refits with a query in between, integer-typed contexts).",
        ref="7 (C07)"),
    "C08": dict(
        text="Lean 4 proof (full): keys_eq_arms, predictExp_keys_all (every learning policy, exploring rows included), nhoodRow_keys "
             "(Radius / KNearest / LSHNearest rows incl. empty neighbourhoods), facade invariant BInv with binv_step / "
             "binv_reachable (after any history of accepted or rejected calls the arm list is duplicate-free, the policy - every "
             "cluster policy under Clusters - is well-formed over exactly the arms, the neutral-expectation dictionary and "
             "TreeBandit leaf stores are keyed by exactly the arms), query_outputs_over_arms, predict_mem, unwrap_shape. "
             "Correspondence compares arms, key order and result shape after every step (int/float/str labels, prefix-related "
             "strings); invariant twin under n_jobs in {1,2,3} and query batches of 2^k(+1) rows.",
        ref="7 (C08)"),
    "C09": dict(
        text="Lean 4 proof (full): argmax_first (first key attaining the maximum, any total transitive comparison), predict_eq_argmax "
             "(predict is that arg-max of the expectations computed from the same state and draws), impPredict_eq_argmax with "
             "nhoodRow_predict_eq_argmax / clusters_predictChunk_eq_argmax / tree_predictChunk_eq_argmax (the same row by row under "
             "every neighbourhood policy; the exceptions are exactly the named ones: empty neighbourhood - nhoodRow_empty - and "
             "TreeBandit with EpsilonGreedy). Correspondence on predict outputs; "
             "predict vs predict_expectations on deep copies incl. exact ties.",
        ref="7 (C09)"),
    "C10": dict(
        text="Lean 4 proof (full in the model): step_norm / norm_bisim / queried_indistinguishable - forgetting the last Thompson "
             "draw commutes with every facade operation, so a bandit that answered any queries produces the same errors, outputs and "
             "sampler requests as the unqueried one under every later history, for every learning and neighbourhood policy "
             "(predictExp_readonly, impPredict_readonly). Worker deep copies are values in the model; their privacy in the code is "
             "tied by correspondence and by queried-vs-unqueried twins with random-stream positions copied across (query - warm "
             "start - query families), n_jobs in {1,2}.",
        ref="7 (C10)"),
    "C11": dict(
        text="Lean 4 proof (full for n_dimensions <= 53): hash_scale_invariant (c>0 changes no sign, hence no hash code), "
             "hash_zero_projection, planes_fixed_at_fit, lshInv_fit / lshInv_partialFit (bucket invariant with index offsets), "
             "lsh_nhood_exact (neighbourhood = exactly the stored rows colliding in at least one table), self_collision. Correspondence with planes from the recorded standard_normal draws; twin against the "
             "collision set computed from table_to_plane, scaling metamorphic, n_jobs in {1,2,3} for hashing.",
        ref="7 (C11)"),
    "C12": dict(
        text="Lean 4 proof (full modulo the assignment oracle): clusters_cell_rows / clusters_cell_from_scratch (each cluster's policy = fresh "
             "policy fit on exactly the stored rows labelled with it), clusters_query_cell, tree_unobserved_arm (0 without observations), "
             "tree_fit_leaf / tree_partialFit_leaf / tree_leaf_exact (per arm and leaf exactly that arm's rewards of that leaf; a query "
             "reads the list of its own leaf). k-means and CART are trusted oracles. Correspondence with labels_/predict/apply read from sklearn; twin "
             "against a fresh policy on the query's cell / the leaf statistic.",
        ref="7 (C12)"),
    "C13": dict(
        text="Lean 4 proof (full modulo distance oracle): ws_pairs_spec, ws_target, ws_untouched, cold_arms_spec - only cold arms change, "
             "each gets an exact copy of its closest trained arm within the quantile threshold, other arms keep state and status; "
             "quantileLin_mono + ws_monotone_in_quantile (numpy's linear-interpolation quantile is monotone, so the warm-started set grows "
             "with the quantile), ws_idempotent (repeating the call returns the same state). Correspondence on histories with warm_start "
             "(cold_arms after every op); twins for idempotence, monotonicity and the exact-copy law (scale=True included).",
        ref="7 (C13)"),
    "C14": dict(
        text="Lean 4 proof (full except TreeBandit): fit_binarizer_once / partialFit_binarizer_once for every binarizer function, "
             "np_binarize_once (neighbourhood policies convert on arrival and never again), addArm_new_binarizer, "
             "run_binarizer_once (every history of fit/partial_fit/add_arm/remove_arm: full-state equality with the binarizer-free twin on the once-converted history); "
             "tree_binarizer_twice_counterexample witnesses known finding K2. Correspondence with arm-dependent and non-idempotent "
             "binarizers under every neighbourhood policy; twin binarizer vs pre-converted rewards.",
        ref="7 (C14)"),
    "C15": dict(
        text="Lean 4 proof (full for the selection / cache logic): sim_distance_lookup, sim_selection_eq_library, sim_cache_correct (per-"
             "metric cache hands every neighbour bandit the distances of its own metric), shared_cache_counterexample (repaired D6). The "
             "offline / online drivers are tied by replaying every simulation through the public API on deep copies of the original "
             "bandits (same split incl. training-row order) and comparing predictions and deterministic expectations.",
        ref="7 (C15)"),
    "C16": dict(
        text="Lean 4 proof (full given the realised split): split_partition, batches_cover_once (all n, b), stats_additive, "
             "min_le_mean_le_max, evaluator_count_total, evaluator_ordered. get_arm_stats, default_evaluator and the batch loop are "
             "compared with the executable model; public attributes of complete runs are checked against recomputation.",
        ref="7 (C16)"),
    "C17": dict(
        text="Lean 4 proof (full for the modelled rejection classes): rejected_noop - for every state, op, argument, oracle, tape: a rejected "
             "call returns the identical state and random streams; runHist_erase_rejected / runOuts_erase_rejected - erasing the rejected calls of any "
             "history changes neither the final state nor what the accepted calls return or request. Malformed calls of every class at random positions: model vs "
             "implementation, and continuation-on-bandit vs continuation-on-copy-taken-before twins.",
        ref="7 (C17)"),
    "C18": dict(
        text="Lean 4 proof (partial): series_disambiguation_fit / _predict (the Series rules reconstruct every single-row or single-"
             "feature matrix), caller_cells_untouched, arms_by_value. numpy / pandas container internals are runtime: every scenario is "
             "run with lists and with ndarray (C/F/int/non-contiguous) / Series / DataFrame containers, and all caller objects are "
             "snapshotted byte-for-byte around each call; __convert_context on Series is compared with the executable rule.",
        ref="7 (C18)"),
    "C19": dict(
        text="Lean 4 proof (partial, largest runtime share): copy_any_time (a copy taken after any history answers every continuation call by call as the original), copy_bisimilar (equal state => equal behaviour under every operation "
             "sequence), copy_independent (World model: a duplicate of everything reachable cannot influence or be influenced). That "
             "deepcopy / pickle deliver such a duplicate is sampled: deepcopy and pickle protocols 2..5 at random points of random "
             "histories (incl. scale=True scalers, binarizers), restore in a fresh interpreter, every continuation compared.",
        ref="7 (C19)"),
    "C20": dict(
        text="Lean 4 proof (full, exact arithmetic): fit_perm_all / partialFit_perm_all (any row permutation gives the "
             "identical state, context-free and linear policies: the Gram matrix and X'y are folds of a commutative addition), "
             "radius_row_order / lsh_row_order (fit + partial fits on any permutations of the batches: every later query under "
             "Radius with an exact metric / under LSHNearest returns the same outputs and issues the same sampler requests - the "
             "neighbourhood is the set of rows within the radius / colliding in some table), shift_greedy, shift_ucb, shift_softmax_invariant, addXty_scale; relabelling of the whole bandit for "
             "every history and every policy combination: step_relabel / runHist_relabel / runOuts_relabel / relabel_end_to_end "
             "(a bandit constructed with renamed arms and driven through the renamed history rejects the same calls, returns the "
             "renamed arms and the expectations keyed by the new names in the same order, issues the same sampler requests and "
             "holds the relabelled state: stored history, LSH tables, cluster policies, leaf stores, warm-start status), built on "
             "run_relabel / warmStart_relabel / predictExp_relabel / predict_relabel for the learning policies. Tied by the "
             "correspondence (outputs and state after every step), int<->str<->float relabelled twins; permuted (incl. > 2^10 rows, "
             "scale=True) / shifted / scaled twins on the code.",
        ref="7 (C20)"),
}
for _c in CHECKS.values():
    _c.setdefault("note", NOTE)
    _c.setdefault("technique", TECH)

NOT_APPLICABLE = {}


def main():
    checks = []
    for pid in sorted(CHECKS):
        c = CHECKS[pid]
        checks.append({
            "property_id": pid,
            "quick_cmd": "/venv/bin/python harness/vcheck.py check %s --tier quick" % pid,
            "thorough_cmd": "/venv/bin/python harness/vcheck.py check %s --tier thorough" % pid,
            "evidence_file": "evidence/%s.json" % pid,
            "replay_cmd_template": "/venv/bin/python harness/vcheck.py replay {path}",
            "engine": "lean4+correspondence",
            "level_claimed": {"category": "proof", "text": c["text"], "design_ref": c["ref"]},
            "level_note": c["note"],
            "technique": c["technique"],
        })
    all_ids = ["C%02d" % i for i in range(1, 21)]
    na = []
    for pid in all_ids:
        if pid not in CHECKS:
            na.append({"property_id": pid, "reason": NOT_APPLICABLE.get(
                pid, "check not built yet in this session (planned: Lean model + correspondence, see DESIGN.md section 7)")})
    m = {
        "version": 1,
        "setup_cmd": "/venv/bin/python harness/vcheck.py setup",
        "hooks": {"guard": "MABWISER_VERIF", "enable": "no hooks: the harness monkey-patches create_rng at import time; nothing is compiled into /repo",
                  "baseline_off_cmd": "cd /repo && OMP_NUM_THREADS=1 /venv/bin/python -m pytest -q -p no:cacheprovider --timeout=900 -n 8",
                  "source_commits": [], "add_only": True},
        "engines": [{"name": "lean4+correspondence", "path": "lean/MabModel + harness/",
                     "serves_properties": sorted(CHECKS),
                     "kind_free_text": "hand-written Lean 4 model with machine-checked theorems (lake build, #print axioms audit) "
                                       "and a Python correspondence harness driving the real library and the compiled model driver"}],
        "checks": checks,
        "not_applicable": na,
        "notes": "All checks share one Lean project (lean/MabModel) built by setup_cmd; every check re-runs lake build (no-op when fresh), "
                 "the axiom audit, and the correspondence against /repo's current working tree (outputs, rejections, sampler requests and - after every "
                 "step - the whole state: harness/absstate.py against the driver's state line). Fixes to genuine defects are 'fix:' commits "
                 "in /repo recorded in known_findings.json.",
    }
    with open(os.path.join(HERE, "MANIFEST.json"), "w") as f:
        json.dump(m, f, indent=1)
    print("MANIFEST.json: %d checks, %d not_applicable" % (len(checks), len(na)))


if __name__ == "__main__":
    main()
