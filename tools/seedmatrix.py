#!/usr/bin/env python3
"""Run every seeded defect against every registered quick check (use inside `vp run --with-repo`:
the patches are applied to the repository snapshot in $VP_RUN_REPO, never to /repo)."""
import json
import os
import subprocess
import sys

VERIF = os.path.dirname(os.path.dirname(os.path.abspath(__file__)))
repo = os.environ.get("VP_RUN_REPO") or os.environ.get("MABWISER_REPO")
assert repo and repo != "/repo", "refusing to patch /repo: run under `vp run --with-repo`"
env = dict(os.environ, MABWISER_REPO=repo)
props = [c["property_id"] for c in json.load(open(os.path.join(VERIF, "MANIFEST.json")))["checks"]]
only = sys.argv[1:]
subprocess.run(["/venv/bin/python", "harness/vcheck.py", "setup"], cwd=VERIF, env=env)
# the clean tree must be quiet
for p in props:
    r = subprocess.run(["/venv/bin/python", "harness/vcheck.py", "check", p], cwd=VERIF, env=env, capture_output=True, text=True)
    print("clean", p, r.returncode, [ln for ln in r.stdout.splitlines() if ln.startswith("VIOLATION")], flush=True)
for name in sorted(os.listdir(os.path.join(VERIF, "seeded"))):
    if only and name not in only:
        continue
    meta = json.load(open(os.path.join(VERIF, "seeded", name, "meta.json")))
    if not meta.get("confirmed"):
        continue
    subprocess.run(["python3", "tools/seedtest.py", "run", name] + props, cwd=VERIF, env=env)
    m = json.load(open(os.path.join(VERIF, "seeded", name, "meta.json")))
    print("MATRIX", name, " ".join("%s=%d" % (k, v["exit"]) for k, v in sorted(m["detected_by"].items())), flush=True)
