#!/bin/bash
# usage: sweep.sh <tier> <seeds...> : run every check with several seeds on the clean tree; print non-ok lines
tier=$1; shift
/venv/bin/python harness/vcheck.py setup
for s in "$@"; do
  for p in C01 C02 C03 C04 C05 C06 C07 C08 C09 C10 C11 C12 C13 C14 C15 C16 C17 C18 C19 C20; do
    out=$(VERIF_SEED=$s /venv/bin/python harness/vcheck.py check $p --tier $tier 2>&1 | grep -v WARNING)
    rc=$?
    echo "seed=$s $p $(echo "$out" | tail -1)"
    echo "$out" | grep -E "VIOLATION|Traceback|Error" | head -5
  done
done
