import numpy as np, warnings, copy, pickle
warnings.filterwarnings("ignore")
from mabwiser.mab import MAB, LearningPolicy as LP, NeighborhoodPolicy as NP
rng=np.random.default_rng(1)
X=rng.integers(0,4,(40,2)).astype(float); d=rng.integers(0,3,40); r=rng.integers(0,5,40).astype(float)
Q=rng.integers(0,4,(6,2)).astype(float)

print("--- C09/C03 empty nhood after add_arm")
m=MAB([0,1,2],LP.EpsilonGreedy(0),NP.Radius(0.5)); m.fit(d,r,X); m.add_arm(7)
print(m.predict_expectations([[100.,100.]]))

print("--- C08 mixed arms linear")
try:
    m=MAB([1,'a'],LP.LinUCB()); m.fit([1,'a'],[1,2],[[1,0],[0,1]]); print(m.predict([[1,1]]), m.predict_expectations([[1,1]]))
except Exception as e: print("EXC",type(e).__name__,e)
m=MAB([1,2.5],LP.LinUCB()); m.fit([1,2.5],[1,2],[[1,0],[0,1]]); print(repr(m.predict([[1,1]])), m.predict_expectations([[1,1]]))

print("--- C08 context-free with contexts m rows")
m=MAB([0,1,2],LP.UCB1()); m.fit(d,r); print(m.predict([[1],[2],[3]]), m.predict([[1]]), m.predict())
m=MAB([0,1,2],LP.Random()); m.fit(d,r); print(m.predict([[1],[2],[3]]), m.predict([[1]]), m.predict())

print("--- C11 n_dimensions 60")
m=MAB([0,1,2],LP.EpsilonGreedy(0),NP.LSHNearest(60,1),seed=3); m.fit(d,r,X)
imp=m._imp; P=imp.table_to_plane[0]
sig=(X@P>0)
hv=imp.get_context_hash(X,P)
import collections
bysig=collections.defaultdict(list); byhash=collections.defaultdict(list)
for i in range(len(X)): bysig[tuple(sig[i])].append(i); byhash[hv[i]].append(i)
print("distinct signatures",len(bysig),"distinct hashes",len(byhash))

print("--- C13 warm start basics")
m=MAB([0,1,2,3],LP.EpsilonGreedy(0)); m.fit([0,0,1],[1,2,5]); print(m.cold_arms)
m.warm_start({0:[1,0],1:[0,1],2:[1,0.1],3:[0,0]},0.5); print(m.cold_arms, m._imp.arm_to_status, m.predict_expectations())
try:
    m=MAB([0,1],LP.EpsilonGreedy(0)); m.fit([0],[1]); m.warm_start({0:[0,0],1:[0,0]},0.5); print(m.cold_arms)
except Exception as e: print("EXC",type(e).__name__,e)

print("--- C19 pickle Tree/LSH/Clusters")
for np_ in [NP.TreeBandit(),NP.LSHNearest(3,2),NP.Clusters(2),NP.Radius(2.0),NP.KNearest(3)]:
    m=MAB([0,1,2],LP.ThompsonSampling(),np_,seed=3); m.fit(d,(r>2).astype(int),X)
    m2=pickle.loads(pickle.dumps(m)); m3=copy.deepcopy(m)
    a=m.predict_expectations(Q); b=m2.predict_expectations(Q); c=m3.predict_expectations(Q)
    print(type(np_).__name__, a==b, a==c)
