import numpy as np, warnings, copy, sys
warnings.filterwarnings("ignore")
from mabwiser.mab import MAB, LearningPolicy as LP, NeighborhoodPolicy as NP
from scipy.spatial.distance import cdist
bad=[]
def close(a,b): 
    return (a!=a and b!=b) or abs(a-b)<=1e-9*max(1,abs(a),abs(b))
# C12 clusters / tree oracles
for seed in range(8):
    rng=np.random.default_rng(seed); n=40
    X=rng.integers(0,5,(n,2)).astype(float); d=rng.integers(0,3,n); r=rng.integers(0,4,n).astype(float)
    Q=rng.integers(0,5,(5,2)).astype(float)
    for lpn,lp in [("eg",LP.EpsilonGreedy(0)),("ucb",LP.UCB1(.5))]:
        m=MAB([0,1,2,3],lp,NP.Clusters(3),seed=seed); m.fit(d[:25],r[:25],X[:25]); m.partial_fit(d[25:],r[25:],X[25:])
        km=m._imp.kmeans; lab=km.labels_; ql=km.predict(Q); E=m.predict_expectations(Q)
        for i,q in enumerate(Q):
            idx=np.where(lab==ql[i])[0]
            o=MAB([0,1,2,3],lp); o.fit(d[idx],r[idx]); eo=o.predict_expectations()
            if not all(close(E[i][a],eo[a]) for a in eo): bad.append(("clusters",lpn,seed,i))
        m=MAB([0,1,2,3],lp,NP.TreeBandit({'max_depth':2}),seed=seed); m.fit(d[:25],r[:25],X[:25]); m.partial_fit(d[25:],r[25:],X[25:])
        E=m.predict_expectations(Q)
        for i,q in enumerate(Q):
            for a in [0,1,2,3]:
                tree=m._imp.arm_to_tree[a]; rows=np.where(d==a)[0]
                if len(rows)==0: exp=0
                else:
                    leaves=tree.apply(X[rows]); ql=tree.apply([q])[0]; rr=r[rows][leaves==ql]
                    o=MAB([a],lp); o.fit([a]*len(rr),rr); exp=o.predict_expectations()[a]
                if not close(E[i][a],exp): bad.append(("tree",lpn,seed,i,a,E[i][a],exp))
print(bad[:10], len(bad))
# C13 warm start
bad=[]
for seed in range(200):
    rng=np.random.default_rng(seed); k=int(rng.integers(2,7)); arms=list(range(k))
    n=int(rng.integers(1,15)); d=rng.choice(arms[:max(1,k-int(rng.integers(0,k)))],n); r=rng.integers(0,4,n).astype(float)
    F={a:rng.integers(0,3,2).astype(float).tolist() for a in arms}
    q1,q2=sorted(rng.random(2).tolist())
    for lpn,lp in [("eg",LP.EpsilonGreedy(0)),("ucb",LP.UCB1(.5)),("ts",LP.ThompsonSampling())]:
        rr=(r>1).astype(int) if lpn=="ts" else r
        m1=MAB(arms,lp); m1.fit(d,rr); m2=copy.deepcopy(m1)
        try:
            m1.warm_start(F,q1); m2.warm_start(F,q2)
        except Exception as e:
            bad.append(("exc",seed,type(e).__name__)); continue
        w1={a for a in arms if m1._imp.arm_to_status[a]['is_warm']}; w2={a for a in arms if m2._imp.arm_to_status[a]['is_warm']}
        if not w1<=w2: bad.append(("mono",seed,lpn,w1,w2))
        st=copy.deepcopy(m2._imp.__dict__ if False else m2._imp.arm_to_status); m2.warm_start(F,q2)
        if st!=m2._imp.arm_to_status: bad.append(("idem",seed,lpn))
        # source is trained and closest
        tr=[a for a in arms if a in set(d.tolist())]
        for a in w2:
            src=m2._imp.arm_to_status[a]['warm_started_by']
            if src not in tr: bad.append(("src-not-trained",seed,lpn,a,src))
print(bad[:10], len(bad))
