import numpy as np, warnings, copy
warnings.filterwarnings("ignore")
from mabwiser.mab import MAB, LearningPolicy as LP, NeighborhoodPolicy as NP
lps={"eg0":LP.EpsilonGreedy(0),"eg.3":LP.EpsilonGreedy(.3),"ucb":LP.UCB1(.5),"soft":LP.Softmax(.7),"ts":LP.ThompsonSampling(),"pop":LP.Popularity(),"rand":LP.Random(),
     "lingreedy":LP.LinGreedy(0.2,2.0),"linucb":LP.LinUCB(.5,2.0),"lints":LP.LinTS(.5,2.0)}
nps={"none":None,"radius":NP.Radius(1.5,"cityblock"),"knn":NP.KNearest(2,"cityblock"),"lsh":NP.LSHNearest(3,1),"clusters":NP.Clusters(2),"tree":NP.TreeBandit()}
bad=[]
for seed in range(12):
  rng=np.random.default_rng(seed)
  for ln,lp in lps.items():
    for nn,np_ in nps.items():
      if nn=="tree" and ln not in("eg0","eg.3","ucb","ts"): continue
      ctx= np_ is not None or ln.startswith("lin")
      labels=[["a","b","c","d","e","f"],[10,20,30,40,50,60],[1.5,2.5,3.5,4.5,5.5,6.5]][seed%3]
      arms=labels[:3]; pool=labels[3:]
      m=MAB(list(arms),lp,np_,seed=seed,n_jobs=1+seed%2)
      fitted=False
      try:
        for step in range(10):
          op=rng.choice(["fit","pfit","add","rem","pred","pexp","warm"],p=[.15,.2,.15,.15,.15,.15,.05])
          cur=list(m.arms)
          if op in("fit","pfit"):
              n=int(rng.integers(3,12)); d=[cur[i] for i in rng.integers(0,len(cur),n)]; r=rng.integers(0,2,n).astype(float); X=rng.integers(0,3,(n,2)).astype(float)
              (m.fit if op=="fit" else m.partial_fit)(*((d,r,X) if ctx else (d,r))); fitted=True
          elif op=="add" and pool:
              a=pool.pop(); m.add_arm(a)
          elif op=="rem" and len(cur)>1:
              a=cur[int(rng.integers(0,len(cur)))]; m.remove_arm(a); pool.append(a)
          elif op=="warm" and np_ is None and ln!="rand" and len(cur)>1:
              m.warm_start({a:rng.integers(0,3,2).astype(float).tolist() for a in cur},0.5)
          elif op in("pred","pexp") and fitted:
              mrows=int(rng.integers(1,4)); Q=rng.integers(0,3,(mrows,2)).astype(float)
              out=(m.predict if op=="pred" else m.predict_expectations)(*((Q,) if ctx else ()))
              outs=out if isinstance(out,list) else [out]
              exp_len=mrows if ctx else 1
              if len(outs)!=exp_len or (isinstance(out,list)!=(exp_len>1)): bad.append(("shape",ln,nn,seed))
              for o in outs:
                  if op=="pred":
                      if o not in m.arms: bad.append(("member",ln,nn,seed,o))
                  else:
                      if list(o.keys())!=list(m.arms): bad.append(("keys",ln,nn,seed,list(o.keys()),list(m.arms)))
      except Exception as e:
          bad.append(("EXC",ln,nn,type(e).__name__,str(e)[:50]))
from collections import Counter
c=Counter(b[:5] if b[0]=="EXC" else b[:3] for b in bad)
for k,v in c.most_common(40): print(v,k)
