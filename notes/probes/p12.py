import numpy as np, warnings, copy, logging, math
warnings.filterwarnings("ignore"); logging.disable(logging.CRITICAL)
from mabwiser.mab import MAB, LearningPolicy as LP, NeighborhoodPolicy as NP
from mabwiser.simulator import Simulator
def close(a,b,tol=1e-9):
    if isinstance(a,list): return isinstance(b,list) and len(a)==len(b) and all(close(x,y,tol) for x,y in zip(a,b))
    if isinstance(a,dict): return list(a)==list(b) and all(close(a[k],b[k],tol) for k in a)
    try:
        if a!=a and b!=b: return True
        return abs(a-b)<=tol*max(1,abs(a),abs(b))
    except TypeError: return a==b
bad=[]
def flip(arm,r): return 1 if r<=0.5 else 0          # not idempotent
def thr(arm,r): return 1 if r>=[0.3,0.6,0.5,2.0][arm] else 0   # arm dependent, not idempotent for arm 3
def thr2(arm,r): return 1 if r>=0.9 else 0
# C14 under each neighbourhood policy incl. add_arm with new binarizer
for seed in range(5):
    rng=np.random.default_rng(seed); n=40
    X=rng.integers(0,4,(n,2)).astype(float); d=rng.integers(0,3,n); r=rng.integers(0,9,n)/8.0
    Q=rng.integers(0,4,(5,2)).astype(float)
    for bname,b in [("flip",flip),("thr",thr)]:
        for nn,np_ in [("none",None),("radius",NP.Radius(3.0,"cityblock")),("knn",NP.KNearest(4,"cityblock")),("lsh",NP.LSHNearest(2,2)),("clusters",NP.Clusters(2)),("tree",NP.TreeBandit())]:
            ctx=np_ is not None
            m1=MAB([0,1,2],LP.ThompsonSampling(b),np_,seed=3); m2=MAB([0,1,2],LP.ThompsonSampling(),np_,seed=3)
            rb=np.array([b(a,x) for a,x in zip(d,r)])
            a1=(d[:25],r[:25])+((X[:25],) if ctx else ()); a2=(d[:25],rb[:25])+((X[:25],) if ctx else ())
            m1.fit(*a1); m2.fit(*a2)
            try: m1.add_arm(3,thr2)
            except AttributeError as e:
                bad.append(("C14-addarm-exc",bname,nn)); continue
            m2.add_arm(3)
            d2=d[25:].copy(); d2[::4]=3
            rb2=np.array([thr2(a,x) for a,x in zip(d2,r[25:])])
            b1=(d2,r[25:])+((X[25:],) if ctx else ()); b2=(d2,rb2)+((X[25:],) if ctx else ())
            m1.partial_fit(*b1); m2.partial_fit(*b2)
            qa=(Q,) if ctx else ()
            if not close(m1.predict_expectations(*qa),m2.predict_expectations(*qa)): bad.append(("C14",bname,nn))
from collections import Counter
print(Counter(bad))
# C11 oracle + scaling
bad=[]
for seed in range(10):
    rng=np.random.default_rng(seed); n=40
    X=rng.integers(-3,4,(n,3)).astype(float); d=rng.integers(0,3,n); r=rng.integers(0,5,n).astype(float)
    m=MAB([0,1,2],LP.UCB1(.5),NP.LSHNearest(int(rng.integers(1,5)),int(rng.integers(1,4))),seed=seed,n_jobs=int(rng.integers(1,3)))
    m.fit(d[:15],r[:15],X[:15]); m.partial_fit(d[15:30],r[15:30],X[15:30]); m.partial_fit(d[30:],r[30:],X[30:])
    Q=np.vstack([X[:6], 4*X[6:10], rng.integers(-3,4,(5,3)).astype(float)])
    E=m.predict_expectations(Q)
    P=m._imp.table_to_plane
    for i,q in enumerate(Q):
        idx=sorted({j for j in range(n) for t in P if np.array_equal((X[j]@P[t]>0),(q@P[t]>0))})
        if not idx: exp={a:float('nan') for a in [0,1,2]}
        else:
            o=MAB([0,1,2],LP.UCB1(.5)); o.fit(d[idx],r[idx]); exp=o.predict_expectations()
        if not close(E[i],exp): bad.append(("C11",seed,i))
    if not close(m.predict_expectations(8*Q),E): bad.append(("C11-scale",seed))
print(Counter(b[0] for b in bad))
# C16 bookkeeping
bad=[]
for seed in range(6):
    rng=np.random.default_rng(seed); n=int(rng.integers(12,40))
    X=rng.integers(0,6,(n,2)).astype(float); d=rng.integers(0,4,n); r=rng.integers(0,9,n)/8.0
    arms=[0,1,2,3,4]
    for ordered in (True,False):
      for bs in (0,1,3):
        b=[("eg",MAB(arms,LP.EpsilonGreedy(0.2),seed=1)),("rad",MAB(arms,LP.EpsilonGreedy(0),NP.Radius(2.0),seed=1))]
        sim=Simulator(b,d,r,X,test_size=0.3,is_ordered=ordered,batch_size=bs,seed=5); sim.run()
        ti=list(sim.test_indices); tr=[i for i in range(n) if i not in set(ti)]
        if sorted(ti+tr)!=list(range(n)) or (ordered and ti!=list(range(n-len(ti),n))): bad.append("partition")
        for a in arms:
            T,R,S=sim.arm_to_stats_total[a],sim.arm_to_stats_train[a],sim.arm_to_stats_test[a]
            if T['count']!=R['count']+S['count'] or abs(T['sum']-R['sum']-S['sum'])>1e-9: bad.append("additive")
            if T['count']!=int((d==a).sum()): bad.append("recount")
        for name,_ in b:
            if len(sim.bandit_to_predictions[name])!=len(ti): bad.append("len")
            def tot(st): 
                return st
            mn,av,mx=sim.bandit_to_arm_to_stats_min[name],sim.bandit_to_arm_to_stats_avg[name],sim.bandit_to_arm_to_stats_max[name]
            if bs>0: mn,av,mx=mn['total'],av['total'],mx['total']
            if sum(mn[a]['count'] for a in arms)!=len(ti): bad.append("evalcount")
            for a in arms:
                if mn[a]['count'] and not (mn[a]['sum']<=av[a]['sum']+1e-9<=mx[a]['sum']+2e-9): bad.append("order")
print(Counter(bad))
