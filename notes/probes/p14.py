import numpy as np, warnings, copy
warnings.filterwarnings("ignore")
from mabwiser.mab import MAB, LearningPolicy as LP, NeighborhoodPolicy as NP
lps={"eg0":LP.EpsilonGreedy(0),"eg.3":LP.EpsilonGreedy(.3),"ucb":LP.UCB1(.5),"soft":LP.Softmax(.7),"ts":LP.ThompsonSampling(),"pop":LP.Popularity(),"rand":LP.Random(),
     "lingreedy":LP.LinGreedy(0.2,2.0),"linucb":LP.LinUCB(.5,2.0),"lints":LP.LinTS(.5,2.0)}
nps={"none":None,"radius":NP.Radius(1.5,"cityblock"),"knn":NP.KNearest(3,"cityblock"),"lsh":NP.LSHNearest(2,2),"clusters":NP.Clusters(2),"tree":NP.TreeBandit()}
def close(a,b,tol=1e-12):
    if isinstance(a,list): return isinstance(b,list) and len(a)==len(b) and all(close(x,y,tol) for x,y in zip(a,b))
    if isinstance(a,dict): return list(a)==list(b) and all(close(a[k],b[k],tol) for k in a)
    try:
        if a!=a and b!=b: return True
        return abs(a-b)<=tol*max(1,abs(a),abs(b))
    except TypeError: return a==b
bad=[]
for seed in range(3):
  rng=np.random.default_rng(seed); n=30
  X=rng.integers(0,3,(n,2)).astype(float); d=rng.integers(0,3,n); r=rng.integers(0,2,n).astype(float)
  for mrows in (1,2,5):
    Q=rng.integers(0,3,(mrows,2)).astype(float)
    for ln,lp in lps.items():
      for nn,np_ in nps.items():
        if nn=="tree" and ln not in("eg0","eg.3","ucb","ts"): continue
        ctx= np_ is not None or ln.startswith("lin")
        outs=[]
        for nj,be in [(1,None),(2,"threading"),(3,"threading"),(-1,"threading")]+([(2,"loky")] if seed==0 and mrows==5 else []):
            m=MAB([0,1,2],lp,np_,seed=4,n_jobs=nj,backend=be)
            m.fit(d[:20],r[:20],X[:20]) if ctx else m.fit(d[:20],r[:20])
            m.partial_fit(d[20:],r[20:],X[20:]) if ctx else m.partial_fit(d[20:],r[20:])
            qa=(Q,) if ctx else ()
            outs.append((m.predict_expectations(*qa),m.predict(*qa),m.predict_expectations(*qa)))
        for o in outs[1:]:
            if not (close(o[0],outs[0][0]) and o[1]==outs[0][1] and close(o[2],outs[0][2])): bad.append((ln,nn)); break
from collections import Counter
print(Counter(bad))
