import numpy as np, warnings, copy, sys, pickle
warnings.filterwarnings("ignore")
from mabwiser.mab import MAB, LearningPolicy as LP, NeighborhoodPolicy as NP
lps={"eg0":LP.EpsilonGreedy(0),"eg.3":LP.EpsilonGreedy(.3),"ucb":LP.UCB1(.5),"soft":LP.Softmax(.7),"ts":LP.ThompsonSampling(),"pop":LP.Popularity(),"rand":LP.Random(),
     "lingreedy":LP.LinGreedy(0.2,2.0),"linucb":LP.LinUCB(.5,2.0),"lints":LP.LinTS(.5,2.0)}
nps={"none":None,"radius":NP.Radius(3.0,"cityblock"),"knn":NP.KNearest(4,"cityblock"),"lsh":NP.LSHNearest(2,2),"clusters":NP.Clusters(2),"tree":NP.TreeBandit()}
def close(a,b,tol=1e-9):
    if isinstance(a,list): return isinstance(b,list) and len(a)==len(b) and all(close(x,y,tol) for x,y in zip(a,b))
    if isinstance(a,dict): return list(a)==list(b) and all(close(a[k],b[k],tol) for k in a)
    try:
        if a!=a and b!=b: return True
        return abs(a-b)<=tol*max(1,abs(a),abs(b))
    except TypeError: return a==b
bad=[]
def argmax_first(e): 
    return max(e,key=e.get)
for seed in range(4):
  rng=np.random.default_rng(seed); n=30
  X=rng.integers(0,4,(n,2)).astype(float); d=rng.integers(0,3,n); r=rng.integers(0,2,n).astype(float)
  Q=rng.integers(0,4,(4,2)).astype(float)
  for ln,lp in lps.items():
    for nn,np_ in nps.items():
      if nn=="tree" and ln not in("eg0","eg.3","ucb","ts"): continue
      ctx= np_ is not None or ln.startswith("lin")
      m=MAB([0,1,2,3],lp,np_,seed=11)
      m.fit(d,r,X) if ctx else m.fit(d,r)
      qa=(Q,) if ctx else ()
      # C09
      a=copy.deepcopy(m); b=copy.deepcopy(m)
      p=a.predict(*qa); e=b.predict_expectations(*qa)
      if not isinstance(p,list): p=[p]; e=[e]
      for pi,ei in zip(p,e):
          if any(v!=v for v in ei.values()): continue
          if pi!=argmax_first(ei) and not (nn=="tree" and ln=="eg.3"): bad.append(("C09",seed,ln,nn)); break
      # C10 : query then continue vs unqueried twin with rng synced (pickle whole rng objects)
      a=copy.deepcopy(m); b=copy.deepcopy(m)
      a.predict(*qa); a.predict_expectations(*qa)
      b=pickle.loads(pickle.dumps(a)) if False else b
      # sync all generators: copy a's generator states into b by walking same structure
      def gens(mm):
          out=[mm._rng]; imp=mm._imp
          for l in [imp]+([imp.lp] if hasattr(imp,'lp') else [])+(list(imp.lp_list) if hasattr(imp,'lp_list') else []):
              if hasattr(l,'arm_to_model'):
                  out+= [mod.rng for mod in l.arm_to_model.values()]
          return out
      for ga,gb in zip(gens(a),gens(b)): gb.rng.bit_generator.state=ga.rng.bit_generator.state
      for mm in (a,b):
          mm.partial_fit(d[:5],r[:5],X[:5]) if ctx else mm.partial_fit(d[:5],r[:5])
          mm.add_arm(9)
      ea,eb=a.predict_expectations(*qa),b.predict_expectations(*qa)
      if not close(ea,eb): bad.append(("C10",seed,ln,nn))
      # C20 relabel
      f={0:"z",1:"a",2:"m",3:"b"}
      m2=MAB([f[x] for x in [0,1,2,3]],lp,np_,seed=11); d2=np.array([f[x] for x in d])
      m2.fit(d2,r,X) if ctx else m2.fit(d2,r)
      m1=MAB([0,1,2,3],lp,np_,seed=11); m1.fit(d,r,X) if ctx else m1.fit(d,r)
      e1=m1.predict_expectations(*qa); e2=m2.predict_expectations(*qa)
      if not isinstance(e1,list): e1=[e1]; e2=[e2]
      ok=all(close({f[k]:v for k,v in x.items()},y) for x,y in zip(e1,e2))
      if not ok: bad.append(("C20-relabel",seed,ln,nn))
      # C20 row permutation (not knn)
      if nn not in ("knn","clusters","tree") and ln not in ("eg.3","soft","ts","pop","rand","lints","lingreedy"):
          perm=rng.permutation(n)
          m3=MAB([0,1,2,3],lp,np_,seed=11); m3.fit(d[perm],r[perm],X[perm]) if ctx else m3.fit(d[perm],r[perm])
          e3=m3.predict_expectations(*qa)
          if not isinstance(e3,list): e3=[e3]
          if not close(e1,e3): bad.append(("C20-perm",seed,ln,nn))
from collections import Counter
print(Counter((b[0],b[2],b[3]) for b in bad))
