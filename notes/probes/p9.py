import numpy as np, warnings, copy, sys
warnings.filterwarnings("ignore")
import mabwiser.utils as U
LOG=[]
class RecRNG(U._NumpyRNG):
    _next_id=[0]
    def __init__(self, seed):
        super().__init__(seed); self.sid=RecRNG._next_id[0]; RecRNG._next_id[0]+=1; LOG.append(("new",self.sid,int(seed)))
    def __deepcopy__(self, memo):
        c=RecRNG.__new__(RecRNG); memo[id(self)]=c
        c.seed=self.seed; c.rng=copy.deepcopy(self.rng,memo); c.sid=RecRNG._next_id[0]; RecRNG._next_id[0]+=1
        LOG.append(("copy",c.sid,self.sid)); return c
    def _rec(self,kind,params,out): LOG.append((kind,self.sid,params,np.asarray(out).tolist())); return out
    def rand(self,size=None): return self._rec("rand",(size,),super().rand(size))
    def randint(self,low,high=None,size=None): return self._rec("randint",(low,high,size),super().randint(low,high,size))
    def choice(self,a,size=None,p=None): return self._rec("choice",(a,size,p),super().choice(a,size,p))
    def beta(self,a,b,size=None): return self._rec("beta",(float(a),float(b),size),super().beta(a,b,size))
    def standard_normal(self,size=None): return self._rec("normal",(size,),super().standard_normal(size))
    def multivariate_normal(self,mean,cov,size=None): return self._rec("mvn",(np.asarray(mean).tolist(),np.asarray(cov).tolist(),size),super().multivariate_normal(mean,cov,size))
    def dirichlet(self,alpha,size=None): return self._rec("dirichlet",(list(map(float,alpha)),size),super().dirichlet(alpha,size))
import mabwiser.mab, mabwiser.neighbors, mabwiser.approximate, mabwiser.clusters, mabwiser.treebandit
for mod in (U, mabwiser.mab, mabwiser.neighbors, mabwiser.approximate, mabwiser.clusters, mabwiser.treebandit):
    assert hasattr(mod,'create_rng'); mod.create_rng=lambda seed: RecRNG(seed)
from mabwiser.mab import MAB, LearningPolicy as LP, NeighborhoodPolicy as NP
rng=np.random.default_rng(1); n=12
X=rng.integers(0,4,(n,2)).astype(float); d=rng.integers(0,2,n); r=rng.integers(0,2,n)
m=MAB([0,1],LP.ThompsonSampling(),NP.Radius(2.0),seed=7); m.fit(d,r,X)
print(m.predict_expectations(X[:2]))
for e in LOG: print(e)
LOG.clear()
m=MAB([0,1],LP.LinTS(alpha=0.5),seed=7); m.fit(d,r,X); print(m.predict_expectations(X[:2]))
for e in LOG: print(str(e)[:150])
