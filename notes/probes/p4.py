import numpy as np, warnings, copy, logging
warnings.filterwarnings("ignore")
from mabwiser.mab import MAB, LearningPolicy as LP, NeighborhoodPolicy as NP
from mabwiser.simulator import Simulator
logging.disable(logging.CRITICAL)
rng=np.random.default_rng(1)
n=40
X=rng.integers(0,6,(n,3)).astype(float); d=rng.integers(0,3,n); r=rng.integers(0,5,n).astype(float)
def mk():
    return [("a",MAB([0,1,2],LP.EpsilonGreedy(0),NP.Radius(3.0,"euclidean"),seed=3)),
            ("b",MAB([0,1,2],LP.EpsilonGreedy(0),NP.Radius(3.0,"cityblock"),seed=3)),
            ("c",MAB([0,1,2],LP.EpsilonGreedy(0),NP.KNearest(3,"chebyshev"),seed=3))]
b=mk()
sim=Simulator(b,d,r,X,test_size=0.25,is_ordered=True,batch_size=0,seed=9); sim.run()
ti=sim.test_indices; tr=[i for i in range(n) if i not in ti]
for name,m in mk():
    m.fit(d[tr],r[tr],X[tr]); p=m.predict(X[ti])
    print(name, p==sim.bandit_to_predictions[name], p, sim.bandit_to_predictions[name])
