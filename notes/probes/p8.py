import numpy as np, pandas as pd, warnings
warnings.filterwarnings("ignore")
from mabwiser.mab import MAB, LearningPolicy as LP, NeighborhoodPolicy as NP
rng=np.random.default_rng(1); n=30
X=rng.integers(0,4,(n,2)); di=rng.integers(0,3,n); r=rng.integers(0,5,n)
Q=rng.integers(0,4,(4,2))
for labels in (lambda a:int(a), lambda a:"arm%d"%a, lambda a:a+0.5):
    arms=[labels(a) for a in range(3)]; d=[labels(a) for a in di]
    forms={
     "list":(d,r.tolist(),X.tolist(),Q.tolist()),
     "np":(np.array(d),r,X,Q),
     "npfloatF":(np.array(d),r.astype(float),np.asfortranarray(X.astype(float)),np.asfortranarray(Q.astype(float))),
     "series/df":(pd.Series(d),pd.Series(r),pd.DataFrame(X),pd.DataFrame(Q)),
     "noncontig":(np.array(d+d)[::2] if False else np.array(d),np.repeat(r,2)[::2],np.repeat(X,2,axis=0)[::2],np.repeat(Q,2,axis=1)[:, ::2]),
    }
    for lpn,lp,np_ in [("ucb",LP.UCB1(.5),None),("linucb",LP.LinUCB(.5,2.0),None),("radius",LP.UCB1(.5),NP.Radius(3.0)),("tree",LP.UCB1(.5),NP.TreeBandit()),("clusters",LP.UCB1(.5),NP.Clusters(2)),("lsh",LP.UCB1(.5),NP.LSHNearest(2,2)),("ts",LP.ThompsonSampling(lambda a,x: x>2),None)]:
        ref=None
        for fn,(dd,rr,XX,QQ) in forms.items():
            try:
                m=MAB(arms,lp,np_,seed=3)
                ctx = np_ is not None or lpn.startswith("lin")
                m.fit(dd,rr,XX) if ctx else m.fit(dd,rr)
                out=(m.predict_expectations(QQ),m.predict(QQ)) if ctx else (m.predict_expectations(),m.predict())
                out=repr(out)
            except Exception as e:
                out="EXC "+type(e).__name__+" "+str(e)[:80]
            if ref is None: ref=out
            elif out!=ref: print("DIFF",type(arms[0]).__name__,lpn,fn,out[:160],"\n     REF",ref[:160])
print("done")
