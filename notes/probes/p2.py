import numpy as np, warnings
warnings.filterwarnings("ignore")
from mabwiser.mab import MAB, LearningPolicy as LP, NeighborhoodPolicy as NP
rng=np.random.default_rng(0)
X=rng.integers(0,4,(40,2)).astype(float); d=rng.integers(0,2,40); r=rng.integers(0,2,40)
Q=rng.integers(0,4,(6,2)).astype(float)
def run(lp,np_,nj,backend=None):
    m=MAB([0,1],lp,np_,seed=5,n_jobs=nj,backend=backend); m.fit(d,r,X)
    return m.predict_expectations(Q), m.predict(Q)
for name,lp,np_ in [("Tree+TS",LP.ThompsonSampling(),NP.TreeBandit()),
                    ("Tree+eps.5",LP.EpsilonGreedy(.5),NP.TreeBandit()),
                    ("Radius+LinTS",LP.LinTS(alpha=1.0),NP.Radius(2.0)),
                    ("KNN+LinTS",LP.LinTS(alpha=1.0),NP.KNearest(5)),
                    ("Clusters+LinTS",LP.LinTS(alpha=1.0),NP.Clusters(2)),
                    ("LSH+LinTS",LP.LinTS(alpha=1.0),NP.LSHNearest(2,2)),
                    ("Radius+TS",LP.ThompsonSampling(),NP.Radius(2.0)),
                    ("Radius+Softmax",LP.Softmax(),NP.Radius(2.0)),
                    ("LinTS",LP.LinTS(alpha=1.0),None),
                    ]:
    a=run(lp,np_,1); 
    for nj,be in [(2,None),(3,'threading'),(2,'loky')]:
        b=run(lp,np_,nj,be)
        same_e = all(all(abs(x[k]-y[k])<1e-12 or (x[k]!=x[k] and y[k]!=y[k]) for k in x) for x,y in zip(a[0],b[0]))
        print(name,nj,be,"expect same:",same_e,"predict same:",a[1]==b[1])
