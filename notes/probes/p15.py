import sys, os, subprocess, json, hashlib
SCRIPT = r'''
import sys, numpy as np, warnings, struct, hashlib
warnings.filterwarnings("ignore")
from mabwiser.mab import MAB, LearningPolicy as LP, NeighborhoodPolicy as NP
mode=sys.argv[1]
lps={"eg.3":LP.EpsilonGreedy(.3),"ucb":LP.UCB1(.5),"soft":LP.Softmax(.7),"ts":LP.ThompsonSampling(),"pop":LP.Popularity(),"rand":LP.Random(),
     "lingreedy":LP.LinGreedy(0.2,2.0),"linucb":LP.LinUCB(.5,2.0),"lints":LP.LinTS(.5,2.0)}
def nps(): return {"none":None,"radius":NP.Radius(1.5,"cityblock"),"knn":NP.KNearest(3,"cityblock"),"lsh":NP.LSHNearest(2,2),"clusters":NP.Clusters(2),"tree":NP.TreeBandit()}
rng=np.random.default_rng(0); n=30
X=rng.integers(0,3,(n,2)).astype(float); d=np.array(["a","b","c"])[rng.integers(0,3,n)]; r=rng.integers(0,2,n).astype(float)
Q=rng.integers(0,3,(4,2)).astype(float)
out={}
def other(seed, np_, lp, ctx):
    o=MAB(["a","b","c"],lp,np_,seed=seed); 
    o.fit(d[::-1],r[::-1],X[::-1]) if ctx else o.fit(d[::-1],r[::-1]); o.predict(*((Q,) if ctx else ()))
for ln,lp in lps.items():
    for nn,np_ in nps().items():
        if nn=="tree" and ln not in("eg.3","ucb","ts"): continue
        ctx= np_ is not None or ln.startswith("lin")
        m=MAB(["a","b","c"],lp,np_,seed=77)
        if mode=="inter": other(5, nps()[nn], lp, ctx)
        m.fit(d,r,X) if ctx else m.fit(d,r)
        if mode=="inter": other(6, nps()[nn], lp, ctx)
        qa=(Q,) if ctx else ()
        e=m.predict_expectations(*qa); p=m.predict(*qa)
        h=hashlib.sha256(repr((e,p)).encode()).hexdigest()[:12]
        out[ln+"/"+nn]=h
import json; print(json.dumps(out))
'''
def run(mode,hs):
    env=dict(os.environ,PYTHONHASHSEED=hs,OMP_NUM_THREADS="1",OPENBLAS_NUM_THREADS="1")
    return json.loads(subprocess.run([sys.executable,"-c",SCRIPT,mode],capture_output=True,text=True,env=env,cwd="/").stdout.strip().splitlines()[-1])
base=run("alone","0")
for mode,hs in [("alone","1"),("alone","random"),("inter","0"),("inter","random")]:
    o=run(mode,hs); diff=[k for k in base if base[k]!=o[k]]
    print(mode,hs,"diff:",diff)
