import numpy as np, warnings, copy, logging, math
warnings.filterwarnings("ignore"); logging.disable(logging.CRITICAL)
from mabwiser.mab import MAB, LearningPolicy as LP, NeighborhoodPolicy as NP
from mabwiser.simulator import Simulator
def close(a,b,tol=1e-9):
    if isinstance(a,list): return isinstance(b,list) and len(a)==len(b) and all(close(x,y,tol) for x,y in zip(a,b))
    if isinstance(a,dict): return list(a)==list(b) and all(close(a[k],b[k],tol) for k in a)
    try:
        if a!=a and b!=b: return True
        return abs(a-b)<=tol*max(1,abs(a),abs(b))
    except TypeError: return a==b
bad=[]
def bandits(seed):
    return [("eg",MAB([0,1,2],LP.EpsilonGreedy(0),seed=seed)),
            ("ucb",MAB([0,1,2],LP.UCB1(.5),seed=seed)),
            ("ts",MAB([0,1,2],LP.ThompsonSampling(),seed=seed)),
            ("linucb",MAB([0,1,2],LP.LinUCB(.5,2.0),seed=seed)),
            ("rad_e",MAB([0,1,2],LP.UCB1(.5),NP.Radius(3.0,"euclidean"),seed=seed)),
            ("rad_c",MAB([0,1,2],LP.EpsilonGreedy(0),NP.Radius(3.0,"cityblock"),seed=seed)),
            ("knn",MAB([0,1,2],LP.UCB1(.5),NP.KNearest(3,"chebyshev"),seed=seed)),
            ("knn_ts",MAB([0,1,2],LP.ThompsonSampling(),NP.KNearest(3,"cityblock"),seed=seed)),
            ("lsh",MAB([0,1,2],LP.UCB1(.5),NP.LSHNearest(2,2),seed=seed)),
            ("clu",MAB([0,1,2],LP.UCB1(.5),NP.Clusters(2),seed=seed)),
            ("tree",MAB([0,1,2],LP.UCB1(.5),NP.TreeBandit(),seed=seed))]
for seed in range(3):
  rng=np.random.default_rng(seed); n=41
  X=rng.integers(0,6,(n,3)).astype(float)+rng.random((n,3))*1e-3; d=rng.integers(0,3,n); r=rng.integers(0,2,n).astype(float)
  for ordered in (True,False):
    for bs in (0,1,4,5):
      for quick in (False,True):
        orig=bandits(seed+5); twins=copy.deepcopy(orig)
        sim=Simulator(orig,d,r,X,test_size=0.25,is_ordered=ordered,batch_size=bs,seed=9,is_quick=quick)
        try: sim.run()
        except Exception as e: bad.append(("EXC",seed,ordered,bs,quick,type(e).__name__,str(e)[:60])); continue
        ti=list(sim.test_indices)
        if ordered: tr=[i for i in range(n) if i not in set(ti)]
        else:
            from sklearn.model_selection import train_test_split
            tr,ti2=train_test_split(list(range(n)),test_size=0.25,random_state=9); assert ti2==ti
        if sorted(ti+tr)!=list(range(n)): bad.append(("partition",))
        for name,m in twins:
            ctx=m.is_contextual
            m.fit(d[tr],r[tr],X[tr]) if ctx else m.fit(d[tr],r[tr])
            preds=[];exps=[]
            if bs==0:
                if ctx:
                    p=m.predict(X[ti]); preds=p if isinstance(p,list) else [p]
                else: preds=[m.predict() for _ in ti]
            else:
                for s in range(0,len(ti),bs):
                    idx=ti[s:s+bs]
                    if ctx:
                        p=m.predict(X[idx]); p=p if isinstance(p,list) else [p]
                        if name in("linucb","clu","tree"): m.predict_expectations(X[idx])
                    else: p=[m.predict() for _ in idx]
                    preds+=p
                    m.partial_fit(d[idx],r[idx],X[idx]) if ctx else m.partial_fit(d[idx],r[idx])
            if preds!=sim.bandit_to_predictions[name]: bad.append(("pred",name,seed,ordered,bs,quick))
            if len(sim.bandit_to_predictions[name])!=len(ti): bad.append(("len",name,bs))
from collections import Counter
print([b for b in bad])
