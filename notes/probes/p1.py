import numpy as np, warnings
warnings.filterwarnings("ignore")
from mabwiser.mab import MAB, LearningPolicy as LP, NeighborhoodPolicy as NP

print("--- C01 popularity partial_fit omitting arm")
m = MAB([1,2], LP.Popularity()); m.fit([1,1,2],[1,1,3]); print(m._imp.arm_to_expectation)
m.partial_fit([1],[1]); print(m._imp.arm_to_expectation, "expected", {1:1/4,2:3/4})

print("--- C02 never observed arm lambda")
m = MAB([0,1], LP.LinUCB(alpha=1,l2_lambda=4)); m.fit([1,1],[1,2],[[1,0],[0,1]])
print(m.predict_expectations([[1,1]]), "expected arm0 = sqrt(2/4)=", np.sqrt(.5), m._imp.arm_to_model[0].A_inv)
print("--- C02 LinTS d=1 m>1")
m = MAB([0,1], LP.LinTS(alpha=1e-9,l2_lambda=1)); m.fit([0,0,1,1],[1,2,3,4],[[1],[2],[1],[2]])
print([m._imp.arm_to_model[a].beta for a in (0,1)])
print(m.predict_expectations([[1],[2],[3]]))
print(m.predict_expectations([[2]]))

print("--- C07 LSH fit twice")
rng=np.random.default_rng(0)
X=rng.standard_normal((30,3)); d=rng.integers(0,2,30); r=rng.integers(0,2,30)
m = MAB([0,1], LP.EpsilonGreedy(0), NP.LSHNearest(2,2)); m.fit(d,r,X)
try:
    m.fit(d[:5],r[:5],X[:5]); print(m.predict_expectations(X[:5]))
except Exception as e: print("EXC", type(e), e)

print("--- C17 neighbors partial_fit bad context width")
m = MAB([0,1], LP.EpsilonGreedy(0), NP.KNearest(2)); m.fit(d,r,X)
try: m.partial_fit([0,1],[1,1],[[1,2],[3,4]])
except Exception as e: print("EXC", type(e).__name__, e)
print(len(m._imp.decisions), len(m._imp.contexts), len(m._imp.rewards))

print("--- C04/C18 tree_parameters shared")
a = MAB([0,1], LP.EpsilonGreedy(0), NP.TreeBandit(), seed=1)
b = MAB([0,1], LP.EpsilonGreedy(0), NP.TreeBandit(), seed=2)
print(a._imp.tree_parameters, a._imp.tree_parameters is b._imp.tree_parameters)
tp={'max_depth':2}; c=MAB([0,1], LP.EpsilonGreedy(0), NP.TreeBandit(tp), seed=3); print(tp)

print("--- C14 TreeBandit double binarize")
def binz(arm, rew): return rew <= 0.5   # not idempotent: 1->0, 0->1 flips
dd=[0,0,0,0,1,1,1,1]; rr=[0.2,0.3,0.9,0.1,0.7,0.8,0.9,0.2]; XX=[[0],[0],[0],[0],[0],[0],[0],[0]]
m1 = MAB([0,1], LP.ThompsonSampling(binz), NP.TreeBandit(), seed=7); m1.fit(dd,rr,XX)
m2 = MAB([0,1], LP.ThompsonSampling(), NP.TreeBandit(), seed=7); m2.fit(dd,[int(binz(a,x)) for a,x in zip(dd,rr)],XX)
print(m1.predict_expectations([[0]]), m2.predict_expectations([[0]]))
