import numpy as np, warnings, copy, sys
warnings.filterwarnings("ignore")
from mabwiser.mab import MAB, LearningPolicy as LP, NeighborhoodPolicy as NP
lps={"eg0":LP.EpsilonGreedy(0),"eg.3":LP.EpsilonGreedy(.3),"ucb":LP.UCB1(.5),"soft":LP.Softmax(.7),"ts":LP.ThompsonSampling(),"pop":LP.Popularity(),"rand":LP.Random(),
     "lingreedy":LP.LinGreedy(0,2.0),"linucb":LP.LinUCB(.5,2.0),"lints":LP.LinTS(.5,2.0)}
nps={"none":None,"radius":NP.Radius(3.0,"cityblock"),"knn":NP.KNearest(4,"cityblock"),"lsh":NP.LSHNearest(2,2),"clusters":NP.Clusters(2),"tree":NP.TreeBandit()}
def close(a,b):
    if isinstance(a,list): return len(a)==len(b) and all(close(x,y) for x,y in zip(a,b))
    if isinstance(a,dict): return list(a)==list(b) and all(close(a[k],b[k]) for k in a)
    try:
        if a!=a and b!=b: return True
        return abs(a-b)<=1e-9*max(1,abs(a),abs(b))
    except TypeError: return a==b
def sync(src,dst):
    # copy all generator states src->dst
    dst._rng.rng.bit_generator.state = src._rng.rng.bit_generator.state
def gens(m):
    out=[m._rng]
    imp=m._imp
    lps=[imp]+([imp.lp] if hasattr(imp,'lp') else [])+(list(imp.lp_list) if hasattr(imp,'lp_list') else [])
    for l in lps:
        if hasattr(l,'arm_to_model'):
            for a,mod in l.arm_to_model.items(): out.append(mod.rng)
    return out
bad=[]
for seed in range(6):
  rng=np.random.default_rng(seed)
  n=30
  X=rng.integers(0,4,(n,2)).astype(float); d=rng.integers(0,3,n); r=rng.integers(0,2,n).astype(float)
  Q=rng.integers(0,4,(4,2)).astype(float)
  cuts=sorted(rng.choice(np.arange(5,n),size=3,replace=False).tolist())
  for ln,lp in lps.items():
    for nn,np_ in nps.items():
      if nn=="tree" and ln not in("eg0","eg.3","ucb","ts"): continue
      ctx= np_ is not None or ln.startswith("lin")
      def mk(): return MAB([0,1,2],lp,np_,seed=11)
      # C06
      if nn!="tree":
        a=mk(); b=mk()
        if ctx: a.fit(d,r,X)
        else: a.fit(d,r)
        prev=0
        for i,c in enumerate(cuts+[n]):
            args=(d[prev:c],r[prev:c])+((X[prev:c],) if ctx else ())
            (b.fit if i==0 else b.partial_fit)(*args); prev=c
        qa=(Q,) if ctx else ()
        ea,eb=a.predict_expectations(*qa),b.predict_expectations(*qa)
        pa,pb=a.predict(*qa),b.predict(*qa)
        if not (close(ea,eb) and pa==pb): bad.append(("C06",seed,ln,nn))
      # C07: fit(D0) + predictions, then fit(D) vs fresh fit(D) w/ synced main rng
      a=mk(); b=mk()
      D0=(d[:10],r[:10])+((X[:10],) if ctx else ())
      D=(d[10:],r[10:])+((X[10:],) if ctx else ())
      a.fit(*D0); a.predict(*qa) if True else None
      if ctx: a.partial_fit(d[3:6],r[3:6],X[3:6])
      else: a.partial_fit(d[3:6],r[3:6])
      sync(a,b)
      try:
        a.fit(*D); b.fit(*D)
        ea,eb=a.predict_expectations(*qa),b.predict_expectations(*qa)
        pa,pb=a.predict(*qa),b.predict(*qa)
        if not (close(ea,eb) and pa==pb): bad.append(("C07",seed,ln,nn))
      except Exception as e: bad.append(("C07-EXC",seed,ln,nn,type(e).__name__))
from collections import Counter
print(Counter((b[0],b[2],b[3]) for b in bad))
