import numpy as np, warnings
warnings.filterwarnings("ignore")
from mabwiser.mab import MAB, LearningPolicy as LP, NeighborhoodPolicy as NP
rng=np.random.default_rng(0); n=40
c=rng.integers(0,6,n).astype(float); X=np.stack([c,c,c,c],axis=1); d=rng.integers(0,2,n); r=(c>2).astype(float)+rng.integers(0,2,n)
Q=np.array([[0,5,0,5],[5,0,5,0],[0,0,5,5],[5,5,0,0],[1,4,2,3]],float)
def run(inter):
    res=[]
    for s2 in range(8):
        m=MAB([0,1],LP.EpsilonGreedy(0),NP.TreeBandit(),seed=1)
        if inter: MAB([0,1],LP.EpsilonGreedy(0),NP.TreeBandit(),seed=100+s2)
        m.fit(d,r,X); res.append(repr(m.predict_expectations(Q)))
    return res
a=run(False); b=run(True)
print("solo runs all equal:",len(set(a))==1,"; interleaved equal to solo:",[x==a[0] for x in b])
