import Probe.Dict
open Py

namespace CF
variable {α : Type} [DecidableEq α]

structure Obs (α : Type) where
  arm : α
  reward : Rat

abbrev Batch (α : Type) := List (Obs α)

def rewardsOf (b : Batch α) (a : α) : List Rat := (b.filter (·.arm = a)).map (·.reward)

inductive Expect where
  | val (q : Rat)
  | ucb (mean alpha : Rat) (N n : Nat)
deriving DecidableEq, Repr

/-- `_UCB1` state (greedy is the special case that ignores `total`/`mean`) -/
structure UCB (α : Type) where
  alpha : Rat
  arms : List α
  total : Nat
  sum : Dict α Rat
  cnt : Dict α Nat
  mean : Dict α Rat
  exp : Dict α Expect

def UCB.init (alpha : Rat) (arms : List α) : UCB α :=
  { alpha, arms, total := 0, sum := .fromKeys arms 0, cnt := .fromKeys arms 0,
    mean := .fromKeys arms 0, exp := .fromKeys arms (.val 0) }

def getD (d : Dict α ν) (a : α) (dflt : ν) : ν := (d.get? a).getD dflt

/-- `_UCB1._fit_arm` -/
def UCB.fitArm (s : UCB α) (b : Batch α) (a : α) : UCB α :=
  let rs := rewardsOf b a
  let s1 : UCB α :=
    if rs.length ≠ 0 then
      let sm := getD s.sum a 0 + rs.sum
      let c := getD s.cnt a 0 + rs.length
      { s with sum := s.sum.set a sm, cnt := s.cnt.set a c, mean := s.mean.set a (sm / c) }
    else s
  if getD s1.cnt a 0 ≠ 0 then
    { s1 with exp := s1.exp.set a (.ucb (getD s1.mean a 0) s1.alpha s1.total (getD s1.cnt a 0)) }
  else s1

def UCB.parallelFit (s : UCB α) (b : Batch α) : UCB α := s.arms.foldl (fun s a => s.fitArm b a) s

def UCB.fit (s : UCB α) (b : Batch α) : UCB α :=
  let s0 := { s with sum := s.sum.resetAll 0, cnt := s.cnt.resetAll 0, mean := s.mean.resetAll 0,
                     exp := s.exp.resetAll (.val 0), total := b.length }
  s0.parallelFit b

def UCB.partialFit (s : UCB α) (b : Batch α) : UCB α :=
  ({ s with total := s.total + b.length }).parallelFit b

def UCB.addArm (s : UCB α) (a : α) : UCB α :=
  { s with arms := s.arms ++ [a], exp := s.exp.set a (.val 0), sum := s.sum.set a 0,
           cnt := s.cnt.set a 0, mean := s.mean.set a 0 }

def UCB.removeArm (s : UCB α) (a : α) : UCB α :=
  { s with arms := s.arms.filter (· != a), exp := s.exp.pop a, sum := s.sum.pop a,
           cnt := s.cnt.pop a, mean := s.mean.pop a }

inductive Op (α : Type) where
  | fit (b : Batch α) | partialFit (b : Batch α) | addArm (a : α) | removeArm (a : α)

def UCB.step (s : UCB α) : Op α → UCB α
  | .fit b => s.fit b
  | .partialFit b => s.partialFit b
  | .addArm a => if a ∈ s.arms then s else s.addArm a       -- facade rejects duplicates
  | .removeArm a => if a ∈ s.arms then s.removeArm a else s -- facade rejects unknown arms

/-- Specification: rewards logged for each arm since the last fit / its last add; rows since last fit. -/
structure Spec (α : Type) where
  arms : List α
  log : α → List Rat
  N : Nat

def Spec.init (arms : List α) : Spec α := { arms, log := fun _ => [], N := 0 }

def Spec.step (t : Spec α) : Op α → Spec α
  | .fit b => { t with log := fun a => rewardsOf b a, N := b.length }
  | .partialFit b => { t with log := fun a => t.log a ++ rewardsOf b a, N := t.N + b.length }
  | .addArm a => if a ∈ t.arms then t else { t with arms := t.arms ++ [a], log := fun x => if x = a then [] else t.log x }
  | .removeArm a => if a ∈ t.arms then { t with arms := t.arms.filter (· != a) } else t

/-- The refinement relation. -/
structure Refines (s : UCB α) (t : Spec α) : Prop where
  arms : s.arms = t.arms
  nodup : s.arms.Nodup
  kSum : s.sum.keys = s.arms
  kCnt : s.cnt.keys = s.arms
  kMean : s.mean.keys = s.arms
  kExp : s.exp.keys = s.arms
  total : s.total = t.N
  stat : ∀ a ∈ s.arms, getD s.sum a 0 = (t.log a).sum ∧ getD s.cnt a 0 = (t.log a).length
  mean : ∀ a ∈ s.arms, getD s.mean a 0 = if (t.log a).length = 0 then 0 else (t.log a).sum / (t.log a).length
  exp : ∀ a ∈ s.arms, getD s.exp a (.val 0) =
          if (t.log a).length = 0 then .val 0
          else .ucb ((t.log a).sum / (t.log a).length) s.alpha t.N (t.log a).length

end CF
