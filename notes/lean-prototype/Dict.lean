namespace Py
set_option linter.unusedSectionVars false

/-- Insertion-ordered Python dict: association list with unique keys. -/
abbrev Dict (κ : Type) (ν : Type) := List (κ × ν)

variable {κ ν : Type} [DecidableEq κ]

def Dict.keys (d : Dict κ ν) : List κ := d.map (·.1)

def Dict.get? : Dict κ ν → κ → Option ν
  | [], _ => none
  | (k', v') :: t, k => if k' = k then some v' else Dict.get? t k

/-- `d[k] = v`: replace in place if present, else append. -/
def Dict.set : Dict κ ν → κ → ν → Dict κ ν
  | [], k, v => [(k, v)]
  | (k', v') :: t, k, v => if k' = k then (k, v) :: t else (k', v') :: Dict.set t k v

def Dict.pop : Dict κ ν → κ → Dict κ ν
  | [], _ => []
  | (k', v') :: t, k => if k' = k then Dict.pop t k else (k', v') :: Dict.pop t k

def Dict.fromKeys (ks : List κ) (v : ν) : Dict κ ν := ks.map (·, v)

/-- `reset(d, v)` from utils.py -/
def Dict.resetAll (d : Dict κ ν) (v : ν) : Dict κ ν := d.map fun p => (p.1, v)

@[simp] theorem Dict.keys_nil : Dict.keys ([] : Dict κ ν) = [] := rfl
@[simp] theorem Dict.keys_cons (p : κ × ν) (t : Dict κ ν) : Dict.keys (p :: t) = p.1 :: Dict.keys t := rfl

@[simp] theorem Dict.keys_fromKeys (ks : List κ) (v : ν) : (Dict.fromKeys ks v).keys = ks := by
  simp [Dict.keys, Dict.fromKeys, List.map_map, Function.comp_def]

@[simp] theorem Dict.keys_resetAll (d : Dict κ ν) (v : ν) : (d.resetAll v).keys = d.keys := by
  simp [Dict.keys, Dict.resetAll, List.map_map, Function.comp_def]

theorem Dict.keys_set_mem (d : Dict κ ν) (k : κ) (v : ν) (h : k ∈ d.keys) :
    (d.set k v).keys = d.keys := by
  induction d with
  | nil => simp at h
  | cons p t ih => obtain ⟨k', v'⟩ := p; grind [Dict.set, Dict.keys_cons]

theorem Dict.keys_set_not_mem (d : Dict κ ν) (k : κ) (v : ν) (h : k ∉ d.keys) :
    (d.set k v).keys = d.keys ++ [k] := by
  induction d with
  | nil => simp [Dict.set]
  | cons p t ih => obtain ⟨k', v'⟩ := p; grind [Dict.set, Dict.keys_cons]

theorem Dict.keys_pop (d : Dict κ ν) (k : κ) : (d.pop k).keys = d.keys.filter (· != k) := by
  induction d with
  | nil => simp [Dict.pop]
  | cons p t ih => obtain ⟨k', v'⟩ := p; grind [Dict.pop, Dict.keys_cons]

theorem Dict.get?_set_eq (d : Dict κ ν) (k : κ) (v : ν) : (d.set k v).get? k = some v := by
  induction d with
  | nil => simp [Dict.set, Dict.get?]
  | cons p t ih => obtain ⟨k', v'⟩ := p; grind [Dict.set, Dict.get?]

theorem Dict.get?_set_ne (d : Dict κ ν) (k k₂ : κ) (v : ν) (h : k₂ ≠ k) :
    (d.set k v).get? k₂ = d.get? k₂ := by
  induction d with
  | nil => simp [Dict.set, Dict.get?, Ne.symm h]
  | cons p t ih => obtain ⟨k', v'⟩ := p; grind [Dict.set, Dict.get?]

theorem Dict.get?_pop_ne (d : Dict κ ν) (k k₂ : κ) (h : k₂ ≠ k) : (d.pop k).get? k₂ = d.get? k₂ := by
  induction d with
  | nil => simp [Dict.pop, Dict.get?]
  | cons p t ih => obtain ⟨k', v'⟩ := p; grind [Dict.pop, Dict.get?]

theorem Dict.get?_resetAll (d : Dict κ ν) (v : ν) (k : κ) (h : k ∈ d.keys) :
    (d.resetAll v).get? k = some v := by
  induction d with
  | nil => simp at h
  | cons p t ih => obtain ⟨k', v'⟩ := p; grind [Dict.resetAll, Dict.get?, Dict.keys_cons]

theorem Dict.get?_fromKeys (ks : List κ) (v : ν) (k : κ) (h : k ∈ ks) :
    (Dict.fromKeys ks v).get? k = some v := by
  induction ks with
  | nil => simp at h
  | cons k' t ih => grind [Dict.fromKeys, Dict.get?]

end Py
