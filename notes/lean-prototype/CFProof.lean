import Probe.CF
open Py

namespace CF
variable {α : Type} [DecidableEq α]

/-- keys of all four dicts equal `arms` -/
def UCB.WF (s : UCB α) : Prop :=
  s.sum.keys = s.arms ∧ s.cnt.keys = s.arms ∧ s.mean.keys = s.arms ∧ s.exp.keys = s.arms

theorem getD_set_eq (d : Dict α ν) (a : α) (v dflt : ν) : getD (d.set a v) a dflt = v := by
  simp [getD, Dict.get?_set_eq]

theorem getD_set_ne (d : Dict α ν) (a b : α) (v dflt : ν) (h : b ≠ a) :
    getD (d.set a v) b dflt = getD d b dflt := by
  simp [getD, Dict.get?_set_ne _ _ _ _ h]

theorem fitArm_frame (s : UCB α) (b : Batch α) (a : α) :
    (s.fitArm b a).arms = s.arms ∧ (s.fitArm b a).total = s.total ∧ (s.fitArm b a).alpha = s.alpha := by
  unfold UCB.fitArm; grind

theorem fitArm_wf (s : UCB α) (b : Batch α) (a : α) (ha : a ∈ s.arms) (h : s.WF) :
    (s.fitArm b a).WF := by
  obtain ⟨h1, h2, h3, h4⟩ := h
  unfold UCB.fitArm UCB.WF
  have e1 := fun v => Dict.keys_set_mem s.sum a v (h1 ▸ ha)
  have e2 := fun v => Dict.keys_set_mem s.cnt a v (h2 ▸ ha)
  have e3 := fun v => Dict.keys_set_mem s.mean a v (h3 ▸ ha)
  have e4 := fun v => Dict.keys_set_mem s.exp a v (h4 ▸ ha)
  grind

theorem fitArm_other (s : UCB α) (b : Batch α) (a c : α) (h : c ≠ a) :
    getD (s.fitArm b a).sum c 0 = getD s.sum c 0 ∧ getD (s.fitArm b a).cnt c 0 = getD s.cnt c 0 ∧
    getD (s.fitArm b a).mean c 0 = getD s.mean c 0 ∧
    getD (s.fitArm b a).exp c (.val 0) = getD s.exp c (.val 0) := by
  unfold UCB.fitArm
  have e1 := fun v => getD_set_ne s.sum a c v 0 h
  have e2 := fun v => getD_set_ne s.cnt a c v 0 h
  have e3 := fun v => getD_set_ne s.mean a c v 0 h
  have e4 := fun (d : Dict α Expect) v => getD_set_ne d a c v (.val 0) h
  grind

/-- what `_fit_arm` leaves at its own key -/
theorem fitArm_self (s : UCB α) (b : Batch α) (a : α) :
    let rs := rewardsOf b a
    let sm := getD s.sum a 0 + rs.sum
    let c := getD s.cnt a 0 + rs.length
    getD (s.fitArm b a).sum a 0 = sm ∧ getD (s.fitArm b a).cnt a 0 = c ∧
    getD (s.fitArm b a).mean a 0 = (if rs.length ≠ 0 then sm / c else getD s.mean a 0) ∧
    getD (s.fitArm b a).exp a (.val 0) =
      (if c ≠ 0 then .ucb (if rs.length ≠ 0 then sm / c else getD s.mean a 0) s.alpha s.total c
       else getD s.exp a (.val 0)) := by
  unfold UCB.fitArm
  have e1 := fun v => getD_set_eq s.sum a v 0
  have e2 := fun v => getD_set_eq s.cnt a v 0
  have e3 := fun v => getD_set_eq s.mean a v 0
  have e4 := fun (d : Dict α Expect) v => getD_set_eq d a v (.val 0)
  by_cases hr : (rewardsOf b a).length = 0
  · have : (rewardsOf b a) = [] := List.eq_nil_of_length_eq_zero hr
    simp [this]
    grind
  · simp [hr]
    grind

end CF

namespace CF
variable {α : Type} [DecidableEq α]

/-- entries of arm `c` -/
def UCB.entry (s : UCB α) (c : α) : Rat × Nat × Rat × Expect :=
  (getD s.sum c 0, getD s.cnt c 0, getD s.mean c 0, getD s.exp c (.val 0))

/-- entry that `_fit_arm` leaves, as a function of the old entry, `total` and `alpha` only -/
def fitEntry (alpha : Rat) (total : Nat) (rs : List Rat) (e : Rat × Nat × Rat × Expect) : Rat × Nat × Rat × Expect :=
  let sm := e.1 + rs.sum
  let c := e.2.1 + rs.length
  let m := if rs.length ≠ 0 then sm / c else e.2.2.1
  (sm, c, m, if c ≠ 0 then .ucb m alpha total c else e.2.2.2)

theorem fitArm_entry_self (s : UCB α) (b : Batch α) (a : α) :
    (s.fitArm b a).entry a = fitEntry s.alpha s.total (rewardsOf b a) (s.entry a) := by
  have := fitArm_self s b a
  simp only [UCB.entry, fitEntry]
  grind

theorem fitArm_entry_other (s : UCB α) (b : Batch α) (a c : α) (h : c ≠ a) :
    (s.fitArm b a).entry c = s.entry c := by
  have := fitArm_other s b a c h
  simp only [UCB.entry]; grind

theorem foldFit_spec (b : Batch α) (l : List α) (hl : l.Nodup) :
    ∀ s : UCB α, (∀ a ∈ l, a ∈ s.arms) → s.WF →
      let s' := l.foldl (fun s a => s.fitArm b a) s
      s'.WF ∧ s'.arms = s.arms ∧ s'.total = s.total ∧ s'.alpha = s.alpha ∧
      (∀ c, c ∉ l → s'.entry c = s.entry c) ∧
      (∀ a ∈ l, s'.entry a = fitEntry s.alpha s.total (rewardsOf b a) (s.entry a)) := by
  induction l with
  | nil => intro s _ h; simp [h]
  | cons a l ih =>
    intro s hsub h
    have hn : a ∉ l := (List.nodup_cons.mp hl).1
    have hl' : l.Nodup := (List.nodup_cons.mp hl).2
    have ha : a ∈ s.arms := hsub a (by simp)
    obtain ⟨f1, f2, f3⟩ := fitArm_frame s b a
    have h1 := fitArm_wf s b a ha h
    have hsub' : ∀ x ∈ l, x ∈ (s.fitArm b a).arms := by
      intro x hx; rw [f1]; exact hsub x (by simp [hx])
    obtain ⟨g1, g2, g3, g4, g5, g6⟩ := ih hl' (s.fitArm b a) hsub' h1
    simp only [List.foldl_cons]
    refine ⟨g1, by rw [g2, f1], by rw [g3, f2], by rw [g4, f3], ?_, ?_⟩
    · intro c hc
      have hca : c ≠ a := by intro e; apply hc; simp [e]
      have hcl : c ∉ l := by intro e; apply hc; simp [e]
      rw [g5 c hcl, fitArm_entry_other s b a c hca]
    · intro x hx
      rcases List.mem_cons.mp hx with e | e
      · subst e
        rw [g5 x hn, fitArm_entry_self]
      · have hxa : x ≠ a := by intro e2; subst e2; exact hn e
        rw [g6 x e, f3, f2, fitArm_entry_other s b a x hxa]

end CF

namespace CF
variable {α : Type} [DecidableEq α]

/-- the documented function of an arm's reward log (UCB1) -/
def specEntry (alpha : Rat) (N : Nat) (log : List Rat) : Rat × Nat × Rat × Expect :=
  (log.sum, log.length,
   if log.length = 0 then 0 else log.sum / log.length,
   if log.length = 0 then .val 0 else .ucb (log.sum / log.length) alpha N log.length)

structure Ref (s : UCB α) (t : Spec α) : Prop where
  arms : s.arms = t.arms
  nodup : s.arms.Nodup
  wf : s.WF
  total : s.total = t.N
  entry : ∀ a ∈ s.arms, s.entry a = specEntry s.alpha t.N (t.log a)

theorem fitEntry_spec (alpha : Rat) (N k : Nat) (log rs : List Rat) :
    fitEntry alpha (N + k) rs (specEntry alpha N log) = specEntry alpha (N + k) (log ++ rs) := by
  simp only [fitEntry, specEntry, List.sum_append, List.length_append]
  by_cases h1 : rs.length = 0
  · have : rs = [] := List.eq_nil_of_length_eq_zero h1
    subst this
    by_cases h2 : log.length = 0 <;> simp [h2, Rat.add_zero]
  · have : log.length + rs.length ≠ 0 := by omega
    simp [h1, this]

theorem fitEntry_zero (alpha : Rat) (N : Nat) (rs : List Rat) :
    fitEntry alpha N rs (0, 0, 0, .val 0) = specEntry alpha N rs := by
  have := fitEntry_spec alpha 0 N [] rs
  simpa [specEntry] using this

theorem ref_init (alpha : Rat) (arms : List α) (h : arms.Nodup) :
    Ref (UCB.init alpha arms) (Spec.init arms) := by
  refine ⟨rfl, h, ⟨by simp [UCB.init], by simp [UCB.init], by simp [UCB.init], by simp [UCB.init]⟩, rfl, ?_⟩
  intro a ha
  have ha' : a ∈ arms := ha
  simp [UCB.entry, UCB.init, getD, Dict.get?_fromKeys _ _ _ ha', specEntry, Spec.init]

theorem ref_partialFit (s : UCB α) (t : Spec α) (b : Batch α) (h : Ref s t) :
    Ref (s.partialFit b) (t.step (.partialFit b)) := by
  obtain ⟨ha, hn, hw, ht, he⟩ := h
  have key := foldFit_spec b s.arms hn { s with total := s.total + b.length } (by intro a h; exact h) hw
  obtain ⟨k1, k2, k3, k4, _, k6⟩ := key
  refine ⟨by simpa [UCB.partialFit, UCB.parallelFit, Spec.step] using k2.trans ha, ?_, ?_, ?_, ?_⟩
  · show (s.partialFit b).arms.Nodup
    have : (s.partialFit b).arms = s.arms := k2
    rw [this]; exact hn
  · simpa [UCB.partialFit, UCB.parallelFit] using k1
  · simp [UCB.partialFit, UCB.parallelFit, Spec.step] at k3 ⊢; rw [k3, ht]
  · intro a ha'
    have ha'' : a ∈ s.arms := by simpa [UCB.partialFit, UCB.parallelFit, k2] using ha'
    have := k6 a ha''
    simp only [UCB.partialFit, UCB.parallelFit, Spec.step] at this k4 ⊢
    rw [this, k4]
    have e := he a ha''
    simp only [UCB.entry] at e ⊢
    rw [e, ht, fitEntry_spec]

end CF
