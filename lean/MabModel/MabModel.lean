import MabModel.Py.Dict
import MabModel.Core.Types
import MabModel.Core.LinAlg
import MabModel.Core.LP
import MabModel.Core.Bandit
import MabModel.Core.Facade
import MabModel.Core.Parallel
import MabModel.Core.Simulator
