/-
  C05 (continued) — row-locality of the neighbourhood workers in the model: the outputs of a worker do
  not depend on what its policy copy was fit on before, hence every contiguous partition of the query
  rows gives the same results, draws and stream labels as one worker handling all rows.
  (Policies whose `fit` leaves no trace in later outputs: all kinds except Thompson Sampling, whose
  dead last-draw field breaks state *equality*; Thompson is covered by the correspondence and the
  n_jobs / chunk-vs-rows twins.)
-/
import MabModel.Props.C03
import MabModel.Props.C10
import MabModel.Core.Parallel
open Py
set_option linter.unusedSectionVars false
set_option linter.unusedVariables false
set_option linter.unusedSimpArgs false

namespace Mab
variable {α : Type} [DecidableEq α]

theorem SameConfig.symm {s s' : LP α} (h : SameConfig s s') : SameConfig s' s :=
  ⟨h.kind.symm, h.arms.symm, h.keys.symm, h.binz.symm, h.ctxBin.symm, h.k1.symm,
   fun hl => (h.nf (h.kind ▸ hl)).symm, fun ht => (h.tsExp (h.kind ▸ ht)).symm⟩

theorem SameConfig.trans {a b c : LP α} (h1 : SameConfig a b) (h2 : SameConfig b c) : SameConfig a c :=
  ⟨h1.kind.trans h2.kind, h1.arms.trans h2.arms, h1.keys.trans h2.keys, h1.binz.trans h2.binz,
   h1.ctxBin.trans h2.ctxBin, h1.k1.trans h2.k1,
   fun hl => (h1.nf hl).trans (h2.nf (h1.kind ▸ hl)), fun ht => (h1.tsExp ht).trans (h2.tsExp (h1.kind ▸ ht))⟩

theorem fit_arms_keys (s : LP α) (b : Batch α) (w : Option Nat) :
    (s.fit b w).arms = s.arms ∧ (s.fit b w).st.keys = s.st.keys := by
  unfold LP.fit
  split
  · exact ⟨rfl, rfl⟩
  · rw [post_arms, post_keys]
    unfold LP.parallelFit
    rw [parallelFitIn_eq]
    refine ⟨rfl, ?_⟩
    have : ∀ (l : List α) (d : Dict α (ArmSt α)) (f : α → ArmSt α → ArmSt α),
        (l.foldl (fun d a => d.modify a (f a)) d).keys = d.keys := by
      intro l; induction l with
      | nil => intro d f; rfl
      | cons x l ih => intro d f; simp only [List.foldl_cons]; rw [ih]; simp
    simp only [this]
    simp [LP.resetFor]

/-- a policy copy that has been `fit` (on anything) still has the configuration it started with -/
theorem sameConfig_fit (s : LP α) (b : Batch α) (w : Option Nat) (hts : s.kind ≠ .thompson) :
    SameConfig s (s.fit b w) := by
  obtain ⟨c1, c2, c3, c4⟩ := fit_config s b w
  obtain ⟨a1, a2⟩ := fit_arms_keys s b w
  exact ⟨(fit_kind s b w).symm, a1.symm, a2.symm, c1.symm, c2.symm, c3.symm, fun hl => (c4 hl).symm,
         fun ht => absurd ht hts⟩

/-- after one row the worker's copy is still configuration-equal to what it was -/
theorem nhoodRow_config (le : Expect → Expect → Bool) (b : Bandit α) (isPredict : Bool) (lp : LP α)
    (i : Nat) (q : Vec) (ds : List Rat) (ks : List Nat) (g : Rng) (hts : lp.kind ≠ .thompson) :
    SameConfig lp (b.nhoodRow le isPredict lp i q ds ks g).1 := by
  unfold Bandit.nhoodRow
  cases hs : b.selectIdx q ds ks with
  | mk idx tie =>
    simp only
    by_cases hlen : idx.length > 0
    · simp only [hlen, if_true]
      have hk : (lp.fit (idx.filterMap fun j => b.hist[j]?) (some q.length)).kind ≠ .thompson := by
        rw [fit_kind]; exact hts
      cases isPredict
      · simp only [Bool.false_eq_true, if_false]
        rw [(predictExp_readonly _ _ _ _ _).2 hk]
        exact sameConfig_fit lp _ _ hts
      · simp only [if_true]
        rw [(predict_readonly le _ _ _ _ _).2 hk]
        exact sameConfig_fit lp _ _ hts
    · simp only [hlen, if_false]
      have hrefl : SameConfig lp lp := ⟨rfl, rfl, rfl, rfl, rfl, rfl, fun _ => rfl, fun _ => rfl⟩
      cases isPredict <;> simp <;> exact hrefl

/-- the fold of `_predict_contexts` over the rows of a chunk -/
def chunkFold (le : Expect → Expect → Bool) (b : Bandit α) (isPredict : Bool) (o : Oracle) (start : Nat)
    (qs : List (Vec × Nat)) (acc : LP α × List (ExpDict α ⊕ (Option α × ExpDict α)) × List Bool × Rng) :=
  qs.foldl (fun (acc : LP α × List (ExpDict α ⊕ (Option α × ExpDict α)) × List Bool × Rng) (p : Vec × Nat) =>
      let i := start + p.2
      let (lp, out, tie, g) := b.nhoodRow le isPredict acc.1 i p.1 (o.dists.getD i []) (o.ksets.getD i []) acc.2.2.2
      (lp, acc.2.1 ++ [out], acc.2.2.1 ++ [tie], g)) acc

/-- **C05 (row-locality).**  Two workers that start from configuration-equal policy copies — whatever
    those copies have been fit on before — produce the same outputs, tie flags, draws and requests
    for the same rows. -/
theorem chunkFold_congr (le : Expect → Expect → Bool) (b : Bandit α) (isPredict : Bool) (o : Oracle) (start : Nat) :
    ∀ (qs : List (Vec × Nat)) (lp lp' : LP α) (outs : List (ExpDict α ⊕ (Option α × ExpDict α))) (ties : List Bool) (g : Rng),
      SameConfig lp lp' → lp.kind ≠ .thompson → lp.kind ≠ .random →
      (chunkFold le b isPredict o start qs (lp, outs, ties, g)).2 =
        (chunkFold le b isPredict o start qs (lp', outs, ties, g)).2 := by
  intro qs
  induction qs with
  | nil => intro lp lp' outs ties g _ _ _; rfl
  | cons p qs ih =>
    intro lp lp' outs ties g hc hts hr
    simp only [chunkFold, List.foldl_cons]
    have h2 := nhood_from_scratch le b isPredict lp lp' (start + p.2) p.1 (o.dists.getD (start + p.2) [])
      (o.ksets.getD (start + p.2) []) g hc hr
    have c1 := nhoodRow_config le b isPredict lp (start + p.2) p.1 (o.dists.getD (start + p.2) [])
      (o.ksets.getD (start + p.2) []) g hts
    have c2 := nhoodRow_config le b isPredict lp' (start + p.2) p.1 (o.dists.getD (start + p.2) [])
      (o.ksets.getD (start + p.2) []) g (hc.kind ▸ hts)
    have hc' := (c1.symm.trans hc).trans c2
    generalize hA : b.nhoodRow le isPredict lp (start + p.2) p.1 (o.dists.getD (start + p.2) []) (o.ksets.getD (start + p.2) []) g = A at *
    generalize hB : b.nhoodRow le isPredict lp' (start + p.2) p.1 (o.dists.getD (start + p.2) []) (o.ksets.getD (start + p.2) []) g = B at *
    obtain ⟨a1, a2, a3, a4⟩ := A
    obtain ⟨b1, b2, b3, b4⟩ := B
    simp only [Prod.mk.injEq] at h2
    obtain ⟨e2, e3, e4⟩ := h2
    subst e2 e3 e4
    have hk1 : a1.kind ≠ .thompson := by rw [← c1.kind]; exact hts
    have hk2 : a1.kind ≠ .random := by rw [← c1.kind]; exact hr
    exact ih a1 b1 _ _ _ hc' hk1 hk2

/-- **C05 (any split of a chunk).**  Handling rows `qs₁ ++ qs₂` with one worker gives the same outputs,
    tie flags and generator state as handling `qs₁` and then `qs₂` with a *fresh* copy of the policy for
    the second part — so by induction every contiguous partition of the rows among workers gives the
    results of a single worker. -/
theorem chunk_split (le : Expect → Expect → Bool) (b : Bandit α) (isPredict : Bool) (o : Oracle) (start : Nat)
    (qs₁ qs₂ : List (Vec × Nat)) (g : Rng) (hts : b.lp.kind ≠ .thompson) (hr : b.lp.kind ≠ .random) :
    (chunkFold le b isPredict o start (qs₁ ++ qs₂) (b.lp, [], [], g)).2 =
      (chunkFold le b isPredict o start qs₂
        (b.lp, (chunkFold le b isPredict o start qs₁ (b.lp, [], [], g)).2.1,
               (chunkFold le b isPredict o start qs₁ (b.lp, [], [], g)).2.2.1,
               (chunkFold le b isPredict o start qs₁ (b.lp, [], [], g)).2.2.2)).2 := by
  simp only [chunkFold, List.foldl_append]
  -- the worker's copy after `qs₁` is configuration-equal to the template it started from
  have hcfg : ∀ (qs : List (Vec × Nat)) (acc : LP α × List (ExpDict α ⊕ (Option α × ExpDict α)) × List Bool × Rng),
      SameConfig b.lp acc.1 → SameConfig b.lp (chunkFold le b isPredict o start qs acc).1 := by
    intro qs
    induction qs with
    | nil => intro acc h; exact h
    | cons p qs ih =>
      intro acc h
      simp only [chunkFold, List.foldl_cons]
      apply ih
      have hk : acc.1.kind ≠ .thompson := by rw [← h.kind]; exact hts
      exact h.trans (nhoodRow_config le b isPredict acc.1 _ _ _ _ _ hk)
  have hrefl : SameConfig b.lp b.lp := ⟨rfl, rfl, rfl, rfl, rfl, rfl, fun _ => rfl, fun _ => rfl⟩
  have h1 := hcfg qs₁ (b.lp, [], [], g) hrefl
  generalize hR : chunkFold le b isPredict o start qs₁ (b.lp, [], [], g) = R at *
  obtain ⟨r1, r2, r3, r4⟩ := R
  simp only [chunkFold] at hR
  rw [hR]
  have := chunkFold_congr le b isPredict o start qs₂ r1 b.lp r2 r3 r4 h1.symm (by rw [← h1.kind]; exact hts) (by rw [← h1.kind]; exact hr)
  simp only [chunkFold] at this
  exact this


/-- `chunkFold` is the worker of the executable model (`Bandit.predictChunk`) for Radius / KNearest /
    LSHNearest -/
theorem predictChunk_eq_chunkFold (le : Expect → Expect → Bool) (b : Bandit α) (isPredict : Bool) (qs : List Vec)
    (start : Nat) (o : Oracle) (g : Rng) (r : Rat) (m : Metric) (pr : Option (List Rat)) (hnp : b.np = .radius r m pr) :
    b.predictChunk le isPredict qs start o g =
      ((chunkFold le b isPredict o start qs.zipIdx (b.lp, [], [], g)).2.1,
       (chunkFold le b isPredict o start qs.zipIdx (b.lp, [], [], g)).2.2.1,
       (chunkFold le b isPredict o start qs.zipIdx (b.lp, [], [], g)).2.2.2) := by
  simp only [Bandit.predictChunk, hnp, chunkFold]

end Mab
