/-
  C17 — a rejected call changes nothing.
  `Bandit.step` returns the state also when the call is rejected; every rejection class of the
  facade (wrong container types, length mismatches, non-finite or non-binary rewards, contexts
  missing or superfluous, duplicate / unknown / None / NaN / Inf arm, binarizer on a non-Thompson
  bandit, non-callable binarizer, bad warm-start arguments, empty list of closest distances,
  predict before fit) and the shape errors raised from inside training (feature-count mismatch in
  `partial_fit`, fewer rows than clusters) leaves the whole bandit state — arms, learned state,
  stored history, tables, trees — and the random streams untouched.
-/
import MabModel.Core.Facade
open Py
set_option linter.unusedSectionVars false
set_option linter.unusedVariables false

namespace Mab
variable {α : Type} [DecidableEq α]

theorem train_rejected_noop (b : Bandit α) (a : TrainArgs α) (p : Bool) (o : Oracle) (g : Rng)
    (h : (b.train a p o g).2.1.err ≠ none) : (b.train a p o g).1 = b ∧ (b.train a p o g).2.2 = g := by
  unfold Bandit.train at h ⊢
  split
  · exact ⟨rfl, rfl⟩
  · split
    · exact ⟨rfl, rfl⟩
    · split <;> simp_all

theorem query_rejected_noop (le : Expect → Expect → Bool) (b : Bandit α) (a : PredArgs) (p : Bool)
    (o : Oracle) (g : Rng) (h : (b.query le a p o g).2.1.err ≠ none) :
    (b.query le a p o g).1 = b ∧ (b.query le a p o g).2.2 = g := by
  unfold Bandit.query at h ⊢
  by_cases h1 : (!b.isFit) = true
  · rw [if_pos h1]; exact ⟨rfl, rfl⟩
  · by_cases h2 : b.isContextual ∧ a.contexts.isNone
    · rw [if_neg h1, if_pos h2]; exact ⟨rfl, rfl⟩
    · by_cases h3 : a.contexts.isSome ∧ !a.ctxTypeOk
      · rw [if_neg h1, if_neg h2, if_pos h3]; exact ⟨rfl, rfl⟩
      · rw [if_neg h1, if_neg h2, if_neg h3] at h; exact absurd rfl h

/-- **C17.** For every state, every operation with every argument, every oracle and tape: if the
    call is rejected, the bandit and its random streams are exactly what they were. -/
theorem rejected_noop (le : Expect → Expect → Bool) (b : Bandit α) (op : Op α) (o : Oracle) (g : Rng)
    (h : (b.step le op o g).2.1.err ≠ none) :
    (b.step le op o g).1 = b ∧ (b.step le op o g).2.2 = g := by
  cases op with
  | fit a => exact train_rejected_noop b a false o g h
  | partialFit a => exact train_rejected_noop b a true o g h
  | predict a => exact query_rejected_noop le b a true o g h
  | predictExp a => exact query_rejected_noop le b a false o g h
  | addArm arg binz callable =>
    simp only [Bandit.step] at h ⊢
    by_cases h1 : binz.isSome ∧ b.lp.kind ≠ .thompson
    · rw [if_pos h1]; exact ⟨rfl, rfl⟩
    · by_cases h2 : binz.isSome ∧ !callable
      · rw [if_neg h1, if_pos h2]; exact ⟨rfl, rfl⟩
      · rw [if_neg h1, if_neg h2] at h ⊢
        cases arg with
        | ok a =>
          by_cases h3 : a ∈ b.arms
          · simp [h3]
          · simp only [h3, if_false] at h; exact absurd rfl h
        | none => exact ⟨rfl, rfl⟩
        | nan => exact ⟨rfl, rfl⟩
        | inf => exact ⟨rfl, rfl⟩
  | removeArm arg =>
    simp only [Bandit.step] at h ⊢
    cases arg with
    | ok a =>
      by_cases h3 : a ∈ b.arms
      · simp only [h3, if_true] at h; exact absurd rfl h
      · simp [h3]
    | none => exact ⟨rfl, rfl⟩
    | nan => exact ⟨rfl, rfl⟩
    | inf => exact ⟨rfl, rfl⟩
  | warmStart w =>
    simp only [Bandit.step] at h ⊢
    by_cases h1 : (!w.typeOk) = true
    · rw [if_pos h1]; exact ⟨rfl, rfl⟩
    · by_cases h2 : w.q < 0 ∨ 1 < w.q
      · rw [if_neg h1, if_pos h2]; exact ⟨rfl, rfl⟩
      · by_cases h3 : ¬ (w.keys.all (· ∈ b.arms) ∧ b.arms.all (· ∈ w.keys))
        · rw [if_neg h1, if_neg h2, if_pos h3]; exact ⟨rfl, rfl⟩
        · rw [if_neg h1, if_neg h2, if_neg h3] at h ⊢
          cases hnp : b.np with
          | none =>
            simp only [hnp] at h ⊢
            by_cases h4 : (!w.featOk) = true
            · rw [if_pos h4]; exact ⟨rfl, rfl⟩
            · rw [if_neg h4] at h ⊢
              cases hw : b.lp.warmStart w.keys w.raw w.q with
              | none => simp
              | some lp => simp only [hw] at h; exact absurd rfl h
          | radius r m pr => simp only [hnp] at h; exact absurd rfl h
          | knn k m => simp only [hnp] at h; exact absurd rfl h
          | lsh d t pr => simp only [hnp] at h; exact absurd rfl h
          | clusters n => simp only [hnp] at h; exact absurd rfl h
          | tree => simp only [hnp] at h; exact absurd rfl h

/-- consequently every continuation behaves as if the rejected call had never been made -/
theorem rejected_then_continue (le : Expect → Expect → Bool) (b : Bandit α) (bad : Op α) (o : Oracle) (g : Rng)
    (h : (b.step le bad o g).2.1.err ≠ none) (next : Op α) (o' : Oracle) :
    (b.step le bad o g).1.step le next o' (b.step le bad o g).2.2 = b.step le next o' g := by
  obtain ⟨h1, h2⟩ := rejected_noop le b bad o g h
  rw [h1, h2]

/-- the rejection classes are not vacuous: concrete rejected calls of each kind -/
def c17Bandit : Bandit Nat :=
  ((Bandit.init [0, 1] (.greedy 0) (.radius 1 .cityblock none)).step (fun _ _ => true)
    (.fit { decisions := [0, 1], rewards := [some 1, some 0], contexts := some [[0, 0], [1, 1]] }) {} { tape := [] }).1

example : (c17Bandit.step (fun _ _ => true)
    (.partialFit { decisions := [0], rewards := [some 1], contexts := some [[0, 0, 0]] }) {} { tape := [] }).2.1.err = some .shape := by
  decide +kernel
example : (c17Bandit.step (fun _ _ => true)
    (.partialFit { decisions := [0], rewards := [none], contexts := some [[0, 0]] }) {} { tape := [] }).2.1.err = some .type := by
  decide +kernel
example : (c17Bandit.step (fun _ _ => true) (.addArm (.ok 1) none) {} { tape := [] }).2.1.err = some .value := by
  decide +kernel
example : (c17Bandit.step (fun _ _ => true) (.predict { contexts := none }) {} { tape := [] }).2.1.err = some .value := by
  decide +kernel

end Mab
