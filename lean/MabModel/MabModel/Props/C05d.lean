/-
  C05 (continued) — Clusters: the per-cluster policy copies of a worker are changed by queries only in ways no
  query can observe (private-generator flags, last Thompson draw), so the rows of a chunk do not influence each
  other and any contiguous split of the rows gives the single-worker outputs, draws and requests.
-/
import MabModel.Props.C05c
open Py
set_option linter.unusedSectionVars false
set_option linter.unusedVariables false
set_option linter.unusedSimpArgs false

namespace Mab
variable {α : Type} [DecidableEq α]

/-! ### Clusters: the rows of a chunk do not influence each other -/

/-- the row generator is installed on the policy and on its per-arm models -/
def clearPriv (x : LP α) : LP α := { x with st := x.st.mapKV fun _ r => { r with rngPriv := false } }

/-- what a cluster's policy is, as far as any query can tell -/
def canon (x : LP α) : LP α := (clearPriv x).norm

theorem clearPriv_kind (x : LP α) : (clearPriv x).kind = x.kind := rfl

theorem clearPriv_norm (x : LP α) : (clearPriv x).norm = clearPriv x.norm := by
  unfold LP.norm
  rw [clearPriv_kind]
  cases hk : x.kind <;> simp only []
  simp only [clearPriv, Dict.mapKV_mapKV]

theorem clearPriv_idem (x : LP α) : clearPriv (clearPriv x) = clearPriv x := by
  simp only [clearPriv, Dict.mapKV_mapKV]

/-- a query's outputs, requests and tape depend on the policy only up to the last Thompson draw -/
theorem predictExp_out_of_norm (y y' : LP α) (m : Option Nat) (ctxs : List Vec) (own : Stream) (g : Rng)
    (h : y.norm = y'.norm) : (y.predictExp m ctxs own g).2 = (y'.predictExp m ctxs own g).2 := by
  have hk : y.kind = y'.kind := by
    have := congrArg LP.kind h; rwa [norm_kind, norm_kind] at this
  by_cases ht : y.kind = .thompson
  · have ht' : y'.kind = .thompson := hk ▸ ht
    rw [norm_thompson _ ht, norm_thompson _ ht'] at h
    rw [← (predictExp_normT y m ctxs own g ht).1, ← (predictExp_normT y' m ctxs own g ht').1, h]
  · have ht' : y'.kind ≠ .thompson := hk ▸ ht
    rw [norm_other _ ht, norm_other _ ht'] at h
    rw [h]

theorem canon_after_query (x : LP α) (m : Option Nat) (ctxs : List Vec) (own : Stream) (g : Rng) :
    canon ((clearPriv x).predictExp m ctxs own g).1 = canon x := by
  unfold canon
  rw [clearPriv_norm, (predictExp_readonly (clearPriv x) m ctxs own g).1, ← clearPriv_norm, clearPriv_idem]

/-- the fold of `_Clusters._predict_contexts` over the rows of a chunk -/
def clusterFold (le : Expect → Expect → Bool) (isPredict : Bool) (o : Oracle) (start : Nat)
    (qs : List (Vec × Nat)) (acc : List (LP α) × List (ExpDict α ⊕ (Option α × ExpDict α)) × Rng) :=
  qs.foldl (fun (acc : List (LP α) × List (ExpDict α ⊕ (Option α × ExpDict α)) × Rng) (p : Vec × Nat) =>
      let i := start + p.2
      let c := o.cells.getD i 0
      let lp0 : LP α := acc.1.getD c default
      let lp : LP α := { lp0 with st := lp0.st.mapKV fun _ r => { r with rngPriv := false } }
      if isPredict then
        let (lp2, out, g) := lp.predict le (some 1) [p.1] (.row i) acc.2.2
        (acc.1.set c lp2, acc.2.1 ++ [.inr (out.toList.headD (none, []))], g)
      else
        let (lp2, out, g) := lp.predictExp (some 1) [p.1] (.row i) acc.2.2
        (acc.1.set c lp2, acc.2.1 ++ [.inl (out.toList.headD [])], g)) acc

theorem getD_map_canon (l : List (LP α)) (c : Nat) (hc : c < l.length) :
    canon (l.getD c default) = (l.map canon).getD c (canon default) := by
  simp [List.getD_eq_getElem?_getD, List.getElem?_map, List.getElem?_eq_getElem hc]

theorem set_map_canon (l : List (LP α)) (c : Nat) (x : LP α) (h : canon x = canon (l.getD c default)) :
    (l.set c x).map canon = l.map canon := by
  by_cases hc : c < l.length
  · apply List.ext_getElem (by simp)
    intro i h1 h2
    simp only [List.getElem_map, List.getElem_set]
    split
    · next e =>
      subst e
      rw [h]; simp [List.getD_eq_getElem?_getD, List.getElem?_eq_getElem hc]
    · rfl
  · rw [List.set_eq_of_length_le (not_lt.mp hc)]

/-- one row: the canonical form of every cluster policy is unchanged, and the outputs depend on the
    policies only through their canonical forms -/
theorem clusterStep (le : Expect → Expect → Bool) (isPredict : Bool) (o : Oracle) (start : Nat) (p : Vec × Nat)
    (lps lps' : List (LP α)) (outs : List (ExpDict α ⊕ (Option α × ExpDict α))) (g : Rng)
    (h : lps.map canon = lps'.map canon) :
    (clusterFold le isPredict o start [p] (lps, outs, g)).2 = (clusterFold le isPredict o start [p] (lps', outs, g)).2 ∧
    (clusterFold le isPredict o start [p] (lps, outs, g)).1.map canon = lps.map canon := by
  have hlen : lps.length = lps'.length := by simpa using congrArg List.length h
  set c := o.cells.getD (start + p.2) 0 with hc
  have hcan : canon (lps.getD c default) = canon (lps'.getD c default) := by
    by_cases hlt : c < lps.length
    · rw [getD_map_canon lps c hlt, getD_map_canon lps' c (hlen ▸ hlt), h]
    · have h1 : lps.getD c default = default := by
        simp [List.getD_eq_getElem?_getD, List.getElem?_eq_none (not_lt.mp hlt)]
      have h2 : lps'.getD c default = default := by
        simp [List.getD_eq_getElem?_getD, List.getElem?_eq_none (hlen ▸ not_lt.mp hlt)]
      rw [h1, h2]
  have hout := predictExp_out_of_norm (clearPriv (lps.getD c default)) (clearPriv (lps'.getD c default))
    (some 1) [p.1] (.row (start + p.2)) g hcan
  simp only [clusterFold, List.foldl_cons, List.foldl_nil]
  cases isPredict
  · simp only [Bool.false_eq_true, if_false]
    refine ⟨?_, ?_⟩
    · rw [Prod.ext_iff] at hout
      simp only [clearPriv] at hout
      simp only [Prod.mk.injEq]
      exact ⟨by rw [← hc, hout.1], by rw [← hc]; exact hout.2⟩
    · apply set_map_canon
      have := canon_after_query (lps.getD c default) (some 1) [p.1] (.row (start + p.2)) g
      simp only [clearPriv] at this
      rw [← hc]; exact this
  · simp only [if_true, LP.predict]
    refine ⟨?_, ?_⟩
    · rw [Prod.ext_iff] at hout
      simp only [clearPriv] at hout
      simp only [Prod.mk.injEq]
      exact ⟨by rw [← hc, hout.1], by rw [← hc]; exact hout.2⟩
    · apply set_map_canon
      have := canon_after_query (lps.getD c default) (some 1) [p.1] (.row (start + p.2)) g
      simp only [clearPriv] at this
      rw [← hc]; exact this

end Mab

namespace Mab
variable {α : Type} [DecidableEq α]

theorem clusterFold_cons (le : Expect → Expect → Bool) (isPredict : Bool) (o : Oracle) (start : Nat) (p : Vec × Nat)
    (qs : List (Vec × Nat)) (acc : List (LP α) × List (ExpDict α ⊕ (Option α × ExpDict α)) × Rng) :
    clusterFold le isPredict o start (p :: qs) acc = clusterFold le isPredict o start qs (clusterFold le isPredict o start [p] acc) := by
  simp only [clusterFold, List.foldl_cons, List.foldl_nil]

/-- **C05 (Clusters, row-locality).**  Whatever the per-cluster policy copies of a worker have answered
    before, the outputs, draws and requests for the next rows are the same; the canonical form of
    every cluster policy is invariant under queries. -/
theorem clusterFold_congr (le : Expect → Expect → Bool) (isPredict : Bool) (o : Oracle) (start : Nat) :
    ∀ (qs : List (Vec × Nat)) (lps lps' : List (LP α)) (outs : List (ExpDict α ⊕ (Option α × ExpDict α))) (g : Rng),
      lps.map canon = lps'.map canon →
      (clusterFold le isPredict o start qs (lps, outs, g)).2 = (clusterFold le isPredict o start qs (lps', outs, g)).2 ∧
      (clusterFold le isPredict o start qs (lps, outs, g)).1.map canon = lps.map canon := by
  intro qs
  induction qs with
  | nil => intro lps lps' outs g h; exact ⟨rfl, rfl⟩
  | cons p qs ih =>
    intro lps lps' outs g h
    rw [clusterFold_cons le isPredict o start p qs (lps, outs, g), clusterFold_cons le isPredict o start p qs (lps', outs, g)]
    obtain ⟨s1, s2⟩ := clusterStep le isPredict o start p lps lps' outs g h
    obtain ⟨_, s2'⟩ := clusterStep le isPredict o start p lps' lps outs g h.symm
    generalize hA : clusterFold le isPredict o start [p] (lps, outs, g) = A at *
    generalize hB : clusterFold le isPredict o start [p] (lps', outs, g) = B at *
    obtain ⟨a1, a2, a3⟩ := A
    obtain ⟨b1, b2, b3⟩ := B
    simp only [Prod.mk.injEq] at s1
    obtain ⟨e2, e3⟩ := s1
    subst e2 e3
    simp only at s2 s2'
    obtain ⟨i1, i2⟩ := ih a1 b1 a2 a3 (by rw [s2, s2', h])
    exact ⟨i1, by rw [i2, s2]⟩

/-- **C05 (Clusters, any split of a chunk).**  One worker handling `qs₁ ++ qs₂` gives the same outputs,
    requests and tape as handling `qs₁` and then `qs₂` with fresh copies of the cluster policies. -/
theorem cluster_chunk_split (le : Expect → Expect → Bool) (b : Bandit α) (isPredict : Bool) (o : Oracle) (start : Nat)
    (qs₁ qs₂ : List (Vec × Nat)) (g : Rng) :
    (clusterFold le isPredict o start (qs₁ ++ qs₂) (b.lps, [], g)).2 =
      (clusterFold le isPredict o start qs₂
        (b.lps, (clusterFold le isPredict o start qs₁ (b.lps, [], g)).2.1,
                (clusterFold le isPredict o start qs₁ (b.lps, [], g)).2.2)).2 := by
  have happ : clusterFold le isPredict o start (qs₁ ++ qs₂) (b.lps, [], g) =
      clusterFold le isPredict o start qs₂ (clusterFold le isPredict o start qs₁ (b.lps, [], g)) := by
    simp only [clusterFold, List.foldl_append]
  rw [happ]
  obtain ⟨_, hcan⟩ := clusterFold_congr le isPredict o start qs₁ b.lps b.lps [] g rfl
  generalize hR : clusterFold le isPredict o start qs₁ (b.lps, [], g) = R at *
  obtain ⟨r1, r2, r3⟩ := R
  exact (clusterFold_congr le isPredict o start qs₂ r1 b.lps r2 r3 hcan).1

/-- `clusterFold` is the worker of the executable model (`Bandit.predictChunk`) for Clusters -/
theorem predictChunk_eq_clusterFold (le : Expect → Expect → Bool) (b : Bandit α) (isPredict : Bool) (qs : List Vec)
    (start : Nat) (o : Oracle) (g : Rng) (n : Nat) (hnp : b.np = .clusters n) :
    b.predictChunk le isPredict qs start o g =
      ((clusterFold le isPredict o start qs.zipIdx (b.lps, [], g)).2.1, [],
       (clusterFold le isPredict o start qs.zipIdx (b.lps, [], g)).2.2) := by
  simp only [Bandit.predictChunk, hnp, clusterFold]

end Mab
