/-
  C01b — the refinement theorem of C01 reaches the public API.

  `cf_refines_log` (C01) speaks about histories of the learning policy's own operations.  The facade
  (`MAB.fit`, `partial_fit`, `add_arm`, `remove_arm`) validates, converts and dispatches; here we prove
  that for a bandit without neighbourhood policy it hands the learning policy **exactly** the accepted
  calls — a rejected call contributes nothing, the first `partial_fit` is a `fit`, nothing is passed twice
  — so the policy state after any facade history of training calls is the policy run on that trace, and
  every C01 statement about the trace is a statement about the facade history.
-/
import MabModel.Props.C01
import MabModel.Props.C17
import MabModel.Props.C08c
import MabModel.Props.C10b
open Py
set_option linter.unusedSectionVars false
set_option linter.unusedVariables false
set_option linter.unusedSimpArgs false

namespace Mab
variable {α : Type} [DecidableEq α]

/-- training-side facade calls (no new binarizer on `add_arm`: `LPOp.addArm` carries none) -/
def Op.isTraining : Op α → Bool
  | .fit _ => true
  | .partialFit _ => true
  | .addArm _ none _ => true
  | .removeArm _ => true
  | _ => false

/-- the learning-policy call an accepted facade call amounts to -/
def Bandit.lpOpOf (le : Expect → Expect → Bool) (b : Bandit α) (op : Op α) (o : Oracle) (g : Rng) : Option (LPOp α) :=
  if (b.step le op o g).2.1.err.isSome then none
  else
    match op with
    | .fit a => some (.fit a.toBatch (batchWidth a.toBatch))
    | .partialFit a =>
      if b.isFit then some (.partialFit a.toBatch) else some (.fit a.toBatch (batchWidth a.toBatch))
    | .addArm (.ok a) none _ => some (.addArm a)
    | .removeArm (.ok a) => some (.removeArm a)
    | _ => none

/-- the trace of learning-policy calls of a facade history -/
def Bandit.lpTrace (le : Expect → Expect → Bool) (b : Bandit α) : History α → List (LPOp α)
  | [] => []
  | (op, o, g) :: t =>
    (match b.lpOpOf le op o g with | some l => [l] | none => []) ++ Bandit.lpTrace le (b.step le op o g).1 t

theorem isSome_of_some {β : Type} (e : β) : (some e : Option β).isSome = true := rfl

/-- one facade call: the learning policy makes exactly the step `lpOpOf` names (or none) -/
theorem step_lp (le : Expect → Expect → Bool) (b : Bandit α) (op : Op α) (o : Oracle) (g : Rng)
    (hi : BInv b) (hnp : b.np = .none) (ht : op.isTraining = true) :
    (b.step le op o g).1.lp =
      (match b.lpOpOf le op o g with | some l => b.lp.stepOp l | none => b.lp) := by
  have harms : b.lp.arms = b.arms := (hi.lp (by intro n; rw [hnp]; simp)).2
  by_cases hr : (b.step le op o g).2.1.err.isSome = true
  · have hb := (rejected_noop le b op o g (by intro hc; rw [hc] at hr; simp at hr)).1
    simp only [Bandit.lpOpOf, hr, if_true]
    rw [hb]
  · simp only [Bandit.lpOpOf, hr]
    cases op with
    | fit a =>
      simp only [Bandit.step, Bandit.train, Bool.false_and] at hr ⊢
      cases hv : b.validateTrain a with
      | some e => simp [hv] at hr
      | none =>
        simp only [hv] at hr ⊢
        cases hs : b.trainShapeErr a.toBatch false with
        | some e => simp [hs] at hr
        | none =>
          simp [hs, Bandit.impFit, hnp, LP.stepOp]
    | partialFit a =>
      simp only [Bandit.step, Bandit.train, Bool.true_and] at hr ⊢
      cases hv : b.validateTrain a with
      | some e => simp [hv] at hr
      | none =>
        simp only [hv] at hr ⊢
        cases hs : b.trainShapeErr a.toBatch b.isFit with
        | some e => simp [hs] at hr
        | none =>
          simp only [hs]
          by_cases hf : b.isFit = true
          · simp [hf, Bandit.impPartialFit, hnp, LP.stepOp]
          · simp only [Bool.not_eq_true] at hf
            simp [hf, Bandit.impFit, hnp, LP.stepOp]
    | addArm arg binz callable =>
      cases binz with
      | some f => simp [Op.isTraining] at ht
      | none =>
        simp only [Bandit.step, Option.isSome_none, Bool.false_eq_true, false_and, if_false] at hr ⊢
        cases arg with
        | ok a =>
          simp only at hr ⊢
          by_cases hm : a ∈ b.arms
          · simp [hm] at hr
          · simp [hm, Bandit.impAddArm, hnp, LP.stepOp, harms]
        | _ => simp at hr
    | removeArm arg =>
      simp only [Bandit.step] at hr ⊢
      cases arg with
      | ok a =>
        simp only at hr ⊢
        by_cases hm : a ∈ b.arms
        · simp [hm, Bandit.impRemoveArm, hnp, LP.stepOp, harms]
        · simp [hm] at hr
      | _ => simp at hr
    | predict a => simp [Op.isTraining] at ht
    | predictExp a => simp [Op.isTraining] at ht
    | warmStart w => simp [Op.isTraining] at ht

/-- **C01 at the facade.**  For a bandit without neighbourhood policy and any history of training-side
    calls — accepted or rejected, well-formed or not — the learning policy ends in the state obtained by
    running it on the trace of accepted calls. -/
theorem runHist_lp (le : Expect → Expect → Bool) (h : History α) : ∀ b : Bandit α, BInv b → b.np = .none →
    (∀ c ∈ h, c.1.isTraining = true) →
    (b.runHist le h).lp = b.lp.run (b.lpTrace le h) := by
  induction h with
  | nil => intro b _ _ _; rfl
  | cons c t ih =>
    intro b hi hnp ht
    obtain ⟨op, o, g⟩ := c
    have hop : op.isTraining = true := ht (op, o, g) (List.mem_cons_self ..)
    have hstep := step_lp le b op o g hi hnp hop
    have hi' := binv_step le b op o g hi
    have hnp' : (b.step le op o g).1.np = .none := by rw [step_np]; exact hnp
    have := ih (b.step le op o g).1 hi' hnp' (fun c hc => ht c (List.mem_cons_of_mem _ hc))
    simp only [Bandit.runHist, Bandit.lpTrace]
    rw [this, hstep]
    cases b.lpOpOf le op o g with
    | none => simp [LP.run]
    | some l => simp [LP.run]

/-- consequently the documented statistics hold at the public API: after any facade history of training
    calls on a freshly constructed bandit, the learning policy refines the per-arm log of the trace
    (`cf_refines_log`: running mean, UCB1, Softmax shares, Popularity, Thompson counters, …). -/
theorem facade_lp_is_trace (le : Expect → Expect → Bool) (kind : Kind) (arms : List α) (k1 : Bool) (hn : arms.Nodup)
    (h : History α) (ht : ∀ c ∈ h, c.1.isTraining = true) :
    ((Bandit.init arms kind .none none k1).runHist le h).lp =
      (LP.init kind arms none k1).run ((Bandit.init arms kind .none none k1).lpTrace le h) :=
  runHist_lp le h _ (binv_init arms kind .none none k1 hn) rfl ht

/-- **C01 at the public API, ε-greedy written out.**  After any facade history of training calls the
    stored expectation of every current arm is the running mean of the rewards the *accepted* calls
    delivered for that arm since its last fit / add (0 when there are none). -/
theorem facade_expectation_greedy (le : Expect → Expect → Bool) (eps : Rat) (arms : List α) (hn : arms.Nodup)
    (h : History α) (ht : ∀ c ∈ h, c.1.isTraining = true) (a : α)
    (ha : a ∈ ((Bandit.init arms (.greedy eps) .none none false).runHist le h).arms) :
    let log := ((Spec.init arms).run ((Bandit.init arms (.greedy eps) .none none false).lpTrace le h)).log a
    (((Bandit.init arms (.greedy eps) .none none false).runHist le h).lp.st.get? a).map (·.exp) =
      some (if log.length = 0 then .val 0 else .val (lmean log)) := by
  intro log
  have hlp := facade_lp_is_trace le (.greedy eps) arms false hn h ht
  have hi := binv_reachable le arms (.greedy eps) .none none false hn h
  have hnp : ((Bandit.init arms (.greedy eps) .none none false).runHist le h).np = .none := by
    have key : ∀ (h : History α) (b : Bandit α), (b.runHist le h).np = b.np := by
      intro h
      induction h with
      | nil => intro b; rfl
      | cons c t ih => intro b; obtain ⟨op, o, g⟩ := c; simp only [Bandit.runHist]; rw [ih, step_np]
    rw [key]; rfl
  have harms := (hi.lp (by intro n; rw [hnp]; simp)).2
  rw [hlp]
  apply cf_expectation_greedy eps arms hn _ a
  rw [← hlp, harms]; exact ha

/-- the same for Thompson Sampling: Beta parameters one plus successes / one plus failures of the
    accepted calls' rewards for the arm -/
theorem facade_thompson_counts (le : Expect → Expect → Bool) (arms : List α) (hn : arms.Nodup)
    (h : History α) (ht : ∀ c ∈ h, c.1.isTraining = true) (a : α)
    (ha : a ∈ ((Bandit.init arms .thompson .none none false).runHist le h).arms) :
    let log := ((Spec.init arms).run ((Bandit.init arms .thompson .none none false).lpTrace le h)).log a
    (((Bandit.init arms .thompson .none none false).runHist le h).lp.st.get? a).map (fun r => (r.succ, r.fail)) =
      some (1 + lsum log, 1 + ((log.length : Rat) - lsum log)) := by
  intro log
  have hlp := facade_lp_is_trace le .thompson arms false hn h ht
  have hi := binv_reachable le arms .thompson .none none false hn h
  have hnp : ((Bandit.init arms .thompson .none none false).runHist le h).np = .none := by
    have key : ∀ (h : History α) (b : Bandit α), (b.runHist le h).np = b.np := by
      intro h
      induction h with
      | nil => intro b; rfl
      | cons c t ih => intro b; obtain ⟨op, o, g⟩ := c; simp only [Bandit.runHist]; rw [ih, step_np]
    rw [key]; rfl
  have harms := (hi.lp (by intro n; rw [hnp]; simp)).2
  rw [hlp]
  apply cf_thompson_counts arms hn _ a
  rw [← hlp, harms]; exact ha

/-! ### with predictions interleaved

A `predict` / `predict_expectations` between training calls leaves the policy as it was, except that a
Thompson policy remembers its last draw (`LP.norm` forgets it, C10).  So with queries anywhere in the
history the facade's policy is still the policy run on the trace of accepted training calls, up to
that last draw. -/

def Op.isTrainingOrQuery : Op α → Bool
  | .predict _ => true
  | .predictExp _ => true
  | op => op.isTraining

theorem stepOp_norm_congr (s s' : LP α) (h : s.norm = s'.norm) (op : LPOp α) :
    (s.stepOp op).norm = (s'.stepOp op).norm := by
  have hkk : s'.kind = s.kind := by rw [← norm_kind s', ← h, norm_kind]
  by_cases hk : s.kind = .thompson
  · have hk' : s'.kind = .thompson := hkk.trans hk
    have hT : s.normT = s'.normT := by rw [← Mab.norm_thompson s hk, ← Mab.norm_thompson s' hk', h]
    have harms : s.arms = s'.arms := by rw [← normT_arms s, hT, normT_arms]
    cases op with
    | fit b w => simp only [LP.stepOp]; rw [← fit_norm' s b w hk, ← fit_norm' s' b w hk', hT]
    | partialFit b => simp only [LP.stepOp]; rw [← partialFit_norm' s b hk, ← partialFit_norm' s' b hk', hT]
    | addArm a =>
      simp only [LP.stepOp, harms]
      split
      · exact h
      · rw [← addArm_norm' s a none hk, ← addArm_norm' s' a none hk', hT]
    | removeArm a =>
      simp only [LP.stepOp, harms]
      split
      · rw [← removeArm_norm' s a hk, ← removeArm_norm' s' a hk', hT]
      · exact h
  · have hk' : s'.kind ≠ .thompson := by rw [hkk]; exact hk
    rw [norm_other s hk, norm_other s' hk'] at h
    rw [h]

theorem run_norm_congr (ops : List (LPOp α)) : ∀ (s s' : LP α), s.norm = s'.norm →
    (s.run ops).norm = (s'.run ops).norm := by
  induction ops with
  | nil => intro s s' h; exact h
  | cons op ops ih =>
    intro s s' h
    simp only [LP.run, List.foldl_cons]
    exact ih _ _ (stepOp_norm_congr s s' h op)

/-- **C01 at the facade, queries anywhere.** -/
theorem runHist_lp_queries (le : Expect → Expect → Bool) (h : History α) : ∀ b : Bandit α, BInv b → b.np = .none →
    (∀ c ∈ h, c.1.isTrainingOrQuery = true) →
    (b.runHist le h).lp.norm = (b.lp.run (b.lpTrace le h)).norm := by
  induction h with
  | nil => intro b _ _ _; rfl
  | cons c t ih =>
    intro b hi hnp ht
    obtain ⟨op, o, g⟩ := c
    have hop : op.isTrainingOrQuery = true := ht (op, o, g) (List.mem_cons_self ..)
    have hi' := binv_step le b op o g hi
    have hnp' : (b.step le op o g).1.np = .none := by rw [step_np]; exact hnp
    have hrec := ih (b.step le op o g).1 hi' hnp' (fun c hc => ht c (List.mem_cons_of_mem _ hc))
    simp only [Bandit.runHist, Bandit.lpTrace]
    rw [hrec]
    have hq : ∀ (a : PredArgs) (p : Bool), op = (if p then .predict a else .predictExp a) →
        ((b.step le op o g).1.lp.run (Bandit.lpTrace le (b.step le op o g).1 t)).norm =
        (b.lp.run ((match b.lpOpOf le op o g with | some l => [l] | none => []) ++
          Bandit.lpTrace le (b.step le op o g).1 t)).norm := by
      intro a p hp
      have hnone : b.lpOpOf le op o g = none := by
        unfold Bandit.lpOpOf; cases p <;> simp [hp]
      have hstep : (b.step le op o g).1 = (b.query le a p o g).1 := by
        cases p <;> simp [hp, Bandit.step]
      have hn : (b.step le op o g).1.lp.norm = b.lp.norm := by
        have := query_norm le b a p o g
        rw [← hstep] at this
        exact congrArg Bandit.lp this
      rw [hnone]
      exact run_norm_congr _ _ _ hn
    cases op with
    | predict a => exact hq a true rfl
    | predictExp a => exact hq a false rfl
    | fit a =>
      rw [step_lp le b _ o g hi hnp rfl]
      cases b.lpOpOf le (.fit a) o g <;> simp [LP.run]
    | partialFit a =>
      rw [step_lp le b _ o g hi hnp rfl]
      cases b.lpOpOf le (.partialFit a) o g <;> simp [LP.run]
    | removeArm a =>
      rw [step_lp le b _ o g hi hnp rfl]
      cases b.lpOpOf le (.removeArm a) o g <;> simp [LP.run]
    | addArm a bz cl =>
      have htr : (Op.addArm a bz cl).isTraining = true := by
        cases bz <;> simp_all [Op.isTrainingOrQuery, Op.isTraining]
      rw [step_lp le b _ o g hi hnp htr]
      cases b.lpOpOf le (.addArm a bz cl) o g <;> simp [LP.run]
    | warmStart w => simp [Op.isTrainingOrQuery, Op.isTraining] at hop

/-! non-vacuity: first `partial_fit` (becomes a `fit`), a duplicate `add_arm` (rejected), a new arm, a
    `partial_fit` with mismatching lengths (rejected), a `partial_fit`: the trace has three calls and
    the facade's policy holds the documented means -/
def c01bHist : History Nat :=
  [(.partialFit { decisions := [0, 1, 0], rewards := [some 1, some 0, some 0], contexts := none }, {}, { tape := [] }),
   (.addArm (.ok 1) none, {}, { tape := [] }),
   (.addArm (.ok 2) none, {}, { tape := [] }),
   (.partialFit { decisions := [2, 2], rewards := [some 1], contexts := none }, {}, { tape := [] }),
   (.partialFit { decisions := [2, 0], rewards := [some 1, some 1], contexts := none }, {}, { tape := [] })]

example : ((Bandit.init [0, 1] (.greedy 0) .none none false).lpTrace (fun _ _ => true) c01bHist).length = 3 := by
  decide +kernel
example : (((Bandit.init [0, 1] (.greedy 0) .none none false).runHist (fun _ _ => true) c01bHist).lp.expDict) =
    [(0, .val (2/3)), (1, .val 0), (2, .val 1)] := by decide +kernel

end Mab
