/-
  C20 (continued) — warm_start commutes with a one-to-one relabelling of the arms (same arms warm started, from the
  same sources, same rejections).
-/
import MabModel.Props.C20b
import MabModel.Props.C13b
open Py
set_option linter.unusedSectionVars false
set_option linter.unusedVariables false
set_option linter.unusedSimpArgs false

namespace Mab
variable {α β : Type} [DecidableEq α] [DecidableEq β]
variable (f : α → β) (finv : β → α) (hinv : ∀ a, finv (f a) = a)

/-- distances between relabelled arms -/
def relabelRaw (finv : β → α) (raw : α → α → Option Rat) : β → β → Option Rat := fun x y => raw (finv x) (finv y)

include hinv

theorem armDistance_relabel (raw : α → α → Option Rat) (a t : α) :
    armDistance (relabelRaw finv raw) (f a) (f t) = armDistance raw a t := by
  unfold armDistance relabelRaw
  rw [hinv, hinv]
  by_cases h : a = t
  · simp [h]
  · have h' : ¬ f a = f t := fun e => h ((inj_of_inv hinv).mp e)
    simp [h, h']

theorem distanceThreshold_relabel (keys : List α) (raw : α → α → Option Rat) (q : Rat) :
    distanceThreshold (keys.map f) (relabelRaw finv raw) q = distanceThreshold keys raw q := by
  have hclosest : (keys.map f).filterMap (fun x =>
        if minOf ((keys.map f).map fun t => armDistance (relabelRaw finv raw) x t) ≠ selfDistance
        then some (minOf ((keys.map f).map fun t => armDistance (relabelRaw finv raw) x t)) else none) =
      keys.filterMap (fun a =>
        if minOf (keys.map fun t => armDistance raw a t) ≠ selfDistance
        then some (minOf (keys.map fun t => armDistance raw a t)) else none) := by
    rw [List.filterMap_map]
    apply List.filterMap_congr
    intro a _
    simp only [Function.comp, List.map_map]
    have : (List.map ((fun t => armDistance (relabelRaw finv raw) (f a) t) ∘ f) keys) = keys.map fun t => armDistance raw a t := by
      apply List.map_congr_left
      intro t _
      exact armDistance_relabel f finv hinv raw a t
    rw [this]
  unfold distanceThreshold
  simp only []
  rw [hclosest]

theorem filter_relabel (s : LP α) (pr : ArmSt α → Bool) (pr' : ArmSt β → Bool) (hp : ∀ r, pr' (relabelRec f r) = pr r) :
    (s.relabel f finv).arms.filter (fun b => (((s.relabel f finv).st.get? b).map pr').getD false) =
      (s.arms.filter fun a => ((s.st.get? a).map pr).getD false).map f := by
  simp only [LP.relabel]
  rw [List.filter_map]
  congr 1
  apply List.filter_congr
  intro a _
  simp only [Function.comp]
  rw [get?_relabelDict f finv hinv]
  cases s.st.get? a <;> simp [hp]

theorem trainedArms_relabel (s : LP α) : (s.relabel f finv).trainedArms = s.trainedArms.map f := by
  unfold LP.trainedArms
  exact filter_relabel f finv hinv s (·.trained) (·.trained) (fun _ => rfl)

theorem coldArms_relabel (s : LP α) : (s.relabel f finv).coldArms = s.coldArms.map f := by
  unfold LP.coldArms
  exact filter_relabel f finv hinv s (fun r => !r.trained && !r.warm) (fun r => !r.trained && !r.warm) (fun _ => rfl)

omit hinv in
theorem argminFirst_map (l : List (α × Rat)) :
    argminFirst (l.map fun p => (f p.1, p.2)) = (argminFirst l).map f := by
  cases l with
  | nil => rfl
  | cons x t =>
    obtain ⟨k, v⟩ := x
    simp only [List.map_cons, argminFirst, Option.map_some, Option.some.injEq]
    have : ∀ (t : List (α × Rat)) (acc : α × Rat),
        ((t.map fun p => (f p.1, p.2)).foldl (fun (acc : β × Rat) p => if p.2 < acc.2 then p else acc) (f acc.1, acc.2)) =
        (f (t.foldl (fun (acc : α × Rat) p => if p.2 < acc.2 then p else acc) acc).1,
           (t.foldl (fun (acc : α × Rat) p => if p.2 < acc.2 then p else acc) acc).2) := by
      intro t
      induction t with
      | nil => intro acc; rfl
      | cons p t ih =>
        intro acc
        simp only [List.map_cons, List.foldl_cons]
        by_cases h : p.2 < acc.2
        · simp only [h, if_true]; exact ih p
        · simp only [h, if_false]; exact ih acc
    rw [this t (k, v)]

theorem coldToWarm_relabel (s : LP α) (keys : List α) (raw : α → α → Option Rat) (q : Rat) :
    (s.relabel f finv).coldToWarm (keys.map f) (relabelRaw finv raw) q =
      (s.coldToWarm keys raw q).map fun m => m.map fun p => (f p.1, f p.2) := by
  unfold LP.coldToWarm
  rw [distanceThreshold_relabel f finv hinv, coldArms_relabel f finv hinv, trainedArms_relabel f finv hinv]
  cases distanceThreshold keys raw q with
  | none => rfl
  | some thr =>
    simp only [Option.map_some, Option.some.injEq]
    rw [List.filterMap_map, List.map_filterMap]
    apply List.filterMap_congr
    intro c _
    simp only [Function.comp, List.map_map]
    have e1 : (List.map ((fun t => (t, armDistance (relabelRaw finv raw) (f c) t)) ∘ f) s.trainedArms) =
        (s.trainedArms.map fun t => (t, armDistance raw c t)).map fun p => (f p.1, p.2) := by
      rw [List.map_map]
      apply List.map_congr_left
      intro t _
      simp [armDistance_relabel f finv hinv raw c t]
    rw [e1, argminFirst_map]
    cases argminFirst (s.trainedArms.map fun t => (t, armDistance raw c t)) with
    | none => rfl
    | some w =>
      simp only [Option.map_some]
      rw [armDistance_relabel f finv hinv]
      split <;> rfl

theorem copyOne_relabel (s : LP α) (p : α × α) :
    (s.relabel f finv).copyOne (f p.1, f p.2) = (s.copyOne p).relabel f finv := by
  unfold LP.copyOne
  simp only [LP.relabel]
  rw [get?_relabelDict f finv hinv]
  cases hsrc : s.st.get? p.2 with
  | none => rfl
  | some src =>
    simp only [Option.map_some]
    congr 1
    apply modify_relabelDict f finv hinv
    intro r
    cases s.kind <;> rfl

theorem copyFold_relabel (m : List (α × α)) : ∀ (s : LP α),
    (s.relabel f finv).copyFold (m.map fun p => (f p.1, f p.2)) = (s.copyFold m).relabel f finv := by
  induction m with
  | nil => intro s; rfl
  | cons p m ih =>
    intro s
    simp only [LP.copyFold, List.map_cons, List.foldl_cons]
    rw [copyOne_relabel f finv hinv]
    exact ih _

theorem markWarm_relabel (m : List (α × α)) : ∀ (s : LP α),
    (s.relabel f finv).markWarm (m.map fun p => (f p.1, f p.2)) = (s.markWarm m).relabel f finv := by
  induction m with
  | nil => intro s; rfl
  | cons p m ih =>
    intro s
    simp only [LP.markWarm, List.map_cons, List.foldl_cons]
    have : (s.relabel f finv).markOne (f p.1, f p.2) = (s.markOne p).relabel f finv := by
      simp only [LP.markOne, LP.relabel]
      congr 1
      apply modify_relabelDict f finv hinv
      intro r; rfl
    rw [this]
    exact ih _

/-- **C20 (relabelling, `warm_start`).**  Warm starting the relabelled policy with the relabelled feature
    keys (and the same feature vectors, hence the same distances) gives the relabelled result — the same
    arms are warm started, from the same sources — or raises in the same cases. -/
theorem warmStart_relabel (s : LP α) (keys : List α) (raw : α → α → Option Rat) (q : Rat) :
    (s.relabel f finv).warmStart (keys.map f) (relabelRaw finv raw) q =
      (s.warmStart keys raw q).map (LP.relabel f finv) := by
  unfold LP.warmStart
  rw [relabel_kind, coldToWarm_relabel f finv hinv]
  cases hk : s.kind <;> simp only [Option.map_some] <;>
    (cases s.coldToWarm keys raw q with
     | none => rfl
     | some m =>
       simp only [Option.map_some, LP.copyArms]
       rw [copyFold_relabel f finv hinv, expOp_relabel, markWarm_relabel f finv hinv])

end Mab
