/-
  C12c — known finding K5 as a closed, kernel-decided witness in the (faithful) model.

  Clusters: `add_arm(a)` of a label that already has rows in the stored history reports 0 for `a`
  although those observations lie in the query's cluster; they count again after the next `partial_fit`.
-/
import MabModel.Props.C12
import MabModel.Props.C10b
import MabModel.Props.C08c
open Py

namespace Mab

def k5Le : Expect → Expect → Bool := fun _ _ => true
def k5Bandit : Bandit Nat := Bandit.init [0, 1] (.greedy 0) (.clusters 1) none false
/-- fit three rows (arm 1 observed twice, mean 1), all in the single cluster; remove arm 1; add it back -/
def k5Hist : History Nat :=
  [(.fit { decisions := [0, 1, 1], rewards := [some 1, some 1, some 1], contexts := some [[0], [1], [2]] },
      { labels := [0, 0, 0] }, { tape := [] }),
   (.removeArm (.ok 1), {}, { tape := [] }),
   (.addArm (.ok 1) none, {}, { tape := [] })]

def k5Query (b : Bandit Nat) : PredOut Nat :=
  (b.step k5Le (.predictExp { contexts := some [[1]] }) { cells := [0] } { tape := [] }).2.1.out

def k5ExpOf (o : PredOut Nat) (a : Nat) : Option Expect :=
  match o.exps with
  | .one d => (d.find? (·.1 = a)).map (·.2)
  | _ => none

/-- **K5 (C12), witness.**  The stored history holds two rewards 1 for arm 1 in the query's cluster, yet
    after `remove_arm(1); add_arm(1)` the reported expectation of arm 1 is 0 (the documented statistic is
    their mean, 1) — and one more `partial_fit` (of another arm's row) brings it back to 1: the property
    "conditions on exactly the query's cell" fails between the `add_arm` and the next training call. -/
theorem clusters_readd_counterexample :
    k5ExpOf (k5Query (k5Bandit.runHist k5Le k5Hist)) 1 = some (.val 0) ∧
    k5ExpOf (k5Query ((k5Bandit.runHist k5Le k5Hist).step k5Le
      (.partialFit { decisions := [0], rewards := [some 1], contexts := some [[0]] })
      { labels := [0, 0, 0, 0] } { tape := [] }).1) 1 = some (.val 1) := by
  decide +kernel

end Mab
