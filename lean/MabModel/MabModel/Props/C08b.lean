/-
  C08 (continued) — predict_expectations of *every* learning policy (ε-greedy exploring or exploiting, the linear
  policies with exploring rows mixed in) returns dictionaries keyed by the arm list; every operation of a policy
  preserves well-formedness; under Radius / KNearest / LSHNearest every query row returns such a dictionary and a
  predicted arm is a current arm (empty neighbourhoods included).
-/
import MabModel.Props.C08
import MabModel.Props.C05d
open Py
set_option linter.unusedSectionVars false
set_option linter.unusedVariables false
set_option linter.unusedSimpArgs false

namespace Mab
variable {α : Type} [DecidableEq α]

/-! ### `predict_expectations` of the remaining policies: ε-greedy and the linear policies -/

theorem greedy_explore_keys (own : Stream) (arms : List α) : ∀ (acc : ExpDict α × Rng),
    Dict.keys (arms.foldl (fun (acc : ExpDict α × Rng) a =>
          ((acc.1 ++ [(a, Expect.val ((acc.2.draw { stream := own, kind := .rand, size := 1 }).1.headD 0))]),
            (acc.2.draw { stream := own, kind := .rand, size := 1 }).2)) acc).1 = Dict.keys acc.1 ++ arms := by
  induction arms with
  | nil => intro acc; simp
  | cons a arms ih =>
    intro acc
    simp only [List.foldl_cons]
    rw [ih]
    simp [Dict.keys, List.map_append]

theorem countTrue_le (mask : List Bool) : (mask.filter id).length ≤ mask.length := List.length_filter_le _ _

/-- rows assembled from the exploring and the exploiting rows all carry the arm list as keys -/
theorem assembleRows_keys (arms : List α) (randRows : List (List Rat)) (cols : List (List Expect))
    (hcols : cols.length = arms.length) (hrand : ∀ r ∈ randRows, r.length = arms.length) :
    ∀ (mask : List Bool) (ri ni : Nat), ri + (mask.filter id).length ≤ randRows.length →
      ∀ d ∈ assembleRows arms randRows cols mask ri ni, Dict.keys d = arms := by
  intro mask
  induction mask with
  | nil => intro ri ni _ d hd; simp [assembleRows] at hd
  | cons m mask ih =>
    intro ri ni hri d hd
    cases m with
    | true =>
      simp only [assembleRows, List.mem_cons] at hd
      simp only [List.filter_cons, id, if_true, List.length_cons] at hri
      rcases hd with e | e
      · rw [e]
        apply keys_zip
        have hlt : ri < randRows.length := by omega
        rw [List.length_map, List.getD_eq_getElem?_getD, List.getElem?_eq_getElem hlt, Option.getD_some,
            hrand _ (List.getElem_mem hlt)]
      · exact ih (ri + 1) ni (by omega) d e
    | false =>
      simp only [assembleRows, List.mem_cons] at hd
      simp only [List.filter_cons, id, Bool.false_eq_true, if_false] at hri
      rcases hd with e | e
      · rw [e]
        apply keys_zip
        rw [List.length_map, hcols]
      · exact ih ri (ni + 1) hri d e

theorem unwrap_toList_mem {β : Type} [Inhabited β] (l : List β) (x : β) (hx : x ∈ (Out.unwrap l).toList) (hl : l ≠ []) : x ∈ l := by
  unfold Out.unwrap at hx
  split at hx
  · exact hx
  · simp only [Out.toList, List.mem_singleton] at hx
    cases l with
    | nil => exact absurd rfl hl
    | cons a t => simp at hx; rw [hx]; simp

end Mab

namespace Mab
variable {α : Type} [DecidableEq α]

theorem expDict_keys (s : LP α) (hwf : s.WF) : Dict.keys s.expDict = s.arms := by
  simp only [LP.expDict, Dict.keys, List.map_map, Function.comp_def]
  exact hwf.keys

/-- **C08 (ε-greedy).**  Exploiting or exploring, with one row or many, every returned dictionary has the
    arms as keys in arm-list order. -/
theorem predictExp_keys_greedy (s : LP α) (hwf : s.WF) (eps : Rat) (hk : s.kind = .greedy eps) (m : Option Nat)
    (ctxs : List Vec) (own : Stream) (g : Rng) :
    ∀ d ∈ (s.predictExp m ctxs own g).2.1.toList, Dict.keys d = s.arms := by
  intro d hd
  simp only [LP.predictExp, hk] at hd
  split at hd
  · split at hd
    · simp only [Out.toList, List.mem_singleton] at hd
      rw [hd]
      have := greedy_explore_keys own s.arms ([], (g.draw { stream := own, kind := .rand, size := 1 }).2)
      simpa using this
    · simp only [Out.toList, List.mem_singleton] at hd
      rw [hd]; exact expDict_keys s hwf
  · simp only [Out.toList, List.mem_map] at hd
    obtain ⟨pr, hpr, rfl⟩ := hd
    split
    · apply keys_zip
      rw [List.length_map]
      have hrow : pr.2 ∈ chunk s.arms.length (m.getD 1)
          ((g.draw { stream := own, kind := .rand, size := m.getD 1 }).2.draw
            { stream := own, kind := .rand, size := m.getD 1 * s.arms.length }).1 := (List.of_mem_zip hpr).2
      rw [chunk_rows s.arms.length (m.getD 1) _ (by rw [draw_length]) pr.2 hrow]
    · exact expDict_keys s hwf

theorem foldl_cols_length {σ : Type} (f : List (List Expect) × σ → α → List (List Expect) × σ)
    (hf : ∀ acc a, (f acc a).1.length = acc.1.length + 1) :
    ∀ (arms : List α) (acc : List (List Expect) × σ), (arms.foldl f acc).1.length = acc.1.length + arms.length := by
  intro arms
  induction arms with
  | nil => intro acc; rfl
  | cons a arms ih => intro acc; simp only [List.foldl_cons]; rw [ih, hf]; simp; omega

theorem lin_keys_abstract (arms : List α) (mask : List Bool) (hm : mask ≠ []) (rv : List Rat)
    (hrv : rv.length = (mask.filter id).length * arms.length) (cols : List (List Expect)) (hcols : cols.length = arms.length)
    (d : ExpDict α)
    (hd : d ∈ (Out.unwrap (assembleRows arms (chunk arms.length (mask.filter id).length rv) cols mask 0 0)).toList) :
    Dict.keys d = arms := by
  have hrows_ne : assembleRows arms (chunk arms.length (mask.filter id).length rv) cols mask 0 0 ≠ [] := by
    cases hmm : mask with
    | nil => exact absurd hmm hm
    | cons b t => cases b <;> simp [assembleRows]
  have hmem := unwrap_toList_mem _ d hd hrows_ne
  refine assembleRows_keys arms _ cols hcols ?_ mask 0 0 ?_ d hmem
  · intro r hr
    exact chunk_rows arms.length _ _ (by rw [hrv]) r hr
  · rw [chunk_length]; omega

/-- **C08 (linear policies).**  Every dictionary `predict_expectations` returns for a non-empty batch of
    contexts — rows answered by exploration and rows answered by the models alike — has the arms as
    keys in arm-list order. -/
theorem predictExp_keys_linear (s : LP α) (hlin : s.kind.isLinear = true) (m : Option Nat)
    (ctxs : List Vec) (hne : ctxs ≠ []) (own : Stream) (g : Rng) :
    ∀ d ∈ (s.predictExp m ctxs own g).2.1.toList, Dict.keys d = s.arms := by
  intro d hd
  have hlen : ctxs.length ≠ 0 := fun e => hne (List.length_eq_zero_iff.mp e)
  cases hk : s.kind <;> simp [Kind.isLinear, hk] at hlin <;>
    (simp only [LP.predictExp, hk] at hd
     refine lin_keys_abstract s.arms _ ?_ _ ?_ _ ?_ d hd
     · intro e
       have := congrArg List.length e
       simp [draw_length] at this
       exact hne this
     · rw [draw_length]
     · rw [foldl_cols_length]
       · simp
       · intro acc a; simp)

end Mab

namespace Mab
variable {α : Type} [DecidableEq α]

/-- **C08 (every learning policy).** -/
theorem predictExp_keys_all (s : LP α) (hwf : s.WF) (m : Option Nat) (ctxs : List Vec)
    (hne : s.kind.isLinear = true → ctxs ≠ []) (own : Stream) (g : Rng) :
    ∀ d ∈ (s.predictExp m ctxs own g).2.1.toList, Dict.keys d = s.arms := by
  cases hk : s.kind with
  | greedy e => exact predictExp_keys_greedy s hwf e hk m ctxs own g
  | ucb a => exact predictExp_keys s hwf m ctxs own g (Or.inl ⟨a, hk⟩)
  | softmax t => exact predictExp_keys s hwf m ctxs own g (Or.inr (Or.inr (Or.inr (Or.inl ⟨t, hk⟩))))
  | thompson => exact predictExp_keys s hwf m ctxs own g (Or.inr (Or.inl hk))
  | popularity => exact predictExp_keys s hwf m ctxs own g (Or.inr (Or.inr (Or.inr (Or.inr hk))))
  | random => exact predictExp_keys s hwf m ctxs own g (Or.inr (Or.inr (Or.inl hk)))
  | linGreedy e l => exact predictExp_keys_linear s (by rw [hk]; rfl) m ctxs (hne (by rw [hk]; rfl)) own g
  | linUCB a l => exact predictExp_keys_linear s (by rw [hk]; rfl) m ctxs (hne (by rw [hk]; rfl)) own g
  | linTS a l => exact predictExp_keys_linear s (by rw [hk]; rfl) m ctxs (hne (by rw [hk]; rfl)) own g

/-! ### well-formedness is preserved by every operation of a learning policy -/

theorem fit_wf (s : LP α) (b : Batch α) (w : Option Nat) (h : s.WF) : (s.fit b w).WF ∧ (s.fit b w).arms = s.arms := by
  obtain ⟨a1, a2⟩ := fit_arms_keys s b w
  exact ⟨⟨by rw [a2, a1]; exact h.keys, by rw [a1]; exact h.nodup⟩, a1⟩

theorem partialFit_wf (s : LP α) (b : Batch α) (h : s.WF) : (s.partialFit b).WF ∧ (s.partialFit b).arms = s.arms := by
  have : (s.partialFit b).arms = s.arms ∧ (s.partialFit b).st.keys = s.st.keys := by
    unfold LP.partialFit
    split
    · exact ⟨rfl, rfl⟩
    · rw [post_arms, post_keys]
      unfold LP.parallelFit
      rw [parallelFitIn_eq]
      refine ⟨rfl, ?_⟩
      have hfold : ∀ (l : List α) (d : Dict α (ArmSt α)) (f : α → ArmSt α → ArmSt α),
          (l.foldl (fun d a => d.modify a (f a)) d).keys = d.keys := by
        intro l; induction l with
        | nil => intro d f; rfl
        | cons x l ih => intro d f; simp only [List.foldl_cons]; rw [ih]; simp
      simp only [hfold]
      rfl
  exact ⟨⟨by rw [this.2, this.1]; exact h.keys, by rw [this.1]; exact h.nodup⟩, this.1⟩

theorem addArm_wf (s : LP α) (a : α) (bz : Option (α → Rat → Rat)) (h : s.WF) (ha : a ∉ s.arms) :
    (s.addArm a bz).WF ∧ (s.addArm a bz).arms = s.arms ++ [a] := by
  have harms : (s.addArm a bz).arms = s.arms ++ [a] := by unfold LP.addArm; rw [expOp_arms]; rfl
  refine ⟨⟨?_, ?_⟩, harms⟩
  · rw [harms]
    unfold LP.addArm
    rw [expOp_keys]
    simp only [LP.insertArm]
    rw [Dict.keys_set_not_mem _ _ _ (by rw [h.keys]; exact ha), h.keys]
  · rw [harms]
    exact List.nodup_append.mpr ⟨h.nodup, by simp, by intro x hx y hy; simp at hy; subst hy; exact fun e => ha (e ▸ hx)⟩

theorem removeArm_wf (s : LP α) (a : α) (h : s.WF) :
    (s.removeArm a).WF ∧ (s.removeArm a).arms = s.arms.filter (· != a) := by
  have harms : (s.removeArm a).arms = s.arms.filter (· != a) := by
    unfold LP.removeArm; rw [normalize_arms, expOp_arms]; rfl
  refine ⟨⟨?_, ?_⟩, harms⟩
  · rw [harms]
    unfold LP.removeArm
    rw [normalize_keys, expOp_keys]
    simp only [LP.dropArm]
    rw [Dict.keys_pop, h.keys]
  · rw [harms]; exact h.nodup.filter _

theorem copyOne_keys (s : LP α) (p : α × α) : (s.copyOne p).st.keys = s.st.keys := by
  unfold LP.copyOne; split <;> simp

theorem copyFold_keys (m : List (α × α)) : ∀ s : LP α, (s.copyFold m).st.keys = s.st.keys := by
  induction m with
  | nil => intro s; rfl
  | cons p m ih => intro s; simp only [LP.copyFold, List.foldl_cons]; exact (ih (s.copyOne p)).trans (copyOne_keys s p)

theorem markWarm_keys (m : List (α × α)) : ∀ s : LP α, (s.markWarm m).st.keys = s.st.keys := by
  induction m with
  | nil => intro s; rfl
  | cons p m ih =>
    intro s
    simp only [LP.markWarm, List.foldl_cons]
    exact (ih (s.markOne p)).trans (by simp [LP.markOne])

theorem warmStart_wf (s s' : LP α) (keys : List α) (raw : α → α → Option Rat) (q : Rat) (h : s.WF)
    (hs : s.warmStart keys raw q = some s') : s'.WF ∧ s'.arms = s.arms := by
  unfold LP.warmStart at hs
  have hgen : ∀ m, ((s.copyArms m).markWarm m).WF ∧ ((s.copyArms m).markWarm m).arms = s.arms := by
    intro m
    have a1 : ((s.copyArms m).markWarm m).arms = s.arms := by
      rw [markWarm_arms]; unfold LP.copyArms; rw [expOp_arms, copyFold_arms]
    have a2 : ((s.copyArms m).markWarm m).st.keys = s.st.keys := by
      rw [markWarm_keys]; unfold LP.copyArms; rw [expOp_keys, copyFold_keys]
    exact ⟨⟨by rw [a2, a1]; exact h.keys, by rw [a1]; exact h.nodup⟩, a1⟩
  cases hk : s.kind <;> rw [hk] at hs <;> simp only [] at hs <;>
    first
    | (simp only [Option.some.injEq] at hs; subst hs; exact ⟨h, rfl⟩)
    | (cases hc : s.coldToWarm keys raw q with
       | none => rw [hc] at hs; simp at hs
       | some m => rw [hc] at hs; simp only [Option.some.injEq] at hs; subst hs; exact hgen m)

theorem predictExp_wf (s : LP α) (m : Option Nat) (ctxs : List Vec) (own : Stream) (g : Rng) (h : s.WF) :
    (s.predictExp m ctxs own g).1.WF ∧ (s.predictExp m ctxs own g).1.arms = s.arms := by
  have hc := predictExp_sameCfg s m ctxs own g
  exact ⟨⟨by rw [← hc.keys, ← hc.arms]; exact h.keys, by rw [← hc.arms]; exact h.nodup⟩, hc.arms.symm⟩

end Mab

namespace Mab
variable {α : Type} [DecidableEq α]

theorem unwrap_toList_ne {β : Type} [Inhabited β] (l : List β) : (Out.unwrap l).toList ≠ [] := by
  unfold Out.unwrap
  split
  · next h => simp only [Out.toList]; intro e; rw [e] at h; simp at h
  · simp [Out.toList]

theorem predictExp_one_ne (s : LP α) (q : Vec) (own : Stream) (g : Rng) :
    (s.predictExp (some 1) [q] own g).2.1.toList ≠ [] := by
  unfold LP.predictExp
  cases hkk : s.kind with
  | greedy e => simp only [Option.getD_some, if_true]; split <;> simp [Out.toList]
  | ucb a => simp [Out.toList]
  | softmax t => simp [Out.toList]
  | popularity => simp [Out.toList]
  | thompson => simp [Out.toList]
  | random => simp [Out.toList]
  | linGreedy e l => simp only []; exact unwrap_toList_ne _
  | linUCB a l => simp only []; exact unwrap_toList_ne _
  | linTS a l => simp only []; exact unwrap_toList_ne _

/-- **C08 (Radius / KNearest / LSHNearest).**  For every query row — non-empty or empty neighbourhood,
    `predict` or `predict_expectations` — the expectations have exactly the arms as keys, in arm-list
    order, and a predicted arm is one of them. -/
theorem nhoodRow_keys (le : Expect → Expect → Bool) (b : Bandit α) (isPredict : Bool) (lp : LP α)
    (i : Nat) (q : Vec) (ds : List Rat) (ks : List Nat) (g : Rng) (hwf : lp.WF) (harms : lp.arms = b.arms)
    (hnan : b.npExp.keys = b.arms) :
    match (b.nhoodRow le isPredict lp i q ds ks g).2.1 with
    | .inl d => Dict.keys d = b.arms
    | .inr (a, d) => Dict.keys d = b.arms ∧ ∀ x, a = some x → x ∈ b.arms := by
  unfold Bandit.nhoodRow
  cases hs : b.selectIdx q ds ks with
  | mk idx tie =>
    simp only
    have hfw := fit_wf lp (idx.filterMap fun j => b.hist[j]?) (some q.length) hwf
    have hk := predictExp_keys_all (lp.fit (idx.filterMap fun j => b.hist[j]?) (some q.length)) hfw.1 (some 1) [q]
      (fun _ => by simp) (.row i) g
    have hone : ∀ (o : Out (ExpDict α)), (∀ d ∈ o.toList, Dict.keys d = b.arms) → o.toList ≠ [] →
        Dict.keys (o.toList.headD []) = b.arms := by
      intro o ho hne
      cases hl : o.toList with
      | nil => exact absurd hl hne
      | cons x t => simp only [List.headD_cons]; exact ho x (by rw [hl]; simp)
    have htl : ∀ (o : Out (ExpDict α)), o.toList ≠ [] ∨ o = .many [] := by
      intro o; cases o with
      | one x => left; simp [Out.toList]
      | many l => cases l with
        | nil => right; rfl
        | cons x t => left; simp [Out.toList]
    by_cases hlen : idx.length > 0
    · simp only [hlen, if_true]
      have hk' : ∀ d ∈ ((lp.fit (idx.filterMap fun j => b.hist[j]?) (some q.length)).predictExp (some 1) [q] (.row i) g).2.1.toList,
          Dict.keys d = b.arms := fun d hd => (hk d hd).trans (hfw.2.trans harms)
      have hnonempty := predictExp_one_ne (lp.fit (idx.filterMap fun j => b.hist[j]?) (some q.length)) q (.row i) g
      cases isPredict
      · simp only [Bool.false_eq_true, if_false]
        exact hone _ hk' hnonempty
      · simp only [if_true, LP.predict]
        cases ho : ((lp.fit (idx.filterMap fun j => b.hist[j]?) (some q.length)).predictExp (some 1) [q] (.row i) g).2.1 with
        | one x =>
          rw [ho] at hk'
          simp only [Out.map, Out.toList, List.headD_cons]
          have hx := hk' x (by simp [Out.toList])
          exact ⟨hx, fun a ha => predict_mem le x b.arms hx a ha⟩
        | many l =>
          rw [ho] at hk' hnonempty
          simp only [Out.toList] at hnonempty
          cases l with
          | nil => exact absurd rfl hnonempty
          | cons x t =>
            simp only [Out.map, Out.toList, List.map_cons, List.headD_cons]
            have hx := hk' x (by simp [Out.toList])
            exact ⟨hx, fun a ha => predict_mem le x b.arms hx a ha⟩
    · simp only [hlen, if_false]
      cases isPredict
      · simp only [Bool.false_eq_true, if_false]; exact hnan
      · simp only [if_true]
        refine ⟨hnan, ?_⟩
        intro x hx
        exact List.mem_of_getElem? hx

end Mab
