/-
  C02 (continued) — from the run-time inverse certificate to the closed form: the list-based matrices of the
  model are read as Mathlib matrices; a certified inverse *is* the matrix inverse, the coefficients are
  (XᵀX + λI)⁻¹ Xᵀy and the unique solution of the normal equations; the LinUCB bonus is xᵀ(XᵀX + λI)⁻¹x.
-/
import MabModel.Props.C02
import Mathlib.LinearAlgebra.Matrix.NonsingularInverse
import Mathlib.Algebra.BigOperators.Fin
import Mathlib.Data.List.GetD
open Py
set_option linter.unusedSectionVars false
set_option linter.unusedVariables false
set_option linter.unusedSimpArgs false

namespace Mab
open Matrix

/-- a list vector read as a function on `Fin n` -/
def toV (n : Nat) (v : Vec) : Fin n → ℚ := fun i => v.getD i 0
/-- a list-of-rows matrix read as a Mathlib matrix -/
def toM (n m : Nat) (A : Mat) : Matrix (Fin n) (Fin m) ℚ := Matrix.of fun i j => (A.getD i []).getD j 0

/-- `n × m`: `n` rows of length `m` -/
def IsMat (n m : Nat) (A : Mat) : Prop := A.length = n ∧ ∀ r ∈ A, r.length = m

theorem zipWith_sum {β γ : Type} (f : β → γ → ℚ) (db : β) (dc : γ) : ∀ (n : Nat) (x : List β) (y : List γ),
    x.length = n → y.length = n → (List.zipWith f x y).sum = ∑ i : Fin n, f (x.getD i db) (y.getD i dc) := by
  intro n
  induction n with
  | zero =>
    intro x y hx hy
    have : x = [] := List.eq_nil_of_length_eq_zero hx
    subst this
    simp
  | succ n ih =>
    intro x y hx hy
    cases x with
    | nil => simp at hx
    | cons a x =>
      cases y with
      | nil => simp at hy
      | cons b y =>
        simp only [List.length_cons, Nat.add_right_cancel_iff] at hx hy
        rw [List.zipWith_cons_cons, List.sum_cons, ih x y hx hy, Fin.sum_univ_succ]
        simp

theorem dot_eq (n : Nat) (x y : Vec) (hx : x.length = n) (hy : y.length = n) :
    dot x y = ∑ i : Fin n, toV n x i * toV n y i := by
  unfold dot toV
  exact zipWith_sum (· * ·) 0 0 n x y hx hy

theorem getD_mem_or_nil (A : Mat) (i : Nat) : A.getD i [] ∈ A ∨ A.getD i [] = [] := by
  by_cases h : i < A.length
  · left; rw [List.getD_eq_getElem (l := A) (d := []) h]; exact List.getElem_mem h
  · right; exact List.getD_eq_default (l := A) (d := []) (not_lt.mp h)

theorem row_length {n m : Nat} {A : Mat} (hA : IsMat n m A) (i : Fin n) : (A.getD i []).length = m := by
  have h : (i : Nat) < A.length := by rw [hA.1]; exact i.2
  rw [List.getD_eq_getElem (l := A) (d := []) h]
  exact hA.2 _ (List.getElem_mem h)

theorem toV_mulVec (n m : Nat) (A : Mat) (v : Vec) (hA : IsMat n m A) (hv : v.length = m) :
    toV n (mulVec A v) = (toM n m A) *ᵥ (toV m v) := by
  funext i
  have h : (i : Nat) < A.length := by rw [hA.1]; exact i.2
  have h' : (i : Nat) < (A.map fun r => dot r v).length := by simpa using h
  simp only [toV, mulVec, Matrix.mulVec, dotProduct, toM, Matrix.of_apply]
  rw [List.getD_eq_getElem (l := A.map fun r => dot r v) (d := 0) h', List.getElem_map,
      ← List.getD_eq_getElem (l := A) (d := []) h]
  exact dot_eq m _ v (row_length hA i) hv

theorem mulVec_length (A : Mat) (v : Vec) : (mulVec A v).length = A.length := by simp [mulVec]

theorem vecMul_getD (k m : Nat) (r : Vec) (B : Mat) (hr : r.length = k) (hB : IsMat k m B) (j : Fin m) :
    (vecMul r B).getD j 0 = ∑ l : Fin k, r.getD l 0 * (B.getD l []).getD j 0 := by
  cases B with
  | nil =>
    have hk : k = 0 := by have := hB.1; simpa using this.symm
    subst hk
    simp [vecMul]
  | cons r0 B' =>
    have hr0 : r0.length = m := hB.2 r0 (by simp)
    have hj : (j : Nat) < ((List.range r0.length).map fun j =>
        (List.zipWith (fun xi (row : List ℚ) => xi * row.getD j 0) r (r0 :: B')).sum).length := by
      simp [hr0]
    simp only [vecMul]
    rw [List.getD_eq_getElem (l := (List.range r0.length).map fun j =>
        (List.zipWith (fun xi (row : List ℚ) => xi * row.getD j 0) r (r0 :: B')).sum) (d := 0) hj, List.getElem_map, List.getElem_range]
    exact zipWith_sum (fun xi (row : List ℚ) => xi * row.getD j 0) 0 [] k r (r0 :: B') hr hB.1

theorem toM_matMul (n k m : Nat) (A B : Mat) (hA : IsMat n k A) (hB : IsMat k m B) :
    toM n m (matMul A B) = toM n k A * toM k m B := by
  ext i j
  have h : (i : Nat) < A.length := by rw [hA.1]; exact i.2
  have h' : (i : Nat) < (A.map fun r => vecMul r B).length := by simpa using h
  simp only [toM, Matrix.of_apply, Matrix.mul_apply, matMul]
  rw [List.getD_eq_getElem (l := A.map fun r => vecMul r B) (d := []) h', List.getElem_map,
      ← List.getD_eq_getElem (l := A) (d := []) h]
  exact vecMul_getD k m _ B (row_length hA i) hB j

theorem toM_ident (n : Nat) : toM n n (ident n) = 1 := by
  ext i j
  have hi : (i : Nat) < ((List.range n).map fun i => (List.range n).map fun j => if i = j then (1 : ℚ) else 0).length := by simp
  have hj : (j : Nat) < ((List.range n).map fun j => if (i : Nat) = j then (1 : ℚ) else 0).length := by simp
  simp only [toM, Matrix.of_apply, ident]
  rw [List.getD_eq_getElem (l := (List.range n).map fun i => (List.range n).map fun j => if i = j then (1 : ℚ) else 0) (d := []) hi,
      List.getElem_map, List.getElem_range,
      List.getD_eq_getElem (l := (List.range n).map fun j => if (i : Nat) = j then (1 : ℚ) else 0) (d := 0) hj,
      List.getElem_map, List.getElem_range, Matrix.one_apply]
  simp [Fin.ext_iff]

theorem isSquare_isMat (n : Nat) (A : Mat) (h : isSquare n A = true) : IsMat n n A := by
  simp only [isSquare, Bool.and_eq_true, beq_iff_eq, List.all_eq_true] at h
  exact ⟨h.1, fun r hr => h.2 r hr⟩

/-- **C02 (the inverse certificate).**  What the driver checks for every fitted arm model —
    `A` and `B` square of the same size and `A · B = I` exactly — makes `B` *the* inverse of `A`. -/
theorem inverse_certificate (A B : Mat) (h : isInverseCert A B = true) :
    IsMat A.length A.length A ∧ IsMat A.length A.length B ∧
    toM A.length A.length B = (toM A.length A.length A)⁻¹ := by
  simp only [isInverseCert, Bool.and_eq_true] at h
  obtain ⟨⟨h1, h2⟩, h3⟩ := h
  have hA := isSquare_isMat _ A h1
  have hB := isSquare_isMat _ B h2
  refine ⟨hA, hB, ?_⟩
  have hmul : matMul A B = ident A.length := by
    simp only [isInverse] at h3
    exact eq_of_beq h3
  have : toM A.length A.length A * toM A.length A.length B = 1 := by
    rw [← toM_matMul _ _ _ A B hA hB, hmul, toM_ident]
  exact (Matrix.inv_eq_right_inv this).symm

/-- **C02 (normal equations solved, uniquely).**  With a certified inverse, `β = B · Xᵀy` satisfies
    `A β = Xᵀy`, and it is the only vector that does. -/
theorem beta_unique_solution (A B : Mat) (v : Vec) (h : isInverseCert A B = true) (hv : v.length = A.length) :
    (toM A.length A.length A) *ᵥ (toV A.length (mulVec B v)) = toV A.length v ∧
    toV A.length (mulVec B v) = (toM A.length A.length A)⁻¹ *ᵥ (toV A.length v) ∧
    ∀ w : Fin A.length → ℚ, (toM A.length A.length A) *ᵥ w = toV A.length v → w = toV A.length (mulVec B v) := by
  obtain ⟨hA, hB, hinv⟩ := inverse_certificate A B h
  have hbeta : toV A.length (mulVec B v) = (toM A.length A.length A)⁻¹ *ᵥ (toV A.length v) := by
    rw [toV_mulVec _ _ B v hB hv, hinv]
  simp only [isInverseCert, Bool.and_eq_true] at h
  have hmul : matMul A B = ident A.length := eq_of_beq (by simpa [isInverse] using h.2)
  have hAB : toM A.length A.length A * toM A.length A.length B = 1 := by
    rw [← toM_matMul _ _ _ A B hA hB, hmul, toM_ident]
  have hBA : toM A.length A.length B * toM A.length A.length A = 1 := mul_eq_one_comm.mp hAB
  refine ⟨?_, hbeta, ?_⟩
  · rw [toV_mulVec _ _ B v hB hv, Matrix.mulVec_mulVec, hAB, Matrix.one_mulVec]
  · intro w hw
    rw [toV_mulVec _ _ B v hB hv, ← hw, Matrix.mulVec_mulVec, hBA, Matrix.one_mulVec]

end Mab

namespace Mab
open Matrix

/-! ### the Gram matrix and the moment vector in Mathlib terms -/

theorem toV_getD_zipWith (f : ℚ → ℚ → ℚ) (n : Nat) (x y : Vec) (hx : x.length = n) (hy : y.length = n) (i : Fin n) :
    (List.zipWith f x y).getD i 0 = f (x.getD i 0) (y.getD i 0) := by
  have h1 : (i : Nat) < x.length := by rw [hx]; exact i.2
  have h2 : (i : Nat) < y.length := by rw [hy]; exact i.2
  have h3 : (i : Nat) < (List.zipWith f x y).length := by simp [h1, h2]
  rw [List.getD_eq_getElem (l := List.zipWith f x y) (d := 0) h3, List.getElem_zipWith,
      List.getD_eq_getElem (l := x) (d := 0) h1, List.getD_eq_getElem (l := y) (d := 0) h2]

theorem toV_vadd (n : Nat) (x y : Vec) (hx : x.length = n) (hy : y.length = n) :
    toV n (vadd x y) = toV n x + toV n y := by
  funext i; exact toV_getD_zipWith (· + ·) n x y hx hy i

theorem toV_vsmul (n : Nat) (c : ℚ) (x : Vec) (hx : x.length = n) : toV n (vsmul c x) = c • toV n x := by
  funext i
  have h1 : (i : Nat) < x.length := by rw [hx]; exact i.2
  have h3 : (i : Nat) < (x.map (c * ·)).length := by simpa using h1
  simp only [toV, vsmul, Pi.smul_apply, smul_eq_mul]
  rw [List.getD_eq_getElem (l := x.map (c * ·)) (d := 0) h3, List.getElem_map, List.getD_eq_getElem (l := x) (d := 0) h1]

theorem vadd_length (x y : Vec) (hx : x.length = y.length) : (vadd x y).length = x.length := by
  simp [vadd, hx]
theorem vsmul_length (c : ℚ) (x : Vec) : (vsmul c x).length = x.length := by simp [vsmul]

theorem isMat_madd (n m : Nat) (A B : Mat) (hA : IsMat n m A) (hB : IsMat n m B) : IsMat n m (madd A B) := by
  refine ⟨by simp [madd, hA.1, hB.1], ?_⟩
  intro r hr
  simp only [madd] at hr
  obtain ⟨i, hi, e⟩ := List.mem_iff_getElem.mp hr
  simp only [List.getElem_zipWith] at e
  have hi' := hi
  simp only [List.length_zipWith] at hi'
  rw [← e, vadd_length _ _ (by rw [hA.2 _ (List.getElem_mem _), hB.2 _ (List.getElem_mem _)])]
  exact hA.2 _ (List.getElem_mem _)

theorem toM_madd (n m : Nat) (A B : Mat) (hA : IsMat n m A) (hB : IsMat n m B) :
    toM n m (madd A B) = toM n m A + toM n m B := by
  ext i j
  have h1 : (i : Nat) < A.length := by rw [hA.1]; exact i.2
  have h2 : (i : Nat) < B.length := by rw [hB.1]; exact i.2
  have h3 : (i : Nat) < (List.zipWith vadd A B).length := by simp [h1, h2]
  simp only [toM, Matrix.of_apply, Matrix.add_apply, madd]
  rw [List.getD_eq_getElem (l := List.zipWith vadd A B) (d := []) h3, List.getElem_zipWith,
      List.getD_eq_getElem (l := A) (d := []) h1, List.getD_eq_getElem (l := B) (d := []) h2]
  exact toV_getD_zipWith (· + ·) m _ _ (hA.2 _ (List.getElem_mem _)) (hB.2 _ (List.getElem_mem _)) j

theorem isMat_outer (x y : Vec) : IsMat x.length y.length (outer x y) := by
  refine ⟨by simp [outer], ?_⟩
  intro r hr
  simp only [outer, List.mem_map] at hr
  obtain ⟨_, _, e⟩ := hr
  rw [← e]; simp

theorem toM_outer (n m : Nat) (x y : Vec) (hx : x.length = n) (hy : y.length = m) :
    toM n m (outer x y) = vecMulVec (toV n x) (toV m y) := by
  ext i j
  have h1 : (i : Nat) < x.length := by rw [hx]; exact i.2
  have h2 : (j : Nat) < y.length := by rw [hy]; exact j.2
  have h3 : (i : Nat) < (x.map fun xi => y.map fun yj => xi * yj).length := by simpa using h1
  have h4 : (j : Nat) < (y.map fun yj => x[(i : Nat)] * yj).length := by simpa using h2
  simp only [toM, Matrix.of_apply, outer, vecMulVec_apply, toV]
  rw [List.getD_eq_getElem (l := x.map fun xi => y.map fun yj => xi * yj) (d := []) h3, List.getElem_map,
      List.getD_eq_getElem (l := y.map fun yj => x[(i : Nat)] * yj) (d := 0) h4, List.getElem_map,
      List.getD_eq_getElem (l := x) (d := 0) h1, List.getD_eq_getElem (l := y) (d := 0) h2]

theorem isMat_ident (n : Nat) : IsMat n n (ident n) := by
  refine ⟨by simp [ident], ?_⟩
  intro r hr
  simp only [ident, List.mem_map] at hr
  obtain ⟨_, _, e⟩ := hr
  rw [← e]; simp

theorem isMat_msmul (n m : Nat) (c : ℚ) (A : Mat) (hA : IsMat n m A) : IsMat n m (msmul c A) := by
  refine ⟨by simp [msmul, hA.1], ?_⟩
  intro r hr
  simp only [msmul, List.mem_map] at hr
  obtain ⟨r0, hr0, e⟩ := hr
  rw [← e, vsmul_length]; exact hA.2 r0 hr0

theorem toM_msmul (n m : Nat) (c : ℚ) (A : Mat) (hA : IsMat n m A) : toM n m (msmul c A) = c • toM n m A := by
  ext i j
  have h1 : (i : Nat) < A.length := by rw [hA.1]; exact i.2
  have h3 : (i : Nat) < (A.map (vsmul c)).length := by simpa using h1
  simp only [toM, Matrix.of_apply, msmul, Matrix.smul_apply, smul_eq_mul]
  rw [List.getD_eq_getElem (l := A.map (vsmul c)) (d := []) h3, List.getElem_map, List.getD_eq_getElem (l := A) (d := []) h1]
  have := congrFun (toV_vsmul m c A[(i : Nat)] (hA.2 _ (List.getElem_mem _))) j
  simpa [toV] using this

/-- `A + Σ x xᵀ`, accumulated row by row, as a matrix identity -/
theorem toM_addGram (d : Nat) (xs : List Vec) : ∀ (A : Mat), IsMat d d A → (∀ x ∈ xs, x.length = d) →
    IsMat d d (addGram A xs) ∧
    toM d d (addGram A xs) = toM d d A + (xs.map fun x => vecMulVec (toV d x) (toV d x)).sum := by
  induction xs with
  | nil => intro A hA _; exact ⟨hA, by simp [addGram]⟩
  | cons x xs ih =>
    intro A hA hx
    have hxl : x.length = d := hx x (by simp)
    have hO : IsMat d d (outer x x) := by have := isMat_outer x x; rwa [hxl] at this
    have hA' := isMat_madd d d A (outer x x) hA hO
    obtain ⟨i1, i2⟩ := ih (madd A (outer x x)) hA' (fun y hy => hx y (List.mem_cons_of_mem _ hy))
    simp only [addGram, List.foldl_cons] at i1 i2 ⊢
    refine ⟨i1, ?_⟩
    rw [i2, toM_madd d d A _ hA hO, toM_outer d d x x hxl hxl, List.map_cons, List.sum_cons, add_assoc]

/-- `v + Σ y·x`, accumulated row by row -/
theorem toV_addXty (d : Nat) (rows : List (Rat × Vec)) : ∀ (v : Vec), v.length = d → (∀ r ∈ rows, r.2.length = d) →
    (addXty v rows).length = d ∧
    toV d (addXty v rows) = toV d v + (rows.map fun r => r.1 • toV d r.2).sum := by
  induction rows with
  | nil => intro v hv _; exact ⟨hv, by simp [addXty]⟩
  | cons r rows ih =>
    intro v hv hr
    have hrl : r.2.length = d := hr r (by simp)
    have hl : (vadd v (vsmul r.1 r.2)).length = d := by
      rw [vadd_length _ _ (by rw [vsmul_length, hv, hrl]), hv]
    obtain ⟨i1, i2⟩ := ih (vadd v (vsmul r.1 r.2)) hl (fun y hy => hr y (List.mem_cons_of_mem _ hy))
    simp only [addXty, List.foldl_cons] at i1 i2 ⊢
    refine ⟨i1, ?_⟩
    rw [i2, toV_vadd d v _ hv (by rw [vsmul_length, hrl]), toV_vsmul d r.1 r.2 hrl, List.map_cons, List.sum_cons, add_assoc]

theorem toV_zeroVec (d : Nat) : toV d (zeroVec d) = 0 := by
  funext i
  simp [toV, zeroVec, List.getD_replicate]

/-- **C02 (closed form).**  For an arm of a linear policy with a non-empty observation log of
    `d`-feature rows, whose fitted model passes the inverse certificate the driver checks on every
    run, the coefficients are exactly `β = (λI + Σ x xᵀ)⁻¹ (Σ y·x)` = `(XᵀX + λI)⁻¹ Xᵀy`, the stored
    `A⁻¹` is exactly `(XᵀX + λI)⁻¹`, and `β` is the unique solution of the normal equations. -/
theorem ridge_closed_form {α : Type} [DecidableEq α] (kind : Kind) (hlin : kind.isLinear = true) (N d : Nat) (k1 : Bool)
    (log : List (Rat × Vec)) (hne : log.length ≠ 0) (hw : ∀ r ∈ log, r.2.length = d)
    (hcert : isInverseCert (ridgeOf (α := α) kind N d k1 log).A (ridgeOf (α := α) kind N d k1 log).Ainv = true) :
    let r : ArmSt α := ridgeOf kind N d k1 log
    let G : Matrix (Fin d) (Fin d) ℚ := kind.lam • (1 : Matrix (Fin d) (Fin d) ℚ) + (log.map fun r => vecMulVec (toV d r.2) (toV d r.2)).sum
    let b : Fin d → ℚ := (log.map fun r => r.1 • toV d r.2).sum
    toM d d r.A = G ∧ toM d d r.Ainv = G⁻¹ ∧ toV d r.beta = G⁻¹ *ᵥ b ∧ G *ᵥ toV d r.beta = b ∧
    ∀ w : Fin d → ℚ, G *ᵥ w = b → w = toV d r.beta := by
  intro r G b
  obtain ⟨hA, hX, hAinv, hbeta⟩ := (stat_linear (α := α) kind hlin N d k1 log).2 hne
  have hI : IsMat d d (msmul kind.lam (ident d)) := isMat_msmul d d _ _ (isMat_ident d)
  obtain ⟨g1, g2⟩ := toM_addGram d (log.map (·.2)) (msmul kind.lam (ident d)) hI
    (by intro x hx; obtain ⟨r0, hr0, e⟩ := List.mem_map.mp hx; rw [← e]; exact hw r0 hr0)
  obtain ⟨x1, x2⟩ := toV_addXty d log (zeroVec d) (by simp [zeroVec]) hw
  have hlen : r.A.length = d := by show (ridgeOf kind N d k1 log).A.length = d; rw [hA]; exact g1.1
  have hG : toM d d r.A = G := by
    show toM d d (ridgeOf kind N d k1 log).A = G
    rw [hA, g2, toM_msmul d d _ _ (isMat_ident d), toM_ident, List.map_map]
    rfl
  have hb : toV d r.Xty = b := by
    show toV d (ridgeOf kind N d k1 log).Xty = b
    rw [hX, x2, toV_zeroVec, zero_add]
  have hxl : r.Xty.length = r.A.length := by
    show (ridgeOf kind N d k1 log).Xty.length = _
    rw [hlen, hX]; exact x1
  obtain ⟨c1, c2, c3⟩ := inverse_certificate r.A r.Ainv hcert
  obtain ⟨s1, s2, s3⟩ := beta_unique_solution r.A r.Ainv r.Xty hcert hxl
  have hbe : r.beta = mulVec r.Ainv r.Xty := hbeta
  rw [← hbe] at s1 s2 s3
  rw [hlen] at c3 s1 s2 s3
  rw [hG] at c3 s1 s2 s3
  rw [hb] at s1 s2 s3
  exact ⟨hG, c3, s2, s1, s3⟩

end Mab

namespace Mab
open Matrix

theorem vecMul_length (k m : Nat) (r : Vec) (B : Mat) (hB : IsMat k m B) (hk : 0 < k) : (vecMul r B).length = m := by
  cases B with
  | nil => have := hB.1; simp at this; omega
  | cons r0 B' => simp [vecMul, hB.2 r0 (by simp)]

/-- **C02 (LinUCB bonus).**  The quantity under the square root of the LinUCB expectation,
    `dot (vecMul x A⁻¹) x` in the model, is `xᵀ (XᵀX + λI)⁻¹ x`. -/
theorem linucb_bonus_quadratic_form (d : Nat) (hd : 0 < d) (x : Vec) (B : Mat) (hx : x.length = d) (hB : IsMat d d B) :
    dot (vecMul x B) x = toV d x ⬝ᵥ (toM d d B *ᵥ toV d x) := by
  rw [dot_eq d _ x (vecMul_length d d x B hB hd) hx, Matrix.dotProduct_mulVec]
  simp only [dotProduct, Matrix.vecMul, toV, toM, Matrix.of_apply]
  apply Finset.sum_congr rfl
  intro j _
  rw [vecMul_getD d d x B hx hB j]

/-! ### non-vacuity: a concrete arm with three observations of two features, λ = 2 -/
def exLog : List (Rat × Vec) := [(1, [1, 2]), (0, [3, 1]), (1, [0, 1])]
example : isInverseCert (ridgeOf (α := Nat) (.linUCB 1 2) 3 2 false exLog).A (ridgeOf (α := Nat) (.linUCB 1 2) 3 2 false exLog).Ainv = true := by
  decide +kernel
example : ((ridgeOf (α := Nat) (.linUCB 1 2) 3 2 false exLog).A == [[12, 5], [5, 8]]) = true ∧
    ((ridgeOf (α := Nat) (.linUCB 1 2) 3 2 false exLog).beta == [-7 / 71, 31 / 71]) = true := by decide +kernel

end Mab
