/-
  C07 — fit discards everything learned before.
-/
import MabModel.Props.C01
import MabModel.Core.Facade
open Py
set_option linter.unusedSectionVars false
set_option linter.unusedVariables false
set_option linter.unusedSimpArgs false

namespace Mab
variable {α : Type} [DecidableEq α]

/-- two policy objects with the same configuration and the same arms (in the same order); what they
    have *learned* — statistics, statuses, warm-start copies, per-arm models and their generators,
    `num_features`, row counts — may differ arbitrarily.  (`_ThompsonSampling.fit` leaves the last
    drawn expectations in place, a dead field; `tsExp` says those agree.) -/
structure SameConfig (s s' : LP α) : Prop where
  kind : s.kind = s'.kind
  arms : s.arms = s'.arms
  keys : s.st.keys = s'.st.keys
  binz : s.binz = s'.binz
  ctxBin : s.ctxBin = s'.ctxBin
  k1 : s.k1fixed = s'.k1fixed
  nf : s.kind.isLinear = false → s.numFeatures = s'.numFeatures
  tsExp : s.kind = .thompson → s.st.map (fun p => (p.1, p.2.exp)) = s'.st.map (fun p => (p.1, p.2.exp))

theorem mapKV_const_of_keys (d d' : Dict α (ArmSt α)) (c : ArmSt α) (h : d.keys = d'.keys) :
    d.mapKV (fun _ _ => c) = d'.mapKV (fun _ _ => c) := by
  induction d generalizing d' with
  | nil => cases d' with
    | nil => rfl
    | cons q t => simp [Dict.keys] at h
  | cons p t ih =>
    cases d' with
    | nil => simp [Dict.keys] at h
    | cons q t' =>
      simp only [Dict.keys_cons, List.cons.injEq] at h
      simp only [Dict.mapKV, List.map_cons, List.cons.injEq]
      exact ⟨by rw [h.1], ih t' h.2⟩

theorem mapKV_exp_of_exps (d d' : Dict α (ArmSt α)) (c : ArmSt α)
    (h : d.map (fun p => (p.1, p.2.exp)) = d'.map (fun p => (p.1, p.2.exp))) :
    d.mapKV (fun _ r => { c with exp := r.exp }) = d'.mapKV (fun _ r => { c with exp := r.exp }) := by
  induction d generalizing d' with
  | nil => cases d' with
    | nil => rfl
    | cons q t => simp at h
  | cons p t ih =>
    cases d' with
    | nil => simp at h
    | cons q t' =>
      simp only [List.map_cons, List.cons.injEq, Prod.mk.injEq] at h
      simp only [Dict.mapKV, List.map_cons, List.cons.injEq]
      exact ⟨by rw [h.1.1, h.1.2], ih t' h.2⟩

theorem resetFor_congr (s s' : LP α) (b : Batch α) (w : Option Nat) (h : SameConfig s s') :
    s.resetFor b w = s'.resetFor b w := by
  have hnf : s.nfFor b w = s'.nfFor b w := by
    unfold LP.nfFor
    rw [← h.kind]
    by_cases hl : s.kind.isLinear = true
    · simp [hl]
    · have hl' : s.kind.isLinear = false := by simpa using hl
      simp [hl', h.nf hl']
  unfold LP.resetFor
  rw [← hnf, ← h.kind, ← h.arms, ← h.binz, ← h.ctxBin, ← h.k1]
  congr 1
  by_cases hts : s.kind = .thompson
  · have := h.tsExp hts
    simp only [resetRec, hts]
    exact mapKV_exp_of_exps _ _ _ this
  · have hr : ∀ r : ArmSt α, resetRec s.kind (s.nfFor b w) s.k1fixed r = freshRec s.kind (s.nfFor b w) s.k1fixed := by
      intro r; unfold resetRec; cases hk : s.kind <;> simp_all
    simp only [hr]
    exact mapKV_const_of_keys _ _ _ h.keys

/-- **C07 (learning policy).**  `fit(D)` on *any* state equals `fit(D)` on any other state with the
    same configuration and arm list — in particular on a freshly constructed policy: no observation,
    sufficient statistic, status flag, warm-start copy, per-arm model or generator assignment from
    before the call survives. -/
theorem fit_discards (s s' : LP α) (b : Batch α) (w : Option Nat) (h : SameConfig s s')
    (hr : s.kind ≠ .random) : s.fit b w = s'.fit b w := by
  have hb : s.binarize b = s'.binarize b := by simp [LP.binarize, h.binz, h.ctxBin]
  unfold LP.fit
  rw [← h.kind, ← hb, resetFor_congr s s' _ w h]
  cases hk : s.kind <;> simp_all

/-- a policy that went through any history is config-equal to a freshly constructed one with the
    current arm list (for the non-Thompson policies; Thompson differs in the dead last-draw field) -/
theorem sameConfig_fresh (kind : Kind) (arms : List α) (k1 : Bool) (hn : arms.Nodup) (ops : List (LPOp α))
    (hts : kind ≠ .thompson) (hlin : kind.isLinear = false) :
    SameConfig ((LP.init kind arms none k1).run ops)
               (LP.init kind ((LP.init kind arms none k1).run ops).arms none k1) := by
  have href := cf_refines_log_aux kind arms k1 hn ops
  have hk : ((LP.init kind arms none k1).run ops).kind = kind := run_kind _ _
  refine ⟨by rw [hk]; rfl, rfl, by rw [href.1.wf.keys]; simp [LP.init], href.2.1, href.2.2.1, href.2.2.2.1, ?_, ?_⟩
  · intro _; rw [href.2.2.2.2 hlin]; rfl
  · intro h; rw [hk] at h; exact absurd h hts

/-- **C07 (whole history).**  After any history of fit / partial_fit / add_arm / remove_arm, `fit(D)`
    gives exactly the state a freshly constructed policy with the current arm list gets from `fit(D)`. -/
theorem fit_after_history_eq_fresh (kind : Kind) (arms : List α) (k1 : Bool) (hn : arms.Nodup)
    (ops : List (LPOp α)) (D : Batch α) (w : Option Nat)
    (hts : kind ≠ .thompson) (hr : kind ≠ .random) (hlin : kind.isLinear = false) :
    ((LP.init kind arms none k1).run ops).fit D w =
      (LP.init kind ((LP.init kind arms none k1).run ops).arms none k1).fit D w :=
  fit_discards _ _ D w (sameConfig_fresh kind arms k1 hn ops hts hlin) (by rw [run_kind]; exact hr)

end Mab
