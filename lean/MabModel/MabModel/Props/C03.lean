/-
  C03 — Radius and KNearest use exactly the observations in the neighbourhood.
-/
import MabModel.Props.C07
import Mathlib.Analysis.SpecialFunctions.Sqrt
open Py
set_option linter.unusedSectionVars false
set_option linter.unusedVariables false
set_option linter.unusedSimpArgs false

namespace Mab
variable {α : Type} [DecidableEq α]

/-- **C03 (Radius).**  For an exactly computed metric the selected stored rows are exactly those whose
    distance to the query is at most the radius — boundary included — in stored order. -/
theorem radius_exact (b : Bandit α) (r : Rat) (metric : Metric) (pr : Option (List Rat)) (q : Vec)
    (ds : List Rat) (ks : List Nat) (hnp : b.np = .radius r metric pr) (hm : metric ≠ .oracle) (i : Nat) :
    i ∈ (b.selectIdx q ds ks).1 ↔
      ∃ h : i < b.hist.length, distExact metric (b.hist[i]).ctx q ≤ radiusBound metric r := by
  simp only [Bandit.selectIdx, hnp, hm, if_false]
  simp only [List.mem_filterMap, Prod.exists]
  constructor
  · rintro ⟨d, j, hmem, hsome⟩
    split at hsome
    · next hle =>
      simp only [Option.some.injEq] at hsome
      subst hsome
      rw [List.mem_zipIdx_iff_getElem?] at hmem
      simp only [List.getElem?_map] at hmem
      cases hj : b.hist[j]? with
      | none => simp [hj] at hmem
      | some row =>
        simp [hj] at hmem
        obtain ⟨hlt, hrow⟩ := List.getElem?_eq_some_iff.mp hj
        exact ⟨hlt, by rw [hrow, hmem]; exact hle⟩
    · simp at hsome
  · rintro ⟨hlt, hle⟩
    refine ⟨distExact metric (b.hist[i]).ctx q, i, ?_, by simp [hle]⟩
    rw [List.mem_zipIdx_iff_getElem?]
    simp [List.getElem?_map, List.getElem?_eq_getElem hlt]

/-- euclidean distances are compared through their squares: for `r ≥ 0`, `sqrt s ≤ r ↔ s ≤ r²` -/
theorem euclid_via_squares (s r : ℝ) (hr : 0 ≤ r) : Real.sqrt s ≤ r ↔ s ≤ r ^ 2 := by
  rw [Real.sqrt_le_left hr]

/-- **C03 (KNearest, alternative tie-break).**  A supplied choice of rows is used only if it consists
    of `k` distinct stored rows none of which is farther from the query than the k-th smallest distance
    and such that every row left out is at least that far: any such set is a set of k nearest rows. -/
theorem knn_override_valid (b : Bandit α) (k : Nat) (metric : Metric) (q : Vec) (ds : List Rat) (ks : List Nat)
    (hnp : b.np = .knn k metric) (hm : metric = .oracle) (hne : ks ≠ [])
    (hused : (b.selectIdx q ds ks).1 = ks) (hdiff : ks ≠ (stableSortIdx ds).take k) :
    ks.length = k ∧ ks.Nodup ∧
      ∀ i ∈ ks, ∀ j, j < ds.length → j ∉ ks → ds.getD i 0 ≤ ds.getD j 0 := by
  simp only [Bandit.selectIdx, hnp, hm, if_true] at hused
  by_cases hv : ks ≠ [] ∧ (ks.length = k ∧ ks.Nodup ∧ (ks.all fun i => decide (i < ds.length ∧
        ds.getD i 0 ≤ ds.getD ((stableSortIdx ds).getD (k - 1) 0) 0)) = true ∧
        ((List.range ds.length).all fun i => decide (i ∈ ks ∨ ds.getD ((stableSortIdx ds).getD (k - 1) 0) 0 ≤ ds.getD i 0)) = true)
  · obtain ⟨_, h1, h2, h3, h4⟩ := hv
    refine ⟨h1, h2, ?_⟩
    intro i hi j hj hjn
    have a := List.all_eq_true.mp h3 i hi
    have c := List.all_eq_true.mp h4 j (List.mem_range.mpr hj)
    simp only [decide_eq_true_eq] at a c
    rcases c with c | c
    · exact absurd c hjn
    · exact Rat.le_trans a.2 c
  · rw [if_neg hv] at hused
    exact absurd hused.symm hdiff

/-! ### empty neighbourhoods -/

/-- the neighbourhood object's own expectation dictionary: one NaN per current arm -/
def Bandit.NanInv (b : Bandit α) : Prop := b.npExp.keys = b.arms ∧ ∀ p ∈ b.npExp, p.2 = Expect.nan

theorem nanInv_init (arms : List α) (kind : Kind) (r : Rat) (m : Metric) (pr : Option (List Rat)) :
    (Bandit.init arms kind (.radius r m pr)).NanInv := by
  refine ⟨by simp [Bandit.init], ?_⟩
  intro p hp
  simp only [Bandit.init, Dict.fromKeys, List.mem_map] at hp
  obtain ⟨a, _, rfl⟩ := hp
  rfl

theorem mem_set {κ ν : Type} [DecidableEq κ] (d : Dict κ ν) (k : κ) (v : ν) (p : κ × ν) (hp : p ∈ d.set k v) :
    p = (k, v) ∨ p ∈ d := by
  induction d with
  | nil => simp [Dict.set] at hp; exact Or.inl hp
  | cons x t ih =>
    obtain ⟨k', v'⟩ := x
    simp only [Dict.set] at hp
    split at hp
    · rcases List.mem_cons.mp hp with e | e
      · exact Or.inl e
      · exact Or.inr (List.mem_cons_of_mem _ e)
    · rcases List.mem_cons.mp hp with e | e
      · exact Or.inr (by rw [e]; simp)
      · rcases ih e with h | h
        · exact Or.inl h
        · exact Or.inr (List.mem_cons_of_mem _ h)

theorem mem_pop {κ ν : Type} [DecidableEq κ] (d : Dict κ ν) (k : κ) (p : κ × ν) (hp : p ∈ d.pop k) : p ∈ d := by
  induction d with
  | nil => simp [Dict.pop] at hp
  | cons x t ih =>
    obtain ⟨k', v'⟩ := x
    simp only [Dict.pop] at hp
    split at hp
    · exact List.mem_cons_of_mem _ (ih hp)
    · rcases List.mem_cons.mp hp with e | e
      · rw [e]; simp
      · exact List.mem_cons_of_mem _ (ih e)

/-- **C03 (empty neighbourhood).**  Under Radius (and likewise KNearest / LSHNearest, which share the
    code) the dictionary returned for a context without neighbours holds NaN for *every current arm*:
    the invariant survives `add_arm` (the new arm gets NaN, not 0) and `remove_arm`. -/
theorem nanInv_addArm (b : Bandit α) (a : α) (bz : Option (α → Rat → Rat)) (r : Rat) (m : Metric) (pr : Option (List Rat))
    (hnp : b.np = .radius r m pr) (ha : a ∉ b.arms) (h : b.NanInv) : (b.impAddArm a bz).NanInv := by
  obtain ⟨h1, h2⟩ := h
  simp only [Bandit.impAddArm, hnp]
  refine ⟨?_, ?_⟩
  · show (b.npExp.set a .nan).keys = b.arms ++ [a]
    rw [Dict.keys_set_not_mem _ _ _ (by rw [h1]; exact ha), h1]
  · intro p hp
    rcases mem_set _ _ _ _ hp with e | e
    · rw [e]
    · exact h2 p e

theorem nanInv_removeArm (b : Bandit α) (a : α) (r : Rat) (m : Metric) (pr : Option (List Rat))
    (hnp : b.np = .radius r m pr) (h : b.NanInv) : (b.impRemoveArm a).NanInv := by
  obtain ⟨h1, h2⟩ := h
  simp only [Bandit.impRemoveArm, hnp]
  refine ⟨?_, ?_⟩
  · show (b.npExp.pop a).keys = b.arms.filter (· != a)
    rw [Dict.keys_pop, h1]
  · intro p hp
    exact h2 p (mem_pop _ _ _ hp)

/-- with no row within the radius, `predict_expectations` returns that NaN dictionary -/
theorem empty_nhood_exps (le : Expect → Expect → Bool) (b : Bandit α) (lp : LP α) (i : Nat) (q : Vec)
    (ds : List Rat) (ks : List Nat) (g : Rng) (h : (b.selectIdx q ds ks).1 = []) :
    (b.nhoodRow le false lp i q ds ks g).2.1 = .inl b.npExp := by
  unfold Bandit.nhoodRow
  cases hs : b.selectIdx q ds ks with
  | mk idx tie =>
    rw [hs] at h
    simp only at h
    subst h
    simp

/-! ### the neighbourhood's expectations are those of a policy trained from scratch -/

/-- **C03 (from scratch).**  The worker reuses one copy of the learning policy for all rows of its
    chunk; whatever that copy has been fit on before, the outputs for the next row are those of any
    other policy object with the same configuration — e.g. a freshly constructed one — fit on exactly
    the selected rows (`fit` discards everything: C07). -/
theorem nhood_from_scratch (le : Expect → Expect → Bool) (b : Bandit α) (isPredict : Bool) (lp lp' : LP α)
    (i : Nat) (q : Vec) (ds : List Rat) (ks : List Nat) (g : Rng)
    (hc : SameConfig lp lp') (hr : lp.kind ≠ .random) :
    (b.nhoodRow le isPredict lp i q ds ks g).2 = (b.nhoodRow le isPredict lp' i q ds ks g).2 := by
  unfold Bandit.nhoodRow
  cases hs : b.selectIdx q ds ks with
  | mk idx tie =>
    simp only
    by_cases hlen : idx.length > 0
    · simp only [hlen, if_true]
      rw [fit_discards lp lp' _ _ hc hr]
    · simp only [hlen, if_false]
      cases isPredict <;> simp

end Mab

namespace Mab
variable {α : Type} [DecidableEq α]

/-! ### KNearest: the model's own (stable) choice is a set of k nearest rows -/

theorem sorted_pairs (ds : List Rat) :
    (ds.zipIdx.mergeSort fun (a b : Rat × Nat) => decide (a.1 ≤ b.1)).Pairwise (fun a b => a.1 ≤ b.1) := by
  have := List.pairwise_mergeSort (le := fun (a b : Rat × Nat) => decide (a.1 ≤ b.1))
    (by intro a b c h1 h2; simp only [decide_eq_true_eq] at *; exact le_trans h1 h2)
    (by intro a b; simp only [Bool.or_eq_true, decide_eq_true_eq]; exact le_total a.1 b.1) ds.zipIdx
  exact this.imp (by intro a b h; simpa using h)

/-- **C03 (KNearest).**  For `k ≤ n` stored rows the selected set consists of `k` distinct rows, and no
    selected row is farther from the query than any row left out (ties at the k-th distance may be broken
    either way: see `knn_override_valid`). -/
theorem knn_valid (ds : List Rat) (k : Nat) (hk : k ≤ ds.length) :
    let sel := (stableSortIdx ds).take k
    sel.length = k ∧ sel.Nodup ∧ (∀ i ∈ sel, i < ds.length) ∧
    ∀ i ∈ sel, ∀ j, j < ds.length → j ∉ sel → ds.getD i 0 ≤ ds.getD j 0 := by
  intro sel
  set L := ds.zipIdx.mergeSort fun (a b : Rat × Nat) => decide (a.1 ≤ b.1) with hL
  have hperm : L.Perm ds.zipIdx := List.mergeSort_perm _ _
  have hsorted : L.Pairwise (fun a b => a.1 ≤ b.1) := sorted_pairs ds
  have hsel : sel = (L.take k).map (·.2) := by simp [sel, stableSortIdx, List.map_take, hL]
  have hmemL : ∀ p, p ∈ L ↔ ∃ (h : p.2 < ds.length), ds[p.2] = p.1 := by
    intro p
    rw [hperm.mem_iff, List.mem_zipIdx_iff_getElem?]
    constructor
    · intro h; obtain ⟨hlt, he⟩ := List.getElem?_eq_some_iff.mp h; exact ⟨hlt, he⟩
    · rintro ⟨hlt, he⟩; rw [List.getElem?_eq_getElem hlt, he]
  have hidx_nodup : (L.map (·.2)).Nodup := by
    have : (ds.zipIdx.map (·.2)).Nodup := by
      rw [List.zipIdx_map_snd]; exact List.nodup_range' (step := 1) (by omega)
    exact (hperm.map _).nodup_iff.mpr this
  have hlen : L.length = ds.length := by rw [hperm.length_eq]; simp
  refine ⟨by rw [hsel]; simp [hlen]; omega, ?_, ?_, ?_⟩
  · rw [hsel]
    exact ((List.take_sublist k L).map _).nodup hidx_nodup
  · intro i hi
    rw [hsel] at hi
    obtain ⟨p, hp, rfl⟩ := List.mem_map.mp hi
    exact ((hmemL p).mp (List.mem_of_mem_take hp)).1
  · intro i hi j hj hjn
    rw [hsel] at hi hjn
    obtain ⟨p, hp, rfl⟩ := List.mem_map.mp hi
    -- the pair of row j is in L, and not among the first k
    have hjL : (ds[j], j) ∈ L := (hmemL (ds[j], j)).mpr ⟨hj, rfl⟩
    have hsplit : L = L.take k ++ L.drop k := (List.take_append_drop k L).symm
    have hjdrop : (ds[j], j) ∈ L.drop k := by
      rw [hsplit] at hjL
      rcases List.mem_append.mp hjL with e | e
      · exact absurd (List.mem_map.mpr ⟨(ds[j], j), e, rfl⟩) hjn
      · exact e
    rw [hsplit] at hsorted
    have := (List.pairwise_append.mp hsorted).2.2 p hp (ds[j], j) hjdrop
    obtain ⟨hpl, hpe⟩ := (hmemL p).mp (List.mem_of_mem_take hp)
    simp only at this
    rw [List.getD_eq_getElem?_getD, List.getD_eq_getElem?_getD, List.getElem?_eq_getElem hpl, List.getElem?_eq_getElem hj]
    simp only [Option.getD_some]
    rw [hpe]; exact this

end Mab
