/-
  C20 (continued) — row order under `LSHNearest`: in every state reached by `fit` and `partial_fit` the
  neighbourhood of a query is the *set* of stored rows that share a hash code with it in some table
  (`lsh_nhood_exact`), so storing the same observations in another order gives the same answers.
-/
import MabModel.Props.C20h
import MabModel.Props.C11
import Mathlib.Data.List.Perm.Basic
import Mathlib.Data.List.Range
open Py
set_option linter.unusedSectionVars false
set_option linter.unusedVariables false
set_option linter.unusedSimpArgs false
set_option linter.unnecessarySeqFocus false

namespace Mab
variable {α : Type} [DecidableEq α]

/-- a duplicate-free list of positions characterised by a test is a permutation of the positions passing the test -/
theorem idx_perm (n : Nat) (P : Nat → Bool) (l : List Nat) (hnd : l.Nodup) (hm : ∀ i, i ∈ l ↔ i < n ∧ P i = true) :
    l.Perm ((List.range n).filter P) := by
  refine (List.perm_ext_iff_of_nodup hnd (List.nodup_range.filter _)).mpr ?_
  intro i
  simp [hm]

/-- reading the rows at the positions whose row passes a test is filtering the rows -/
theorem range_filterMap {ρ : Type} (P : ρ → Bool) : ∀ hist : List ρ,
    ((List.range hist.length).filter (fun i => (hist[i]?).any P)).filterMap (fun i => hist[i]?) = hist.filter P := by
  intro hist
  induction hist using List.reverseRecOn with
  | nil => rfl
  | append_singleton t x ih =>
    simp only [List.length_append, List.length_cons, List.length_nil, Nat.zero_add, List.range_succ, List.filter_append,
      List.filterMap_append]
    have h1 : (List.filter (fun i => ((t ++ [x])[i]?).any P) (List.range t.length)) =
        List.filter (fun i => (t[i]?).any P) (List.range t.length) := by
      apply List.filter_congr
      intro i hi
      have : i < t.length := List.mem_range.mp hi
      simp [List.getElem?_append_left this]
    have h2 : List.filterMap (fun i => (t ++ [x])[i]?) (List.filter (fun i => (t[i]?).any P) (List.range t.length)) =
        List.filterMap (fun i => t[i]?) (List.filter (fun i => (t[i]?).any P) (List.range t.length)) := by
      apply List.filterMap_congr
      intro i hi
      have : i < t.length := List.mem_range.mp (List.mem_of_mem_filter hi)
      simp [List.getElem?_append_left this]
    rw [h1, h2, ih]
    congr 1
    by_cases hx : P x = true <;> simp [hx]

theorem filterMap_length_valid {ρ : Type} (hist : List ρ) : ∀ l : List Nat, (∀ j ∈ l, j < hist.length) →
    (l.filterMap fun j => hist[j]?).length = l.length := by
  intro l
  induction l with
  | nil => intro _; rfl
  | cons j l ih =>
    intro h
    have hj : j < hist.length := h j (List.mem_cons_self)
    simp only [List.filterMap_cons, List.getElem?_eq_getElem hj, List.length_cons]
    rw [ih (fun k hk => h k (List.mem_cons_of_mem _ hk))]

/-- does the stored row share the query's hash code in some table? -/
def collides (planes : List Mat) (q : Vec) (h : Row α) : Bool :=
  planes.any fun pl => contextHash pl h.ctx == contextHash pl q

theorem lsh_selectIdx_nodup (b : Bandit α) (d t : Nat) (pr : Option (List Rat)) (hnp : b.np = .lsh d t pr)
    (q : Vec) (ds : List Rat) (ks : List Nat) : (b.selectIdx q ds ks).1.Nodup := by
  simp only [Bandit.selectIdx, hnp]
  exact (dedup_spec _ [] (by simp)).1

/-- **C11/C20 (LSHNearest selects a set of rows).**  Up to order, the rows handed to the learning policy are the
    stored rows that collide with the query in some table. -/
theorem lsh_rows_perm (b : Bandit α) (d t : Nat) (pr : Option (List Rat)) (hnp : b.np = .lsh d t pr) (hinv : b.LshInv)
    (q : Vec) (ds : List Rat) (ks : List Nat) :
    ((b.selectIdx q ds ks).1.filterMap fun j => b.hist[j]?).Perm (b.hist.filter (collides b.planes q)) ∧
    (b.selectIdx q ds ks).1.length = (b.hist.filter (collides b.planes q)).length := by
  have hmem : ∀ i, i ∈ (b.selectIdx q ds ks).1 ↔ i < b.hist.length ∧ ((b.hist[i]?).any (collides b.planes q)) = true := by
    intro i
    rw [lsh_nhood_exact b d t pr hnp hinv]
    constructor
    · rintro ⟨tb, hp, hi, hc⟩
      refine ⟨hi, ?_⟩
      simp only [List.getElem?_eq_getElem hi, Option.any_some, collides, List.any_eq_true, beq_iff_eq]
      exact ⟨b.planes[tb], List.getElem_mem hp, hc⟩
    · rintro ⟨hi, hc⟩
      simp only [List.getElem?_eq_getElem hi, Option.any_some, collides, List.any_eq_true, beq_iff_eq] at hc
      obtain ⟨pl, hpl, hc⟩ := hc
      obtain ⟨tb, hp, e⟩ := List.getElem_of_mem hpl
      exact ⟨tb, hp, hi, by rw [e]; exact hc⟩
  have hp := idx_perm b.hist.length (fun i => (b.hist[i]?).any (collides b.planes q)) _
    (lsh_selectIdx_nodup b d t pr hnp q ds ks) hmem
  have h1 := hp.filterMap (fun j => b.hist[j]?)
  rw [range_filterMap] at h1
  refine ⟨h1, ?_⟩
  rw [← h1.length_eq, filterMap_length_valid]
  intro j hj
  exact ((hmem j).mp hj).1

/-- two LSH bandits that store the same rows in different orders (each with the tables of its own order) -/
structure LshPerm (b b' : Bandit α) : Prop where
  same : b' = { b with hist := b'.hist, tables := b'.tables }
  perm : b'.hist.Perm b.hist
  inv : b.LshInv
  inv' : b'.LshInv

/-- **C20 (row order, one query row under LSHNearest).** -/
theorem lsh_nhoodRow_perm (le : Expect → Expect → Bool) (b b' : Bandit α) (hp : LshPerm b b') (d t : Nat)
    (pr : Option (List Rat)) (hnp : b.np = .lsh d t pr) (isPredict : Bool) (lp : LP α) (hg : CFGood lp)
    (i : Nat) (q : Vec) (ds : List Rat) (ks : List Nat) (g : Rng) :
    b'.nhoodRow le isPredict lp i q ds ks g = b.nhoodRow le isPredict lp i q ds ks g := by
  have hnp' : b'.np = .lsh d t pr := by rw [hp.same]; exact hnp
  have hpl : b'.planes = b.planes := by rw [hp.same]
  obtain ⟨e1, l1⟩ := lsh_rows_perm b d t pr hnp hp.inv q ds ks
  obtain ⟨e2, l2⟩ := lsh_rows_perm b' d t pr hnp' hp.inv' q ds ks
  rw [hpl] at e2 l2
  have hperm : (b'.hist.filter (collides b.planes q)).Perm (b.hist.filter (collides b.planes q)) := hp.perm.filter _
  have hfit : lp.fit ((b'.selectIdx q ds ks).1.filterMap fun j => b'.hist[j]?) (some q.length) =
      lp.fit ((b.selectIdx q ds ks).1.filterMap fun j => b.hist[j]?) (some q.length) :=
    fit_perm_all lp _ _ _ hg.wf hg.noBinz ((e2.trans hperm).trans e1.symm) (nfFor_some lp _ _ _)
  have hlen : (b'.selectIdx q ds ks).1.length = (b.selectIdx q ds ks).1.length := by rw [l1, l2, hperm.length_eq]
  have htie : (b'.selectIdx q ds ks).2 = (b.selectIdx q ds ks).2 := by
    simp only [Bandit.selectIdx, hnp, hnp']
  have harms : b'.arms = b.arms := by rw [hp.same]
  have hexp : b'.npExp = b.npExp := by rw [hp.same]
  have hnn : b'.np = b.np := by rw [hnp, hnp']
  unfold Bandit.nhoodRow
  simp only [hfit, hlen, htie, harms, hexp, hnn]

/-- **C20 (row order, one worker's chunk under LSHNearest).** -/
theorem lsh_predictChunk_perm (le : Expect → Expect → Bool) (b b' : Bandit α) (hp : LshPerm b b') (d t : Nat)
    (pr : Option (List Rat)) (hnp : b.np = .lsh d t pr) (hg : CFGood b.lp) (isPredict : Bool)
    (qs : List Vec) (start : Nat) (o : Oracle) (g : Rng) :
    b'.predictChunk le isPredict qs start o g = b.predictChunk le isPredict qs start o g := by
  have hnp' : b'.np = .lsh d t pr := by rw [hp.same]; exact hnp
  have hlp : b'.lp = b.lp := by rw [hp.same]
  unfold Bandit.predictChunk
  simp only [hnp, hnp', hlp]
  have key : ∀ l : List (Vec × Nat),
      goodRel
        (l.foldl (fun acc p =>
          ((b.nhoodRow le isPredict acc.1 (start + p.2) p.1 (o.dists.getD (start + p.2) []) (o.ksets.getD (start + p.2) []) acc.2.2.2).1,
           acc.2.1 ++ [(b.nhoodRow le isPredict acc.1 (start + p.2) p.1 (o.dists.getD (start + p.2) []) (o.ksets.getD (start + p.2) []) acc.2.2.2).2.1],
           acc.2.2.1 ++ [(b.nhoodRow le isPredict acc.1 (start + p.2) p.1 (o.dists.getD (start + p.2) []) (o.ksets.getD (start + p.2) []) acc.2.2.2).2.2.1],
           (b.nhoodRow le isPredict acc.1 (start + p.2) p.1 (o.dists.getD (start + p.2) []) (o.ksets.getD (start + p.2) []) acc.2.2.2).2.2.2)) (b.lp, [], [], g))
        (l.foldl (fun acc p =>
          ((b'.nhoodRow le isPredict acc.1 (start + p.2) p.1 (o.dists.getD (start + p.2) []) (o.ksets.getD (start + p.2) []) acc.2.2.2).1,
           acc.2.1 ++ [(b'.nhoodRow le isPredict acc.1 (start + p.2) p.1 (o.dists.getD (start + p.2) []) (o.ksets.getD (start + p.2) []) acc.2.2.2).2.1],
           acc.2.2.1 ++ [(b'.nhoodRow le isPredict acc.1 (start + p.2) p.1 (o.dists.getD (start + p.2) []) (o.ksets.getD (start + p.2) []) acc.2.2.2).2.2.1],
           (b'.nhoodRow le isPredict acc.1 (start + p.2) p.1 (o.dists.getD (start + p.2) []) (o.ksets.getD (start + p.2) []) acc.2.2.2).2.2.2)) (b.lp, [], [], g)) := by
    intro l
    refine foldl_rel goodRel _ _ ?_ l _ _ ⟨rfl, hg⟩
    intro a a' x hR
    unfold goodRel at hR ⊢
    obtain ⟨e, hga⟩ := hR
    subst e
    simp only []
    rw [lsh_nhoodRow_perm le b b' hp d t pr hnp isPredict a'.1 hga]
    exact ⟨rfl, nhoodRow_good le b isPredict a'.1 _ _ _ _ _ hga⟩
  have := (key qs.zipIdx).1
  rw [this]

/-- **C20 (row order, queries under LSHNearest).** -/
theorem lsh_impPredict_perm (le : Expect → Expect → Bool) (b b' : Bandit α) (hp : LshPerm b b') (d t : Nat)
    (pr : Option (List Rat)) (hnp : b.np = .lsh d t pr) (hg : CFGood b.lp) (isPredict : Bool)
    (mm : Option Nat) (qs : List Vec) (o : Oracle) (g : Rng) :
    (b'.impPredict le isPredict mm qs o g).2 = (b.impPredict le isPredict mm qs o g).2 := by
  have hnp' : b'.np = .lsh d t pr := by rw [hp.same]; exact hnp
  unfold Bandit.impPredict Bandit.parallelPredict
  simp only [hnp, hnp']
  rw [lsh_predictChunk_perm le b b' hp d t pr hnp hg]

/-- `fit` on the same rows in any order (same width, hence the same hyper-planes from the same draws) -/
theorem lsh_impFit_perm (b : Bandit α) (d t : Nat) (pr : Option (List Rat)) (hnp : b.np = .lsh d t pr) (hg : CFGood b.lp)
    (batch batch' : Batch α) (hb : batch'.Perm batch) (hw : batchWidth batch' = batchWidth batch) (o o' : Oracle) (g : Rng) :
    LshPerm (b.impFit batch o g).1 (b.impFit batch' o' g).1 ∧ (b.impFit batch o g).1.lp = b.lp ∧
      (b.impFit batch o g).1.np = b.np := by
  have i1 := lshInv_fit b d t pr hnp hg.noBinz batch o g
  have i2 := lshInv_fit b d t pr hnp hg.noBinz batch' o' g
  have hnb : ∀ x : Batch α, npBinarize b.lp x = (b.lp, x) := by
    intro x; unfold npBinarize; rw [hg.noBinz]; cases b.lp.kind <;> rfl
  refine ⟨⟨?_, ?_, i1, i2⟩, ?_, ?_⟩
  · simp only [Bandit.impFit, hnp, hnb, hw, lshFitOp]
  · simp only [Bandit.impFit, hnp, hnb, lshFitOp]; exact hb
  · simp only [Bandit.impFit, hnp, hnb, lshFitOp]
  · simp only [Bandit.impFit, hnp, hnb, lshFitOp]

theorem lsh_impPartialFit_perm (b b' : Bandit α) (hp : LshPerm b b') (d t : Nat) (pr : Option (List Rat))
    (hnp : b.np = .lsh d t pr) (hg : CFGood b.lp) (batch batch' : Batch α) (hb : batch'.Perm batch) (o o' : Oracle) (g : Rng) :
    LshPerm (b.impPartialFit batch o g).1 (b'.impPartialFit batch' o' g).1 ∧
      (b.impPartialFit batch o g).1.lp = b.lp ∧ (b.impPartialFit batch o g).1.np = b.np := by
  have hnp' : b'.np = .lsh d t pr := by rw [hp.same]; exact hnp
  have hlp : b'.lp = b.lp := by rw [hp.same]
  have i1 := lshInv_partialFit b d t pr hnp hg.noBinz batch o g hp.inv
  have i2 := lshInv_partialFit b' d t pr hnp' (by rw [hlp]; exact hg.noBinz) batch' o' g hp.inv'
  have hnb : ∀ x : Batch α, npBinarize b.lp x = (b.lp, x) := by
    intro x; unfold npBinarize; rw [hg.noBinz]; cases b.lp.kind <;> rfl
  refine ⟨⟨?_, ?_, i1, i2⟩, ?_, ?_⟩
  · simp only [Bandit.impPartialFit, hnp, hnp', hlp, hnb, lshFitOp]
    rw [hp.same]
  · simp only [Bandit.impPartialFit, hnp, hnp', hlp, hnb, lshFitOp]; exact hp.perm.append hb
  · simp only [Bandit.impPartialFit, hnp, hnb, lshFitOp]
  · simp only [Bandit.impPartialFit, hnp, hnb, lshFitOp]

/-- **C20 (row order under LSHNearest, end to end).**  Fit on any permutation of the data (rows of one width),
    continue with partial fits each receiving any permutation of its batch: every later `predict` /
    `predict_expectations` returns what it returns for the original order. -/
theorem lsh_row_order (le : Expect → Expect → Bool) (b : Bandit α) (d t : Nat) (pr : Option (List Rat))
    (hnp : b.np = .lsh d t pr) (hg : CFGood b.lp)
    (batch batch' : Batch α) (hb : batch'.Perm batch) (hw : batchWidth batch' = batchWidth batch)
    (more : List (Batch α × Batch α)) (hmore : ∀ p ∈ more, p.2.Perm p.1)
    (o : Oracle) (g : Rng) (isPredict : Bool) (mm : Option Nat) (qs : List Vec) (oq : Oracle) (gq : Rng) :
    ((more.foldl (fun acc p => (acc.impPartialFit p.2 o g).1) (b.impFit batch' o g).1).impPredict le isPredict mm qs oq gq).2 =
      ((more.foldl (fun acc p => (acc.impPartialFit p.1 o g).1) (b.impFit batch o g).1).impPredict le isPredict mm qs oq gq).2 := by
  have h0 := lsh_impFit_perm b d t pr hnp hg batch batch' hb hw o o g
  have key : ∀ (l : List (Batch α × Batch α)) (c c' : Bandit α), (∀ p ∈ l, p.2.Perm p.1) →
      LshPerm c c' → c.np = .lsh d t pr → CFGood c.lp →
      LshPerm (l.foldl (fun acc p => (acc.impPartialFit p.1 o g).1) c) (l.foldl (fun acc p => (acc.impPartialFit p.2 o g).1) c') ∧
        (l.foldl (fun acc p => (acc.impPartialFit p.1 o g).1) c).np = .lsh d t pr ∧
        CFGood (l.foldl (fun acc p => (acc.impPartialFit p.1 o g).1) c).lp := by
    intro l
    induction l with
    | nil => intro c c' _ h1 h2 h3; exact ⟨h1, h2, h3⟩
    | cons p l ih =>
      intro c c' hl h1 h2 h3
      simp only [List.foldl_cons]
      obtain ⟨s1, s3, s4⟩ := lsh_impPartialFit_perm c c' h1 d t pr h2 h3 p.1 p.2 (hl p (List.mem_cons_self)) o o g
      exact ih _ _ (fun q hq => hl q (List.mem_cons_of_mem _ hq)) s1 (by rw [s4]; exact h2) (by rw [s3]; exact h3)
  obtain ⟨k1, k2, k3⟩ := key more _ _ hmore h0.1 (by rw [h0.2.2]; exact hnp) (by rw [h0.2.1]; exact hg)
  exact lsh_impPredict_perm le _ _ k1 d t pr k2 k3 isPredict mm qs oq gq

/-- the hypotheses are satisfiable: a UCB1 policy over two arms is a context-free policy in a well-formed state -/
example : CFGood (LP.init (.ucb 1) [1, 2] : LP Nat) := ⟨⟨rfl, by decide⟩, rfl⟩
example : CFGood (LP.init (.linUCB 1 1) [1, 2] : LP Nat) := ⟨⟨rfl, by decide⟩, rfl⟩

end Mab
