/-
  C17b — a rejected call changes nothing, along whole histories.

  `rejected_noop` (C17) is about one call.  Here: take **any** history of facade calls, some of which are
  rejected in the state they meet.  Erasing the rejected calls from the history changes neither the
  bandit the history ends in nor what any accepted call returned or requested from its sampler.
-/
import MabModel.Props.C17
import MabModel.Props.C10b
import MabModel.Props.C08c
open Py
set_option linter.unusedSectionVars false
set_option linter.unusedVariables false
set_option linter.unusedSimpArgs false

namespace Mab
variable {α : Type} [DecidableEq α]

/-- the history with the calls erased that are rejected in the state they meet -/
def Bandit.accepted (le : Expect → Expect → Bool) (b : Bandit α) : History α → History α
  | [] => []
  | (op, o, g) :: t =>
    if (b.step le op o g).2.1.err.isSome then Bandit.accepted le b t
    else (op, o, g) :: Bandit.accepted le (b.step le op o g).1 t

theorem err_isSome_ne_none {β : Type} (e : Option β) (h : e.isSome = true) : e ≠ none := by
  cases e <;> simp_all

/-- **C17 (every history), state.**  The bandit after a history is the bandit after the same history
    without its rejected calls. -/
theorem runHist_erase_rejected (le : Expect → Expect → Bool) (h : History α) : ∀ b : Bandit α,
    b.runHist le h = b.runHist le (b.accepted le h) := by
  induction h with
  | nil => intro b; rfl
  | cons c t ih =>
    intro b
    obtain ⟨op, o, g⟩ := c
    simp only [Bandit.accepted]
    by_cases hr : (b.step le op o g).2.1.err.isSome = true
    · rw [if_pos hr]
      have hb := (rejected_noop le b op o g (err_isSome_ne_none _ hr)).1
      simp only [Bandit.runHist]
      rw [hb]
      exact ih b
    · rw [if_neg hr]
      simp only [Bandit.runHist]
      exact ih _

/-- **C17 (every history), observations.**  What the accepted calls return and request is what they
    return and request in the history without the rejected calls: filtering the error entries out of the
    outputs of the full history gives the outputs of the erased history. -/
theorem runOuts_erase_rejected (le : Expect → Expect → Bool) (h : History α) : ∀ b : Bandit α,
    (b.runOuts le h).filter (fun r => !r.1.err.isSome) = b.runOuts le (b.accepted le h) := by
  induction h with
  | nil => intro b; rfl
  | cons c t ih =>
    intro b
    obtain ⟨op, o, g⟩ := c
    simp only [Bandit.accepted, Bandit.runOuts, List.filter_cons]
    by_cases hr : (b.step le op o g).2.1.err.isSome = true
    · rw [if_pos hr]
      have hb := (rejected_noop le b op o g (err_isSome_ne_none _ hr)).1
      simp only [hr, Bool.not_true, Bool.false_eq_true, if_false]
      rw [hb]
      exact ih b
    · rw [if_neg hr]
      simp only [Bool.not_eq_true] at hr
      simp only [hr, Bool.not_false, if_true, Bandit.runOuts]
      rw [ih]

/-- no call of the erased history is rejected: the erased history is the history a caller who never
    made a mistake would have issued -/
theorem accepted_all_ok (le : Expect → Expect → Bool) (h : History α) : ∀ b : Bandit α,
    ∀ r ∈ b.runOuts le (b.accepted le h), r.1.err = none := by
  induction h with
  | nil => intro b r hr; simp [Bandit.accepted, Bandit.runOuts] at hr
  | cons c t ih =>
    intro b r hr
    obtain ⟨op, o, g⟩ := c
    simp only [Bandit.accepted] at hr
    by_cases hx : (b.step le op o g).2.1.err.isSome = true
    · rw [if_pos hx] at hr
      exact ih b r hr
    · rw [if_neg hx] at hr
      simp only [Bandit.runOuts, List.mem_cons] at hr
      rcases hr with hr | hr
      · rw [hr]
        cases hc : (b.step le op o g).2.1.err with
        | none => rfl
        | some e => rw [hc] at hx; simp at hx
      · exact ih _ r hr

/-- a rejected call also hands its tape back untouched (the caller's generator is where it was) -/
theorem rejected_tape_untouched (le : Expect → Expect → Bool) (b : Bandit α) (op : Op α) (o : Oracle) (g : Rng)
    (h : (b.step le op o g).2.1.err.isSome = true) : (b.step le op o g).2.2 = g :=
  (rejected_noop le b op o g (err_isSome_ne_none _ h)).2

/-! non-vacuity: a history with two rejected calls (wrong width, duplicate arm) around an accepted
    partial_fit; erasing leaves exactly the accepted call -/
def c17bHist : History Nat :=
  [(.partialFit { decisions := [0], rewards := [some 1], contexts := some [[0, 0, 0]] }, {}, { tape := [] }),
   (.partialFit { decisions := [1], rewards := [some 1], contexts := some [[2, 2]] }, {}, { tape := [] }),
   (.addArm (.ok 1) none, {}, { tape := [] })]

example : (c17Bandit.accepted (fun _ _ => true) c17bHist).length = 1 := by decide +kernel
example : ((c17Bandit.runOuts (fun _ _ => true) c17bHist).map (·.1.err)) = [some .shape, none, some .value] := by
  decide +kernel

end Mab
