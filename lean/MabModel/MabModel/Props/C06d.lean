/-
  C06d — incremental training equals batch training, at the facade (no neighbourhood policy).

  `chunked_eq_batch_full` (C06b) is about the policy's own `fit` / `partial_fit`.  Here the calls are the
  facade's: `MAB.fit(c₀)` followed by any number of `MAB.partial_fit(cᵢ)`, each accepted, leave the policy
  in exactly the state `fit` on the concatenated batches leaves it in.
-/
import MabModel.Props.C01b
import MabModel.Props.C06b
open Py
set_option linter.unusedSectionVars false
set_option linter.unusedVariables false
set_option linter.unusedSimpArgs false

namespace Mab
variable {α : Type} [DecidableEq α]

def partialCalls (ps : List (TrainArgs α × Oracle × Rng)) : History α :=
  ps.map fun p => (.partialFit p.1, p.2.1, p.2.2)

/-- an accepted `partial_fit` on a fitted bandit: the bandit stays fitted and the trace entry is a
    policy-level `partial_fit` of the converted batch -/
theorem accepted_partial (le : Expect → Expect → Bool) (b : Bandit α) (a : TrainArgs α) (o : Oracle) (g : Rng)
    (hnp : b.np = .none) (hf : b.isFit = true) (hacc : (b.step le (.partialFit a) o g).2.1.err.isSome = false) :
    (b.step le (.partialFit a) o g).1.isFit = true ∧
    b.lpOpOf le (.partialFit a) o g = some (.partialFit a.toBatch) := by
  refine ⟨?_, by simp [Bandit.lpOpOf, hacc, hf]⟩
  simp only [Bandit.step, Bandit.train, Bool.true_and] at hacc ⊢
  cases hv : b.validateTrain a with
  | some e => simp [hv] at hacc
  | none =>
    simp only [hv] at hacc ⊢
    cases hs : b.trainShapeErr a.toBatch b.isFit with
    | some e => simp [hs] at hacc
    | none => simp [hs, hf, Bandit.impPartialFit, hnp]

theorem accepted_fit (le : Expect → Expect → Bool) (b : Bandit α) (a : TrainArgs α) (o : Oracle) (g : Rng)
    (hacc : (b.step le (.fit a) o g).2.1.err.isSome = false) :
    (b.step le (.fit a) o g).1.isFit = true ∧
    b.lpOpOf le (.fit a) o g = some (.fit a.toBatch (batchWidth a.toBatch)) := by
  refine ⟨?_, by simp [Bandit.lpOpOf, hacc]⟩
  simp only [Bandit.step, Bandit.train, Bool.false_and] at hacc ⊢
  cases hv : b.validateTrain a with
  | some e => simp [hv] at hacc
  | none =>
    simp only [hv] at hacc ⊢
    cases hs : b.trainShapeErr a.toBatch false with
    | some e => simp [hs] at hacc
    | none => simp [hs]

/-- all calls of the history are accepted -/
def Bandit.allAccepted (le : Expect → Expect → Bool) (b : Bandit α) (h : History α) : Prop :=
  ∀ r ∈ b.runOuts le h, r.1.err.isSome = false

theorem partialCalls_trace (le : Expect → Expect → Bool) (ps : List (TrainArgs α × Oracle × Rng)) :
    ∀ b : Bandit α, b.np = .none → b.isFit = true → b.allAccepted le (partialCalls ps) →
    b.lpTrace le (partialCalls ps) = ps.map fun p => LPOp.partialFit p.1.toBatch := by
  induction ps with
  | nil => intro b _ _ _; rfl
  | cons p ps ih =>
    intro b hnp hf hacc
    obtain ⟨a, o, g⟩ := p
    have h0 : (b.step le (.partialFit a) o g).2.1.err.isSome = false := by
      apply hacc; simp [partialCalls, Bandit.runOuts]
    obtain ⟨hf', hop⟩ := accepted_partial le b a o g hnp hf h0
    have hnp' : (b.step le (.partialFit a) o g).1.np = .none := by rw [step_np]; exact hnp
    have hacc' : (b.step le (.partialFit a) o g).1.allAccepted le (partialCalls ps) := by
      intro r hr; apply hacc
      simp only [partialCalls, List.map_cons, Bandit.runOuts, List.mem_cons]
      exact Or.inr hr
    have := ih _ hnp' hf' hacc'
    simp only [partialCalls, List.map_cons, Bandit.lpTrace] at this ⊢
    rw [hop, this]
    rfl

/-- **C06 at the facade.**  `fit(c₀)` then `partial_fit(c₁)`, …, `partial_fit(cₙ)` through the public API,
    every call accepted, from any reachable bandit without neighbourhood policy: the policy is in the state
    of one `fit` on `c₀ ++ c₁ ++ … ++ cₙ` (every statistic, expectation, flag, model and counter). -/
theorem facade_incremental_eq_batch (le : Expect → Expect → Bool) (b : Bandit α) (hi : BInv b) (hnp : b.np = .none)
    (a₀ : TrainArgs α) (o₀ : Oracle) (g₀ : Rng) (ps : List (TrainArgs α × Oracle × Rng))
    (hw : b.lp.kind.isLinear = true → (batchWidth a₀.toBatch).isSome)
    (hacc : b.allAccepted le ((.fit a₀, o₀, g₀) :: partialCalls ps)) :
    (b.runHist le ((.fit a₀, o₀, g₀) :: partialCalls ps)).lp =
      b.lp.fit (a₀.toBatch ++ (ps.map fun p => p.1.toBatch).flatten) (batchWidth a₀.toBatch) := by
  have hwf := (hi.lp (by intro n; rw [hnp]; simp)).1
  have htr : ∀ c ∈ ((Op.fit a₀, o₀, g₀) :: partialCalls ps), c.1.isTraining = true := by
    intro c hc
    simp only [List.mem_cons, partialCalls, List.mem_map] at hc
    rcases hc with hc | ⟨p, _, hp⟩
    · rw [hc]; rfl
    · rw [← hp]; rfl
  rw [runHist_lp le _ b hi hnp htr]
  have h0 : (b.step le (.fit a₀) o₀ g₀).2.1.err.isSome = false := by
    apply hacc; simp [Bandit.runOuts]
  obtain ⟨hf', hop⟩ := accepted_fit le b a₀ o₀ g₀ h0
  have hnp' : (b.step le (.fit a₀) o₀ g₀).1.np = .none := by rw [step_np]; exact hnp
  have hacc' : (b.step le (.fit a₀) o₀ g₀).1.allAccepted le (partialCalls ps) := by
    intro r hr; apply hacc
    simp only [Bandit.runOuts, List.mem_cons]
    exact Or.inr hr
  have htrace := partialCalls_trace le ps _ hnp' hf' hacc'
  simp only [Bandit.lpTrace]
  rw [hop, htrace]
  have := chunked_eq_batch_full b.lp hwf (batchWidth a₀.toBatch) hw (ps.map fun p => p.1.toBatch) a₀.toBatch
  simp only [chunkedOps, List.map_map] at this
  simpa [Function.comp_def] using this

/-! non-vacuity: the hypotheses are met by a concrete history (fit + two partial fits, one empty) -/
def c06dFit : TrainArgs Nat := { decisions := [0, 1, 0], rewards := [some 1, some 0, some 0], contexts := none }
def c06dParts : List (TrainArgs Nat × Oracle × Rng) :=
  [({ decisions := [], rewards := [], contexts := none }, {}, { tape := [] }),
   ({ decisions := [1, 0], rewards := [some 1, some 1], contexts := none }, {}, { tape := [] })]

example : ∀ r ∈ (Bandit.init [0, 1] (.greedy 0) .none none false).runOuts (fun _ _ => true)
    ((.fit c06dFit, {}, { tape := [] }) :: partialCalls c06dParts), r.1.err.isSome = false := by decide +kernel

end Mab
