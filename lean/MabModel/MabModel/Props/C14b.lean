/-
  C14b — the binarizer along a whole history.

  `fit_binarizer_once` / `partialFit_binarizer_once` (C14) speak about one call.  Here: for **every**
  history of fit / partial_fit / add_arm / remove_arm, the policy holding a binarizer goes through
  exactly the states of the policy without binarizer that is fed the same history with every training
  batch converted once — no reward is converted twice (a conversion on a later call, on add_arm or on
  remove_arm would break the equality) and none is missed.
-/
import MabModel.Props.C14
import MabModel.Props.C06b
open Py
set_option linter.unusedSectionVars false
set_option linter.unusedVariables false
set_option linter.unusedSimpArgs false

namespace Mab
variable {α : Type} [DecidableEq α]

/-- the history the twin without binarizer is given: training batches converted by `s`'s binarizer -/
def LPOp.binarizeWith (s : LP α) : LPOp α → LPOp α
  | .fit b w => .fit (s.binarize b) w
  | .partialFit b => .partialFit (s.binarize b)
  | .addArm a => .addArm a
  | .removeArm a => .removeArm a

theorem binarize_congr (s t : LP α) (hb : t.binz = s.binz) (hc : t.ctxBin = s.ctxBin) (b : Batch α) :
    t.binarize b = s.binarize b := by
  unfold LP.binarize; rw [hb, hc]

theorem binarizeWith_congr (s t : LP α) (hb : t.binz = s.binz) (hc : t.ctxBin = s.ctxBin) (op : LPOp α) :
    LPOp.binarizeWith t op = LPOp.binarizeWith s op := by
  cases op <;> simp [LPOp.binarizeWith, binarize_congr s t hb hc]

theorem addArm_withBinz (s : LP α) (f : Option (α → Rat → Rat)) (a : α) :
    (s.withBinz f).addArm a = (s.addArm a).withBinz f := by
  unfold LP.addArm
  have : (s.withBinz f).insertArm a none = (s.insertArm a none).withBinz f := by
    obtain ⟨kind, arms, total, st, binz, ctxBin, nf, k1⟩ := s
    cases kind <;> rfl
  rw [this, expOp_withBinz]

theorem removeArm_withBinz (s : LP α) (f : Option (α → Rat → Rat)) (a : α) :
    (s.withBinz f).removeArm a = (s.removeArm a).withBinz f := by
  unfold LP.removeArm
  have : (s.withBinz f).dropArm a = (s.dropArm a).withBinz f := rfl
  rw [this, expOp_withBinz, normalize_withBinz]

/-- one call: the step of the policy with binarizer is the step of the twin on the converted call -/
theorem stepOp_binarizer_once (s : LP α) (op : LPOp α) :
    s.stepOp op = (s.noBinz.stepOp (LPOp.binarizeWith s op)).withBinz s.binz := by
  have hs : s = s.noBinz.withBinz s.binz := rfl
  cases op with
  | fit b w => exact fit_binarizer_once s b w
  | partialFit b => exact partialFit_binarizer_once s b
  | addArm a =>
    simp only [LPOp.binarizeWith, LP.stepOp]
    have ha : s.noBinz.arms = s.arms := rfl
    rw [ha]
    split
    · exact hs
    · conv => lhs; rw [hs]
      exact addArm_withBinz s.noBinz s.binz a
  | removeArm a =>
    simp only [LPOp.binarizeWith, LP.stepOp]
    have ha : s.noBinz.arms = s.arms := rfl
    rw [ha]
    split
    · conv => lhs; rw [hs]
      exact removeArm_withBinz s.noBinz s.binz a
    · exact hs

theorem expOp_binzFlag (s : LP α) : s.expOp.binz = s.binz ∧ s.expOp.ctxBin = s.ctxBin := by
  obtain ⟨st', e⟩ := expOp_onlySt s; rw [e]; exact ⟨rfl, rfl⟩

theorem normalize_binzFlag (s : LP α) : s.normalize.binz = s.binz ∧ s.normalize.ctxBin = s.ctxBin := by
  obtain ⟨st', e⟩ := normalize_onlySt s; rw [e]; exact ⟨rfl, rfl⟩

/-- no call of the history replaces the binarizer or the "already converted" flag -/
theorem stepOp_binz (s : LP α) (op : LPOp α) :
    (s.stepOp op).binz = s.binz ∧ (s.stepOp op).ctxBin = s.ctxBin := by
  cases op with
  | fit b w => exact ⟨(fit_config s b w).1, (fit_config s b w).2.1⟩
  | partialFit b => exact ⟨(partialFit_config s b).1, (partialFit_config s b).2.1⟩
  | addArm a =>
    simp only [LP.stepOp]
    split
    · exact ⟨rfl, rfl⟩
    · unfold LP.addArm
      have h := expOp_binzFlag (s.insertArm a none)
      rw [h.1, h.2]
      obtain ⟨kind, arms, total, st, binz, ctxBin, nf, k1⟩ := s
      cases kind <;> exact ⟨rfl, rfl⟩
  | removeArm a =>
    simp only [LP.stepOp]
    split
    · unfold LP.removeArm
      have h1 := normalize_binzFlag (s.dropArm a).expOp
      have h2 := expOp_binzFlag (s.dropArm a)
      rw [h1.1, h1.2, h2.1, h2.2]
      exact ⟨rfl, rfl⟩
    · exact ⟨rfl, rfl⟩

theorem noBinz_withBinz_of_none (x : LP α) (f : Option (α → Rat → Rat)) (h : x.binz = none) :
    (x.withBinz f).noBinz = x := by
  obtain ⟨kind, arms, total, st, binz, ctxBin, nf, k1⟩ := x
  simp only at h
  subst h
  rfl

/-- **C14 (every history).**  Running any history on a policy that holds a binarizer is running the
    converted history — every training batch converted exactly once, by the binarizer and flag the
    policy was constructed with — on the twin without binarizer, and putting the binarizer back.  The
    equality is one of full states: statistics, Beta counters, expectations, arms, flags. -/
theorem run_binarizer_once (s : LP α) (ops : List (LPOp α)) :
    s.run ops = (s.noBinz.run (ops.map (LPOp.binarizeWith s))).withBinz s.binz := by
  unfold LP.run
  induction ops generalizing s with
  | nil => rfl
  | cons op ops ih =>
    simp only [List.map_cons, List.foldl_cons]
    have hb := stepOp_binz s op
    have hnb : (s.noBinz.stepOp (LPOp.binarizeWith s op)).binz = none :=
      (stepOp_binz s.noBinz (LPOp.binarizeWith s op)).1
    have hstep := stepOp_binarizer_once s op
    have hno : (s.stepOp op).noBinz = s.noBinz.stepOp (LPOp.binarizeWith s op) := by
      rw [hstep]; exact noBinz_withBinz_of_none _ _ hnb
    have hmap : ops.map (LPOp.binarizeWith (s.stepOp op)) = ops.map (LPOp.binarizeWith s) :=
      List.map_congr_left (fun o _ => binarizeWith_congr s (s.stepOp op) hb.1 hb.2 o)
    rw [ih (s.stepOp op), hmap, hno, hb.1]

/-- the Beta counters a Thompson policy holds after any history are those of the twin trained on the
    converted rewards: with `cf_thompson_counts` (C01) they count, per arm, the rewards whose
    *conversion* is 1 resp. 0 since the arm's last fit / add — every reward counted once. -/
theorem run_binarizer_once_state (s : LP α) (ops : List (LPOp α)) :
    (s.run ops).st = (s.noBinz.run (ops.map (LPOp.binarizeWith s))).st ∧
    (s.run ops).arms = (s.noBinz.run (ops.map (LPOp.binarizeWith s))).arms ∧
    (s.run ops).binz = s.binz := by
  rw [run_binarizer_once s ops]
  exact ⟨rfl, rfl, rfl⟩

/-- chunked training: with a binarizer, fit + partial fits on any chunking is one fit of the twin on the
    converted concatenation (C06b's `chunked_eq_batch_full` read through the binarizer) -/
theorem chunked_binarizer_once (s : LP α) (h : s.WF) (w : Option Nat) (hw : s.kind.isLinear = true → w.isSome)
    (c₀ : Batch α) (cs : List (Batch α)) :
    s.run (chunkedOps w c₀ cs) = (s.noBinz.fit (s.binarize (c₀ ++ cs.flatten)) w).withBinz s.binz := by
  rw [chunked_eq_batch_full s h w hw cs c₀]
  exact fit_binarizer_once s _ w

/-! ### the log the counters are computed from is the converted log -/

/-- the converted log of one arm: `binarizer(arm, reward)` for each of its observations, in order -/
def convLog (f : α → Rat → Rat) (a : α) (l : List (Rat × Vec)) : List (Rat × Vec) := l.map fun p => (f a p.1, p.2)

theorem rowsOf_converted (f : α → Rat → Rat) (b : Batch α) (a : α) :
    rowsOf (b.map fun r => { r with reward := f r.arm r.reward }) a = convLog f a (rowsOf b a) := by
  unfold rowsOf convLog
  induction b with
  | nil => rfl
  | cons r b ih =>
    simp only [List.map_cons, List.filter_cons]
    by_cases h : r.arm = a
    · simp only [h, decide_true, if_true, List.map_cons, ih]
    · simp only [h, decide_false, Bool.false_eq_true, if_false]
      exact ih

/-- the relation between the abstract log of the history and that of the converted history -/
def ConvRel (f : α → Rat → Rat) (t t' : Spec α) : Prop :=
  t'.arms = t.arms ∧ t'.N = t.N ∧ ∀ a, t'.log a = convLog f a (t.log a)

theorem convRel_step (f : α → Rat → Rat) (s : LP α) (hf : s.binz = some f) (hc : s.ctxBin = false)
    (t t' : Spec α) (h : ConvRel f t t') (op : LPOp α) :
    ConvRel f (t.step op) (t'.step (LPOp.binarizeWith s op)) := by
  obtain ⟨ha, hN, hl⟩ := h
  cases op with
  | fit b w =>
    simp only [LPOp.binarizeWith, Spec.step, binarize_spec s f b hf hc]
    exact ⟨ha, by simp, fun a => rowsOf_converted f b a⟩
  | partialFit b =>
    simp only [LPOp.binarizeWith, Spec.step, binarize_spec s f b hf hc]
    refine ⟨ha, by simp [hN], fun a => ?_⟩
    simp only [rowsOf_converted, hl a, convLog, List.map_append]
  | addArm x =>
    simp only [LPOp.binarizeWith, Spec.step, ha]
    split
    · exact ⟨ha, hN, hl⟩
    · refine ⟨by simp [ha], hN, fun a => ?_⟩
      simp only
      split
      · rfl
      · exact hl a
  | removeArm x =>
    simp only [LPOp.binarizeWith, Spec.step, ha]
    split
    · exact ⟨by simp [ha], hN, hl⟩
    · exact ⟨ha, hN, hl⟩

theorem convRel_run (f : α → Rat → Rat) (s : LP α) (hf : s.binz = some f) (hc : s.ctxBin = false)
    (ops : List (LPOp α)) (t t' : Spec α) (h : ConvRel f t t') :
    ConvRel f (t.run ops) (t'.run (ops.map (LPOp.binarizeWith s))) := by
  unfold Spec.run
  induction ops generalizing t t' with
  | nil => exact h
  | cons op ops ih =>
    simp only [List.map_cons, List.foldl_cons]
    exact ih _ _ (convRel_step f s hf hc t t' h op)

/-- **C14 + C01, Thompson Sampling with a binarizer, every history.**  After any history of fit /
    partial_fit / add_arm / remove_arm the Beta parameters of every current arm are one plus the number of
    that arm's observations (since its last fit / add) whose *converted* reward is 1, and one plus the
    number whose converted reward is 0 — each observation converted and counted exactly once. -/
theorem thompson_counts_binarized (f : α → Rat → Rat) (arms : List α) (hn : arms.Nodup) (ops : List (LPOp α))
    (a : α) (ha : a ∈ ((LP.init .thompson arms (some f) false).run ops).arms) :
    let log := convLog f a (((Spec.init arms).run ops).log a)
    (((LP.init .thompson arms (some f) false).run ops).st.get? a).map (fun r => (r.succ, r.fail)) =
      some (1 + lsum log, 1 + ((log.length : Rat) - lsum log)) := by
  intro log
  have hs : (LP.init .thompson arms (some f) false) = (LP.init .thompson arms none false).withBinz (some f) := rfl
  have hnb : (LP.init .thompson arms (some f) false).noBinz = LP.init .thompson arms none false := rfl
  have hrun := run_binarizer_once (LP.init .thompson arms (some f) false) ops
  rw [hnb] at hrun
  have ha' : a ∈ ((LP.init .thompson arms none false).run
      (ops.map (LPOp.binarizeWith (LP.init .thompson arms (some f) false)))).arms := by
    rw [hrun] at ha; exact ha
  have hcnt := cf_thompson_counts arms hn _ a ha'
  have hrel := convRel_run f (LP.init .thompson arms (some f) false) rfl rfl ops (Spec.init arms) (Spec.init arms)
    ⟨rfl, rfl, fun _ => rfl⟩
  simp only at hcnt
  rw [hrel.2.2 a] at hcnt
  rw [hrun]
  exact hcnt

/-! non-vacuity: a non-idempotent binarizer (r ↦ 1 if r ≤ 1/2 else 0) over a history with an omitted
    arm, an added arm and a removed arm; the twin receives the converted rewards -/
def c14bBinz : Nat → Rat → Rat := fun _ r => if r ≤ (1 : Rat) / 2 then 1 else 0

def c14bOps : List (LPOp Nat) :=
  [.fit [{ arm := 1, reward := 0 }, { arm := 2, reward := 1 }, { arm := 1, reward := 1 }] none,
   .addArm 3, .partialFit [{ arm := 3, reward := 0 }, { arm := 2, reward := 0 }], .removeArm 1,
   .partialFit [{ arm := 2, reward := 1 }]]

example : (((LP.init .thompson [1, 2] none false).withBinz (some c14bBinz)).run c14bOps).expDict =
    ((LP.init .thompson [1, 2] none false).run
      [.fit [{ arm := 1, reward := 1 }, { arm := 2, reward := 0 }, { arm := 1, reward := 0 }] none,
       .addArm 3, .partialFit [{ arm := 3, reward := 1 }, { arm := 2, reward := 1 }], .removeArm 1,
       .partialFit [{ arm := 2, reward := 0 }]]).expDict := by decide +kernel

end Mab
