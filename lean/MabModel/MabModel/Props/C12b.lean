/-
  C12 (continued) — TreeBandit: per arm and leaf, the stored reward list is exactly that arm's rewards whose
  leaf (under the arm's own tree, an oracle) it is, across fit and any partial_fits; a query reads exactly the
  list of the query's leaf.
-/
import MabModel.Props.C12
open Py
set_option linter.unusedSectionVars false
set_option linter.unusedVariables false
set_option linter.unusedSimpArgs false

namespace Mab
variable {α : Type} [DecidableEq α]

/-- the rewards among `rs` (an arm's rows of a batch) whose leaf, according to `lv`, is `l` -/
def leafSlice (rs : List (Rat × Vec)) (lv : List Nat) (l : Nat) : List Rat :=
  ((List.zip rs lv).filter fun rl => rl.2 = l).map (·.1.1)

/-- what `_fit_arm` does to one arm's leaf store -/
def leafFold (rs : List (Rat × Vec)) (lv : List Nat) (d : Dict Nat (List Rat)) : Dict Nat (List Rat) :=
  (List.zip rs lv).foldl (fun d rl => d.set rl.2 (d.getD rl.2 [] ++ [rl.1.1])) d

theorem getD_set (d : Dict Nat (List Rat)) (k k' : Nat) (v : List Rat) :
    (d.set k v).getD k' [] = if k' = k then v else d.getD k' [] := by
  unfold Dict.getD
  by_cases h : k' = k
  · subst h; rw [Dict.get?_set_eq]; simp
  · rw [Dict.get?_set_ne _ _ _ _ h]; simp [h]

/-- **C12 (TreeBandit, one training call).**  After `_fit_arm`, the list stored for leaf `l` is the list
    stored before followed by exactly those rewards of the arm's batch rows that fell into leaf `l`,
    in batch order. -/
theorem leafFold_spec (rs : List (Rat × Vec)) (lv : List Nat) (l : Nat) :
    ∀ d : Dict Nat (List Rat), (leafFold rs lv d).getD l [] = d.getD l [] ++ leafSlice rs lv l := by
  unfold leafFold leafSlice
  generalize List.zip rs lv = z
  induction z with
  | nil => intro d; simp
  | cons p z ih =>
    intro d
    simp only [List.foldl_cons, List.filter_cons]
    rw [ih, getD_set]
    by_cases h : p.2 = l
    · simp [h]
    · have h' : ¬ l = p.2 := fun e => h e.symm
      simp [h, h']

/-- the per-arm tasks of `_TreeBandit._parallel_fit`, folded over (arm, position) pairs -/
def treeFold (batch : Batch α) (leaves : List (List Nat)) (l : List (α × Nat)) (lr : Dict α (Dict Nat (List Rat))) :=
  l.foldl (fun lr (p : α × Nat) =>
    let rs := rowsOf batch p.1
    if rs.length = 0 then lr
    else
      let lv := leaves.getD p.2 []
      lr.modify p.1 fun d => (List.zip rs lv).foldl (fun d rl => d.set rl.2 (d.getD rl.2 [] ++ [rl.1.1])) d) lr

theorem treeFold_get (batch : Batch α) (leaves : List (List Nat)) :
    ∀ (l : List (α × Nat)) (lr : Dict α (Dict Nat (List Rat))) (a : α) (i : Nat),
      (l.map (·.1)).Nodup → (a, i) ∈ l →
      (treeFold batch leaves l lr).get? a =
        (lr.get? a).map fun d => if (rowsOf batch a).length = 0 then d else leafFold (rowsOf batch a) (leaves.getD i []) d := by
  intro l
  induction l with
  | nil => intro lr a i _ h; simp at h
  | cons p l ih =>
    intro lr a i hnd hmem
    simp only [List.map_cons, List.nodup_cons] at hnd
    simp only [treeFold, List.foldl_cons]
    rcases List.mem_cons.mp hmem with e | e
    · -- this is `a`'s own task; the remaining tasks do not touch `a`
      subst e
      have hrest : ∀ (l' : List (α × Nat)) (lr' : Dict α (Dict Nat (List Rat))), a ∉ l'.map (·.1) →
          (treeFold batch leaves l' lr').get? a = lr'.get? a := by
        intro l'
        induction l' with
        | nil => intro lr' _; rfl
        | cons q l' ih' =>
          intro lr' hq
          simp only [List.map_cons, List.mem_cons, not_or] at hq
          simp only [treeFold, List.foldl_cons]
          have := ih' (if (rowsOf batch q.1).length = 0 then lr'
            else lr'.modify q.1 fun d => (List.zip (rowsOf batch q.1) (leaves.getD q.2 [])).foldl
              (fun d rl => d.set rl.2 (d.getD rl.2 [] ++ [rl.1.1])) d) hq.2
          simp only [treeFold] at this
          rw [this]
          split
          · rfl
          · exact Dict.get?_modify_ne _ _ _ _ hq.1
      have := hrest l (if (rowsOf batch a).length = 0 then lr
            else lr.modify a fun d => (List.zip (rowsOf batch a) (leaves.getD i [])).foldl
              (fun d rl => d.set rl.2 (d.getD rl.2 [] ++ [rl.1.1])) d) hnd.1
      simp only [treeFold] at this
      rw [this]
      by_cases hz : (rowsOf batch a).length = 0
      · simp [hz]
      · simp only [hz, if_false]
        rw [Dict.get?_modify_eq]
        rfl
    · have hne : a ≠ p.1 := by
        intro e2; apply hnd.1; rw [← e2]; exact List.mem_map.mpr ⟨(a, i), e, rfl⟩
      have := ih (if (rowsOf batch p.1).length = 0 then lr
            else lr.modify p.1 fun d => (List.zip (rowsOf batch p.1) (leaves.getD p.2 [])).foldl
              (fun d rl => d.set rl.2 (d.getD rl.2 [] ++ [rl.1.1])) d) a i hnd.2 e
      simp only [treeFold] at this
      rw [this]
      congr 1
      by_cases hz : (rowsOf batch p.1).length = 0
      · simp only [hz, if_true]
      · simp only [hz, if_false]
        exact Dict.get?_modify_ne _ _ _ _ hne

/-- **C12 (TreeBandit, training).**  For the arm at position `i` of a duplicate-free arm list, one
    training call appends to the list of every leaf `l` exactly the rewards of *that arm's* batch rows
    that the oracle (the arm's own tree) puts into leaf `l` — nothing from other arms, nothing from
    other leaves. -/
theorem tree_leaf_rewards (b : Bandit α) (batch : Batch α) (leaves : List (List Nat)) (a : α) (i : Nat)
    (hn : b.arms.Nodup) (hi : b.arms[i]? = some a) (d0 : Dict Nat (List Rat)) (hd : b.leafRewards.get? a = some d0) (l : Nat) :
    ∃ d1, (treeFitArms b batch leaves).leafRewards.get? a = some d1 ∧
      d1.getD l [] = d0.getD l [] ++ leafSlice (rowsOf batch a) (leaves.getD i []) l := by
  have hmem : (a, i) ∈ b.arms.zipIdx := by
    rw [List.mem_zipIdx_iff_getElem?]; simpa using hi
  have hnd : (b.arms.zipIdx.map (·.1)).Nodup := by
    have : b.arms.zipIdx.map (·.1) = b.arms := by simp
    rw [this]; exact hn
  have := treeFold_get batch leaves b.arms.zipIdx b.leafRewards a i hnd hmem
  simp only [treeFold] at this
  simp only [treeFitArms]
  rw [this, hd]
  simp only [Option.map_some]
  refine ⟨_, rfl, ?_⟩
  by_cases hz : (rowsOf batch a).length = 0
  · have : rowsOf batch a = [] := List.eq_nil_of_length_eq_zero hz
    simp [hz, this, leafSlice]
  · simp only [hz, if_false]
    exact leafFold_spec _ _ l d0

end Mab

namespace Mab
variable {α : Type} [DecidableEq α]

/-- **C12 (TreeBandit, `fit`).**  After `fit`, leaf `l` of the arm at position `i` holds exactly the
    rewards of that arm's (binarizer-converted) training rows the arm's tree puts into leaf `l`. -/
theorem tree_fit_leaf (b : Bandit α) (hnp : b.np = .tree) (batch : Batch α) (o : Oracle) (g : Rng) (a : α) (i : Nat)
    (hn : b.arms.Nodup) (hi : b.arms[i]? = some a) (l : Nat) :
    ∃ d1, (b.impFit batch o g).1.leafRewards.get? a = some d1 ∧
      d1.getD l [] = leafSlice (rowsOf (npBinarize b.lp batch).2 a) (o.leaves.getD i []) l := by
  have ha : a ∈ b.arms := List.mem_of_getElem? hi
  simp only [Bandit.impFit, hnp]
  have hd : (Dict.fromKeys b.arms ([] : Dict Nat (List Rat))).get? a = some [] := Dict.get?_fromKeys _ _ _ ha
  obtain ⟨d1, h1, h2⟩ := tree_leaf_rewards { b with lp := (npBinarize b.lp batch).1, leafRewards := Dict.fromKeys b.arms [] }
    (npBinarize b.lp batch).2 o.leaves a i hn hi [] hd l
  refine ⟨d1, h1, ?_⟩
  rw [h2]; simp [Dict.getD, Dict.get?]

/-- **C12 (TreeBandit, `partial_fit`).**  `partial_fit` appends, per leaf, exactly the new rewards of
    that arm that fall into the leaf (the tree stays as it is); earlier observations are kept. -/
theorem tree_partialFit_leaf (b : Bandit α) (hnp : b.np = .tree) (batch : Batch α) (o : Oracle) (g : Rng) (a : α) (i : Nat)
    (hn : b.arms.Nodup) (hi : b.arms[i]? = some a) (d0 : Dict Nat (List Rat)) (hd : b.leafRewards.get? a = some d0) (l : Nat) :
    ∃ d1, (b.impPartialFit batch o g).1.leafRewards.get? a = some d1 ∧
      d1.getD l [] = d0.getD l [] ++ leafSlice (rowsOf (npBinarize b.lp batch).2 a) (o.leaves.getD i []) l := by
  simp only [Bandit.impPartialFit, hnp]
  exact tree_leaf_rewards { b with lp := (npBinarize b.lp batch).1 } (npBinarize b.lp batch).2 o.leaves a i hn hi d0 hd l

/-- the per-arm fold of `_TreeBandit._predict_contexts` for one row -/
def treeRowFold (b : Bandit α) (qleaf : List Nat) (l : List (α × Nat)) (acc : ExpDict α × Rng) : ExpDict α × Rng :=
  l.foldl (fun (acc : ExpDict α × Rng) (p : α × Nat) =>
    let lr := b.leafRewards.getD p.1 []
    if lr.length = 0 then acc
    else
      let (e, g) := b.treeLeafExp p.1 (lr.getD (qleaf.getD p.2 0) []) acc.2
      (acc.1.set p.1 e, g)) acc

theorem treeRowFold_other (b : Bandit α) (qleaf : List Nat) (a : α) :
    ∀ (l : List (α × Nat)) (acc : ExpDict α × Rng), a ∉ l.map (·.1) →
      (treeRowFold b qleaf l acc).1.get? a = acc.1.get? a := by
  intro l
  induction l with
  | nil => intro acc _; rfl
  | cons p l ih =>
    intro acc hq
    simp only [List.map_cons, List.mem_cons, not_or] at hq
    simp only [treeRowFold, List.foldl_cons]
    by_cases hz : (b.leafRewards.getD p.1 []).length = 0
    · simp only [hz, if_true]
      exact ih acc hq.2
    · simp only [hz, if_false]
      have := ih ((acc.1.set p.1 (b.treeLeafExp p.1 ((b.leafRewards.getD p.1 []).getD (qleaf.getD p.2 0) []) acc.2).1),
        (b.treeLeafExp p.1 ((b.leafRewards.getD p.1 []).getD (qleaf.getD p.2 0) []) acc.2).2) hq.2
      simp only [treeRowFold] at this
      rw [this]
      exact Dict.get?_set_ne _ _ _ _ hq.1

/-- **C12 (TreeBandit, query).**  For an arm that has observations, the expectation reported for a
    query row is the learning policy's statistic (a fresh single-arm policy `fit` on a reward list)
    over exactly the rewards stored for the leaf the arm's tree assigns to the query — for some
    state `g'` of the generator the leaf policies draw from (K3: that generator is the bandit's). -/
theorem tree_row_arm (b : Bandit α) (qleaf : List Nat) (a : α) (i : Nat)
    (hlr : (b.leafRewards.getD a []).length ≠ 0) :
    ∀ (l : List (α × Nat)) (acc : ExpDict α × Rng), (l.map (·.1)).Nodup → (a, i) ∈ l →
      ∃ g', (treeRowFold b qleaf l acc).1.get? a =
        some (b.treeLeafExp a ((b.leafRewards.getD a []).getD (qleaf.getD i 0) []) g').1 := by
  intro l
  induction l with
  | nil => intro acc _ h; simp at h
  | cons p l ih =>
    intro acc hnd hmem
    simp only [List.map_cons, List.nodup_cons] at hnd
    rcases List.mem_cons.mp hmem with e | e
    · subst e
      refine ⟨acc.2, ?_⟩
      simp only [treeRowFold, List.foldl_cons, hlr, if_false]
      have := treeRowFold_other b qleaf a l
        ((acc.1.set a (b.treeLeafExp a ((b.leafRewards.getD a []).getD (qleaf.getD i 0) []) acc.2).1),
         (b.treeLeafExp a ((b.leafRewards.getD a []).getD (qleaf.getD i 0) []) acc.2).2) hnd.1
      simp only [treeRowFold] at this
      rw [this]
      exact Dict.get?_set_eq _ _ _
    · simp only [treeRowFold, List.foldl_cons]
      by_cases hz : (b.leafRewards.getD p.1 []).length = 0
      · simp only [hz, if_true]
        exact ih acc hnd.2 e
      · simp only [hz, if_false]
        exact ih _ hnd.2 e

theorem treeRow_exps (le : Expect → Expect → Bool) (b : Bandit α) (qleaf : List Nat) (g : Rng) :
    (b.treeRow le false qleaf g).1 = .inl (treeRowFold b qleaf b.arms.zipIdx (b.npExp, g)).1 := by
  simp only [Bandit.treeRow, treeRowFold]
  rfl

/-- `predict_expectations` of a TreeBandit row, arm by arm -/
theorem tree_leaf_exact (le : Expect → Expect → Bool) (b : Bandit α) (qleaf : List Nat) (g : Rng) (a : α) (i : Nat)
    (hn : b.arms.Nodup) (hi : b.arms[i]? = some a) (hlr : (b.leafRewards.getD a []).length ≠ 0) :
    ∃ g' d, (b.treeRow le false qleaf g).1 = .inl d ∧
      d.get? a = some (b.treeLeafExp a ((b.leafRewards.getD a []).getD (qleaf.getD i 0) []) g').1 := by
  have hmem : (a, i) ∈ b.arms.zipIdx := by
    rw [List.mem_zipIdx_iff_getElem?]; simpa using hi
  have hnd : (b.arms.zipIdx.map (·.1)).Nodup := by
    have : b.arms.zipIdx.map (·.1) = b.arms := by simp
    rw [this]; exact hn
  obtain ⟨g', hg⟩ := tree_row_arm b qleaf a i hlr b.arms.zipIdx (b.npExp, g) hnd hmem
  exact ⟨g', _, treeRow_exps le b qleaf g, hg⟩

end Mab
