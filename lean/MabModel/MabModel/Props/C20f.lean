/-
  C20 (continued) — relabelling equivariance of prediction under every neighbourhood policy and of the whole
  facade: the relabelled bandit answers every query with the renamed outputs, consumes the random streams
  identically, and ends in the relabelled state — for every history.
-/
import MabModel.Props.C20e
open Py
set_option linter.unusedSectionVars false
set_option linter.unusedVariables false
set_option linter.unusedSimpArgs false
set_option linter.unnecessarySeqFocus false

namespace Mab
variable {α β : Type} [DecidableEq α] [DecidableEq β]

/-- renaming one per-row result (`predict_expectations` on the left, `predict` on the right) -/
def renameRes (f : α → β) : ExpDict α ⊕ (Option α × ExpDict α) → ExpDict β ⊕ (Option β × ExpDict β)
  | .inl d => .inl (renameD f d)
  | .inr p => .inr (p.1.map f, renameD f p.2)

def renameArmOut (f : α → β) (p : Option α × ExpDict α) : Option β × ExpDict β := (p.1.map f, renameD f p.2)

variable (f : α → β) (finv : β → α) (hinv : ∀ a, finv (f a) = a)

theorem selectIdx_relabel (b : Bandit α) (q : Vec) (rd : List Rat) (ks : List Nat) :
    (b.relabel f finv).selectIdx q rd ks = b.selectIdx q rd ks := by
  unfold Bandit.selectIdx
  have hnp : (b.relabel f finv).np = b.np := rfl
  have hh : (b.relabel f finv).hist.map (fun h => h.ctx) = b.hist.map (fun h => h.ctx) := relabelBatch_ctx f b.hist
  have hd : ∀ m : Metric, (b.relabel f finv).hist.map (fun h => distExact m h.ctx q) = b.hist.map (fun h => distExact m h.ctx q) := by
    intro m
    have := congrArg (List.map fun c => distExact m c q) hh
    simpa [List.map_map, Function.comp_def] using this
  rw [hnp]
  cases b.np <;> simp only [hd] <;> rfl

theorem filterMap_getElem?_relabel (h : Batch α) (idx : List Nat) :
    (idx.filterMap fun j => (relabelBatch f h)[j]?) = relabelBatch f (idx.filterMap fun j => h[j]?) := by
  induction idx with
  | nil => rfl
  | cons j idx ih =>
    simp only [List.filterMap_cons, relabelBatch, List.getElem?_map] at ih ⊢
    cases h[j]? with
    | none => simpa using ih
    | some r => simp [ih]

theorem toList_headD_map {γ δ : Type} (o : Out γ) (h : γ → δ) (d : γ) :
    ((o.map h).toList.headD (h d)) = h (o.toList.headD d) := by
  cases o with
  | one x => rfl
  | many l => cases l <;> rfl

include hinv

/-- **C20 (relabelling, one query row under Radius / KNearest / LSHNearest).** -/
theorem nhoodRow_relabel (le : Expect → Expect → Bool) (b : Bandit α) (isPredict : Bool) (lp : LP α) (i : Nat) (q : Vec)
    (rd : List Rat) (ks : List Nat) (g : Rng) :
    (b.relabel f finv).nhoodRow le isPredict (lp.relabel f finv) i q rd ks g =
      ((b.nhoodRow le isPredict lp i q rd ks g).1.relabel f finv,
       renameRes f (b.nhoodRow le isPredict lp i q rd ks g).2.1,
       (b.nhoodRow le isPredict lp i q rd ks g).2.2.1,
       (b.nhoodRow le isPredict lp i q rd ks g).2.2.2) := by
  unfold Bandit.nhoodRow
  rw [selectIdx_relabel]
  have hhist : (b.relabel f finv).hist = relabelBatch f b.hist := rfl
  simp only [hhist, filterMap_getElem?_relabel, fit_relabel f finv hinv]
  split
  · split
    · rw [predict_relabel f finv hinv]
      simp only [renameRes]
      refine Prod.ext rfl (Prod.ext ?_ rfl)
      simp only []
      congr 1
      exact toList_headD_map _ (fun p => (p.1.map f, renameD f p.2)) (none, [])
    · rw [predictExp_relabel f finv hinv]
      simp only [renameRes]
      refine Prod.ext rfl (Prod.ext ?_ rfl)
      simp only []
      congr 1
      exact toList_headD_map _ (renameD f) []
  · split
    · simp only [renameRes, Bandit.relabel, List.getElem?_map, renameK_eq_renameD]
    · simp only [renameRes, Bandit.relabel, renameK_eq_renameD]

/-- the expectation a leaf reports does not depend on the label of the arm -/
theorem treeLeafExp_relabel (b : Bandit α) (a : α) (rewards : List Rat) (g : Rng) :
    (b.relabel f finv).treeLeafExp (f a) rewards g = b.treeLeafExp a rewards g := by
  have hi := init_relabel f finv b.lp.kind [a] b.lp.binz false
  simp only [List.map_cons, List.map_nil] at hi
  have hbatch : (rewards.map fun r => ({ arm := f a, reward := r } : Row β)) =
      relabelBatch f (rewards.map fun r => ({ arm := a, reward := r } : Row α)) := by
    simp [relabelBatch, List.map_map, Function.comp_def]
  have hl : ({ LP.init (b.relabel f finv).lp.kind [f a] (b.relabel f finv).lp.binz with ctxBin := false } : LP β) =
      ({ LP.init b.lp.kind [a] b.lp.binz with ctxBin := false } : LP α).relabel f finv := by
    show ({ LP.init b.lp.kind [f a] (b.lp.binz.map fun g x => g (finv x)) false with ctxBin := false } : LP β) = _
    rw [hi]; rfl
  simp only [Bandit.treeLeafExp]
  rw [hl, hbatch, fit_relabel f finv hinv, predictExp_relabel f finv hinv]
  simp only []
  refine Prod.ext ?_ rfl
  simp only []
  have h1 : ∀ o : Out (ExpDict α), (o.map (renameD f)).toList.headD [] = renameD f (o.toList.headD []) :=
    fun o => toList_headD_map o (renameD f) []
  rw [h1, get?_renameD f finv hinv]

theorem treeFold_relabel (b : Bandit α) (qleaf : List Nat) (l : List (α × Nat)) : ∀ (d0 : ExpDict α) (g : Rng),
    l.foldl (fun (acc : ExpDict β × Rng) (p : α × Nat) =>
        if ((b.relabel f finv).leafRewards.getD (f p.1) []).length = 0 then acc
        else
          (acc.1.set (f p.1) ((b.relabel f finv).treeLeafExp (f p.1)
              (((b.relabel f finv).leafRewards.getD (f p.1) []).getD (qleaf.getD p.2 0) []) acc.2).1,
            ((b.relabel f finv).treeLeafExp (f p.1)
              (((b.relabel f finv).leafRewards.getD (f p.1) []).getD (qleaf.getD p.2 0) []) acc.2).2)) (renameD f d0, g) =
      (renameD f (l.foldl (fun (acc : ExpDict α × Rng) (p : α × Nat) =>
        if (b.leafRewards.getD p.1 []).length = 0 then acc
        else
          (acc.1.set p.1 (b.treeLeafExp p.1 ((b.leafRewards.getD p.1 []).getD (qleaf.getD p.2 0) []) acc.2).1,
            (b.treeLeafExp p.1 ((b.leafRewards.getD p.1 []).getD (qleaf.getD p.2 0) []) acc.2).2)) (d0, g)).1,
       (l.foldl (fun (acc : ExpDict α × Rng) (p : α × Nat) =>
        if (b.leafRewards.getD p.1 []).length = 0 then acc
        else
          (acc.1.set p.1 (b.treeLeafExp p.1 ((b.leafRewards.getD p.1 []).getD (qleaf.getD p.2 0) []) acc.2).1,
            (b.treeLeafExp p.1 ((b.leafRewards.getD p.1 []).getD (qleaf.getD p.2 0) []) acc.2).2)) (d0, g)).2) := by
  induction l with
  | nil => intro d0 g; rfl
  | cons p l ih =>
    intro d0 g
    simp only [List.foldl_cons]
    have hlr : (b.relabel f finv).leafRewards.getD (f p.1) [] = b.leafRewards.getD p.1 [] :=
      getD_renameK f finv hinv b.leafRewards p.1 []
    rw [hlr, treeLeafExp_relabel f finv hinv]
    split
    · exact ih d0 g
    · have hs : (renameD f d0).set (f p.1) (b.treeLeafExp p.1 ((b.leafRewards.getD p.1 []).getD (qleaf.getD p.2 0) []) g).1 =
          renameD f (d0.set p.1 (b.treeLeafExp p.1 ((b.leafRewards.getD p.1 []).getD (qleaf.getD p.2 0) []) g).1) :=
        set_renameK f finv hinv d0 p.1 _
      rw [hs]
      exact ih _ _

/-- **C20 (relabelling, one query row under TreeBandit).** -/
theorem treeRow_relabel (le : Expect → Expect → Bool) (b : Bandit α) (isPredict : Bool) (qleaf : List Nat) (g : Rng) :
    (b.relabel f finv).treeRow le isPredict qleaf g =
      (renameRes f (b.treeRow le isPredict qleaf g).1, (b.treeRow le isPredict qleaf g).2) := by
  unfold Bandit.treeRow
  have harms : (b.relabel f finv).arms = b.arms.map f := rfl
  have hexp : (b.relabel f finv).npExp = renameD f b.npExp := rfl
  have hk : (b.relabel f finv).lp.kind = b.lp.kind := rfl
  simp only [harms, hexp, hk, List.zipIdx_map, List.foldl_map, Prod.map_fst, Prod.map_snd, id_eq]
  rw [treeFold_relabel f finv hinv b qleaf b.arms.zipIdx b.npExp g]
  simp only []
  split
  · cases b.lp.kind <;> simp only [renameRes, renameD, argmaxFirst_relabel f le]
    split <;> simp only [renameRes, renameD, argmaxFirst_relabel f le, List.getElem?_map]
  · simp only [renameRes]

omit hinv in
theorem foldl_rel {A B X : Type} (R : A → B → Prop) (fa : A → X → A) (fb : B → X → B)
    (h : ∀ a b x, R a b → R (fa a x) (fb b x)) : ∀ (l : List X) (a : A) (b : B), R a b → R (l.foldl fa a) (l.foldl fb b) := by
  intro l
  induction l with
  | nil => intro a b r; exact r
  | cons x l ih => intro a b r; exact ih _ _ (h a b x r)

/-- the accumulator of the relabelled worker is the relabelled accumulator -/
def chunkRel (f : α → β) (finv : β → α) (acc : LP α × List (ExpDict α ⊕ (Option α × ExpDict α)) × List Bool × Rng)
    (acc' : LP β × List (ExpDict β ⊕ (Option β × ExpDict β)) × List Bool × Rng) : Prop :=
  acc' = (acc.1.relabel f finv, acc.2.1.map (renameRes f), acc.2.2.1, acc.2.2.2)

def clusterRel (f : α → β) (finv : β → α) (acc : List (LP α) × List (ExpDict α ⊕ (Option α × ExpDict α)) × Rng)
    (acc' : List (LP β) × List (ExpDict β ⊕ (Option β × ExpDict β)) × Rng) : Prop :=
  acc' = (acc.1.map (LP.relabel f finv), acc.2.1.map (renameRes f), acc.2.2)

def treeRel (f : α → β) (acc : List (ExpDict α ⊕ (Option α × ExpDict α)) × Rng)
    (acc' : List (ExpDict β ⊕ (Option β × ExpDict β)) × Rng) : Prop :=
  acc' = (acc.1.map (renameRes f), acc.2)

omit hinv in
theorem unpriv_relabel (lp0 : LP α) :
    ({ lp0.relabel f finv with st := (lp0.relabel f finv).st.mapKV fun _ r => { r with rngPriv := false } } : LP β) =
      ({ lp0 with st := lp0.st.mapKV fun _ r => { r with rngPriv := false } } : LP α).relabel f finv := by
  simp only [LP.relabel, relabelDict, Dict.mapKV, List.map_map]
  congr 1

omit hinv in
theorem getD_map_relabel (l : List (LP α)) (c : Nat) :
    (l.map (LP.relabel f finv)).getD c default = (l.getD c default).relabel f finv := by
  simp only [List.getD_eq_getElem?_getD, List.getElem?_map]
  cases l[c]? <;> rfl

omit hinv in
theorem default_relabel : (default : LP α).relabel f finv = (default : LP β) := rfl

/-- **C20 (relabelling, one worker's chunk of query rows, every neighbourhood policy).** -/
theorem predictChunk_relabel (le : Expect → Expect → Bool) (b : Bandit α) (isPredict : Bool) (qs : List Vec) (start : Nat)
    (o : Oracle) (g : Rng) :
    (b.relabel f finv).predictChunk le isPredict qs start o g =
      ((b.predictChunk le isPredict qs start o g).1.map (renameRes f), (b.predictChunk le isPredict qs start o g).2.1,
       (b.predictChunk le isPredict qs start o g).2.2) := by
  unfold Bandit.predictChunk
  have hnp : (b.relabel f finv).np = b.np := rfl
  rw [hnp]
  have nh : ∀ l : List (Vec × Nat),
      chunkRel f finv
        (l.foldl (fun acc p =>
          ((b.nhoodRow le isPredict acc.1 (start + p.2) p.1 (o.dists.getD (start + p.2) []) (o.ksets.getD (start + p.2) []) acc.2.2.2).1,
           acc.2.1 ++ [(b.nhoodRow le isPredict acc.1 (start + p.2) p.1 (o.dists.getD (start + p.2) []) (o.ksets.getD (start + p.2) []) acc.2.2.2).2.1],
           acc.2.2.1 ++ [(b.nhoodRow le isPredict acc.1 (start + p.2) p.1 (o.dists.getD (start + p.2) []) (o.ksets.getD (start + p.2) []) acc.2.2.2).2.2.1],
           (b.nhoodRow le isPredict acc.1 (start + p.2) p.1 (o.dists.getD (start + p.2) []) (o.ksets.getD (start + p.2) []) acc.2.2.2).2.2.2)) (b.lp, [], [], g))
        (l.foldl (fun acc p =>
          (((b.relabel f finv).nhoodRow le isPredict acc.1 (start + p.2) p.1 (o.dists.getD (start + p.2) []) (o.ksets.getD (start + p.2) []) acc.2.2.2).1,
           acc.2.1 ++ [((b.relabel f finv).nhoodRow le isPredict acc.1 (start + p.2) p.1 (o.dists.getD (start + p.2) []) (o.ksets.getD (start + p.2) []) acc.2.2.2).2.1],
           acc.2.2.1 ++ [((b.relabel f finv).nhoodRow le isPredict acc.1 (start + p.2) p.1 (o.dists.getD (start + p.2) []) (o.ksets.getD (start + p.2) []) acc.2.2.2).2.2.1],
           ((b.relabel f finv).nhoodRow le isPredict acc.1 (start + p.2) p.1 (o.dists.getD (start + p.2) []) (o.ksets.getD (start + p.2) []) acc.2.2.2).2.2.2))
          ((b.relabel f finv).lp, [], [], g)) := by
    intro l
    refine foldl_rel (chunkRel f finv) _ _ ?_ l _ _ rfl
    intro a a' x hR
    unfold chunkRel at hR ⊢
    subst hR
    simp only []
    rw [nhoodRow_relabel f finv hinv]
    simp only [List.map_append, List.map_cons, List.map_nil]
  cases hk : b.np with
  | none => rfl
  | radius r m p =>
    simp only []
    have := nh qs.zipIdx
    unfold chunkRel at this
    rw [this]
  | knn k m =>
    simp only []
    have := nh qs.zipIdx
    unfold chunkRel at this
    rw [this]
  | lsh nd nt p =>
    simp only []
    have := nh qs.zipIdx
    unfold chunkRel at this
    rw [this]
  | clusters n =>
    simp only []
    have cl : ∀ l : List (Vec × Nat),
        clusterRel f finv
          (l.foldl (fun acc p =>
            if isPredict then
              ((acc.1.set (o.cells.getD (start + p.2) 0)
                  (({ acc.1.getD (o.cells.getD (start + p.2) 0) default with
                      st := (acc.1.getD (o.cells.getD (start + p.2) 0) default).st.mapKV fun _ r => { r with rngPriv := false } } : LP α).predict
                    le (some 1) [p.1] (.row (start + p.2)) acc.2.2).1),
               acc.2.1 ++ [.inr ((({ acc.1.getD (o.cells.getD (start + p.2) 0) default with
                      st := (acc.1.getD (o.cells.getD (start + p.2) 0) default).st.mapKV fun _ r => { r with rngPriv := false } } : LP α).predict
                    le (some 1) [p.1] (.row (start + p.2)) acc.2.2).2.1.toList.headD (none, []))],
               (({ acc.1.getD (o.cells.getD (start + p.2) 0) default with
                      st := (acc.1.getD (o.cells.getD (start + p.2) 0) default).st.mapKV fun _ r => { r with rngPriv := false } } : LP α).predict
                    le (some 1) [p.1] (.row (start + p.2)) acc.2.2).2.2)
            else
              ((acc.1.set (o.cells.getD (start + p.2) 0)
                  (({ acc.1.getD (o.cells.getD (start + p.2) 0) default with
                      st := (acc.1.getD (o.cells.getD (start + p.2) 0) default).st.mapKV fun _ r => { r with rngPriv := false } } : LP α).predictExp
                    (some 1) [p.1] (.row (start + p.2)) acc.2.2).1),
               acc.2.1 ++ [.inl ((({ acc.1.getD (o.cells.getD (start + p.2) 0) default with
                      st := (acc.1.getD (o.cells.getD (start + p.2) 0) default).st.mapKV fun _ r => { r with rngPriv := false } } : LP α).predictExp
                    (some 1) [p.1] (.row (start + p.2)) acc.2.2).2.1.toList.headD [])],
               (({ acc.1.getD (o.cells.getD (start + p.2) 0) default with
                      st := (acc.1.getD (o.cells.getD (start + p.2) 0) default).st.mapKV fun _ r => { r with rngPriv := false } } : LP α).predictExp
                    (some 1) [p.1] (.row (start + p.2)) acc.2.2).2.2)) (b.lps, [], g))
          (l.foldl (fun acc p =>
            if isPredict then
              ((acc.1.set (o.cells.getD (start + p.2) 0)
                  (({ acc.1.getD (o.cells.getD (start + p.2) 0) default with
                      st := (acc.1.getD (o.cells.getD (start + p.2) 0) default).st.mapKV fun _ r => { r with rngPriv := false } } : LP β).predict
                    le (some 1) [p.1] (.row (start + p.2)) acc.2.2).1),
               acc.2.1 ++ [.inr ((({ acc.1.getD (o.cells.getD (start + p.2) 0) default with
                      st := (acc.1.getD (o.cells.getD (start + p.2) 0) default).st.mapKV fun _ r => { r with rngPriv := false } } : LP β).predict
                    le (some 1) [p.1] (.row (start + p.2)) acc.2.2).2.1.toList.headD (none, []))],
               (({ acc.1.getD (o.cells.getD (start + p.2) 0) default with
                      st := (acc.1.getD (o.cells.getD (start + p.2) 0) default).st.mapKV fun _ r => { r with rngPriv := false } } : LP β).predict
                    le (some 1) [p.1] (.row (start + p.2)) acc.2.2).2.2)
            else
              ((acc.1.set (o.cells.getD (start + p.2) 0)
                  (({ acc.1.getD (o.cells.getD (start + p.2) 0) default with
                      st := (acc.1.getD (o.cells.getD (start + p.2) 0) default).st.mapKV fun _ r => { r with rngPriv := false } } : LP β).predictExp
                    (some 1) [p.1] (.row (start + p.2)) acc.2.2).1),
               acc.2.1 ++ [.inl ((({ acc.1.getD (o.cells.getD (start + p.2) 0) default with
                      st := (acc.1.getD (o.cells.getD (start + p.2) 0) default).st.mapKV fun _ r => { r with rngPriv := false } } : LP β).predictExp
                    (some 1) [p.1] (.row (start + p.2)) acc.2.2).2.1.toList.headD [])],
               (({ acc.1.getD (o.cells.getD (start + p.2) 0) default with
                      st := (acc.1.getD (o.cells.getD (start + p.2) 0) default).st.mapKV fun _ r => { r with rngPriv := false } } : LP β).predictExp
                    (some 1) [p.1] (.row (start + p.2)) acc.2.2).2.2)) ((b.relabel f finv).lps, [], g)) := by
      intro l
      refine foldl_rel (clusterRel f finv) _ _ ?_ l _ _ rfl
      intro a a' x hR
      unfold clusterRel at hR ⊢
      subst hR
      simp only []
      rw [getD_map_relabel, unpriv_relabel]
      split
      · rw [predict_relabel f finv hinv]
        simp only [List.map_set, List.map_append, List.map_cons, List.map_nil, renameRes]
        refine Prod.ext rfl (Prod.ext ?_ rfl)
        simp only []
        congr 3
        exact toList_headD_map _ (fun p => (p.1.map f, renameD f p.2)) (none, [])
      · rw [predictExp_relabel f finv hinv]
        simp only [List.map_set, List.map_append, List.map_cons, List.map_nil, renameRes]
        refine Prod.ext rfl (Prod.ext ?_ rfl)
        simp only []
        congr 3
        exact toList_headD_map _ (renameD f) []
    have := cl qs.zipIdx
    unfold clusterRel at this
    rw [this]
  | tree =>
    simp only []
    have tr : ∀ l : List (Vec × Nat),
        treeRel f
          (l.foldl (fun acc p =>
            (acc.1 ++ [(b.treeRow le isPredict (o.qleaves.getD (start + p.2) []) acc.2).1],
             (b.treeRow le isPredict (o.qleaves.getD (start + p.2) []) acc.2).2)) ([], g))
          (l.foldl (fun acc p =>
            (acc.1 ++ [((b.relabel f finv).treeRow le isPredict (o.qleaves.getD (start + p.2) []) acc.2).1],
             ((b.relabel f finv).treeRow le isPredict (o.qleaves.getD (start + p.2) []) acc.2).2)) ([], g)) := by
      intro l
      refine foldl_rel (treeRel f) _ _ ?_ l _ _ rfl
      intro a a' x hR
      unfold treeRel at hR ⊢
      subst hR
      simp only []
      rw [treeRow_relabel f finv hinv]
      simp only [List.map_append, List.map_cons, List.map_nil]
    have := tr qs.zipIdx
    unfold treeRel at this
    rw [this]

theorem parallelPredict_relabel (le : Expect → Expect → Bool) (b : Bandit α) (isPredict : Bool) (qs : List Vec) (o : Oracle) (g : Rng) :
    (b.relabel f finv).parallelPredict le isPredict qs o g =
      ((b.parallelPredict le isPredict qs o g).1.map (renameRes f), (b.parallelPredict le isPredict qs o g).2.1,
       (b.parallelPredict le isPredict qs o g).2.2) := by
  unfold Bandit.parallelPredict
  simp only []
  rw [predictChunk_relabel f finv hinv]

omit hinv in
theorem splitOuts_relabel (l : List (ExpDict α ⊕ (Option α × ExpDict α))) :
    splitOuts (l.map (renameRes f)) = ((splitOuts l).1.map (renameD f), (splitOuts l).2.map (renameArmOut f)) := by
  unfold splitOuts
  refine Prod.ext ?_ ?_
  · simp only [List.filterMap_map, List.map_filterMap]
    congr 1
    funext x
    cases x <;> rfl
  · simp only [List.filterMap_map, List.map_filterMap]
    congr 1
    funext x
    cases x <;> rfl

omit hinv in
theorem unwrap_map_renameArmOut (l : List (Option α × ExpDict α)) :
    Out.unwrap (l.map (renameArmOut f)) = (Out.unwrap l).map (renameArmOut f) := by
  unfold Out.unwrap
  simp only [List.length_map]
  split
  · rfl
  · cases l <;> rfl

/-- renaming what one query returns -/
def PredOut.rename (f : α → β) (o : PredOut α) : PredOut β :=
  { exps := o.exps.map (renameD f), arms := o.arms.map (renameArmOut f), ties := o.ties }

/-- **C20 (relabelling, `predict` / `predict_expectations` of the whole bandit).**  The relabelled bandit
    returns the renamed outputs (arms renamed, expectations keyed by the new names in the same order),
    consumes the random streams identically and ends in the relabelled state. -/
theorem impPredict_relabel (le : Expect → Expect → Bool) (b : Bandit α) (isPredict : Bool) (m : Option Nat) (qs : List Vec)
    (o : Oracle) (g : Rng) :
    (b.relabel f finv).impPredict le isPredict m qs o g =
      ((b.impPredict le isPredict m qs o g).1.relabel f finv, (b.impPredict le isPredict m qs o g).2.1.rename f,
       (b.impPredict le isPredict m qs o g).2.2) := by
  unfold Bandit.impPredict
  have hnp : (b.relabel f finv).np = b.np := rfl
  have hlp : (b.relabel f finv).lp = b.lp.relabel f finv := rfl
  rw [hnp]
  cases hk : b.np with
  | none =>
    simp only []
    split
    · rw [hlp, predict_relabel f finv hinv]
      simp only [PredOut.rename, Bandit.relabel, Out.map, List.map_nil]
      rfl
    · rw [hlp, predictExp_relabel f finv hinv]
      simp only [PredOut.rename, Bandit.relabel, Out.map, List.map_nil]
  | radius r mt p =>
    simp only []
    rw [parallelPredict_relabel f finv hinv, splitOuts_relabel]
    simp only [PredOut.rename, unwrap_map_renameD, unwrap_map_renameArmOut]
  | knn k mt =>
    simp only []
    rw [parallelPredict_relabel f finv hinv, splitOuts_relabel]
    simp only [PredOut.rename, unwrap_map_renameD, unwrap_map_renameArmOut]
  | lsh nd nt p =>
    simp only []
    rw [parallelPredict_relabel f finv hinv, splitOuts_relabel]
    simp only [PredOut.rename, unwrap_map_renameD, unwrap_map_renameArmOut]
  | clusters n =>
    simp only []
    rw [parallelPredict_relabel f finv hinv, splitOuts_relabel]
    simp only [PredOut.rename, unwrap_map_renameD, unwrap_map_renameArmOut]
  | tree =>
    simp only []
    rw [parallelPredict_relabel f finv hinv, splitOuts_relabel]
    simp only [PredOut.rename, unwrap_map_renameD, unwrap_map_renameArmOut]

end Mab
