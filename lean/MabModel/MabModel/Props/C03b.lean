/-
  C03b — Radius / KNearest / LSHNearest at the facade: the stored history is exactly the rows of the accepted
  training calls since the last `fit`, in order.

  `radius_exact` / `knn_valid` (C03) say which *stored* rows a query uses.  That the stored rows are the
  observations the caller delivered — no row of a rejected call, none lost or duplicated, none touched by
  `add_arm` / `remove_arm` — is proved here for every facade history of training-side calls.
-/
import MabModel.Props.C01b
import MabModel.Props.C14b
open Py
set_option linter.unusedSectionVars false
set_option linter.unusedVariables false
set_option linter.unusedSimpArgs false

namespace Mab
variable {α : Type} [DecidableEq α]

def NPCfg.isStored : NPCfg → Bool
  | .radius .. => true
  | .knn .. => true
  | .lsh .. => true
  | _ => false

/-- what one accepted call does to the delivered rows -/
def Bandit.deliverOne (b : Bandit α) (cur : Batch α) : Op α → Batch α
  | .fit a => a.toBatch
  | .partialFit a => if b.isFit then cur ++ a.toBatch else a.toBatch
  | _ => cur

/-- the rows the caller has delivered through accepted calls since the last `fit` -/
def Bandit.delivered (le : Expect → Expect → Bool) (b : Bandit α) (cur : Batch α) : History α → Batch α
  | [] => cur
  | (op, o, g) :: t =>
    let cur' :=
      if (b.step le op o g).2.1.err.isSome then cur else b.deliverOne cur op
    Bandit.delivered le (b.step le op o g).1 cur' t

theorem npBinarize_noBinz (lp : LP α) (batch : Batch α) (h : lp.binz = none) : npBinarize lp batch = (lp, batch) := by
  unfold npBinarize; rw [h]; cases lp.kind <;> rfl

/-- one training-side call on a Radius / KNearest / LSHNearest bandit without binarizer -/
theorem step_hist (le : Expect → Expect → Bool) (b : Bandit α) (op : Op α) (o : Oracle) (g : Rng)
    (hi : BInv b) (hnp : b.np.isStored = true) (hbz : b.lp.binz = none) (ht : op.isTraining = true) :
    (b.step le op o g).1.lp.binz = none ∧
    (b.step le op o g).1.hist =
      (if (b.step le op o g).2.1.err.isSome then b.hist else b.deliverOne b.hist op) := by
  have hnc : ∀ n, b.np ≠ .clusters n := by intro n hc; rw [hc] at hnp; simp [NPCfg.isStored] at hnp
  have harms : b.lp.arms = b.arms := (hi.lp hnc).2
  by_cases hr : (b.step le op o g).2.1.err.isSome = true
  · have hb := (rejected_noop le b op o g (by intro hc; rw [hc] at hr; simp at hr)).1
    simp only [hr, if_true]
    rw [hb]; exact ⟨hbz, rfl⟩
  · simp only [hr]
    cases op with
    | fit a =>
      simp only [Bandit.step, Bandit.train, Bool.false_and] at hr ⊢
      cases hv : b.validateTrain a with
      | some e => simp [hv] at hr
      | none =>
        simp only [hv] at hr ⊢
        cases hs : b.trainShapeErr a.toBatch false with
        | some e => simp [hs] at hr
        | none =>
          cases hk : b.np <;> simp [hk, NPCfg.isStored] at hnp <;>
            simp [Bandit.deliverOne, lshFitOp, hs, Bandit.impFit, hk, npBinarize_noBinz _ _ hbz, hbz]
    | partialFit a =>
      simp only [Bandit.step, Bandit.train, Bool.true_and] at hr ⊢
      cases hv : b.validateTrain a with
      | some e => simp [hv] at hr
      | none =>
        simp only [hv] at hr ⊢
        cases hs : b.trainShapeErr a.toBatch b.isFit with
        | some e => simp [hs] at hr
        | none =>
          by_cases hf : b.isFit = true
          · cases hk : b.np <;> simp [hk, NPCfg.isStored] at hnp <;>
              simp [Bandit.deliverOne, lshFitOp, hs, hf, Bandit.impPartialFit, hk, npBinarize_noBinz _ _ hbz, hbz]
          · simp only [Bool.not_eq_true] at hf
            cases hk : b.np <;> simp [hk, NPCfg.isStored] at hnp <;>
              simp [Bandit.deliverOne, lshFitOp, hs, hf, Bandit.impFit, hk, npBinarize_noBinz _ _ hbz, hbz]
    | addArm arg binz callable =>
      cases binz with
      | some f => simp [Op.isTraining] at ht
      | none =>
        simp only [Bandit.step, Option.isSome_none, Bool.false_eq_true, false_and, if_false] at hr ⊢
        cases arg with
        | ok a =>
          simp only at hr ⊢
          by_cases hm : a ∈ b.arms
          · simp [hm] at hr
          · have hm' : a ∉ b.lp.arms := by rw [harms]; exact hm
            have hbz' : (b.lp.addArm a none).binz = none := by
              have := (stepOp_binz b.lp (.addArm a)).1
              simp only [LP.stepOp, hm', if_false] at this
              rw [this]; exact hbz
            cases hk : b.np <;> simp [hk, NPCfg.isStored] at hnp <;>
              simp [Bandit.deliverOne, hm, Bandit.impAddArm, hk, hbz']
        | _ => simp at hr
    | removeArm arg =>
      simp only [Bandit.step] at hr ⊢
      cases arg with
      | ok a =>
        simp only at hr ⊢
        by_cases hm : a ∈ b.arms
        · have hm' : a ∈ b.lp.arms := by rw [harms]; exact hm
          have hbz' : (b.lp.removeArm a).binz = none := by
            have := (stepOp_binz b.lp (.removeArm a)).1
            simp only [LP.stepOp, hm', if_true] at this
            rw [this]; exact hbz
          cases hk : b.np <;> simp [hk, NPCfg.isStored] at hnp <;>
            simp [Bandit.deliverOne, hm, Bandit.impRemoveArm, hk, hbz']
        · simp [hm] at hr
      | _ => simp at hr
    | predict a => simp [Op.isTraining] at ht
    | predictExp a => simp [Op.isTraining] at ht
    | warmStart w => simp [Op.isTraining] at ht

/-- **C03 at the facade.**  After any facade history of training-side calls on a Radius / KNearest /
    LSHNearest bandit (no binarizer) the stored history is exactly what the accepted calls delivered since the last `fit`. -/
theorem runHist_hist (le : Expect → Expect → Bool) (h : History α) : ∀ b : Bandit α, BInv b →
    b.np.isStored = true → b.lp.binz = none → (∀ c ∈ h, c.1.isTraining = true) →
    (b.runHist le h).hist = b.delivered le b.hist h := by
  induction h with
  | nil => intro b _ _ _ _; rfl
  | cons c t ih =>
    intro b hi hnp hbz ht
    obtain ⟨op, o, g⟩ := c
    have hop : op.isTraining = true := ht (op, o, g) (List.mem_cons_self ..)
    obtain ⟨hbz', hh⟩ := step_hist le b op o g hi hnp hbz hop
    have hi' := binv_step le b op o g hi
    have hnp' : (b.step le op o g).1.np.isStored = true := by rw [step_np]; exact hnp
    have := ih (b.step le op o g).1 hi' hnp' hbz' (fun c hc => ht c (List.mem_cons_of_mem _ hc))
    simp only [Bandit.runHist, Bandit.delivered]
    rw [this, hh]

/-! non-vacuity: fit two rows, a wrong-width `partial_fit` (rejected), `add_arm`, a `partial_fit` of one row:
    three rows are stored, those of the two accepted training calls -/
def c03bHist : History Nat :=
  [(.fit { decisions := [0, 1], rewards := [some 1, some 0], contexts := some [[0, 0], [1, 1]] }, {}, { tape := [] }),
   (.partialFit { decisions := [0], rewards := [some 1], contexts := some [[0, 0, 0]] }, {}, { tape := [] }),
   (.addArm (.ok 2) none, {}, { tape := [] }),
   (.partialFit { decisions := [2], rewards := [some 1], contexts := some [[2, 2]] }, {}, { tape := [] })]

example : (((Bandit.init [0, 1] (.greedy 0) (.radius 1 .cityblock none) none false).runHist (fun _ _ => true) c03bHist).hist.map
    fun r => (r.arm, r.ctx)) = [(0, [0, 0]), (1, [1, 1]), (2, [2, 2])] := by decide +kernel

end Mab
