/-
  C09 (continued) — `predict` = arg-max of `predict_expectations` under the neighbourhood policies, row by row:
  from the same policy copy, the same row generator and the same stream position, the row's prediction is the first
  arm attaining the maximum of the row's expectations; the only exceptions are the ones the property names
  (an empty neighbourhood: NaN expectations and an arm drawn from the configured distribution; TreeBandit with
  EpsilonGreedy, whose exploration exists only inside `predict`).
-/
import MabModel.Props.C09
import MabModel.Props.C20f
open Py
set_option linter.unusedSectionVars false
set_option linter.unusedVariables false
set_option linter.unusedSimpArgs false
set_option linter.unnecessarySeqFocus false

namespace Mab
variable {α : Type} [DecidableEq α]

theorem toList_headD_map' {γ δ : Type} (o : Out γ) (h : γ → δ) (d : γ) (d' : δ) (hd : h d = d') :
    ((o.map h).toList.headD d') = h (o.toList.headD d) := by
  subst hd
  cases o with
  | one x => rfl
  | many l => cases l <;> rfl

/-- **C09 (Radius / KNearest / LSHNearest, one row).**  With a non-empty neighbourhood, `predict` returns the arg-max of
    the very expectations `predict_expectations` returns for that row, leaves the worker's policy copy in the same
    state and has consumed the row generator identically. -/
theorem nhoodRow_predict_eq_argmax (le : Expect → Expect → Bool) (b : Bandit α) (lp : LP α) (i : Nat) (q : Vec)
    (ds : List Rat) (ks : List Nat) (g : Rng) (hne : (b.selectIdx q ds ks).1.length > 0) :
    ∃ d, (b.nhoodRow le false lp i q ds ks g).2.1 = .inl d ∧
      (b.nhoodRow le true lp i q ds ks g).2.1 = .inr (argmaxFirst le d, d) ∧
      (b.nhoodRow le true lp i q ds ks g).1 = (b.nhoodRow le false lp i q ds ks g).1 ∧
      (b.nhoodRow le true lp i q ds ks g).2.2 = (b.nhoodRow le false lp i q ds ks g).2.2 := by
  unfold Bandit.nhoodRow
  simp only [hne, if_true, Bool.false_eq_true, if_false]
  obtain ⟨h1, h2, h3⟩ := predict_eq_argmax le (lp.fit (List.filterMap (fun j => b.hist[j]?) (b.selectIdx q ds ks).1) (some q.length))
    (some 1) [q] (.row i) g
  refine ⟨_, rfl, ?_, h2, ?_⟩
  · rw [h1]
    congr 1
    exact toList_headD_map' _ (fun d => (argmaxFirst le d, d)) [] (none, []) rfl
  · rw [h3]

/-- **C09 (empty neighbourhood, the named exception).**  Expectations are the neighbourhood's NaN record and the arm is
    the one the empty-neighbourhood draw selects. -/
theorem nhoodRow_empty (le : Expect → Expect → Bool) (b : Bandit α) (lp : LP α) (i : Nat) (q : Vec)
    (ds : List Rat) (ks : List Nat) (g : Rng) (he : ¬ (b.selectIdx q ds ks).1.length > 0) :
    (b.nhoodRow le false lp i q ds ks g).2.1 = .inl b.npExp ∧
    ∃ a, (b.nhoodRow le true lp i q ds ks g).2.1 = .inr (a, b.npExp) := by
  unfold Bandit.nhoodRow
  simp only [he, if_false, Bool.false_eq_true, if_true]
  exact ⟨trivial, _, rfl⟩

/-- **C09 (TreeBandit, one row; every leaf policy but EpsilonGreedy).** -/
theorem treeRow_predict_eq_argmax (le : Expect → Expect → Bool) (b : Bandit α) (qleaf : List Nat) (g : Rng)
    (hk : ∀ e, b.lp.kind ≠ .greedy e) :
    ∃ d, (b.treeRow le false qleaf g).1 = .inl d ∧ (b.treeRow le true qleaf g).1 = .inr (argmaxFirst le d, d) ∧
      (b.treeRow le true qleaf g).2 = (b.treeRow le false qleaf g).2 := by
  unfold Bandit.treeRow
  generalize (b.arms.zipIdx.foldl _ (b.npExp, g)) = r
  refine ⟨r.1, ?_, ?_, ?_⟩
  · simp
  · cases hkk : b.lp.kind with
    | greedy e => exact absurd hkk (hk e)
    | _ => simp
  · cases hkk : b.lp.kind with
    | greedy e => exact absurd hkk (hk e)
    | _ => simp

theorem foldl_rel_mem {A B X : Type} (R : A → B → Prop) (fa : A → X → A) (fb : B → X → B) :
    ∀ (l : List X), (∀ a b x, x ∈ l → R a b → R (fa a x) (fb b x)) → ∀ (a : A) (b : B), R a b → R (l.foldl fa a) (l.foldl fb b) := by
  intro l
  induction l with
  | nil => intro _ a b r; exact r
  | cons x l ih =>
    intro h a b r
    exact ih (fun a b y hy => h a b y (List.mem_cons_of_mem _ hy)) _ _ (h a b x List.mem_cons_self r)

/-- what `predict` returns for a row, given what `predict_expectations` returns for it -/
def toPred (le : Expect → Expect → Bool) : ExpDict α ⊕ (Option α × ExpDict α) → ExpDict α ⊕ (Option α × ExpDict α)
  | .inl d => .inr (argmaxFirst le d, d)
  | x => x

def predRel (le : Expect → Expect → Bool) (acc acc' : LP α × List (ExpDict α ⊕ (Option α × ExpDict α)) × List Bool × Rng) : Prop :=
  acc' = (acc.1, acc.2.1.map (toPred le), acc.2.2.1, acc.2.2.2)

/-- **C09 (Radius / KNearest / LSHNearest, a worker's chunk).**  When no row of the chunk has an empty neighbourhood,
    `predict` on the chunk is, row by row, the arg-max of what `predict_expectations` returns on the chunk — same policy
    copies along the way, same ties, same sampler requests. -/
theorem nhood_predictChunk_eq_argmax (le : Expect → Expect → Bool) (b : Bandit α)
    (hnp : (∃ r m p, b.np = .radius r m p) ∨ (∃ k m, b.np = .knn k m) ∨ (∃ d t p, b.np = .lsh d t p))
    (qs : List Vec) (start : Nat) (o : Oracle) (g : Rng)
    (hne : ∀ p ∈ qs.zipIdx, (b.selectIdx p.1 (o.dists.getD (start + p.2) []) (o.ksets.getD (start + p.2) [])).1.length > 0) :
    b.predictChunk le true qs start o g =
      ((b.predictChunk le false qs start o g).1.map (toPred le), (b.predictChunk le false qs start o g).2.1,
       (b.predictChunk le false qs start o g).2.2) := by
  have key : predRel le
      (qs.zipIdx.foldl (fun acc p =>
          ((b.nhoodRow le false acc.1 (start + p.2) p.1 (o.dists.getD (start + p.2) []) (o.ksets.getD (start + p.2) []) acc.2.2.2).1,
           acc.2.1 ++ [(b.nhoodRow le false acc.1 (start + p.2) p.1 (o.dists.getD (start + p.2) []) (o.ksets.getD (start + p.2) []) acc.2.2.2).2.1],
           acc.2.2.1 ++ [(b.nhoodRow le false acc.1 (start + p.2) p.1 (o.dists.getD (start + p.2) []) (o.ksets.getD (start + p.2) []) acc.2.2.2).2.2.1],
           (b.nhoodRow le false acc.1 (start + p.2) p.1 (o.dists.getD (start + p.2) []) (o.ksets.getD (start + p.2) []) acc.2.2.2).2.2.2)) (b.lp, [], [], g))
      (qs.zipIdx.foldl (fun acc p =>
          ((b.nhoodRow le true acc.1 (start + p.2) p.1 (o.dists.getD (start + p.2) []) (o.ksets.getD (start + p.2) []) acc.2.2.2).1,
           acc.2.1 ++ [(b.nhoodRow le true acc.1 (start + p.2) p.1 (o.dists.getD (start + p.2) []) (o.ksets.getD (start + p.2) []) acc.2.2.2).2.1],
           acc.2.2.1 ++ [(b.nhoodRow le true acc.1 (start + p.2) p.1 (o.dists.getD (start + p.2) []) (o.ksets.getD (start + p.2) []) acc.2.2.2).2.2.1],
           (b.nhoodRow le true acc.1 (start + p.2) p.1 (o.dists.getD (start + p.2) []) (o.ksets.getD (start + p.2) []) acc.2.2.2).2.2.2)) (b.lp, [], [], g)) := by
    refine foldl_rel_mem (predRel le) _ _ qs.zipIdx ?_ _ _ rfl
    intro a a' x hx hR
    unfold predRel at hR ⊢
    subst hR
    simp only []
    obtain ⟨d, h1, h2, h3, h4⟩ := nhoodRow_predict_eq_argmax le b a.1 (start + x.2) x.1 (o.dists.getD (start + x.2) [])
      (o.ksets.getD (start + x.2) []) a.2.2.2 (hne x hx)
    rw [h2, h3]
    have h4a := congrArg Prod.fst h4
    have h4b := congrArg Prod.snd h4
    rw [h4a, h4b, h1]
    simp only [List.map_append, List.map_cons, List.map_nil, toPred]
  unfold predRel at key
  unfold Bandit.predictChunk
  rcases hnp with ⟨r, m, p, h⟩ | ⟨k, m, h⟩ | ⟨d, t, p, h⟩ <;> simp only [h] <;> rw [key]

def predRelC (le : Expect → Expect → Bool) (acc acc' : List (LP α) × List (ExpDict α ⊕ (Option α × ExpDict α)) × Rng) : Prop :=
  acc' = (acc.1, acc.2.1.map (toPred le), acc.2.2)

def predRelT (le : Expect → Expect → Bool) (acc acc' : List (ExpDict α ⊕ (Option α × ExpDict α)) × Rng) : Prop :=
  acc' = (acc.1.map (toPred le), acc.2)

/-- **C09 (Clusters, a worker's chunk).**  No exception: every row is answered by its cluster's policy, and `predict`
    is the arg-max of that policy's expectations. -/
theorem clusters_predictChunk_eq_argmax (le : Expect → Expect → Bool) (b : Bandit α) (n : Nat) (hnp : b.np = .clusters n)
    (qs : List Vec) (start : Nat) (o : Oracle) (g : Rng) :
    b.predictChunk le true qs start o g =
      ((b.predictChunk le false qs start o g).1.map (toPred le), (b.predictChunk le false qs start o g).2.1,
       (b.predictChunk le false qs start o g).2.2) := by
  unfold Bandit.predictChunk
  simp only [hnp, Bool.false_eq_true, if_false, if_true]
  have key : ∀ l : List (Vec × Nat), predRelC le
      (l.foldl (fun acc p =>
        ((acc.1.set (o.cells.getD (start + p.2) 0)
            (({ acc.1.getD (o.cells.getD (start + p.2) 0) default with
                st := (acc.1.getD (o.cells.getD (start + p.2) 0) default).st.mapKV fun _ r => { r with rngPriv := false } } : LP α).predictExp
              (some 1) [p.1] (.row (start + p.2)) acc.2.2).1),
         acc.2.1 ++ [.inl ((({ acc.1.getD (o.cells.getD (start + p.2) 0) default with
                st := (acc.1.getD (o.cells.getD (start + p.2) 0) default).st.mapKV fun _ r => { r with rngPriv := false } } : LP α).predictExp
              (some 1) [p.1] (.row (start + p.2)) acc.2.2).2.1.toList.headD [])],
         (({ acc.1.getD (o.cells.getD (start + p.2) 0) default with
                st := (acc.1.getD (o.cells.getD (start + p.2) 0) default).st.mapKV fun _ r => { r with rngPriv := false } } : LP α).predictExp
              (some 1) [p.1] (.row (start + p.2)) acc.2.2).2.2)) (b.lps, [], g))
      (l.foldl (fun acc p =>
        ((acc.1.set (o.cells.getD (start + p.2) 0)
            (({ acc.1.getD (o.cells.getD (start + p.2) 0) default with
                st := (acc.1.getD (o.cells.getD (start + p.2) 0) default).st.mapKV fun _ r => { r with rngPriv := false } } : LP α).predict
              le (some 1) [p.1] (.row (start + p.2)) acc.2.2).1),
         acc.2.1 ++ [.inr ((({ acc.1.getD (o.cells.getD (start + p.2) 0) default with
                st := (acc.1.getD (o.cells.getD (start + p.2) 0) default).st.mapKV fun _ r => { r with rngPriv := false } } : LP α).predict
              le (some 1) [p.1] (.row (start + p.2)) acc.2.2).2.1.toList.headD (none, []))],
         (({ acc.1.getD (o.cells.getD (start + p.2) 0) default with
                st := (acc.1.getD (o.cells.getD (start + p.2) 0) default).st.mapKV fun _ r => { r with rngPriv := false } } : LP α).predict
              le (some 1) [p.1] (.row (start + p.2)) acc.2.2).2.2)) (b.lps, [], g)) := by
    intro l
    refine foldl_rel (predRelC le) _ _ ?_ l _ _ rfl
    intro a a' x hR
    unfold predRelC at hR ⊢
    subst hR
    simp only []
    obtain ⟨h1, h2, h3⟩ := predict_eq_argmax le ({ a.1.getD (o.cells.getD (start + x.2) 0) default with
        st := (a.1.getD (o.cells.getD (start + x.2) 0) default).st.mapKV fun _ r => { r with rngPriv := false } } : LP α)
      (some 1) [x.1] (.row (start + x.2)) a.2.2
    rw [h1, h2, h3]
    simp only [List.map_append, List.map_cons, List.map_nil, toPred]
    refine Prod.ext rfl (Prod.ext ?_ rfl)
    simp only []
    congr 3
    exact toList_headD_map' _ (fun d => (argmaxFirst le d, d)) [] (none, []) rfl
  have := key qs.zipIdx
  unfold predRelC at this
  rw [this]

/-- **C09 (TreeBandit, a worker's chunk; every leaf policy but EpsilonGreedy).** -/
theorem tree_predictChunk_eq_argmax (le : Expect → Expect → Bool) (b : Bandit α) (hnp : b.np = .tree)
    (hk : ∀ e, b.lp.kind ≠ .greedy e) (qs : List Vec) (start : Nat) (o : Oracle) (g : Rng) :
    b.predictChunk le true qs start o g =
      ((b.predictChunk le false qs start o g).1.map (toPred le), (b.predictChunk le false qs start o g).2.1,
       (b.predictChunk le false qs start o g).2.2) := by
  unfold Bandit.predictChunk
  simp only [hnp]
  have key : ∀ l : List (Vec × Nat), predRelT le
      (l.foldl (fun acc p =>
        (acc.1 ++ [(b.treeRow le false (o.qleaves.getD (start + p.2) []) acc.2).1],
         (b.treeRow le false (o.qleaves.getD (start + p.2) []) acc.2).2)) ([], g))
      (l.foldl (fun acc p =>
        (acc.1 ++ [(b.treeRow le true (o.qleaves.getD (start + p.2) []) acc.2).1],
         (b.treeRow le true (o.qleaves.getD (start + p.2) []) acc.2).2)) ([], g)) := by
    intro l
    refine foldl_rel (predRelT le) _ _ ?_ l _ _ rfl
    intro a a' x hR
    unfold predRelT at hR ⊢
    subst hR
    simp only []
    obtain ⟨d, h1, h2, h3⟩ := treeRow_predict_eq_argmax le b (o.qleaves.getD (start + x.2) []) a.2 hk
    rw [h2, h3, h1]
    simp only [List.map_append, List.map_cons, List.map_nil, toPred]
  have := key qs.zipIdx
  unfold predRelT at this
  rw [this]

theorem foldl_inv {A X : Type} (P : A → Prop) (f : A → X → A) (h : ∀ a x, P a → P (f a x)) :
    ∀ (l : List X) (a : A), P a → P (l.foldl f a) := by
  intro l
  induction l with
  | nil => intro a pa; exact pa
  | cons x l ih => intro a pa; exact ih _ (h a x pa)

def AllInl (l : List (ExpDict α ⊕ (Option α × ExpDict α))) : Prop := ∀ x ∈ l, ∃ d, x = .inl d

theorem allInl_append {l : List (ExpDict α ⊕ (Option α × ExpDict α))} {d : ExpDict α} (h : AllInl l) : AllInl (l ++ [.inl d]) := by
  intro x hx
  rcases List.mem_append.mp hx with h1 | h1
  · exact h x h1
  · simp only [List.mem_singleton] at h1; exact ⟨d, h1⟩

theorem nhoodRow_false_inl (le : Expect → Expect → Bool) (b : Bandit α) (lp : LP α) (i : Nat) (q : Vec)
    (ds : List Rat) (ks : List Nat) (g : Rng) : ∃ d, (b.nhoodRow le false lp i q ds ks g).2.1 = .inl d := by
  unfold Bandit.nhoodRow
  simp only [Bool.false_eq_true, if_false]
  split
  · exact ⟨_, rfl⟩
  · exact ⟨_, rfl⟩

theorem treeRow_false_inl (le : Expect → Expect → Bool) (b : Bandit α) (qleaf : List Nat) (g : Rng) :
    ∃ d, (b.treeRow le false qleaf g).1 = .inl d := by
  unfold Bandit.treeRow
  simp only [Bool.false_eq_true, if_false]
  exact ⟨_, rfl⟩

/-- `predict_expectations` returns one expectation record per row -/
theorem predictChunk_false_allInl (le : Expect → Expect → Bool) (b : Bandit α) (qs : List Vec) (start : Nat) (o : Oracle) (g : Rng) :
    AllInl (b.predictChunk le false qs start o g).1 := by
  unfold Bandit.predictChunk
  cases hnp : b.np with
  | none => intro x hx; simp at hx
  | radius r m p =>
    simp only []
    refine foldl_inv (fun (acc : LP α × List (ExpDict α ⊕ (Option α × ExpDict α)) × List Bool × Rng) => AllInl acc.2.1) _ ?_ _ _
      (by intro x hx; simp at hx)
    intro a x h
    obtain ⟨d, hd⟩ := nhoodRow_false_inl le b a.1 (start + x.2) x.1 (o.dists.getD (start + x.2) []) (o.ksets.getD (start + x.2) []) a.2.2.2
    simp only []
    rw [hd]; exact allInl_append h
  | knn k m =>
    simp only []
    refine foldl_inv (fun (acc : LP α × List (ExpDict α ⊕ (Option α × ExpDict α)) × List Bool × Rng) => AllInl acc.2.1) _ ?_ _ _
      (by intro x hx; simp at hx)
    intro a x h
    obtain ⟨d, hd⟩ := nhoodRow_false_inl le b a.1 (start + x.2) x.1 (o.dists.getD (start + x.2) []) (o.ksets.getD (start + x.2) []) a.2.2.2
    simp only []
    rw [hd]; exact allInl_append h
  | lsh dd t p =>
    simp only []
    refine foldl_inv (fun (acc : LP α × List (ExpDict α ⊕ (Option α × ExpDict α)) × List Bool × Rng) => AllInl acc.2.1) _ ?_ _ _
      (by intro x hx; simp at hx)
    intro a x h
    obtain ⟨d, hd⟩ := nhoodRow_false_inl le b a.1 (start + x.2) x.1 (o.dists.getD (start + x.2) []) (o.ksets.getD (start + x.2) []) a.2.2.2
    simp only []
    rw [hd]; exact allInl_append h
  | clusters n =>
    simp only [Bool.false_eq_true, if_false]
    refine foldl_inv (fun (acc : List (LP α) × List (ExpDict α ⊕ (Option α × ExpDict α)) × Rng) => AllInl acc.2.1) _ ?_ _ _
      (by intro x hx; simp at hx)
    intro a x h
    exact allInl_append h
  | tree =>
    simp only []
    refine foldl_inv (fun (acc : List (ExpDict α ⊕ (Option α × ExpDict α)) × Rng) => AllInl acc.1) _ ?_ _ _
      (by intro x hx; simp at hx)
    intro a x h
    obtain ⟨d, hd⟩ := treeRow_false_inl le b (o.qleaves.getD (start + x.2) []) a.2
    simp only []
    rw [hd]; exact allInl_append h

theorem splitOuts_toPred (le : Expect → Expect → Bool) : ∀ (l : List (ExpDict α ⊕ (Option α × ExpDict α))), AllInl l →
    (splitOuts (l.map (toPred le))).2 = (splitOuts l).1.map (fun d => (argmaxFirst le d, d)) ∧ (splitOuts l).2 = [] ∧
      (splitOuts (l.map (toPred le))).1 = [] := by
  intro l
  induction l with
  | nil => intro _; simp [splitOuts]
  | cons x l ih =>
    intro h
    obtain ⟨d, hd⟩ := h x List.mem_cons_self
    obtain ⟨i1, i2, i3⟩ := ih (fun y hy => h y (List.mem_cons_of_mem _ hy))
    subst hd
    simp only [splitOuts, List.map_cons, toPred, List.filterMap_cons] at i1 i2 i3 ⊢
    exact ⟨by rw [i1], i2, i3⟩

theorem unwrap_map_argmax (le : Expect → Expect → Bool) (l : List (ExpDict α)) :
    Out.unwrap (l.map fun d => (argmaxFirst le d, d)) = (Out.unwrap l).map (fun d => (argmaxFirst le d, d)) := by
  unfold Out.unwrap
  simp only [List.length_map]
  split
  · rfl
  · cases l <;> rfl

/-- **C09 (whole bandit, every neighbourhood policy).**  Whenever the chunk-level statement holds — always for
    Clusters and for TreeBandit without EpsilonGreedy, and for Radius / KNearest / LSHNearest when no query row has an
    empty neighbourhood — `predict` returns, row by row, the first arm attaining the maximum of what
    `predict_expectations` returns from the same state and stream position, and issues the same sampler requests. -/
theorem impPredict_eq_argmax (le : Expect → Expect → Bool) (b : Bandit α) (hnp : b.np ≠ .none) (m : Option Nat) (qs : List Vec)
    (o : Oracle) (g : Rng)
    (hchunk : ∀ g', b.predictChunk le true qs 0 o g' =
      ((b.predictChunk le false qs 0 o g').1.map (toPred le), (b.predictChunk le false qs 0 o g').2.1,
       (b.predictChunk le false qs 0 o g').2.2)) :
    (b.impPredict le true m qs o g).2.1.arms = (b.impPredict le false m qs o g).2.1.exps.map (fun d => (argmaxFirst le d, d)) ∧
    (b.impPredict le true m qs o g).2.2 = (b.impPredict le false m qs o g).2.2 ∧
    (b.impPredict le true m qs o g).1 = (b.impPredict le false m qs o g).1 := by
  unfold Bandit.impPredict Bandit.parallelPredict
  cases hk : b.np with
  | none => exact absurd hk hnp
  | _ =>
    simp only []
    all_goals
      rw [hchunk]
      obtain ⟨s1, s2, s3⟩ := splitOuts_toPred le _ (predictChunk_false_allInl le b qs 0 o
        (g.draw { stream := .main, kind := .randint, size := qs.length }).2)
      simp only []
      rw [s1, unwrap_map_argmax]
      refine ⟨?_, ?_, ?_⟩ <;> first | rfl | trivial

end Mab
