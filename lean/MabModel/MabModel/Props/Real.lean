/-
  Real-number meaning of the symbolic expectations, and the laws about `exp`, `sqrt`, `log` the
  properties use (Mathlib reals).
-/
import MabModel.Core.LP
import Mathlib.Analysis.SpecialFunctions.Exp
import Mathlib.Analysis.SpecialFunctions.Log.Basic
import Mathlib.Analysis.SpecialFunctions.Sqrt
open Py

namespace Mab

def listMax : List Rat → Rat
  | [] => 0
  | x :: xs => xs.foldl max x

/-- un-normalised soft-max weight `exp((m - max ms)/τ)` -/
noncomputable def softW (ms : List Rat) (tau m : Rat) : ℝ := Real.exp ((((m - listMax ms) / tau : Rat) : ℝ))

/-- the real number a symbolic expectation stands for (`nan` is mapped to 0; it never meets arithmetic) -/
noncomputable def interp : Expect → ℝ
  | .val q => (q : ℝ)
  | .ucb mean alpha N n => (mean : ℝ) + (alpha : ℝ) * Real.sqrt (2 * Real.log (N : ℝ) / (n : ℝ))
  | .soft ms tau m => softW ms tau m / (ms.map (softW ms tau)).sum
  | .lin xb alpha q => (xb : ℝ) + (alpha : ℝ) * Real.sqrt (q : ℝ)
  | .nan => 0

theorem list_sum_map_div (l : List ℝ) (D : ℝ) : (l.map (· / D)).sum = l.sum / D := by
  induction l with
  | nil => simp
  | cons x xs ih => simp [List.sum_cons, ih, add_div]

theorem softW_pos (ms : List Rat) (tau m : Rat) : 0 < softW ms tau m := Real.exp_pos _

theorem softW_sum_pos (ms : List Rat) (tau : Rat) (h : ms ≠ []) : 0 < (ms.map (softW ms tau)).sum := by
  cases ms with
  | nil => exact absurd rfl h
  | cons x xs =>
    simp only [List.map_cons, List.sum_cons]
    have h1 := softW_pos (x :: xs) tau x
    have h2 : 0 ≤ (xs.map (softW (x :: xs) tau)).sum := by
      apply List.sum_nonneg
      intro y hy
      obtain ⟨m, _, rfl⟩ := List.mem_map.mp hy
      exact le_of_lt (softW_pos _ _ _)
    linarith

/-- **Softmax shares sum to one** (for every non-empty list of means and every temperature). -/
theorem softmax_sum_one (ms : List Rat) (tau : Rat) (h : ms ≠ []) :
    (ms.map fun m => interp (.soft ms tau m)).sum = 1 := by
  have hpos := softW_sum_pos ms tau h
  have : (ms.map fun m => interp (.soft ms tau m)) = (ms.map (softW ms tau)).map (· / (ms.map (softW ms tau)).sum) := by
    simp [interp, List.map_map, Function.comp_def]
  rw [this, list_sum_map_div]
  exact div_self (ne_of_gt hpos)

/-- every soft-max share is strictly between 0 and 1 inclusive of 1 -/
theorem softmax_share_pos (ms : List Rat) (tau m : Rat) (h : ms ≠ []) : 0 < interp (.soft ms tau m) := by
  simp only [interp]
  exact div_pos (softW_pos _ _ _) (softW_sum_pos ms tau h)

end Mab
