/-
  C19b — a copy taken at any point of a history continues exactly as the original would.

  `copy_bisimilar` (C19) is about one step.  With `copy_equal` (a deep copy is the same value, the
  `World` model of C04 accounts for what would be shared) the whole-history statement is: the outputs
  of any continuation on the copy are the outputs the original gives for that continuation after the
  history so far — histories compose.
-/
import MabModel.Props.C19
import MabModel.Props.C10b
import MabModel.Props.C08c
open Py
set_option linter.unusedSectionVars false
set_option linter.unusedVariables false

namespace Mab
variable {α : Type} [DecidableEq α]

theorem runHist_append (le : Expect → Expect → Bool) (h₁ h₂ : History α) : ∀ b : Bandit α,
    b.runHist le (h₁ ++ h₂) = (b.runHist le h₁).runHist le h₂ := by
  induction h₁ with
  | nil => intro b; rfl
  | cons c t ih => intro b; obtain ⟨op, o, g⟩ := c; simp only [List.cons_append, Bandit.runHist]; exact ih _

theorem runOuts_append (le : Expect → Expect → Bool) (h₁ h₂ : History α) : ∀ b : Bandit α,
    b.runOuts le (h₁ ++ h₂) = b.runOuts le h₁ ++ (b.runHist le h₁).runOuts le h₂ := by
  induction h₁ with
  | nil => intro b; rfl
  | cons c t ih =>
    intro b; obtain ⟨op, o, g⟩ := c
    simp only [List.cons_append, Bandit.runOuts, Bandit.runHist, ih]

theorem runOuts_length (le : Expect → Expect → Bool) (h : History α) : ∀ b : Bandit α,
    (b.runOuts le h).length = h.length := by
  induction h with
  | nil => intro b; rfl
  | cons c t ih => intro b; obtain ⟨op, o, g⟩ := c; simp only [Bandit.runOuts, List.length_cons, ih]

/-- **C19 (every history).**  Take a copy `c` of the bandit after any history `h₁` (a deep copy or an
    unpickled pickle: the same value).  Whatever calls `h₂` follow, with whatever oracle values and
    draws, the copy returns — call by call: error class, arms, expectations, sampler requests — what
    the original returns for `h₂` after `h₁`, and ends in the same state. -/
theorem copy_any_time (le : Expect → Expect → Bool) (b c : Bandit α) (h₁ h₂ : History α)
    (hc : c = b.runHist le h₁) :
    c.runOuts le h₂ = (b.runOuts le (h₁ ++ h₂)).drop h₁.length ∧
    c.runHist le h₂ = b.runHist le (h₁ ++ h₂) := by
  subst hc
  refine ⟨?_, (runHist_append le h₁ h₂ b).symm⟩
  rw [runOuts_append, ← runOuts_length le h₁ b, List.drop_left]

end Mab
