/-
  C20 (continued) — row order for the *linear* policies: `A = λI + Σ x xᵀ` and `Xᵀy = Σ y·x` are folds of an
  addition that commutes entry-wise, so any permutation of the rows gives the identical matrices, hence the
  identical inverse, coefficients and state (exact arithmetic; float rounding of the sums is outside the model).
-/
import MabModel.Props.C20
import Mathlib.Data.List.Perm.Basic
open Py
set_option linter.unusedSectionVars false
set_option linter.unusedVariables false
set_option linter.unusedSimpArgs false

namespace Mab
variable {α : Type} [DecidableEq α]

theorem vadd_right_comm : ∀ (m x y : Vec), vadd (vadd m x) y = vadd (vadd m y) x := by
  intro m
  induction m with
  | nil => intro x y; simp [vadd]
  | cons a m ih =>
    intro x y
    cases x with
    | nil => cases y <;> simp [vadd]
    | cons b x =>
      cases y with
      | nil => simp [vadd]
      | cons c y =>
        have := ih x y
        simp only [vadd, List.zipWith_cons_cons, List.cons.injEq] at this ⊢
        exact ⟨by ring, this⟩

theorem madd_right_comm : ∀ (M X Y : Mat), madd (madd M X) Y = madd (madd M Y) X := by
  intro M
  induction M with
  | nil => intro X Y; simp [madd]
  | cons a M ih =>
    intro X Y
    cases X with
    | nil => cases Y <;> simp [madd]
    | cons b X =>
      cases Y with
      | nil => simp [madd]
      | cons c Y =>
        have := ih X Y
        simp only [madd, List.zipWith_cons_cons, List.cons.injEq] at this ⊢
        exact ⟨vadd_right_comm a b c, this⟩

/-- the Gram matrix does not depend on the order of the rows -/
theorem addGram_perm (A : Mat) (xs ys : List Vec) (h : xs.Perm ys) : addGram A xs = addGram A ys := by
  unfold addGram
  exact h.foldl_eq' (fun x _ y _ M => madd_right_comm M (outer x x) (outer y y)) A

/-- `Xᵀy` does not depend on the order of the rows -/
theorem addXty_perm (v : Vec) (rs rs' : List (Rat × Vec)) (h : rs.Perm rs') : addXty v rs = addXty v rs' := by
  unfold addXty
  exact h.foldl_eq' (fun x _ y _ m => vadd_right_comm m (vsmul x.1 x.2) (vsmul y.1 y.2)) v

/-- every policy's `_fit_arm` sees the arm's rows only through order-independent statistics -/
theorem fitRec_perm_all (kind : Kind) (N : Nat) (rs rs' : List (Rat × Vec)) (h : rs.Perm rs') (r : ArmSt α) :
    fitRec kind N rs r = fitRec kind N rs' r := by
  by_cases hlin : kind.isLinear = false
  · exact fitRec_perm kind hlin N rs rs' h r
  · have hs := addXty_perm r.Xty rs rs' h
    have hg := addGram_perm r.A (rs.map (·.2)) (rs'.map (·.2)) (h.map _)
    have hl := h.length_eq
    cases kind <;> simp [Kind.isLinear] at hlin <;> simp [fitRec, hs, hg, hl]

/-- **C20 (row order, every learning policy).**  `fit` on any permutation of a batch gives the same state, for the
    linear policies too (the width of the contexts being the same: it is when it is passed, or when the two batches
    start with rows of equal length). -/
theorem fit_perm_all (s : LP α) (b b' : Batch α) (w : Option Nat) (hwf : s.WF) (hbz : s.binz = none) (h : b.Perm b')
    (hnf : s.nfFor b w = s.nfFor b' w) : s.fit b w = s.fit b' w := by
  have hb : s.binarize b = b := by simp [LP.binarize, hbz]
  have hb' : s.binarize b' = b' := by simp [LP.binarize, hbz]
  unfold LP.fit
  rw [hb, hb']
  cases hk : s.kind with
  | random => rfl
  | _ =>
    simp only []
    all_goals
      have hr : s.resetFor b w = s.resetFor b' w := by
        simp [LP.resetFor, hnf, h.length_eq]
      have hwf' : (s.resetFor b' w).WF := ⟨by simp [LP.resetFor, hwf.keys], hwf.nodup⟩
      rw [hr, parallelFit_closed _ _ hwf', parallelFit_closed _ _ hwf']
      have hst : ((s.resetFor b' w).st.mapKV fun c v => fitRec (s.resetFor b' w).kind (s.resetFor b' w).total (rowsOf b c) v) =
          ((s.resetFor b' w).st.mapKV fun c v => fitRec (s.resetFor b' w).kind (s.resetFor b' w).total (rowsOf b' c) v) := by
        apply Dict.mapKV_congr
        intro k v _
        exact fitRec_perm_all _ _ _ _ (rowsOf_perm b b' k h) v
      rw [hst]
      unfold LP.post LP.setTrained
      have hm : ∀ a, (a ∈ batchArms b) = (a ∈ batchArms b') := fun a => propext (batchArms_perm b b' h a)
      simp only [hm]

theorem partialFit_perm_all (s : LP α) (b b' : Batch α) (hwf : s.WF) (hbz : s.binz = none) (h : b.Perm b') :
    s.partialFit b = s.partialFit b' := by
  have hb : s.binarize b = b := by simp [LP.binarize, hbz]
  have hb' : s.binarize b' = b' := by simp [LP.binarize, hbz]
  unfold LP.partialFit
  rw [hb, hb']
  cases hk : s.kind with
  | random => rfl
  | _ =>
    simp only []
    all_goals
      have hr : s.bumpTotal b.length = s.bumpTotal b'.length := by simp [LP.bumpTotal, h.length_eq]
      have hwf' : (s.bumpTotal b'.length).WF := ⟨hwf.keys, hwf.nodup⟩
      rw [hr, parallelFit_closed _ _ hwf', parallelFit_closed _ _ hwf']
      have hst : ((s.bumpTotal b'.length).st.mapKV fun c v => fitRec (s.bumpTotal b'.length).kind (s.bumpTotal b'.length).total (rowsOf b c) v) =
          ((s.bumpTotal b'.length).st.mapKV fun c v => fitRec (s.bumpTotal b'.length).kind (s.bumpTotal b'.length).total (rowsOf b' c) v) := by
        apply Dict.mapKV_congr
        intro k v _
        exact fitRec_perm_all _ _ _ _ (rowsOf_perm b b' k h) v
      rw [hst]
      unfold LP.post LP.setTrained
      have hm : ∀ a, (a ∈ batchArms b) = (a ∈ batchArms b') := fun a => propext (batchArms_perm b b' h a)
      simp only [hm]

/-- with the width passed explicitly (as the neighbourhood policies do) the hypothesis on the width is void -/
theorem nfFor_some (s : LP α) (b b' : Batch α) (w : Nat) : s.nfFor b (some w) = s.nfFor b' (some w) := by
  simp [LP.nfFor]

end Mab
