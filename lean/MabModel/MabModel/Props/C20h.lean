/-
  C20 (continued) — row order under `Radius` (exact metrics): the neighbourhood of a query is the *set* of stored rows
  within the radius, so storing the same observations in another order (any permutation of what `fit` /
  `partial_fit` received) gives the same answers for every query — for every learning policy under it (context-free
  or linear, without a binarizer).
-/
import MabModel.Props.C20g
import MabModel.Props.C05c
import MabModel.Props.C20j
open Py
set_option linter.unusedSectionVars false
set_option linter.unusedVariables false
set_option linter.unusedSimpArgs false
set_option linter.unnecessarySeqFocus false

namespace Mab
variable {α : Type} [DecidableEq α]

/-- selecting by index from the positions that pass a test is filtering the rows by that test -/
theorem sel_rows {ρ : Type} (d : ρ → Rat) (bound : Rat) : ∀ (hist pfx : List ρ),
    ((((hist.map d).zipIdx pfx.length).filterMap fun (p : Rat × Nat) => if p.1 ≤ bound then some p.2 else none).filterMap
        fun j => (pfx ++ hist)[j]?) = hist.filter (fun h => decide (d h ≤ bound)) ∧
    (((hist.map d).zipIdx pfx.length).filterMap fun (p : Rat × Nat) => if p.1 ≤ bound then some p.2 else none).length =
        (hist.filter (fun h => decide (d h ≤ bound))).length := by
  intro hist
  induction hist with
  | nil => intro pfx; simp
  | cons h t ih =>
    intro pfx
    have e : pfx ++ h :: t = (pfx ++ [h]) ++ t := by simp
    have hl : (pfx ++ [h]).length = pfx.length + 1 := by simp
    have ih' := ih (pfx ++ [h])
    rw [hl, ← e] at ih'
    simp only [List.map_cons, List.zipIdx_cons, List.filterMap_cons, List.filter_cons]
    by_cases hc : d h ≤ bound
    · simp only [hc, if_true, decide_true, List.filterMap_cons, List.length_cons]
      have hget : (pfx ++ h :: t)[pfx.length]? = some h := by simp
      rw [hget]
      exact ⟨by rw [ih'.1], by rw [ih'.2]⟩
    · simp only [hc, if_false, decide_false, Bool.false_eq_true]
      exact ih'

/-- **C03/C20 (Radius selects a set of rows).**  The rows handed to the learning policy are exactly the stored rows
    within the radius, in storage order. -/
theorem radius_rows_filter (b : Bandit α) (r : Rat) (m : Metric) (pr : Option (List Rat)) (hnp : b.np = .radius r m pr)
    (hm : m ≠ .oracle) (q : Vec) (ds : List Rat) (ks : List Nat) :
    ((b.selectIdx q ds ks).1.filterMap fun j => b.hist[j]?) =
        b.hist.filter (fun h => decide (distExact m h.ctx q ≤ radiusBound m r)) ∧
    (b.selectIdx q ds ks).1.length = (b.hist.filter (fun h => decide (distExact m h.ctx q ≤ radiusBound m r))).length := by
  have := sel_rows (fun h : Row α => distExact m h.ctx q) (radiusBound m r) b.hist []
  simp only [List.length_nil, List.nil_append] at this
  simp only [Bandit.selectIdx, hnp, hm, if_false]
  exact this

/-- what the row-order theorems need of the learning policy under the neighbourhood policy -/
structure CFGood (lp : LP α) : Prop where
  wf : lp.WF
  noBinz : lp.binz = none

theorem CFGood.of_sameCfg {s s' : LP α} (h : CFGood s) (c : SameCfg s s') : CFGood s' :=
  ⟨⟨by rw [← c.keys, ← c.arms]; exact h.wf.keys, by rw [← c.arms]; exact h.wf.nodup⟩, by rw [← c.binz]; exact h.noBinz⟩

/-- two bandits that differ only in the order of the stored rows -/
structure HistPerm (b b' : Bandit α) : Prop where
  same : b' = { b with hist := b'.hist }
  perm : b'.hist.Perm b.hist

theorem nhoodRow_good (le : Expect → Expect → Bool) (b : Bandit α) (isPredict : Bool) (lp : LP α) (i : Nat) (q : Vec)
    (ds : List Rat) (ks : List Nat) (g : Rng) (h : CFGood lp) : CFGood (b.nhoodRow le isPredict lp i q ds ks g).1 := by
  unfold Bandit.nhoodRow
  simp only []
  split
  · split
    · exact h.of_sameCfg ((fit_sameCfg lp _ _).trans (predictExp_sameCfg _ _ _ _ _))
    · exact h.of_sameCfg ((fit_sameCfg lp _ _).trans (predictExp_sameCfg _ _ _ _ _))
  · split <;> exact h

/-- **C20 (row order, one query row under Radius).** -/
theorem radius_nhoodRow_perm (le : Expect → Expect → Bool) (b b' : Bandit α) (hp : HistPerm b b') (r : Rat) (m : Metric)
    (pr : Option (List Rat)) (hnp : b.np = .radius r m pr) (hm : m ≠ .oracle) (isPredict : Bool) (lp : LP α) (hg : CFGood lp)
    (i : Nat) (q : Vec) (ds : List Rat) (ks : List Nat) (g : Rng) :
    b'.nhoodRow le isPredict lp i q ds ks g = b.nhoodRow le isPredict lp i q ds ks g := by
  have hnp' : b'.np = .radius r m pr := by rw [hp.same]; exact hnp
  obtain ⟨e1, l1⟩ := radius_rows_filter b r m pr hnp hm q ds ks
  obtain ⟨e2, l2⟩ := radius_rows_filter b' r m pr hnp' hm q ds ks
  have hperm : (b'.hist.filter (fun h => decide (distExact m h.ctx q ≤ radiusBound m r))).Perm
      (b.hist.filter (fun h => decide (distExact m h.ctx q ≤ radiusBound m r))) := hp.perm.filter _
  have hfit : lp.fit ((b'.selectIdx q ds ks).1.filterMap fun j => b'.hist[j]?) (some q.length) =
      lp.fit ((b.selectIdx q ds ks).1.filterMap fun j => b.hist[j]?) (some q.length) := by
    rw [e1, e2]; exact fit_perm_all lp _ _ _ hg.wf hg.noBinz hperm (nfFor_some lp _ _ _)
  have hlen : (b'.selectIdx q ds ks).1.length = (b.selectIdx q ds ks).1.length := by rw [l1, l2, hperm.length_eq]
  have htie : (b'.selectIdx q ds ks).2 = (b.selectIdx q ds ks).2 := by
    simp only [Bandit.selectIdx, hnp, hnp']
  have harms : b'.arms = b.arms := by rw [hp.same]
  have hexp : b'.npExp = b.npExp := by rw [hp.same]
  have hnn : b'.np = b.np := by rw [hnp, hnp']
  unfold Bandit.nhoodRow
  simp only [hfit, hlen, htie, harms, hexp, hnn]

def goodRel (acc acc' : LP α × List (ExpDict α ⊕ (Option α × ExpDict α)) × List Bool × Rng) : Prop :=
  acc' = acc ∧ CFGood acc.1

/-- **C20 (row order, one worker's chunk under Radius).** -/
theorem radius_predictChunk_perm (le : Expect → Expect → Bool) (b b' : Bandit α) (hp : HistPerm b b') (r : Rat) (m : Metric)
    (pr : Option (List Rat)) (hnp : b.np = .radius r m pr) (hm : m ≠ .oracle) (hg : CFGood b.lp) (isPredict : Bool)
    (qs : List Vec) (start : Nat) (o : Oracle) (g : Rng) :
    b'.predictChunk le isPredict qs start o g = b.predictChunk le isPredict qs start o g := by
  have hnp' : b'.np = .radius r m pr := by rw [hp.same]; exact hnp
  have hlp : b'.lp = b.lp := by rw [hp.same]
  unfold Bandit.predictChunk
  simp only [hnp, hnp', hlp]
  have key : ∀ l : List (Vec × Nat),
      goodRel
        (l.foldl (fun acc p =>
          ((b.nhoodRow le isPredict acc.1 (start + p.2) p.1 (o.dists.getD (start + p.2) []) (o.ksets.getD (start + p.2) []) acc.2.2.2).1,
           acc.2.1 ++ [(b.nhoodRow le isPredict acc.1 (start + p.2) p.1 (o.dists.getD (start + p.2) []) (o.ksets.getD (start + p.2) []) acc.2.2.2).2.1],
           acc.2.2.1 ++ [(b.nhoodRow le isPredict acc.1 (start + p.2) p.1 (o.dists.getD (start + p.2) []) (o.ksets.getD (start + p.2) []) acc.2.2.2).2.2.1],
           (b.nhoodRow le isPredict acc.1 (start + p.2) p.1 (o.dists.getD (start + p.2) []) (o.ksets.getD (start + p.2) []) acc.2.2.2).2.2.2)) (b.lp, [], [], g))
        (l.foldl (fun acc p =>
          ((b'.nhoodRow le isPredict acc.1 (start + p.2) p.1 (o.dists.getD (start + p.2) []) (o.ksets.getD (start + p.2) []) acc.2.2.2).1,
           acc.2.1 ++ [(b'.nhoodRow le isPredict acc.1 (start + p.2) p.1 (o.dists.getD (start + p.2) []) (o.ksets.getD (start + p.2) []) acc.2.2.2).2.1],
           acc.2.2.1 ++ [(b'.nhoodRow le isPredict acc.1 (start + p.2) p.1 (o.dists.getD (start + p.2) []) (o.ksets.getD (start + p.2) []) acc.2.2.2).2.2.1],
           (b'.nhoodRow le isPredict acc.1 (start + p.2) p.1 (o.dists.getD (start + p.2) []) (o.ksets.getD (start + p.2) []) acc.2.2.2).2.2.2)) (b.lp, [], [], g)) := by
    intro l
    refine foldl_rel goodRel _ _ ?_ l _ _ ⟨rfl, hg⟩
    intro a a' x hR
    unfold goodRel at hR ⊢
    obtain ⟨e, hga⟩ := hR
    subst e
    simp only []
    rw [radius_nhoodRow_perm le b b' hp r m pr hnp hm isPredict a'.1 hga]
    exact ⟨rfl, nhoodRow_good le b isPredict a'.1 _ _ _ _ _ hga⟩
  have := (key qs.zipIdx).1
  rw [this]

/-- **C20 (row order, queries under Radius).** -/
theorem radius_impPredict_perm (le : Expect → Expect → Bool) (b b' : Bandit α) (hp : HistPerm b b') (r : Rat) (m : Metric)
    (pr : Option (List Rat)) (hnp : b.np = .radius r m pr) (hm : m ≠ .oracle) (hg : CFGood b.lp) (isPredict : Bool)
    (mm : Option Nat) (qs : List Vec) (o : Oracle) (g : Rng) :
    (b'.impPredict le isPredict mm qs o g).2 = (b.impPredict le isPredict mm qs o g).2 ∧
      HistPerm (b.impPredict le isPredict mm qs o g).1 (b'.impPredict le isPredict mm qs o g).1 := by
  have hnp' : b'.np = .radius r m pr := by rw [hp.same]; exact hnp
  unfold Bandit.impPredict Bandit.parallelPredict
  simp only [hnp, hnp']
  rw [radius_predictChunk_perm le b b' hp r m pr hnp hm hg]
  exact ⟨rfl, hp⟩

/-- training keeps the two bandits equal up to the order of the stored rows, when each call receives the same
    observations in any order -/
theorem radius_impFit_perm (b b' : Bandit α) (hp : HistPerm b b') (r : Rat) (m : Metric) (pr : Option (List Rat))
    (hnp : b.np = .radius r m pr) (hg : CFGood b.lp) (batch batch' : Batch α) (hb : batch'.Perm batch) (o o' : Oracle) (g : Rng) :
    HistPerm (b.impFit batch o g).1 (b'.impFit batch' o' g).1 ∧ (b'.impFit batch' o' g).2 = (b.impFit batch o g).2 ∧
      (b.impFit batch o g).1.lp = b.lp ∧ (b.impFit batch o g).1.np = b.np := by
  have hnp' : b'.np = .radius r m pr := by rw [hp.same]; exact hnp
  have hlp : b'.lp = b.lp := by rw [hp.same]
  have hnb : ∀ x : Batch α, npBinarize b.lp x = (b.lp, x) := by
    intro x; unfold npBinarize; rw [hg.noBinz]; cases b.lp.kind <;> rfl
  unfold Bandit.impFit
  simp only [hnp, hnp', hlp, hnb]
  refine ⟨⟨?_, hb⟩, ?_, ?_, ?_⟩ <;> first | trivial | exact hnp | rfl | skip
  rw [hp.same]

theorem radius_impPartialFit_perm (b b' : Bandit α) (hp : HistPerm b b') (r : Rat) (m : Metric) (pr : Option (List Rat))
    (hnp : b.np = .radius r m pr) (hg : CFGood b.lp) (batch batch' : Batch α) (hb : batch'.Perm batch) (o o' : Oracle) (g : Rng) :
    HistPerm (b.impPartialFit batch o g).1 (b'.impPartialFit batch' o' g).1 ∧
      (b'.impPartialFit batch' o' g).2 = (b.impPartialFit batch o g).2 ∧
      (b.impPartialFit batch o g).1.lp = b.lp ∧ (b.impPartialFit batch o g).1.np = b.np := by
  have hnp' : b'.np = .radius r m pr := by rw [hp.same]; exact hnp
  have hlp : b'.lp = b.lp := by rw [hp.same]
  have hnb : ∀ x : Batch α, npBinarize b.lp x = (b.lp, x) := by
    intro x; unfold npBinarize; rw [hg.noBinz]; cases b.lp.kind <;> rfl
  unfold Bandit.impPartialFit
  simp only [hnp, hnp', hlp, hnb]
  refine ⟨⟨?_, hp.perm.append hb⟩, ?_, ?_, ?_⟩ <;> first | trivial | exact hnp | rfl | skip
  rw [hp.same]

/-- **C20 (row order under Radius, end to end).**  Fit on any permutation of the data, then continue with partial
    fits each of which receives any permutation of its batch: every later `predict` / `predict_expectations` returns
    exactly what it returns for the original order (same outputs, same sampler requests). -/
theorem radius_row_order (le : Expect → Expect → Bool) (b : Bandit α) (r : Rat) (m : Metric) (pr : Option (List Rat))
    (hnp : b.np = .radius r m pr) (hm : m ≠ .oracle) (hg : CFGood b.lp)
    (batch batch' : Batch α) (hb : batch'.Perm batch) (more : List (Batch α × Batch α)) (hmore : ∀ p ∈ more, p.2.Perm p.1)
    (o : Oracle) (g : Rng) (isPredict : Bool) (mm : Option Nat) (qs : List Vec) (oq : Oracle) (gq : Rng) :
    ((more.foldl (fun acc p => (acc.impPartialFit p.2 o g).1) (b.impFit batch' o g).1).impPredict le isPredict mm qs oq gq).2 =
      ((more.foldl (fun acc p => (acc.impPartialFit p.1 o g).1) (b.impFit batch o g).1).impPredict le isPredict mm qs oq gq).2 := by
  have h0 := radius_impFit_perm b b ⟨rfl, List.Perm.refl _⟩ r m pr hnp hg batch batch' hb o o g
  have key : ∀ (l : List (Batch α × Batch α)) (c c' : Bandit α), (∀ p ∈ l, p.2.Perm p.1) →
      HistPerm c c' → c.np = .radius r m pr → CFGood c.lp →
      HistPerm (l.foldl (fun acc p => (acc.impPartialFit p.1 o g).1) c) (l.foldl (fun acc p => (acc.impPartialFit p.2 o g).1) c') ∧
        (l.foldl (fun acc p => (acc.impPartialFit p.1 o g).1) c).np = .radius r m pr ∧
        CFGood (l.foldl (fun acc p => (acc.impPartialFit p.1 o g).1) c).lp := by
    intro l
    induction l with
    | nil => intro c c' _ h1 h2 h3; exact ⟨h1, h2, h3⟩
    | cons p l ih =>
      intro c c' hl h1 h2 h3
      simp only [List.foldl_cons]
      obtain ⟨s1, _, s3, s4⟩ := radius_impPartialFit_perm c c' h1 r m pr h2 h3 p.1 p.2 (hl p (List.mem_cons_self)) o o g
      exact ih _ _ (fun q hq => hl q (List.mem_cons_of_mem _ hq)) s1 (by rw [s4]; exact h2) (by rw [s3]; exact h3)
  obtain ⟨k1, k2, k3⟩ := key more _ _ hmore h0.1 (by rw [h0.2.2.2]; exact hnp) (by rw [h0.2.2.1]; exact hg)
  exact (radius_impPredict_perm le _ _ k1 r m pr k2 hm k3 isPredict mm qs oq gq).1

end Mab
