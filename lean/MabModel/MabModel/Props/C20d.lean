/-
  C20 (continued) — predict_expectations and predict commute with a one-to-one relabelling of the arms, for every
  learning policy (draws, requests and final state included).
-/
import MabModel.Props.C20c
open Py
set_option linter.unusedSectionVars false
set_option linter.unusedVariables false
set_option linter.unusedSimpArgs false

namespace Mab
variable {α β : Type} [DecidableEq α] [DecidableEq β]
variable (f : α → β) (finv : β → α) (hinv : ∀ a, finv (f a) = a)

/-- rename the keys of an expectation dictionary -/
def renameD (f : α → β) (d : ExpDict α) : ExpDict β := d.map fun p => (f p.1, p.2)

theorem zip_map_left {γ : Type} (l : List α) (vs : List γ) :
    List.zip (l.map f) vs = (List.zip l vs).map fun p => (f p.1, p.2) := by
  induction l generalizing vs with
  | nil => simp
  | cons a l ih => cases vs with
    | nil => simp
    | cons v vs => simp [ih]

theorem greedy_explore_relabel (own : Stream) (arms : List α) : ∀ (d0 : ExpDict α) (g : Rng),
    (arms.map f).foldl (fun (acc : ExpDict β × Rng) b =>
        ((acc.1 ++ [(b, Expect.val ((acc.2.draw { stream := own, kind := .rand, size := 1 }).1.headD 0))]),
          (acc.2.draw { stream := own, kind := .rand, size := 1 }).2)) (renameD f d0, g) =
      (renameD f (arms.foldl (fun (acc : ExpDict α × Rng) a =>
        ((acc.1 ++ [(a, Expect.val ((acc.2.draw { stream := own, kind := .rand, size := 1 }).1.headD 0))]),
          (acc.2.draw { stream := own, kind := .rand, size := 1 }).2)) (d0, g)).1,
       (arms.foldl (fun (acc : ExpDict α × Rng) a =>
        ((acc.1 ++ [(a, Expect.val ((acc.2.draw { stream := own, kind := .rand, size := 1 }).1.headD 0))]),
          (acc.2.draw { stream := own, kind := .rand, size := 1 }).2)) (d0, g)).2) := by
  induction arms with
  | nil => intro d0 g; rfl
  | cons a arms ih =>
    intro d0 g
    simp only [List.map_cons, List.foldl_cons]
    have : renameD f d0 ++ [(f a, Expect.val ((g.draw { stream := own, kind := .rand, size := 1 }).1.headD 0))] =
        renameD f (d0 ++ [(a, Expect.val ((g.draw { stream := own, kind := .rand, size := 1 }).1.headD 0))]) := by
      simp [renameD]
    rw [this]
    exact ih _ _

include hinv

theorem get?_renameD (d : ExpDict α) (a : α) : Dict.get? (renameD f d) (f a) = Dict.get? d a := by
  induction d with
  | nil => rfl
  | cons p t ih =>
    obtain ⟨k, v⟩ := p
    simp only [renameD, List.map_cons, Dict.get?] at ih ⊢
    by_cases h : k = a
    · simp [h]
    · have h' : ¬ f k = f a := fun e => h ((inj_of_inv hinv).mp e)
      simp only [h, h', if_false]
      exact ih

theorem find?_map_key {γ : Type} (cols : List (α × γ)) (a : α) :
    ((cols.map fun p => (f p.1, p.2)).find? (fun x => decide (x.1 = f a))).map (·.2) =
      (cols.find? (fun x => decide (x.1 = a))).map (·.2) := by
  induction cols with
  | nil => rfl
  | cons p t ih =>
    simp only [List.map_cons, List.find?_cons]
    by_cases h : p.1 = a
    · simp [h]
    · have h' : ¬ f p.1 = f a := fun e => h ((inj_of_inv hinv).mp e)
      simp only [h, h', decide_false]
      exact ih

end Mab

namespace Mab
variable {α β : Type} [DecidableEq α] [DecidableEq β]
variable (f : α → β) (finv : β → α) (hinv : ∀ a, finv (f a) = a)

theorem relabelDict_keys (d : Dict α (ArmSt α)) : (relabelDict f d).keys = d.keys.map f := by
  simp [relabelDict, Dict.keys, List.map_map, Function.comp_def]
theorem relabelDict_length (d : Dict α (ArmSt α)) : (relabelDict f d).length = d.length := by simp [relabelDict]
theorem expDict_relabel' (s : LP α) : (s.relabel f finv).expDict = renameD f s.expDict := expDict_relabel f finv s

include hinv

theorem predictExp_relabel_ucb (s : LP α) (al : Rat) (hk : s.kind = .ucb al) (m : Option Nat) (ctxs : List Vec) (own : Stream) (g : Rng) :
    (s.relabel f finv).predictExp m ctxs own g =
      ((s.predictExp m ctxs own g).1.relabel f finv, (s.predictExp m ctxs own g).2.1.map (renameD f), (s.predictExp m ctxs own g).2.2) := by
  have hk' : (s.relabel f finv).kind = .ucb al := hk
  unfold LP.predictExp
  simp only [hk, hk', expDict_relabel']
  split <;> simp [Out.map]

theorem predictExp_relabel_greedy (s : LP α) (e : Rat) (hk : s.kind = .greedy e) (m : Option Nat) (ctxs : List Vec) (own : Stream) (g : Rng) :
    (s.relabel f finv).predictExp m ctxs own g =
      ((s.predictExp m ctxs own g).1.relabel f finv, (s.predictExp m ctxs own g).2.1.map (renameD f), (s.predictExp m ctxs own g).2.2) := by
  have hk' : (s.relabel f finv).kind = .greedy e := hk
  unfold LP.predictExp
  simp only [hk, hk', expDict_relabel', relabel_arms, List.length_map]
  split
  · split
    · have := greedy_explore_relabel f own s.arms [] (g.draw { stream := own, kind := .rand, size := 1 }).2
      simp only [renameD, List.map_nil] at this
      simp only [this, Out.map, renameD]
    · simp [Out.map]
  · simp only [Out.map, List.map_map, Prod.mk.injEq, true_and, and_true]
    congr 1
    apply List.map_congr_left
    intro pr _
    simp only [Function.comp]
    split
    · rw [zip_map_left]; rfl
    · rfl

theorem predictExp_relabel_random (s : LP α) (hk : s.kind = .random) (m : Option Nat) (ctxs : List Vec) (own : Stream) (g : Rng) :
    (s.relabel f finv).predictExp m ctxs own g =
      ((s.predictExp m ctxs own g).1.relabel f finv, (s.predictExp m ctxs own g).2.1.map (renameD f), (s.predictExp m ctxs own g).2.2) := by
  have hk' : (s.relabel f finv).kind = .random := hk
  unfold LP.predictExp
  simp only [hk, hk', relabel_arms, List.length_map]
  have hrows : ∀ rows : List (List Rat), (rows.map fun r => List.zip (s.arms.map f) (r.map Expect.val)) =
      (rows.map fun r => List.zip s.arms (r.map Expect.val)).map (renameD f) := by
    intro rows
    rw [List.map_map]
    apply List.map_congr_left
    intro r _
    simp only [Function.comp, zip_map_left, renameD]
  simp only [hrows]
  split
  · simp only [Out.map, Prod.mk.injEq, true_and, and_true, Out.one.injEq]
    cases (chunk s.arms.length (m.getD 1) _).map (fun r => List.zip s.arms (r.map Expect.val)) <;> simp [renameD]
  · simp [Out.map]

end Mab

namespace Mab
variable {α β : Type} [DecidableEq α] [DecidableEq β]
variable (f : α → β) (finv : β → α) (hinv : ∀ a, finv (f a) = a)

include hinv

theorem predictExp_relabel_dirichlet (s : LP α) (hk : (∃ t, s.kind = .softmax t) ∨ s.kind = .popularity) (m : Option Nat)
    (ctxs : List Vec) (own : Stream) (g : Rng) :
    (s.relabel f finv).predictExp m ctxs own g =
      ((s.predictExp m ctxs own g).1.relabel f finv, (s.predictExp m ctxs own g).2.1.map (renameD f), (s.predictExp m ctxs own g).2.2) := by
  have hvals : (relabelDict f s.st).vals.map (·.exp) = s.st.vals.map (·.exp) :=
    vals_relabelDict_proj f s.st (·.exp) (·.exp) (fun _ => rfl)
  have hrows : ∀ rows : List (List Rat), (rows.map fun r => List.zip (s.st.keys.map f) (r.map Expect.val)) =
      (rows.map fun r => List.zip s.st.keys (r.map Expect.val)).map (renameD f) := by
    intro rows
    rw [List.map_map]
    apply List.map_congr_left
    intro r _
    simp only [Function.comp, zip_map_left, renameD]
  have hst : (s.relabel f finv).st = relabelDict f s.st := rfl
  rcases hk with ⟨t, hk⟩ | hk <;>
    (have hk' : (s.relabel f finv).kind = s.kind := rfl
     unfold LP.predictExp
     rw [hk', hk]
     simp only [hst, hvals, relabelDict_keys, relabelDict_length, hrows]
     split
     · simp only [Out.map, Prod.mk.injEq, true_and, and_true, Out.one.injEq]
       cases (chunk s.st.length (m.getD 1) _).map (fun r => List.zip s.st.keys (r.map Expect.val)) <;> simp [renameD]
     · simp [Out.map])

theorem thompson_cols_relabel (s : LP α) (own : Stream) (size : Nat) : ∀ (keys : List α) (c0 : List (α × List Rat)) (g : Rng),
    (keys.map f).foldl (fun (acc : List (β × List Rat) × Rng) b =>
        ((acc.1 ++ [(b, (acc.2.draw { stream := own, kind := .beta, params := [.val (((relabelDict f s.st).get? b).getD {}).succ, .val (((relabelDict f s.st).get? b).getD {}).fail], size := size }).1)]),
          (acc.2.draw { stream := own, kind := .beta, params := [.val (((relabelDict f s.st).get? b).getD {}).succ, .val (((relabelDict f s.st).get? b).getD {}).fail], size := size }).2))
        (c0.map (fun p => (f p.1, p.2)), g) =
      (((keys.foldl (fun (acc : List (α × List Rat) × Rng) a =>
        ((acc.1 ++ [(a, (acc.2.draw { stream := own, kind := .beta, params := [.val ((s.st.get? a).getD {}).succ, .val ((s.st.get? a).getD {}).fail], size := size }).1)]),
          (acc.2.draw { stream := own, kind := .beta, params := [.val ((s.st.get? a).getD {}).succ, .val ((s.st.get? a).getD {}).fail], size := size }).2)) (c0, g)).1).map (fun p => (f p.1, p.2)),
       (keys.foldl (fun (acc : List (α × List Rat) × Rng) a =>
        ((acc.1 ++ [(a, (acc.2.draw { stream := own, kind := .beta, params := [.val ((s.st.get? a).getD {}).succ, .val ((s.st.get? a).getD {}).fail], size := size }).1)]),
          (acc.2.draw { stream := own, kind := .beta, params := [.val ((s.st.get? a).getD {}).succ, .val ((s.st.get? a).getD {}).fail], size := size }).2)) (c0, g)).2) := by
  intro keys
  induction keys with
  | nil => intro c0 g; rfl
  | cons a keys ih =>
    intro c0 g
    simp only [List.map_cons, List.foldl_cons]
    have hs : (((relabelDict f s.st).get? (f a)).getD {}).succ = ((s.st.get? a).getD {}).succ ∧
        (((relabelDict f s.st).get? (f a)).getD {}).fail = ((s.st.get? a).getD {}).fail := by
      rw [get?_relabelDict f finv hinv]; cases s.st.get? a <;> exact ⟨rfl, rfl⟩
    rw [hs.1, hs.2]
    have := ih (c0 ++ [(a, (g.draw { stream := own, kind := .beta, params := [.val ((s.st.get? a).getD {}).succ, .val ((s.st.get? a).getD {}).fail], size := size }).1)])
          (g.draw { stream := own, kind := .beta, params := [.val ((s.st.get? a).getD {}).succ, .val ((s.st.get? a).getD {}).fail], size := size }).2
    simp only [List.map_append, List.map_cons, List.map_nil] at this
    exact this

end Mab

namespace Mab
variable {α β : Type} [DecidableEq α] [DecidableEq β]
variable (f : α → β) (finv : β → α) (hinv : ∀ a, finv (f a) = a)

theorem getLastD_map_renameD (ds : List (ExpDict α)) : (ds.map (renameD f)).getLastD [] = renameD f (ds.getLastD []) := by
  induction ds with
  | nil => rfl
  | cons d ds ih =>
    cases ds with
    | nil => rfl
    | cons d2 ds => simp only [List.map_cons, List.getLastD_cons] at ih ⊢; simp [List.getLastD_eq_getLast?, List.getLast?_map]

theorem headD_map_renameD (ds : List (ExpDict α)) : (ds.map (renameD f)).headD [] = renameD f (ds.headD []) := by
  cases ds <;> rfl

include hinv

theorem predictExp_relabel_thompson (s : LP α) (hk : s.kind = .thompson) (m : Option Nat) (ctxs : List Vec) (own : Stream) (g : Rng) :
    (s.relabel f finv).predictExp m ctxs own g =
      ((s.predictExp m ctxs own g).1.relabel f finv, (s.predictExp m ctxs own g).2.1.map (renameD f), (s.predictExp m ctxs own g).2.2) := by
  have hk' : (s.relabel f finv).kind = .thompson := hk
  have hst : (s.relabel f finv).st = relabelDict f s.st := rfl
  unfold LP.predictExp
  simp only [hk, hk', hst, relabelDict_keys, relabel_arms]
  have hcols := thompson_cols_relabel f finv hinv s own (m.getD 1) s.st.keys [] g
  simp only [List.map_nil] at hcols
  rw [hcols]
  simp only []
  generalize (s.st.keys.foldl (fun (acc : List (α × List Rat) × Rng) a =>
        ((acc.1 ++ [(a, (acc.2.draw { stream := own, kind := .beta, params := [.val ((s.st.get? a).getD {}).succ, .val ((s.st.get? a).getD {}).fail], size := m.getD 1 }).1)]),
          (acc.2.draw { stream := own, kind := .beta, params := [.val ((s.st.get? a).getD {}).succ, .val ((s.st.get? a).getD {}).fail], size := m.getD 1 }).2)) ([], g)) = R
  obtain ⟨cols, g'⟩ := R
  simp only []
  have hds : (List.range (m.getD 1)).map (fun i => (s.arms.map f).map fun b =>
        (b, Expect.val ((((cols.map fun p => (f p.1, p.2)).find? (fun x => decide (x.1 = b))).map (·.2)).getD [] |>.getD i 0))) =
      ((List.range (m.getD 1)).map fun i => s.arms.map fun a =>
        (a, Expect.val (((cols.find? (fun x => decide (x.1 = a))).map (·.2)).getD [] |>.getD i 0))).map (renameD f) := by
    rw [List.map_map]
    apply List.map_congr_left
    intro i _
    simp only [Function.comp, renameD, List.map_map]
    apply List.map_congr_left
    intro a _
    simp only [Function.comp]
    rw [find?_map_key f finv hinv cols a]
  rw [hds, getLastD_map_renameD, headD_map_renameD]
  refine Prod.ext ?_ (Prod.ext ?_ rfl)
  · simp only [LP.relabel]
    congr 1
    apply mapKV_relabelDict
    intro a r _
    rw [get?_renameD f finv hinv]
    rfl
  · simp only []
    split <;> simp [Out.map]

end Mab

namespace Mab
variable {α β : Type} [DecidableEq α] [DecidableEq β]
variable (f : α → β) (finv : β → α) (hinv : ∀ a, finv (f a) = a)

theorem assembleRows_relabel (arms : List α) (randRows : List (List Rat)) (cols : List (List Expect)) :
    ∀ (mask : List Bool) (ri ni : Nat),
      assembleRows (arms.map f) randRows cols mask ri ni = (assembleRows arms randRows cols mask ri ni).map (renameD f) := by
  intro mask
  induction mask with
  | nil => intro ri ni; rfl
  | cons b mask ih =>
    intro ri ni
    cases b <;> simp only [assembleRows, List.map_cons, ih, zip_map_left, renameD]

theorem unwrap_map_renameD (l : List (ExpDict α)) : Out.unwrap (l.map (renameD f)) = (Out.unwrap l).map (renameD f) := by
  unfold Out.unwrap
  simp only [List.length_map]
  split
  · rfl
  · cases l <;> rfl

include hinv

theorem predictExp_relabel_linear (s : LP α) (hlin : s.kind.isLinear = true) (m : Option Nat) (ctxs : List Vec) (own : Stream) (g : Rng) :
    (s.relabel f finv).predictExp m ctxs own g =
      ((s.predictExp m ctxs own g).1.relabel f finv, (s.predictExp m ctxs own g).2.1.map (renameD f), (s.predictExp m ctxs own g).2.2) := by
  have hk' : (s.relabel f finv).kind = s.kind := rfl
  have hst : (s.relabel f finv).st = relabelDict f s.st := rfl
  have hget : ∀ a, (((relabelDict f s.st).get? (f a)).getD {}).beta = ((s.st.get? a).getD {}).beta ∧
      (((relabelDict f s.st).get? (f a)).getD {}).Ainv = ((s.st.get? a).getD {}).Ainv ∧
      (((relabelDict f s.st).get? (f a)).getD {}).rngPriv = ((s.st.get? a).getD {}).rngPriv ∧
      (((relabelDict f s.st).get? (f a)).getD {}).mu = ((s.st.get? a).getD {}).mu ∧
      (((relabelDict f s.st).get? (f a)).getD {}).sc = ((s.st.get? a).getD {}).sc := by
    intro a; rw [get?_relabelDict f finv hinv]; cases s.st.get? a <;> exact ⟨rfl, rfl, rfl, rfl, rfl⟩
  unfold LP.predictExp
  rw [hk']
  cases hk : s.kind <;> simp [Kind.isLinear, hk] at hlin <;>
    (simp only [hst, relabel_arms, List.length_map, List.foldl_map, (hget _).1, (hget _).2.1, (hget _).2.2.1, (hget _).2.2.2.1, (hget _).2.2.2.2,
       assembleRows_relabel, unwrap_map_renameD])

end Mab

namespace Mab
variable {α β : Type} [DecidableEq α] [DecidableEq β]
variable (f : α → β) (finv : β → α) (hinv : ∀ a, finv (f a) = a)

include hinv

/-- **C20 (relabelling, `predict_expectations`).**  For every learning policy, every batch of contexts and
    every tape: the relabelled policy returns the same values under the renamed keys (same order), issues
    the same sampler requests, consumes the same draws and ends in the relabelled state. -/
theorem predictExp_relabel (s : LP α) (m : Option Nat) (ctxs : List Vec) (own : Stream) (g : Rng) :
    (s.relabel f finv).predictExp m ctxs own g =
      ((s.predictExp m ctxs own g).1.relabel f finv, (s.predictExp m ctxs own g).2.1.map (renameD f), (s.predictExp m ctxs own g).2.2) := by
  cases hk : s.kind with
  | greedy e => exact predictExp_relabel_greedy f finv hinv s e hk m ctxs own g
  | ucb a => exact predictExp_relabel_ucb f finv hinv s a hk m ctxs own g
  | softmax t => exact predictExp_relabel_dirichlet f finv hinv s (Or.inl ⟨t, hk⟩) m ctxs own g
  | popularity => exact predictExp_relabel_dirichlet f finv hinv s (Or.inr hk) m ctxs own g
  | thompson => exact predictExp_relabel_thompson f finv hinv s hk m ctxs own g
  | random => exact predictExp_relabel_random f finv hinv s hk m ctxs own g
  | linGreedy e l => exact predictExp_relabel_linear f finv hinv s (by rw [hk]; rfl) m ctxs own g
  | linUCB a l => exact predictExp_relabel_linear f finv hinv s (by rw [hk]; rfl) m ctxs own g
  | linTS a l => exact predictExp_relabel_linear f finv hinv s (by rw [hk]; rfl) m ctxs own g

/-- **C20 (relabelling, `predict`).**  `predict` of the relabelled policy returns the renamed arm. -/
theorem predict_relabel (le : Expect → Expect → Bool) (s : LP α) (m : Option Nat) (ctxs : List Vec) (own : Stream) (g : Rng) :
    (s.relabel f finv).predict le m ctxs own g =
      ((s.predict le m ctxs own g).1.relabel f finv,
       (s.predict le m ctxs own g).2.1.map (fun p => (p.1.map f, renameD f p.2)),
       (s.predict le m ctxs own g).2.2) := by
  unfold LP.predict
  rw [predictExp_relabel f finv hinv]
  simp only []
  refine Prod.ext rfl (Prod.ext ?_ rfl)
  simp only []
  cases (s.predictExp m ctxs own g).2.1 with
  | one d => simp only [Out.map, renameD]; rw [argmaxFirst_relabel]
  | many l =>
    simp only [Out.map, List.map_map, Out.many.injEq]
    apply List.map_congr_left
    intro d _
    simp only [Function.comp, renameD]
    rw [argmaxFirst_relabel]

end Mab
