/-
  C16 (continued) — the neighbourhood branch of default_evaluator: the substitute statistic is looked up per test
  row (the predicted arm's statistic in that row's neighbourhood, else its training statistic).
-/
import MabModel.Props.C16
open Py
set_option linter.unusedSectionVars false
set_option linter.unusedVariables false
set_option linter.unusedSimpArgs false

namespace Mab
variable {α : Type} [DecidableEq α]

theorem count_partition {β : Type} (arms : List α) (hn : arms.Nodup) (key : β → α) :
    ∀ (zs : List β), (∀ z ∈ zs, key z ∈ arms) → ((arms.map fun a => (zs.filter fun z => key z = a).length).sum) = zs.length := by
  intro zs
  induction zs with
  | nil => intro _; induction arms with
    | nil => rfl
    | cons x xs ih => simp
  | cons z zs ih =>
    intro hin
    have hz : key z ∈ arms := hin z (by simp)
    have ih' := ih (fun y hy => hin y (List.mem_cons_of_mem _ hy))
    have hstep : ∀ a, ((z :: zs).filter fun y => key y = a).length =
        (if key z = a then 1 else 0) + (zs.filter fun y => key y = a).length := by
      intro a
      simp only [List.filter_cons]
      by_cases h : key z = a
      · simp [h]; omega
      · simp [h]
    simp only [hstep]
    have hsum : ∀ (l : List α), l.Nodup → ((l.map fun a => (if key z = a then 1 else 0) + (zs.filter fun y => key y = a).length).sum) =
        (if key z ∈ l then 1 else 0) + ((l.map fun a => (zs.filter fun y => key y = a).length).sum) := by
      intro l hl
      induction l with
      | nil => simp
      | cons x xs ihx =>
        have hx := List.nodup_cons.mp hl
        simp only [List.map_cons, List.sum_cons, ihx hx.2]
        by_cases h1 : key z = x
        · have hnot : key z ∉ xs := h1 ▸ hx.1
          have hnot' : x ∉ xs := hx.1
          simp only [h1, if_true, List.mem_cons, true_or, hnot', if_false]; omega
        · by_cases h2 : key z ∈ xs
          · simp [h1, h2, List.mem_cons]; omega
          · simp [h1, h2, List.mem_cons]
    rw [hsum arms hn, ih']
    simp [hz]; omega

theorem creditedBy_length (decisions : List α) (rewards : List Rat) (predictions : List α) (subs : List (α → Rat)) (a : α) :
    (creditedBy decisions rewards predictions subs a).length =
      ((List.zip predictions (List.zip decisions (List.zip rewards subs))).filter fun p => p.1 = a).length := by
  simp only [creditedBy]
  generalize List.zip predictions (List.zip decisions (List.zip rewards subs)) = zs
  induction zs with
  | nil => rfl
  | cons z zs ih =>
    simp only [List.filterMap_cons, List.filter_cons]
    by_cases h : z.1 = a <;> simp [h, ih]

/-- **C16 (evaluated counts, neighbourhood branch).**  Also when the substitute statistic is looked up per
    test row, the evaluated counts over all arms add up to the number of evaluated rows. -/
theorem evaluator_count_total_nn (arms : List α) (hn : arms.Nodup) (decisions : List α) (rewards : List Rat)
    (predictions : List α) (subs : List (α → Rat)) (hin : ∀ p ∈ predictions, p ∈ arms)
    (h1 : predictions.length = decisions.length) (h2 : decisions.length = rewards.length) (h3 : rewards.length = subs.length) :
    ((arms.map fun a => (creditedBy decisions rewards predictions subs a).length).sum) = predictions.length := by
  simp only [creditedBy_length]
  rw [count_partition arms hn (fun (p : α × α × Rat × (α → Rat)) => p.1)]
  · simp [List.length_zip, h1, h2, h3]
  · intro z hz
    exact hin z.1 (List.of_mem_zip hz).1

/-- **C16 (ordered analyses, neighbourhood branch).**  If for every test row the substituted minimum is at
    most the substituted maximum, the per-arm credited sums are ordered. -/
theorem evaluator_ordered_nn (decisions : List α) (rewards : List Rat) (predictions : List α)
    (lo hi : List (α → Rat)) (a : α) (hlen : lo.length = hi.length)
    (h : ∀ p ∈ List.zip lo hi, p.1 a ≤ p.2 a) :
    (creditedBy decisions rewards predictions lo a).sum ≤ (creditedBy decisions rewards predictions hi a).sum := by
  simp only [creditedBy]
  induction predictions generalizing decisions rewards lo hi with
  | nil => simp
  | cons p ps ih =>
    cases decisions with
    | nil => simp
    | cons d ds =>
      cases rewards with
      | nil => simp
      | cons r rs =>
        cases lo with
        | nil => cases hi with
          | nil => simp
          | cons _ _ => simp at hlen
        | cons l ls =>
          cases hi with
          | nil => simp at hlen
          | cons u us =>
            have hrest := ih ds rs ls us (by simpa using hlen) (fun q hq => h q (by simp [hq]))
            have hhead : l a ≤ u a := h (l, u) (by simp)
            simp only [List.zip_cons_cons, List.filterMap_cons]
            by_cases hpa : p = a
            · simp only [hpa, if_true, List.sum_cons]
              have : (if a = d then r else l a) ≤ (if a = d then r else u a) := by
                split
                · exact le_refl _
                · exact hhead
              linarith
            · simp only [hpa, if_false]; exact hrest

/-- the training-statistic evaluator is the special case of a row-independent substitute -/
theorem credited_eq_creditedBy (decisions : List α) (rewards : List Rat) (predictions : List α) (train : α → Rat) (a : α)
    (h1 : predictions.length ≤ decisions.length) (h2 : decisions.length = rewards.length) :
    credited decisions rewards predictions train a =
      creditedBy decisions rewards predictions (List.replicate rewards.length train) a := by
  simp only [credited, creditedBy]
  induction predictions generalizing decisions rewards with
  | nil => simp
  | cons p ps ih =>
    cases decisions with
    | nil => simp at h1
    | cons d ds =>
      cases rewards with
      | nil => simp at h2
      | cons r rs =>
        simp only [List.length_cons, List.replicate_succ, List.zip_cons_cons, List.filterMap_cons]
        rw [ih ds rs (by simpa using h1) (by simpa using h2)]

end Mab
