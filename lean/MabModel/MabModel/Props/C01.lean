/-
  C01 — context-free policies compute the documented statistic of each arm's history.
  (The refinement is proved for every policy kind, the linear ones included; C02, C06, C07 reuse it.)
-/
import MabModel.Lemmas.RefineSteps
import MabModel.Props.Real
open Py
set_option linter.unusedSectionVars false
set_option linter.unusedSimpArgs false
set_option linter.unusedVariables false

namespace Mab
variable {α : Type} [DecidableEq α]

/-- one step of any operation preserves the refinement (no binarizer: C14 treats those) -/
theorem ref_step (s : LP α) (t : Spec α) (op : LPOp α) (hb : s.binz = none) (h : Ref s t) :
    Ref (s.stepOp op) (t.step op) ∧ (s.stepOp op).binz = none := by
  cases op with
  | fit b w =>
    refine ⟨ref_fit s t b w hb h, ?_⟩
    by_cases hk : s.kind = .random
    · simp [LP.stepOp, LP.fit, hk, hb]
    · simp only [LP.stepOp]; rw [(fit_fields s b w hk hb).2.2.2.2.2.1]; exact hb
  | partialFit b =>
    refine ⟨ref_partialFit s t b hb h, ?_⟩
    by_cases hk : s.kind = .random
    · simp [LP.stepOp, LP.partialFit, hk, hb]
    · simp only [LP.stepOp]; rw [(partialFit_fields s b hk hb).2.2.2.2.2.1]; exact hb
  | addArm a =>
    refine ⟨ref_addArm s t a h, ?_⟩
    simp only [LP.stepOp]; split
    · exact hb
    · unfold LP.addArm; rw [expOp_binz]; unfold LP.insertArm; cases s.kind <;> exact hb
  | removeArm a =>
    refine ⟨ref_removeArm s t a h, ?_⟩
    simp only [LP.stepOp]; split
    · unfold LP.removeArm; rw [normalize_binz, expOp_binz]; exact hb
    · exact hb

/-- **C01 (refinement).**  For every policy kind, every duplicate-free arm list and every finite
    history over {fit, partial_fit, add_arm, remove_arm} — arbitrary batches, batches that omit arms,
    labels that are not arms, re-added labels — the learned part of every current arm's record is
    the policy's statistic of exactly that arm's log since the most recent fit / add. -/
theorem cf_refines_log (kind : Kind) (arms : List α) (k1 : Bool) (hn : arms.Nodup) (ops : List (LPOp α)) :
    Ref ((LP.init kind arms none k1).run ops) ((Spec.init arms).run ops) := by
  have key : ∀ (ops : List (LPOp α)) (s : LP α) (t : Spec α), s.binz = none → Ref s t →
      Ref (s.run ops) (t.run ops) := by
    intro ops
    induction ops with
    | nil => intro s t _ h; exact h
    | cons op ops ih =>
      intro s t hb h
      obtain ⟨h1, h2⟩ := ref_step s t op hb h
      exact ih _ _ h2 h1
  exact key ops _ _ rfl (ref_init kind arms k1 hn)

end Mab

namespace Mab
variable {α : Type} [DecidableEq α]

/-- configuration invariants along any history: no binarizer appears, the variant flag and (for
    context-free policies) `num_features` never change -/
structure CfgInv (s : LP α) (kind : Kind) (k1 : Bool) : Prop where
  binz : s.binz = none
  ctxBin : s.ctxBin = false
  k1 : s.k1fixed = k1
  nf : kind.isLinear = false → s.numFeatures = none

theorem cfgInv_step (s : LP α) (kind : Kind) (k1 : Bool) (hk : s.kind = kind) (op : LPOp α)
    (h : CfgInv s kind k1) : CfgInv (s.stepOp op) kind k1 := by
  cases op with
  | fit b w =>
    obtain ⟨c1, c2, c3, c4⟩ := fit_config s b w
    exact ⟨by simp only [LP.stepOp]; rw [c1]; exact h.binz, by simp only [LP.stepOp]; rw [c2]; exact h.ctxBin,
           by simp only [LP.stepOp]; rw [c3]; exact h.k1,
           fun hl => by simp only [LP.stepOp]; rw [c4 (hk ▸ hl)]; exact h.nf hl⟩
  | partialFit b =>
    obtain ⟨c1, c2, c3, c4⟩ := partialFit_config s b
    exact ⟨by simp only [LP.stepOp]; rw [c1]; exact h.binz, by simp only [LP.stepOp]; rw [c2]; exact h.ctxBin,
           by simp only [LP.stepOp]; rw [c3]; exact h.k1,
           fun hl => by simp only [LP.stepOp]; rw [c4]; exact h.nf hl⟩
  | addArm a =>
    simp only [LP.stepOp]
    split
    · exact h
    · obtain ⟨st', e⟩ := expOp_onlySt (s.insertArm a none)
      unfold LP.addArm
      rw [e]
      refine ⟨?_, h.ctxBin, h.k1, h.nf⟩
      show (s.insertArm a none).binz = none
      unfold LP.insertArm; cases s.kind <;> exact h.binz
  | removeArm a =>
    simp only [LP.stepOp]
    split
    · unfold LP.removeArm
      obtain ⟨st1, e1⟩ := expOp_onlySt (s.dropArm a)
      rw [e1]
      obtain ⟨st2, e2⟩ := normalize_onlySt ({ s.dropArm a with st := st1 } : LP α)
      rw [e2]
      exact ⟨h.binz, h.ctxBin, h.k1, h.nf⟩
    · exact h

/-- the refinement together with the configuration invariants -/
theorem cf_refines_log_aux (kind : Kind) (arms : List α) (k1 : Bool) (hn : arms.Nodup) (ops : List (LPOp α)) :
    Ref ((LP.init kind arms none k1).run ops) ((Spec.init arms).run ops) ∧
    ((LP.init kind arms none k1).run ops).binz = none ∧ ((LP.init kind arms none k1).run ops).ctxBin = false ∧
    ((LP.init kind arms none k1).run ops).k1fixed = k1 ∧
    (kind.isLinear = false → ((LP.init kind arms none k1).run ops).numFeatures = none) := by
  have key : ∀ (ops : List (LPOp α)) (s : LP α), s.kind = kind → CfgInv s kind k1 → CfgInv (s.run ops) kind k1 := by
    intro ops
    induction ops with
    | nil => intro s _ h; exact h
    | cons op ops ih =>
      intro s hk h
      exact ih _ (by rw [stepOp_kind]; exact hk) (cfgInv_step s kind k1 hk op h)
  have c := key ops (LP.init kind arms none k1) rfl ⟨rfl, rfl, rfl, fun _ => rfl⟩
  exact ⟨cf_refines_log kind arms k1 hn ops, c.binz, c.ctxBin, c.k1, c.nf⟩

/-! ### the documented statistics, written out -/

def lsum (log : List (Rat × Vec)) : Rat := rsum log
def lmean (log : List (Rat × Vec)) : Rat := rsum log / (log.length : Rat)

/-- what the records of an arm with log `log` look like, per policy (fresh record trained once) -/
theorem stat_greedy (eps : Rat) (N : Nat) (log : List (Rat × Vec)) :
    let r : ArmSt α := fitRec (.greedy eps) N log {}
    r.sum = (if log.length = 0 then 0 else lsum log) ∧ r.cnt = log.length ∧
    r.exp = (if log.length = 0 then .val 0 else .val (lmean log)) := by
  by_cases h : log.length = 0
  · have : log = [] := List.eq_nil_of_length_eq_zero h
    subst this; simp [fitRec]
  · simp [fitRec, h, lsum, lmean, Rat.zero_add]

theorem stat_ucb (alpha : Rat) (N : Nat) (log : List (Rat × Vec)) :
    let r : ArmSt α := fitRec (.ucb alpha) N log {}
    r.cnt = log.length ∧
    r.exp = (if log.length = 0 then .val 0 else .ucb (lmean log) alpha N log.length) := by
  by_cases h : log.length = 0
  · have : log = [] := List.eq_nil_of_length_eq_zero h
    subst this; simp [fitRec]
  · simp [fitRec, h, lmean, Rat.zero_add]

theorem stat_softmax (tau : Rat) (N : Nat) (log : List (Rat × Vec)) :
    let r : ArmSt α := fitRec (.softmax tau) N log {}
    r.cnt = log.length ∧ r.mean = (if log.length = 0 then 0 else lmean log) := by
  by_cases h : log.length = 0
  · have : log = [] := List.eq_nil_of_length_eq_zero h
    subst this; simp [fitRec]
  · simp [fitRec, h, lmean, Rat.zero_add]

/-- Thompson Sampling: one plus successes, one plus failures -/
theorem stat_thompson (N : Nat) (log : List (Rat × Vec)) :
    let r : ArmSt α := fitRec .thompson N log {}
    r.succ = 1 + lsum log ∧ r.fail = 1 + ((log.length : Rat) - lsum log) := by
  simp [fitRec, lsum]

theorem stat_popularity (N : Nat) (log : List (Rat × Vec)) :
    let r : ArmSt α := fitRec .popularity N log {}
    r.cnt = log.length ∧ popMean r = (if log.length = 0 then 0 else lmean log) := by
  by_cases h : log.length = 0
  · have : log = [] := List.eq_nil_of_length_eq_zero h
    subst this; simp [fitRec, popMean]
  · simp [fitRec, h, lmean, popMean, Rat.zero_add]

theorem stat_random (N : Nat) (log : List (Rat × Vec)) :
    (fitRec .random N log {} : ArmSt α) = {} := by simp [fitRec]

/-- **C01 (statistics).**  After *any* history, the record of every current arm of a context-free
    policy carries exactly the statistics of a fresh record trained once on the arm's log, with `N`
    the number of rows since the most recent fit (in particular `N` is current for arms that did not
    occur in the last batch, and an arm without observations holds the neutral values). -/
theorem cf_statistics (kind : Kind) (hlin : kind.isLinear = false) (arms : List α) (hn : arms.Nodup)
    (ops : List (LPOp α)) (a : α) (ha : a ∈ ((LP.init kind arms none false).run ops).arms) :
    ∃ r : ArmSt α, ((LP.init kind arms none false).run ops).st.get? a = some r ∧
      let spec : ArmSt α := fitRec kind ((Spec.init arms).run ops).N (((Spec.init arms).run ops).log a) {}
      r.sum = spec.sum ∧ r.cnt = spec.cnt ∧ r.mean = spec.mean ∧ r.succ = spec.succ ∧ r.fail = spec.fail ∧
      (kind.localExp = true → r.exp = spec.exp) := by
  have h := cf_refines_log kind arms false hn ops
  have hk : ((LP.init kind arms none false).run ops).kind = kind := run_kind _ _
  have he := h.entry a ha
  simp only [statOf] at he
  rw [hk] at he
  have hfresh : ∀ nf k1, (freshRec kind nf k1 : ArmSt α) = {} := by
    intro nf k1; simp [freshRec, hlin]
  rw [hfresh] at he
  cases hr : ((LP.init kind arms none false).run ops).st.get? a with
  | none => rw [hr] at he; simp at he
  | some r =>
    rw [hr] at he
    simp only [Option.map_some, Option.some.injEq] at he
    refine ⟨r, rfl, ?_⟩
    have e1 := congrArg ArmSt.sum he
    have e2 := congrArg ArmSt.cnt he
    have e3 := congrArg ArmSt.mean he
    have e4 := congrArg ArmSt.succ he
    have e5 := congrArg ArmSt.fail he
    have e6 := congrArg ArmSt.exp he
    simp only [ArmSt.strip] at e1 e2 e3 e4 e5 e6
    refine ⟨e1, e2, e3, e4, e5, ?_⟩
    intro hl
    simpa [hl] using e6

/-- **C01, UCB1 written out**: `mean + α·sqrt(2 ln N / n)` with the current `N`; 0 without data. -/
theorem cf_expectation_ucb (alpha : Rat) (arms : List α) (hn : arms.Nodup) (ops : List (LPOp α))
    (a : α) (ha : a ∈ ((LP.init (.ucb alpha) arms none false).run ops).arms) :
    let log := ((Spec.init arms).run ops).log a
    (((LP.init (.ucb alpha) arms none false).run ops).st.get? a).map (·.exp) =
      some (if log.length = 0 then .val 0 else .ucb (lmean log) alpha ((Spec.init arms).run ops).N log.length) := by
  intro log
  obtain ⟨r, hr, _, _, _, _, _, h6⟩ := cf_statistics (.ucb alpha) rfl arms hn ops a ha
  rw [hr]
  simp only [Option.map_some, Option.some.injEq]
  rw [h6 rfl]
  exact (stat_ucb (α := α) alpha _ log).2

/-- **C01, ε-greedy written out**: the running mean of the arm's rewards since the last fit. -/
theorem cf_expectation_greedy (eps : Rat) (arms : List α) (hn : arms.Nodup) (ops : List (LPOp α))
    (a : α) (ha : a ∈ ((LP.init (.greedy eps) arms none false).run ops).arms) :
    let log := ((Spec.init arms).run ops).log a
    (((LP.init (.greedy eps) arms none false).run ops).st.get? a).map (·.exp) =
      some (if log.length = 0 then .val 0 else .val (lmean log)) := by
  intro log
  obtain ⟨r, hr, _, _, _, _, _, h6⟩ := cf_statistics (.greedy eps) rfl arms hn ops a ha
  rw [hr]
  simp only [Option.map_some, Option.some.injEq]
  rw [h6 rfl]
  exact (stat_greedy (α := α) eps _ log).2.2

/-- **C01, Thompson Sampling written out**: Beta parameters one-plus-successes / one-plus-failures. -/
theorem cf_thompson_counts (arms : List α) (hn : arms.Nodup) (ops : List (LPOp α))
    (a : α) (ha : a ∈ ((LP.init .thompson arms none false).run ops).arms) :
    let log := ((Spec.init arms).run ops).log a
    (((LP.init .thompson arms none false).run ops).st.get? a).map (fun r => (r.succ, r.fail)) =
      some (1 + lsum log, 1 + ((log.length : Rat) - lsum log)) := by
  intro log
  obtain ⟨r, hr, _, _, _, h4, h5, _⟩ := cf_statistics .thompson rfl arms hn ops a ha
  rw [hr]
  simp only [Option.map_some, Option.some.injEq]
  rw [h4, h5]
  have := stat_thompson (α := α) ((Spec.init arms).run ops).N log
  simp only at this
  rw [this.1, this.2]

/-- `remove_arm a; add_arm a` leaves the arm with the neutral statistics (empty log). -/
theorem readd_is_fresh (arms : List α) (ops : List (LPOp α)) (a : α) (hmem : a ∈ ((Spec.init arms).run ops).arms) :
    ((Spec.init arms).run (ops ++ [.removeArm a, .addArm a])).log a = [] := by
  simp only [Spec.run, List.foldl_append, List.foldl_cons, List.foldl_nil]
  have h1 : a ∈ (List.foldl Spec.step (Spec.init arms) ops).arms := hmem
  simp [Spec.step, h1]

end Mab

namespace Mab
variable {α : Type} [DecidableEq α]

/-! ### Softmax: the shares are the soft-max of the *current* means of exactly the current arms -/

def SoftInv (tau : Rat) (s : LP α) : Prop := ∀ p ∈ s.st, p.2.exp = .soft s.means tau p.2.mean

theorem means_mapKV_of_mean (d : Dict α (ArmSt α)) (f : α → ArmSt α → ArmSt α)
    (h : ∀ k r, (f k r).mean = r.mean) : (d.mapKV f).vals.map (·.mean) = d.vals.map (·.mean) := by
  simp [Dict.mapKV, Dict.vals, List.map_map, Function.comp_def, h]

theorem expOp_softInv (tau : Rat) (s : LP α) (hk : s.kind = .softmax tau) : SoftInv tau s.expOp := by
  intro p hp
  unfold LP.expOp at hp ⊢
  simp only [hk] at hp ⊢
  simp only [LP.means] at hp ⊢
  rw [means_mapKV_of_mean _ _ (by intros; rfl)]
  simp only [Dict.mapKV, List.mem_map] at hp
  obtain ⟨q, _, rfl⟩ := hp
  rfl

theorem setTrained_softInv (tau : Rat) (s : LP α) (b : Batch α) (p : Bool) (h : SoftInv tau s) :
    SoftInv tau (s.setTrained b p) := by
  intro q hq
  have hm : (s.setTrained b p).means = s.means := by
    simp only [LP.means, LP.setTrained]
    apply means_mapKV_of_mean
    intro k r; split
    · split <;> rfl
    · rfl
  rw [hm]
  simp only [LP.setTrained, Dict.mapKV, List.mem_map] at hq
  obtain ⟨q0, hq0, rfl⟩ := hq
  have := h q0 hq0
  simp only
  split
  · split <;> exact this
  · exact this

theorem normalize_softmax (tau : Rat) (s : LP α) (hk : s.kind = .softmax tau) : s.normalize = s := by
  simp [LP.normalize, hk]

theorem post_softInv (tau : Rat) (s : LP α) (b : Batch α) (p : Bool) (hk : s.kind = .softmax tau) :
    SoftInv tau (s.post b p) := by
  unfold LP.post
  rw [normalize_softmax tau _ (by simp [LP.setTrained, expOp_kind, hk])]
  exact setTrained_softInv tau _ b p (expOp_softInv tau s hk)

/-- **C01, Softmax**: after any history that contains a `fit`, every current arm's expectation is the
    max-shifted soft-max share of its *current* mean among the current means of exactly the current
    arms (so `add_arm` / `remove_arm` re-normalise, and unobserved arms hold the share of mean 0). -/
theorem softmax_shares (tau : Rat) (s : LP α) (hk : s.kind = .softmax tau) (op : LPOp α)
    (h : SoftInv tau s ∨ (∃ b w, op = .fit b w)) : SoftInv tau (s.stepOp op) := by
  cases op with
  | fit b w =>
    simp only [LP.stepOp, LP.fit, hk]
    exact post_softInv tau _ _ _ (by rw [parallelFit_kind]; exact hk)
  | partialFit b =>
    simp only [LP.stepOp, LP.partialFit, hk]
    exact post_softInv tau _ _ _ (by rw [parallelFit_kind]; exact hk)
  | addArm a =>
    simp only [LP.stepOp]
    split
    · rcases h with h | ⟨b, w, e⟩
      · exact h
      · cases e
    · exact expOp_softInv tau _ hk
  | removeArm a =>
    simp only [LP.stepOp]
    split
    · unfold LP.removeArm
      rw [normalize_softmax tau _ (by rw [expOp_kind]; exact hk)]
      exact expOp_softInv tau _ hk
    · rcases h with h | ⟨b, w, e⟩
      · exact h
      · cases e

/-- the same for whole histories: everything after the first `fit` keeps the invariant -/
theorem softmax_shares_run (tau : Rat) (arms : List α) (ops₁ ops₂ : List (LPOp α)) (b : Batch α) (w : Option Nat) :
    SoftInv tau ((LP.init (.softmax tau) arms none false).run (ops₁ ++ [.fit b w] ++ ops₂)) := by
  have hk1 : ((LP.init (.softmax tau) arms none false).run ops₁).kind = .softmax tau := run_kind _ _
  have key : ∀ (ops : List (LPOp α)) (s : LP α), s.kind = .softmax tau → SoftInv tau s → SoftInv tau (s.run ops) := by
    intro ops
    induction ops with
    | nil => intro s _ h; exact h
    | cons op ops ih =>
      intro s hk h
      exact ih _ (by rw [stepOp_kind]; exact hk) (softmax_shares tau s hk op (Or.inl h))
  simp only [LP.run, List.foldl_append, List.foldl_cons, List.foldl_nil]
  exact key ops₂ _ (by rw [stepOp_kind]; exact hk1)
    (softmax_shares tau _ hk1 (.fit b w) (Or.inr ⟨b, w, rfl⟩))

/-! ### Popularity: the expectations are the arm means normalised to sum to one -/

theorem list_sum_map_div_rat (l : List Rat) (D : Rat) : (l.map (· / D)).sum = l.sum / D := by
  induction l with
  | nil => simp
  | cons x xs ih => simp [List.sum_cons, ih, add_div]

/-- **C01, Popularity**: `_normalize_expectations` — which closes `fit`, `partial_fit` and `remove_arm` —
    leaves `mean a / Σ means` (computed from the *raw* means of all current arms) when the means do
    not sum to zero, and the uniform share otherwise; in the first case the expectations sum to 1. -/
theorem popularity_normalised (s : LP α) (hk : s.kind = .popularity) :
    (s.popTotal ≠ 0 →
      s.normalize.st.vals.map (·.exp) = s.st.vals.map (fun r => Expect.val (popMean r / s.popTotal)) ∧
      (s.st.vals.map (fun r => popMean r / s.popTotal)).sum = 1) ∧
    (s.popTotal = 0 →
      s.normalize.st.vals.map (·.exp) = s.st.vals.map (fun _ => Expect.val (1 / (s.arms.length : Rat)))) := by
  constructor
  · intro h
    constructor
    · simp [LP.normalize, hk, h, Dict.mapKV, Dict.vals, List.map_map, Function.comp_def]
    · have := list_sum_map_div_rat (s.st.vals.map popMean) s.popTotal
      simp only [List.map_map, Function.comp_def] at this
      rw [this]
      exact div_self h
  · intro h
    simp [LP.normalize, hk, h, Dict.mapKV, Dict.vals, List.map_map, Function.comp_def]

theorem fit_ends_with_normalize (s : LP α) (b : Batch α) (w : Option Nat) (hk : s.kind = .popularity) :
    ∃ s' : LP α, s'.kind = .popularity ∧ s.fit b w = s'.normalize := by
  refine ⟨(((s.resetFor (s.binarize b) w).parallelFit (s.binarize b)).expOp).setTrained (s.binarize b) false, ?_, ?_⟩
  · simp [LP.setTrained, expOp_kind, parallelFit_kind, LP.resetFor, hk]
  · simp [LP.fit, hk, LP.post]

theorem partialFit_ends_with_normalize (s : LP α) (b : Batch α) (hk : s.kind = .popularity) :
    ∃ s' : LP α, s'.kind = .popularity ∧ s.partialFit b = s'.normalize := by
  refine ⟨(((s.bumpTotal (s.binarize b).length).parallelFit (s.binarize b)).expOp).setTrained (s.binarize b) true, ?_, ?_⟩
  · simp [LP.setTrained, expOp_kind, parallelFit_kind, LP.bumpTotal, hk]
  · simp [LP.partialFit, hk, LP.post]

/-! ### non-vacuity: a concrete history with an arm-omitting batch, a removed and re-added arm -/

def exampleOps : List (LPOp Nat) :=
  [.fit [⟨0, 1, []⟩, ⟨0, 0, []⟩, ⟨1, 3, []⟩], .partialFit [⟨0, 1, []⟩], .removeArm 1, .addArm 1,
   .partialFit [⟨1, 2, []⟩, ⟨2, 5, []⟩]]

example : ((LP.init (.ucb 1) [0, 1] none false).run exampleOps).expDict =
    [(0, .ucb (2/3) 1 6 3), (1, .ucb 2 1 6 1)] := by decide +kernel

example : (((Spec.init [0, 1]).run exampleOps).log 1).map (·.1) = [2] ∧ ((Spec.init [0, 1]).run exampleOps).N = 6 := by
  decide +kernel

end Mab
