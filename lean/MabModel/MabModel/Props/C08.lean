/-
  C08 — outputs always range over exactly the current arms, one result per context.
-/
import MabModel.Props.C01
import MabModel.Props.C09
open Py
set_option linter.unusedSectionVars false
set_option linter.unusedVariables false
set_option linter.unusedSimpArgs false

namespace Mab
variable {α : Type} [DecidableEq α]

/-- **C08 (keys = arms).**  After any history of fit / partial_fit / add_arm / remove_arm the per-arm
    dictionaries of a learning policy have exactly the current arms as keys, in arm-list order and
    without duplicates; the arm list is the specification's: an added arm is present immediately
    (at the end), a removed arm is gone. -/
theorem keys_eq_arms (kind : Kind) (arms : List α) (k1 : Bool) (hn : arms.Nodup) (ops : List (LPOp α)) :
    let s := (LP.init kind arms none k1).run ops
    s.st.keys = s.arms ∧ s.arms.Nodup ∧ s.arms = ((Spec.init arms).run ops).arms := by
  have h := cf_refines_log kind arms k1 hn ops
  exact ⟨h.wf.keys, h.wf.nodup, h.arms⟩

theorem added_immediately (t : Spec α) (a : α) : a ∈ (t.step (.addArm a)).arms := by
  simp only [Spec.step]
  split
  · next h => exact h
  · simp

theorem removed_never_returns (t : Spec α) (a : α) : a ∉ (t.step (.removeArm a)).arms := by
  simp only [Spec.step]
  split
  · simp
  · next h => exact h

theorem arms_unchanged_by_training (t : Spec α) (b : Batch α) (w : Option Nat) :
    (t.step (.fit b w)).arms = t.arms ∧ (t.step (.partialFit b)).arms = t.arms := ⟨rfl, rfl⟩

/-! ### result shape -/

/-- **C08 (shape).**  The reduction `predictions if len(predictions) > 1 else predictions[0]`:
    with `m > 1` rows a list of `m` results in row order, with one row a single result. -/
theorem unwrap_shape {β : Type} [Inhabited β] (l : List β) :
    (1 < l.length → Out.unwrap l = .many l) ∧ (l.length = 1 → ∃ x, l = [x] ∧ Out.unwrap l = .one x) := by
  constructor
  · intro h; simp [Out.unwrap, h]
  · intro h
    match l, h with
    | [x], _ => exact ⟨x, rfl, by simp [Out.unwrap]⟩

theorem draw_length (g : Rng) (r : Req) : (g.draw r).1.length = r.size := by
  unfold Rng.draw
  split
  · simp
  · simp [List.length_take]; omega

theorem chunk_length (w : Nat) : ∀ (n : Nat) (l : List Rat), (chunk w n l).length = n := by
  intro n
  induction n with
  | zero => intro l; rfl
  | succ n ih => intro l; simp [chunk, ih]

theorem chunk_rows (w : Nat) : ∀ (n : Nat) (l : List Rat), n * w ≤ l.length → ∀ row ∈ chunk w n l, row.length = w := by
  intro n
  induction n with
  | zero => intro l _ row h; simp [chunk] at h
  | succ n ih =>
    intro l hl row h
    simp only [chunk, List.mem_cons] at h
    rcases h with e | e
    · subst e; simp [List.length_take]; rw [Nat.succ_mul] at hl; omega
    · exact ih (l.drop w) (by simp [List.length_drop]; rw [Nat.succ_mul] at hl; omega) row e

theorem keys_zip (ks : List α) (vs : List Expect) (h : ks.length ≤ vs.length) :
    Dict.keys (List.zip ks vs) = ks := by
  simp only [Dict.keys]
  rw [List.map_fst_zip]
  exact h

/-- every dictionary `predict_expectations` returns has exactly the keys of the policy — here for the
    policies that answer from their stored expectations (UCB1) or draw per arm (Thompson, Random,
    Softmax, Popularity), with or without contexts, for every tape -/
theorem predictExp_keys (s : LP α) (hwf : s.WF) (m : Option Nat) (ctxs : List Vec) (own : Stream) (g : Rng)
    (hk : (∃ a, s.kind = .ucb a) ∨ s.kind = .thompson ∨ s.kind = .random ∨ (∃ t, s.kind = .softmax t) ∨ s.kind = .popularity) :
    ∀ d ∈ (s.predictExp m ctxs own g).2.1.toList, Dict.keys d = s.arms := by
  have hexp : Dict.keys s.expDict = s.arms := by
    simp only [LP.expDict, Dict.keys, List.map_map, Function.comp_def]
    exact hwf.keys
  have hlen : s.st.length = s.arms.length := by
    have := congrArg List.length hwf.keys
    simpa [Dict.keys] using this
  intro d hd
  rcases hk with ⟨a, hk⟩ | hk | hk | ⟨t, hk⟩ | hk
  · simp only [LP.predictExp, hk] at hd
    split at hd
    · simp [Out.toList] at hd; rw [hd]; exact hexp
    · simp only [Out.toList, List.mem_replicate] at hd; rw [hd.2]; exact hexp
  · simp only [LP.predictExp, hk] at hd
    have hall : ∀ (sz : Nat) (cols : List (α × List Rat)) (d' : ExpDict α),
        d' ∈ (List.range sz).map (fun i => s.arms.map fun a =>
          (a, Expect.val (((cols.find? (·.1 = a)).map (·.2)).getD [] |>.getD i 0))) → Dict.keys d' = s.arms := by
      intro sz cols d' h
      simp only [List.mem_map] at h
      obtain ⟨i, _, rfl⟩ := h
      simp [Dict.keys, List.map_map, Function.comp_def]
    split at hd
    · next h1 =>
      simp only [Out.toList, List.mem_singleton] at hd
      rw [hd]
      rw [h1]
      simp [Dict.keys, List.map_map, Function.comp_def]
    · simp only [Out.toList] at hd
      exact hall _ _ d hd
  · simp only [LP.predictExp, hk] at hd
    have hrows := fun (g : Rng) (sz : Nat) => chunk_rows s.arms.length sz
      (g.draw { stream := own, kind := .rand, size := sz * s.arms.length }).1 (by rw [draw_length])
    split at hd
    · next h1 =>
      simp only [Out.toList, List.mem_singleton] at hd
      rw [hd, h1]
      simp only [chunk, List.map_cons, List.map_nil, List.headD_cons]
      apply keys_zip
      simp [List.length_take, draw_length]
    · simp only [Out.toList, List.mem_map] at hd
      obtain ⟨row, hrow, rfl⟩ := hd
      apply keys_zip
      rw [List.length_map, hrows g _ row hrow]
  · simp only [LP.predictExp, hk] at hd
    have hrows := fun (g : Rng) (sz : Nat) (ps : List Expect) => chunk_rows s.st.length sz
      (g.draw { stream := own, kind := .dirichlet, params := ps, size := sz * s.st.length }).1 (by rw [draw_length])
    split at hd
    · next h1 =>
      simp only [Out.toList, List.mem_singleton] at hd
      rw [hd, h1]
      simp only [chunk, List.map_cons, List.map_nil, List.headD_cons]
      rw [keys_zip _ _ (by simp [List.length_take, draw_length, Dict.keys])]
      exact hwf.keys
    · simp only [Out.toList, List.mem_map] at hd
      obtain ⟨row, hrow, rfl⟩ := hd
      rw [keys_zip _ _ (by rw [List.length_map, hrows g _ _ row hrow]; simp [Dict.keys])]
      exact hwf.keys
  · simp only [LP.predictExp, hk] at hd
    have hrows := fun (g : Rng) (sz : Nat) (ps : List Expect) => chunk_rows s.st.length sz
      (g.draw { stream := own, kind := .dirichlet, params := ps, size := sz * s.st.length }).1 (by rw [draw_length])
    split at hd
    · next h1 =>
      simp only [Out.toList, List.mem_singleton] at hd
      rw [hd, h1]
      simp only [chunk, List.map_cons, List.map_nil, List.headD_cons]
      rw [keys_zip _ _ (by simp [List.length_take, draw_length, Dict.keys])]
      exact hwf.keys
    · simp only [Out.toList, List.mem_map] at hd
      obtain ⟨row, hrow, rfl⟩ := hd
      rw [keys_zip _ _ (by rw [List.length_map, hrows g _ _ row hrow]; simp [Dict.keys])]
      exact hwf.keys

/-- `predict` returns a key of the expectations it was computed from, hence a current arm -/
theorem predict_mem (le : Expect → Expect → Bool) (d : ExpDict α) (arms : List α) (hd : Dict.keys d = arms)
    (a : α) (h : argmaxFirst le d = some a) : a ∈ arms := hd ▸ argmaxFirst_mem le d a h

end Mab
