/-
  C13 (continued) — the set of warm-started arms grows monotonically with the quantile
  (numpy's linear-interpolation quantile is monotone on [0,1]) and repeating the call changes nothing.
-/
import MabModel.Props.C13
import Mathlib.Algebra.Order.Ring.Rat
import Mathlib.Algebra.Order.Floor.Ring
import Mathlib.Data.Rat.Floor
import Mathlib.Data.List.GetD
import Mathlib.Tactic.Linarith
import Mathlib.Tactic.Ring
open Py
set_option linter.unusedSectionVars false
set_option linter.unusedVariables false

namespace Mab
variable {α : Type} [DecidableEq α]

theorem insertSorted_mem (x : Rat) (l : List Rat) (y : Rat) : y ∈ insertSorted x l ↔ y = x ∨ y ∈ l := by
  induction l with
  | nil => simp [insertSorted]
  | cons z zs ih =>
    simp only [insertSorted]
    split
    · simp
    · simp [ih]; tauto

theorem insertSorted_pairwise (x : Rat) (l : List Rat) (h : l.Pairwise (· ≤ ·)) :
    (insertSorted x l).Pairwise (· ≤ ·) := by
  induction l with
  | nil => simp [insertSorted]
  | cons z zs ih =>
    simp only [insertSorted]
    have hz := List.pairwise_cons.mp h
    split
    · next hle =>
      refine List.pairwise_cons.mpr ⟨?_, h⟩
      intro y hy
      rcases List.mem_cons.mp hy with e | e
      · subst e; exact hle
      · exact le_trans hle (hz.1 y e)
    · next hnle =>
      refine List.pairwise_cons.mpr ⟨?_, ih hz.2⟩
      intro y hy
      rcases (insertSorted_mem x zs y).mp hy with e | e
      · subst e; exact le_of_lt (not_le.mp hnle)
      · exact hz.1 y e

theorem sortRat_sorted (l : List Rat) : (sortRat l).Pairwise (· ≤ ·) := by
  induction l with
  | nil => simp [sortRat]
  | cons x xs ih => exact insertSorted_pairwise x _ ih

theorem insertSorted_length (x : Rat) (l : List Rat) : (insertSorted x l).length = l.length + 1 := by
  induction l with
  | nil => rfl
  | cons z zs ih => simp only [insertSorted]; split <;> simp [ih]

theorem sortRat_length (l : List Rat) : (sortRat l).length = l.length := by
  induction l with
  | nil => rfl
  | cons x xs ih => simp only [sortRat, List.foldr_cons] at ih ⊢; rw [insertSorted_length, ih]; rfl

/-- in a sorted list, `getD` is monotone in the index as long as the larger index is in range -/
theorem sorted_getD_mono (s : List Rat) (hs : s.Pairwise (· ≤ ·)) (i j : Nat) (hij : i ≤ j) (hj : j < s.length) :
    s.getD i 0 ≤ s.getD j 0 := by
  rcases Nat.eq_or_lt_of_le hij with e | e
  · subst e; exact le_refl _
  · have hi : i < s.length := lt_trans e hj
    rw [List.getD_eq_getElem (l := s) (d := 0) hi, List.getD_eq_getElem (l := s) (d := 0) hj]
    exact List.pairwise_iff_getElem.mp hs i j hi hj e

/-- the linear-interpolation value at position `pos` of a sorted sample -/
def interpAt (s : List Rat) (pos : Rat) : Rat :=
  s.getD pos.floor.toNat 0 + (s.getD (pos.floor.toNat + 1) (s.getD pos.floor.toNat 0) - s.getD pos.floor.toNat 0) *
    (pos - (pos.floor.toNat : Rat))

theorem floor_eq (x : Rat) : x.floor = ⌊x⌋ := rfl

theorem interpAt_mono (s : List Rat) (hs : s.Pairwise (· ≤ ·)) (p p' : Rat) (h0 : 0 ≤ p) (hpp : p ≤ p')
    (hn : p' ≤ (s.length : Rat) - 1) : interpAt s p ≤ interpAt s p' := by
  unfold interpAt
  rw [floor_eq, floor_eq]
  have h0' : 0 ≤ p' := le_trans h0 hpp
  have hf : (0 : ℤ) ≤ ⌊p⌋ := Int.floor_nonneg.mpr h0
  have hf' : (0 : ℤ) ≤ ⌊p'⌋ := Int.floor_nonneg.mpr h0'
  set lo := ⌊p⌋.toNat with hlo
  set lo' := ⌊p'⌋.toNat with hlo'
  have hloc : ((lo : ℕ) : Rat) = ((⌊p⌋ : ℤ) : Rat) := by
    have : ((lo : ℕ) : ℤ) = ⌊p⌋ := Int.toNat_of_nonneg hf
    exact_mod_cast congrArg (fun z : ℤ => (z : Rat)) this
  have hloc' : ((lo' : ℕ) : Rat) = ((⌊p'⌋ : ℤ) : Rat) := by
    have : ((lo' : ℕ) : ℤ) = ⌊p'⌋ := Int.toNat_of_nonneg hf'
    exact_mod_cast congrArg (fun z : ℤ => (z : Rat)) this
  have hfl : (lo : Rat) ≤ p := by rw [hloc]; exact Int.floor_le p
  have hfl' : (lo' : Rat) ≤ p' := by rw [hloc']; exact Int.floor_le p'
  have hlt : p < (lo : Rat) + 1 := by rw [hloc]; exact Int.lt_floor_add_one p
  have hlt' : p' < (lo' : Rat) + 1 := by rw [hloc']; exact Int.lt_floor_add_one p'
  have hlole : lo ≤ lo' := Int.toNat_le_toNat (Int.floor_le_floor hpp)
  -- lo' is in range
  have hlo'n : lo' < s.length := by
    have : (lo' : Rat) ≤ (s.length : Rat) - 1 := le_trans hfl' hn
    have h2 : (lo' : Rat) < (s.length : Rat) := by linarith
    exact_mod_cast h2
  have hlon : lo < s.length := lt_of_le_of_lt hlole hlo'n
  -- the successor entries are at least the current ones
  have hb : ∀ i, i < s.length → s.getD i 0 ≤ s.getD (i + 1) (s.getD i 0) := by
    intro i hi
    by_cases h1 : i + 1 < s.length
    · rw [List.getD_eq_getElem (l := s) (d := s.getD i 0) h1, ← List.getD_eq_getElem (l := s) (d := 0) h1]
      exact sorted_getD_mono s hs i (i + 1) (Nat.le_succ i) h1
    · rw [List.getD_eq_default (l := s) (d := s.getD i 0) (not_lt.mp h1)]
  have hba := hb lo hlon
  have hba' := hb lo' hlo'n
  rcases Nat.eq_or_lt_of_le hlole with e | e
  · -- same segment
    rw [← e]
    have : p - (lo : Rat) ≤ p' - (lo : Rat) := by linarith
    have hd : 0 ≤ s.getD (lo + 1) (s.getD lo 0) - s.getD lo 0 := by linarith
    nlinarith
  · -- different segments: value at p ≤ s[lo+1] ≤ s[lo'] ≤ value at p'
    have h1 : lo + 1 < s.length := lt_of_le_of_lt e hlo'n
    have hmid : s.getD (lo + 1) 0 ≤ s.getD lo' 0 := sorted_getD_mono s hs (lo + 1) lo' e hlo'n
    have hbe : s.getD (lo + 1) (s.getD lo 0) = s.getD (lo + 1) 0 := by
      rw [List.getD_eq_getElem (l := s) (d := s.getD lo 0) h1, List.getD_eq_getElem (l := s) (d := 0) h1]
    rw [hbe] at hba ⊢
    have hd : 0 ≤ s.getD (lo + 1) 0 - s.getD lo 0 := by linarith
    have hfr : p - (lo : Rat) ≤ 1 := by linarith
    have hfr0 : 0 ≤ p - (lo : Rat) := by linarith
    have hd' : 0 ≤ s.getD (lo' + 1) (s.getD lo' 0) - s.getD lo' 0 := by linarith
    have hfr' : 0 ≤ p' - (lo' : Rat) := by linarith
    nlinarith

theorem quantileLin_eq (xs : List Rat) (q : Rat) (h : xs ≠ []) :
    quantileLin xs q = some (interpAt (sortRat xs) (q * (((sortRat xs).length : Rat) - 1))) := by
  unfold quantileLin
  have hl : (sortRat xs).length ≠ 0 := by rw [sortRat_length]; exact fun e => h (List.length_eq_zero_iff.mp e)
  cases hs : sortRat xs with
  | nil => simp [hs] at hl
  | cons a t => simp only [interpAt]

/-- **numpy's linear-interpolation quantile is monotone in `q`** on `[0, 1]`. -/
theorem quantileLin_mono (xs : List Rat) (q q' : Rat) (h0 : 0 ≤ q) (hqq : q ≤ q') (h1 : q' ≤ 1) (t t' : Rat)
    (h : quantileLin xs q = some t) (h' : quantileLin xs q' = some t') : t ≤ t' := by
  have hne : xs ≠ [] := by
    intro e; subst e; simp [quantileLin, sortRat] at h
  rw [quantileLin_eq xs q hne] at h
  rw [quantileLin_eq xs q' hne] at h'
  simp only [Option.some.injEq] at h h'
  subst h h'
  have hl : 1 ≤ (sortRat xs).length := by
    rw [sortRat_length]; exact Nat.one_le_iff_ne_zero.mpr (fun e => hne (List.length_eq_zero_iff.mp e))
  have hn : (0 : Rat) ≤ ((sortRat xs).length : Rat) - 1 := by
    have : (1 : Rat) ≤ ((sortRat xs).length : Rat) := by exact_mod_cast hl
    linarith
  apply interpAt_mono _ (sortRat_sorted xs)
  · exact mul_nonneg h0 hn
  · exact mul_le_mul_of_nonneg_right hqq hn
  · calc q' * (((sortRat xs).length : Rat) - 1) ≤ 1 * (((sortRat xs).length : Rat) - 1) :=
          mul_le_mul_of_nonneg_right h1 hn
      _ = _ := one_mul _

theorem quantileLin_isSome_indep (xs : List Rat) (q q' : Rat) :
    (quantileLin xs q).isSome = (quantileLin xs q').isSome := by
  unfold quantileLin
  cases sortRat xs <;> rfl

/-- **C13 (monotone in the quantile).**  For `0 ≤ q ≤ q' ≤ 1` every pair (cold arm, source arm) that
    `warm_start` acts on with quantile `q` is also acted on — with the same source — with quantile
    `q'`, in the same order: the set of warm-started arms grows monotonically with the quantile. -/
theorem ws_monotone_in_quantile (s : LP α) (keys : List α) (raw : α → α → Option Rat) (q q' : Rat)
    (h0 : 0 ≤ q) (hqq : q ≤ q') (h1 : q' ≤ 1) (m m' : List (α × α))
    (h : s.coldToWarm keys raw q = some m) (h' : s.coldToWarm keys raw q' = some m') :
    m.Sublist m' := by
  unfold LP.coldToWarm at h h'
  cases ht : distanceThreshold keys raw q with
  | none => rw [ht] at h; simp at h
  | some thr =>
    cases ht' : distanceThreshold keys raw q' with
    | none => rw [ht'] at h'; simp at h'
    | some thr' =>
      rw [ht] at h; rw [ht'] at h'
      simp only [Option.some.injEq] at h h'
      have hle : thr ≤ thr' := by
        unfold distanceThreshold at ht ht'
        exact quantileLin_mono _ q q' h0 hqq h1 thr thr' ht ht'
      subst h h'
      generalize s.coldArms = cs
      induction cs with
      | nil => simp
      | cons c cs ih =>
        simp only [List.filterMap_cons]
        cases harg : argminFirst (s.trainedArms.map fun t => (t, armDistance raw c t)) with
        | none => simpa using ih
        | some w =>
          simp only
          by_cases hc : armDistance raw c w ≤ thr
          · have hc' : armDistance raw c w ≤ thr' := le_trans hc hle
            simp only [hc, hc', if_true]
            exact List.Sublist.cons_cons _ ih
          · simp only [hc, if_false]
            by_cases hc' : armDistance raw c w ≤ thr'
            · simp only [hc', if_true]; exact List.Sublist.cons _ ih
            · simp only [hc', if_false]; exact ih

/-- whether `warm_start` raises (no finite closest distance) does not depend on the quantile -/
theorem ws_raises_indep (s : LP α) (keys : List α) (raw : α → α → Option Rat) (q q' : Rat) :
    (s.coldToWarm keys raw q).isSome = (s.coldToWarm keys raw q').isSome := by
  unfold LP.coldToWarm distanceThreshold
  have := quantileLin_isSome_indep (keys.filterMap fun f =>
    if minOf (keys.map fun t => armDistance raw f t) ≠ selfDistance then some (minOf (keys.map fun t => armDistance raw f t)) else none) q q'
  revert this
  cases quantileLin _ q <;> cases quantileLin _ q' <;> simp

end Mab

namespace Mab
variable {α : Type} [DecidableEq α]

/-! ### repeating the call changes nothing -/

theorem modify_map_proj {β : Type} (d : Dict α (ArmSt α)) (a : α) (f : ArmSt α → ArmSt α) (pr : ArmSt α → β)
    (hf : ∀ r, pr (f r) = pr r) : (d.modify a f).map (fun p => (p.1, pr p.2)) = d.map (fun p => (p.1, pr p.2)) := by
  induction d with
  | nil => rfl
  | cons p t ih =>
    obtain ⟨k, v⟩ := p
    simp only [Dict.modify]
    split
    · simp [hf]
    · simp only [List.map_cons, ih]

/-- the status flags and means of every arm, in dictionary order -/
def LP.flagView (s : LP α) : List (α × Bool × Rat) := s.st.map fun p => (p.1, p.2.trained, p.2.mean)

theorem copyOne_flagView (s : LP α) (p : α × α) (hk : ∀ src dst : ArmSt α, (copyRec s.kind src dst).trained = dst.trained) :
    (s.copyOne p).st.map (fun x => (x.1, x.2.trained)) = s.st.map (fun x => (x.1, x.2.trained)) := by
  unfold LP.copyOne
  split
  · next src _ => exact modify_map_proj s.st p.1 _ (fun r => r.trained) (fun r => hk src r)
  · rfl

theorem copyRec_trained (kind : Kind) (src dst : ArmSt α) : (copyRec kind src dst).trained = dst.trained := by
  cases kind <;> rfl
theorem copyRec_warm (kind : Kind) (src dst : ArmSt α) : (copyRec kind src dst).warm = dst.warm := by
  cases kind <;> rfl

theorem copyFold_proj {β : Type} (pr : ArmSt α → β) (hpr : ∀ (kind : Kind) (src dst : ArmSt α), pr (copyRec kind src dst) = pr dst)
    (m : List (α × α)) : ∀ s : LP α, (s.copyFold m).st.map (fun x => (x.1, pr x.2)) = s.st.map (fun x => (x.1, pr x.2)) := by
  induction m with
  | nil => intro s; rfl
  | cons p m ih =>
    intro s
    simp only [LP.copyFold, List.foldl_cons]
    have := ih (s.copyOne p)
    simp only [LP.copyFold] at this
    rw [this]
    unfold LP.copyOne
    split
    · next src _ => exact modify_map_proj s.st p.1 _ pr (fun r => hpr s.kind src r)
    · rfl

theorem expOp_proj {β : Type} (pr : ArmSt α → β) (hpr : ∀ (r : ArmSt α) (e : Expect), pr { r with exp := e } = pr r)
    (s : LP α) : s.expOp.st.map (fun x => (x.1, pr x.2)) = s.st.map (fun x => (x.1, pr x.2)) := by
  unfold LP.expOp
  split
  · simp only [Dict.mapKV, List.map_map]
    apply List.map_congr_left
    intro p _
    simp [hpr]
  · rfl

theorem markWarm_proj {β : Type} (pr : ArmSt α → β)
    (hpr : ∀ (r : ArmSt α) (w : Bool) (wb : Option α), pr { r with warm := w, warmBy := wb } = pr r)
    (m : List (α × α)) : ∀ s : LP α, (s.markWarm m).st.map (fun x => (x.1, pr x.2)) = s.st.map (fun x => (x.1, pr x.2)) := by
  induction m with
  | nil => intro s; rfl
  | cons p m ih =>
    intro s
    simp only [LP.markWarm, List.foldl_cons]
    have := ih (s.markOne p)
    simp only [LP.markWarm] at this
    rw [this]
    unfold LP.markOne
    exact modify_map_proj s.st p.1 _ pr (fun r => hpr r _ _)

theorem get?_map_proj {β : Type} (d d' : Dict α (ArmSt α)) (pr : ArmSt α → β)
    (h : d'.map (fun x => (x.1, pr x.2)) = d.map (fun x => (x.1, pr x.2))) (a : α) :
    (d'.get? a).map pr = (d.get? a).map pr := by
  induction d generalizing d' with
  | nil => cases d' with
    | nil => rfl
    | cons _ _ => simp at h
  | cons p t ih =>
    cases d' with
    | nil => simp at h
    | cons p' t' =>
      obtain ⟨k, v⟩ := p
      obtain ⟨k', v'⟩ := p'
      simp only [List.map_cons, List.cons.injEq, Prod.mk.injEq] at h
      obtain ⟨⟨hk, hv⟩, ht⟩ := h
      subst hk
      simp only [Dict.get?]
      split
      · simp [hv]
      · exact ih t' ht

theorem markOne_arms (s : LP α) (p : α × α) : (s.markOne p).arms = s.arms := rfl
theorem markWarm_arms (m : List (α × α)) : ∀ s : LP α, (s.markWarm m).arms = s.arms := by
  induction m with
  | nil => intro s; rfl
  | cons p m ih => intro s; simp only [LP.markWarm, List.foldl_cons]; exact (ih (s.markOne p)).trans rfl
theorem markWarm_kind (m : List (α × α)) : ∀ s : LP α, (s.markWarm m).kind = s.kind := by
  induction m with
  | nil => intro s; rfl
  | cons p m ih => intro s; simp only [LP.markWarm, List.foldl_cons]; exact (ih (s.markOne p)).trans rfl
theorem copyOne_arms (s : LP α) (p : α × α) : (s.copyOne p).arms = s.arms := by
  unfold LP.copyOne; split <;> rfl
theorem copyFold_arms (m : List (α × α)) : ∀ s : LP α, (s.copyFold m).arms = s.arms := by
  induction m with
  | nil => intro s; rfl
  | cons p m ih => intro s; simp only [LP.copyFold, List.foldl_cons]; exact (ih (s.copyOne p)).trans (copyOne_arms s p)

/-- the state `warm_start` produces from the pairs `m` -/
def LP.warmed (s : LP α) (m : List (α × α)) : LP α := (s.copyArms m).markWarm m

theorem warmed_arms (s : LP α) (m : List (α × α)) : (s.warmed m).arms = s.arms := by
  simp only [LP.warmed, LP.copyArms, markWarm_arms, expOp_arms, copyFold_arms]
theorem warmed_kind (s : LP α) (m : List (α × α)) : (s.warmed m).kind = s.kind := by
  simp only [LP.warmed, LP.copyArms, markWarm_kind, expOp_kind, copyFold_kind]

theorem warmed_trained (s : LP α) (m : List (α × α)) (a : α) :
    ((s.warmed m).st.get? a).map (·.trained) = (s.st.get? a).map (·.trained) := by
  apply get?_map_proj
  simp only [LP.warmed, LP.copyArms]
  rw [markWarm_proj (fun r => r.trained) (fun _ _ _ => rfl), expOp_proj (fun r => r.trained) (fun _ _ => rfl),
      copyFold_proj (fun r => r.trained) copyRec_trained]

theorem warmed_trainedArms (s : LP α) (m : List (α × α)) : (s.warmed m).trainedArms = s.trainedArms := by
  unfold LP.trainedArms
  rw [warmed_arms]
  apply List.filter_congr
  intro a _
  rw [warmed_trained]

/-- the warm flag before the status pass is what it was -/
theorem copyArms_warm (s : LP α) (m : List (α × α)) (a : α) :
    ((s.copyArms m).st.get? a).map (·.warm) = (s.st.get? a).map (·.warm) := by
  apply get?_map_proj
  simp only [LP.copyArms]
  rw [expOp_proj (fun r => r.warm) (fun _ _ => rfl), copyFold_proj (fun r => r.warm) copyRec_warm]

theorem copyArms_trained (s : LP α) (m : List (α × α)) (a : α) :
    ((s.copyArms m).st.get? a).map (·.trained) = (s.st.get? a).map (·.trained) := by
  apply get?_map_proj
  simp only [LP.copyArms]
  rw [expOp_proj (fun r => r.trained) (fun _ _ => rfl), copyFold_proj (fun r => r.trained) copyRec_trained]

/-- after the call, the cold arms are the previously cold arms that were not warm started -/
theorem warmed_cold (s : LP α) (m : List (α × α)) (hnd : (m.map (·.1)).Nodup) (a : α) (ha : a ∈ (s.warmed m).coldArms) :
    a ∈ s.coldArms ∧ a ∉ m.map (·.1) := by
  rw [cold_arms_spec] at ha
  obtain ⟨harm, r, hr, htr, hw⟩ := ha
  rw [warmed_arms] at harm
  have hnot : a ∉ m.map (·.1) := by
    intro hin
    obtain ⟨p, hp, e⟩ := List.mem_map.mp hin
    have := markWarm_get_target m (s.copyArms m) hnd p hp
    rw [e] at this
    simp only [LP.warmed] at hr
    rw [hr] at this
    cases h2 : (s.copyArms m).st.get? a with
    | none => rw [h2] at this; simp at this
    | some r2 =>
      rw [h2] at this
      simp only [Option.map_some, Option.some.injEq] at this
      rw [this] at hw
      simp at hw
  refine ⟨?_, hnot⟩
  rw [cold_arms_spec]
  refine ⟨harm, ?_⟩
  have h1 := warmed_trained s m a
  have h2 := markWarm_get_other m (s.copyArms m) a hnot
  have h3 := copyArms_warm s m a
  simp only [LP.warmed] at hr h1
  rw [hr] at h1 h2
  rw [← h2] at h3
  cases h0 : s.st.get? a with
  | none => rw [h0] at h1; simp at h1
  | some r0 =>
    rw [h0] at h1 h3
    simp only [Option.map_some, Option.some.injEq] at h1 h3
    exact ⟨r0, rfl, by rw [← h1]; exact htr, by rw [← h3]; exact hw⟩

/-- a second call finds nothing to do -/
theorem warmed_coldToWarm (s : LP α) (keys : List α) (raw : α → α → Option Rat) (q : Rat) (m : List (α × α))
    (hwf : s.WF) (hm : s.coldToWarm keys raw q = some m) : (s.warmed m).coldToWarm keys raw q = some [] := by
  have hsub := coldToWarm_targets s keys raw q m hm
  have hcoldnd : s.coldArms.Nodup := by unfold LP.coldArms; exact hwf.nodup.filter _
  have hnd : (m.map (·.1)).Nodup := hsub.nodup hcoldnd
  unfold LP.coldToWarm at hm ⊢
  cases hthr : distanceThreshold keys raw q with
  | none => rw [hthr] at hm; simp at hm
  | some thr =>
    rw [hthr] at hm
    simp only [Option.some.injEq] at hm ⊢
    rw [warmed_trainedArms]
    apply List.filterMap_eq_nil_iff.mpr
    intro c hc
    obtain ⟨hc1, hc2⟩ := warmed_cold s m hnd c hc
    -- in the first call `c` was examined and not selected
    by_contra hne
    apply hc2
    rw [← hm]
    simp only [List.mem_map, List.mem_filterMap]
    cases harg : argminFirst (s.trainedArms.map fun t => (t, armDistance raw c t)) with
    | none => rw [harg] at hne; simp at hne
    | some w =>
      rw [harg] at hne
      simp only at hne
      by_cases hle : armDistance raw c w ≤ thr
      · refine ⟨(c, w), ⟨c, hc1, ?_⟩, rfl⟩
        rw [harg]; simp [hle]
      · simp [hle] at hne

/-- markers for the Softmax shares: every record holds the share computed from the current means -/
def LP.SharesOk (s : LP α) : Prop :=
  ∀ tau, s.kind = .softmax tau → ∀ p ∈ s.st, p.2.exp = .soft s.means tau p.2.mean

theorem expOp_of_sharesOk (s : LP α) (h : s.SharesOk) : s.expOp = s := by
  unfold LP.expOp
  split
  · next tau hk =>
    have : s.st.mapKV (fun _ r => { r with exp := .soft s.means tau r.mean }) = s.st := by
      simp only [Dict.mapKV]
      conv => rhs; rw [← List.map_id s.st]
      apply List.map_congr_left
      intro p hp
      have := h tau hk p hp
      obtain ⟨k, r⟩ := p
      simp only at this
      simp only [id]
      congr 1
      rw [← this]
    rw [this]
  · rfl

theorem means_of_proj (s s' : LP α) (h : s'.st.map (fun x => (x.1, x.2.mean)) = s.st.map (fun x => (x.1, x.2.mean))) :
    s'.means = s.means := by
  have := congrArg (List.map (·.2)) h
  simpa [LP.means, Dict.vals, List.map_map, Function.comp_def] using this

theorem expOp_sharesOk (s : LP α) : s.expOp.SharesOk := by
  intro tau hk p hp
  rw [expOp_kind] at hk
  have hm : s.expOp.means = s.means := means_of_proj _ _ (expOp_proj (fun r => r.mean) (fun _ _ => rfl) s)
  rw [hm]
  unfold LP.expOp at hp
  rw [hk] at hp
  simp only [Dict.mapKV, List.mem_map] at hp
  obtain ⟨p0, _, e⟩ := hp
  subst e
  rfl

theorem mem_modify {ν : Type} (d : Dict α ν) (a : α) (f : ν → ν) (p : α × ν) (hp : p ∈ d.modify a f) :
    p ∈ d ∨ ∃ v, (p.1, v) ∈ d ∧ p.2 = f v := by
  induction d with
  | nil => simp [Dict.modify] at hp
  | cons x t ih =>
    obtain ⟨k, v⟩ := x
    simp only [Dict.modify] at hp
    split at hp
    · rcases List.mem_cons.mp hp with e | e
      · subst e; exact Or.inr ⟨v, by simp, rfl⟩
      · exact Or.inl (List.mem_cons_of_mem _ e)
    · rcases List.mem_cons.mp hp with e | e
      · subst e; exact Or.inl (by simp)
      · rcases ih e with h | ⟨v', h1, h2⟩
        · exact Or.inl (List.mem_cons_of_mem _ h)
        · exact Or.inr ⟨v', List.mem_cons_of_mem _ h1, h2⟩

theorem markOne_sharesOk (s : LP α) (p : α × α) (h : s.SharesOk) : (s.markOne p).SharesOk := by
  intro tau hk x hx
  have hm : (s.markOne p).means = s.means :=
    means_of_proj _ _ (by unfold LP.markOne; exact modify_map_proj s.st p.1 _ (fun r => r.mean) (fun _ => rfl))
  rw [hm]
  have hk' : s.kind = .softmax tau := hk
  unfold LP.markOne at hx
  rcases mem_modify s.st p.1 _ x hx with h1 | ⟨v, h1, h2⟩
  · exact h tau hk' x h1
  · rw [h2]; exact h tau hk' (x.1, v) h1

theorem markWarm_sharesOk (m : List (α × α)) : ∀ s : LP α, s.SharesOk → (s.markWarm m).SharesOk := by
  induction m with
  | nil => intro s h; exact h
  | cons p m ih => intro s h; simp only [LP.markWarm, List.foldl_cons]; exact ih _ (markOne_sharesOk s p h)

/-- **C13 (repeating the call changes nothing).**  If `warm_start` succeeds and yields `s'`, calling
    it again on `s'` with the same features and quantile succeeds and yields `s'` itself. -/
theorem ws_idempotent (s s' : LP α) (keys : List α) (raw : α → α → Option Rat) (q : Rat)
    (hwf : s.WF) (h : s.warmStart keys raw q = some s') : s'.warmStart keys raw q = some s' := by
  by_cases hk : s.kind = .random
  · have : s' = s := by unfold LP.warmStart at h; rw [hk] at h; simpa using h.symm
    rw [this]; unfold LP.warmStart; rw [hk]
  · cases hm : s.coldToWarm keys raw q with
    | none => unfold LP.warmStart at h; rw [hm] at h; cases hkk : s.kind <;> simp_all
    | some m =>
      have hws : s' = s.warmed m := by
        unfold LP.warmStart at h
        rw [hm] at h
        unfold LP.warmed
        cases hkk : s.kind <;> simp_all
      have h2 := warmed_coldToWarm s keys raw q m hwf hm
      rw [hws]
      unfold LP.warmStart
      rw [h2, warmed_kind]
      have hfix : ((s.warmed m).copyArms []).markWarm [] = s.warmed m := by
        simp only [LP.copyArms, LP.copyFold, LP.markWarm, List.foldl_nil]
        apply expOp_of_sharesOk
        unfold LP.warmed LP.copyArms
        exact markWarm_sharesOk m _ (expOp_sharesOk _)
      cases hkk : s.kind <;> simp_all

end Mab

namespace Mab
/-! ### non-vacuity: a concrete greedy policy with one trained arm and two cold arms at distances 1 and 3 -/
def exWS : LP Nat :=
  (LP.init (.greedy 0) [0, 1, 2]).fit [{ arm := 0, reward := 1 }, { arm := 0, reward := 0 }]
def exRaw (a b : Nat) : Option Rat :=
  if (a = 0 ∧ b = 1) ∨ (a = 1 ∧ b = 0) then some 1
  else if (a = 0 ∧ b = 2) ∨ (a = 2 ∧ b = 0) then some 3
  else some 4

example : exWS.coldToWarm [0, 1, 2] exRaw 0 = some [(1, 0)] := by decide +kernel
example : exWS.coldToWarm [0, 1, 2] exRaw 1 = some [(1, 0), (2, 0)] := by decide +kernel
example : (exWS.warmStart [0, 1, 2] exRaw 0).isSome = true := by decide +kernel
example : exWS.st.keys = exWS.arms ∧ exWS.arms.Nodup := by decide +kernel
end Mab
