/-
  C12 — Clusters and TreeBandit condition on exactly the query's cell (for every cell-assignment
  oracle: what k-means / CART compute is trusted).
-/
import MabModel.Props.C07
open Py
set_option linter.unusedSectionVars false
set_option linter.unusedVariables false
set_option linter.unusedSimpArgs false

namespace Mab
variable {α : Type} [DecidableEq α]

/-- the stored rows that the labelling puts into cluster `c` -/
def rowsOfCell (hist : Batch α) (labels : List Nat) (c : Nat) : Batch α :=
  (List.zip hist labels).filterMap fun rl => if rl.2 = c then some rl.1 else none

/-- **C12 (Clusters, training).**  After `fit` / `partial_fit` the policy of cluster `c` is the previous
    policy object of that cluster `fit` on exactly the stored rows labelled `c` (all of them, nothing
    else), for every labelling the clusterer returns. -/
theorem clusters_cell_rows (b : Bandit α) (labels : List Nat) (w : Option Nat) (c : Nat) (hc : c < b.lps.length) :
    (clustersFitOp b labels w).lps[c]? = some ((b.lps[c]'hc).fit (rowsOfCell b.hist labels c) w) := by
  simp only [clustersFitOp, rowsOfCell]
  rw [List.getElem?_map]
  have : (b.lps.zipIdx)[c]? = some (b.lps[c]'hc, c) := by
    rw [List.getElem?_zipIdx]
    simp [List.getElem?_eq_getElem hc]
  rw [this]
  rfl

/-- … and because `fit` discards everything (C07), that is the policy a *freshly constructed* object
    with the same configuration gets from those rows. -/
theorem clusters_cell_from_scratch (b : Bandit α) (labels : List Nat) (w : Option Nat) (c : Nat)
    (hc : c < b.lps.length) (fresh : LP α) (hcfg : SameConfig (b.lps[c]'hc) fresh) (hr : (b.lps[c]'hc).kind ≠ .random) :
    (clustersFitOp b labels w).lps[c]? = some (fresh.fit (rowsOfCell b.hist labels c) w) := by
  rw [clusters_cell_rows b labels w c hc, fit_discards _ _ _ _ hcfg hr]

/-- `partial_fit` re-labels and re-trains on the *whole* accumulated history -/
theorem clusters_partial_hist (b : Bandit α) (n : Nat) (hnp : b.np = .clusters n) (batch : Batch α) (o : Oracle) (g : Rng)
    (hbz : ∀ l ∈ b.lps, l.binz = none) (hbz0 : b.lp.binz = none) :
    (b.impPartialFit batch o g).1.hist = b.hist ++ batch ∧ (b.impPartialFit batch o g).1.labels = o.labels := by
  have h0 : (b.lps.headD b.lp).binz = none := by
    cases hl : b.lps with
    | nil => simpa using hbz0
    | cons x t => simp only [List.headD_cons]; exact hbz x (by rw [hl]; simp)
  have hnb : ∀ (l : LP α), l.binz = none → npBinarize l batch = (l, batch) := by
    intro l hl; unfold npBinarize; rw [hl]; cases l.kind <;> rfl
  have h0' : (b.lps.head?.getD b.lp).binz = none := by
    cases hl : b.lps with
    | nil => simpa using hbz0
    | cons x t => simp only [List.head?_cons, Option.getD_some]; exact hbz x (by rw [hl]; simp)
  simp [Bandit.impPartialFit, hnp, clustersFitOp, hnb _ h0']

/-- **C12 (Clusters, query).**  A query row is answered by the policy of the cluster the oracle assigns
    to it (with the row's own generator), and by no other. -/
theorem clusters_query_cell (le : Expect → Expect → Bool) (b : Bandit α) (n : Nat) (hnp : b.np = .clusters n)
    (q : Vec) (o : Oracle) (g : Rng) :
    (b.predictChunk le false [q] 0 o g).1 =
      [.inl ((({ (b.lps.getD (o.cells.getD 0 0) default) with
                  st := (b.lps.getD (o.cells.getD 0 0) default).st.mapKV fun _ r => { r with rngPriv := false } } : LP α).predictExp
                (some 1) [q] (.row 0) g).2.1.toList.headD [])] := by
  simp [Bandit.predictChunk, hnp]

/-! ### TreeBandit -/

/-- **C12 (TreeBandit, arms without observations).**  An arm whose leaf store is empty keeps the
    neutral expectation of the neighbourhood object (0) in every prediction. -/
theorem tree_unobserved_arm (le : Expect → Expect → Bool) (b : Bandit α) (qleaf : List Nat) (g : Rng)
    (a : α) (hn : b.arms.Nodup) (hlr : (b.leafRewards.getD a []).length = 0) :
    ∀ d, (b.treeRow le false qleaf g).1 = .inl d → d.get? a = b.npExp.get? a := by
  intro d hd
  simp only [Bandit.treeRow] at hd
  simp only [Bool.false_eq_true, if_false, Sum.inl.injEq] at hd
  rw [← hd]
  -- the fold only ever writes keys whose leaf store is non-empty
  have key : ∀ (l : List (α × Nat)) (acc : ExpDict α × Rng), acc.1.get? a = b.npExp.get? a →
      (l.foldl (fun (acc : ExpDict α × Rng) (p : α × Nat) =>
        let lr := b.leafRewards.getD p.1 []
        if lr.length = 0 then acc
        else
          let (e, g) := b.treeLeafExp p.1 (lr.getD (qleaf.getD p.2 0) []) acc.2
          (acc.1.set p.1 e, g)) acc).1.get? a = b.npExp.get? a := by
    intro l
    induction l with
    | nil => intro acc h; exact h
    | cons p l ih =>
      intro acc h
      simp only [List.foldl_cons]
      apply ih
      by_cases hz : (b.leafRewards.getD p.1 []).length = 0
      · simp only [hz, if_true]; exact h
      · simp only [hz, if_false]
        have hpa : a ≠ p.1 := by intro e; rw [e] at hlr; exact hz hlr
        rw [Dict.get?_set_ne _ _ _ _ hpa]
        exact h
  exact key _ _ rfl

/-- training appends each row's reward to the list of the leaf the oracle assigns to it -/
theorem tree_fit_empty_batch_arm (b : Bandit α) (batch : Batch α) (leaves : List (List Nat)) (a : α)
    (hnone : rowsOf batch a = []) (hn : b.arms.Nodup) :
    (treeFitArms b batch leaves).leafRewards.get? a = b.leafRewards.get? a := by
  simp only [treeFitArms]
  have key : ∀ (l : List (α × Nat)) (lr : Dict α (Dict Nat (List Rat))), 
      (l.foldl (fun lr (p : α × Nat) =>
        let rs := rowsOf batch p.1
        if rs.length = 0 then lr
        else
          let lv := leaves.getD p.2 []
          lr.modify p.1 fun d => (List.zip rs lv).foldl (fun d rl => d.set rl.2 (d.getD rl.2 [] ++ [rl.1.1])) d) lr).get? a =
        lr.get? a := by
    intro l
    induction l with
    | nil => intro lr; rfl
    | cons p l ih =>
      intro lr
      simp only [List.foldl_cons]
      rw [ih]
      by_cases hz : (rowsOf batch p.1).length = 0
      · simp [hz]
      · simp only [hz, if_false]
        have hpa : a ≠ p.1 := by intro e; rw [← e] at hz; simp [hnone] at hz
        exact Dict.get?_modify_ne _ _ _ _ hpa
  exact key _ _

end Mab
