/-
  C19 — copies and pickles of a bandit behave identically to the original (the logical part).
  In the model a bandit *is* its state, so "a faithful copy behaves identically" is determinism of
  `step`; what the World model adds is which objects a copy must duplicate: everything reachable from
  the bandit.  That `copy.deepcopy` and the pickle round trip really deliver such a faithful,
  private duplicate (reduce protocol, default factories, memoised aliasing, functions pickled by
  reference) is runtime behaviour: sampled by the harness at random points of random histories,
  protocols 2..5, also restored in a fresh interpreter.
-/
import MabModel.Props.C04
import MabModel.Core.Facade
open Py
set_option linter.unusedVariables false

namespace Mab

/-- **C19 (copy bisimilar).**  A faithful copy — an equal state — returns the same outputs, the same new
    state and consumes the random streams identically under every operation, hence under every
    sequence of operations. -/
theorem copy_bisimilar {α : Type} [DecidableEq α] (le : Expect → Expect → Bool) (b c : Bandit α) (h : c = b)
    (ops : List (Op α × Oracle)) (g : Rng) :
    ops.foldl (fun (acc : Bandit α × Rng) p => ((acc.1.step le p.1 p.2 acc.2).1, (acc.1.step le p.1 p.2 acc.2).2.2)) (c, g) =
    ops.foldl (fun (acc : Bandit α × Rng) p => ((acc.1.step le p.1 p.2 acc.2).1, (acc.1.step le p.1 p.2 acc.2).2.2)) (b, g) := by
  rw [h]

/-- **C19 (copy independent).**  With private parameter copies, a bandit created by copying bandit `i` and
    then used arbitrarily (any interleaving of fits and other calls on it and on every other bandit)
    leaves the original's trees — and every other bandit's — built with their own seeds, and vice
    versa: copy and original do not influence each other. -/
theorem copy_independent (pre post : List WOp) (i : Nat) (d0 : Nat) :
    (World.run { shared := false, defaultCell := d0 } (pre ++ [.copy i] ++ post)).Isolated :=
  (noninterference_private (pre ++ [.copy i] ++ post) d0).1

/-- the copy starts out equal to the original -/
theorem copy_equal (w : World) (i : Nat) (b : WBandit) (h : w.bandits[i]? = some b) :
    (w.step (.copy i)).bandits = w.bandits ++ [b] := by
  simp [World.step, h]

/-- in the shared variant (pinned tree) a copy still reads the one default dictionary: constructing a
    third bandit changes what the copy's next fit sees -/
theorem shared_copy_counterexample :
    ((World.run { shared := true } [.construct 1 true, .copy 0, .construct 9 true, .fit 1]).bandits.map (·.trees)) = [[], [9], []] := by
  decide +kernel

end Mab
