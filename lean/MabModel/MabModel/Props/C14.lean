/-
  C14 — a Thompson binarizer is applied to every reward exactly once.
-/
import MabModel.Props.C01
import MabModel.Core.Facade
open Py
set_option linter.unusedSectionVars false
set_option linter.unusedVariables false
set_option linter.unusedSimpArgs false

namespace Mab
variable {α : Type} [DecidableEq α]

/-- forget the binarizer (the twin bandit that is fed pre-converted rewards has none) -/
def LP.noBinz (s : LP α) : LP α := { s with binz := none }
def LP.withBinz (s : LP α) (f : Option (α → Rat → Rat)) : LP α := { s with binz := f }

theorem expOp_withBinz (s : LP α) (f : Option (α → Rat → Rat)) : (s.withBinz f).expOp = s.expOp.withBinz f := by
  obtain ⟨kind, arms, total, st, binz, ctxBin, nf, k1⟩ := s
  cases kind <;> rfl

theorem normalize_withBinz (s : LP α) (f : Option (α → Rat → Rat)) :
    (s.withBinz f).normalize = s.normalize.withBinz f := by
  obtain ⟨kind, arms, total, st, binz, ctxBin, nf, k1⟩ := s
  cases kind <;> try rfl
  simp only [LP.normalize, LP.withBinz, LP.popTotal]
  by_cases h : (List.map popMean (Dict.vals st)).sum = 0
  · simp only [h, if_true]
  · simp only [h, if_false]

theorem setTrained_withBinz (s : LP α) (f : Option (α → Rat → Rat)) (b : Batch α) (p : Bool) :
    (s.withBinz f).setTrained b p = (s.setTrained b p).withBinz f := rfl

theorem post_withBinz (s : LP α) (f : Option (α → Rat → Rat)) (b : Batch α) (p : Bool) :
    (s.withBinz f).post b p = (s.post b p).withBinz f := by
  unfold LP.post
  rw [expOp_withBinz, setTrained_withBinz, normalize_withBinz]

theorem parallelFit_withBinz (s : LP α) (f : Option (α → Rat → Rat)) (b : Batch α) :
    (s.withBinz f).parallelFit b = (s.parallelFit b).withBinz f := by
  unfold LP.parallelFit
  rw [parallelFitIn_eq, parallelFitIn_eq]
  rfl

/-- `fit` / `partial_fit` after the rewards have been converted -/
def LP.fitCore (s : LP α) (B : Batch α) (w : Option Nat) : LP α :=
  match s.kind with
  | .random => s
  | _ => ((s.resetFor B w).parallelFit B).post B false

def LP.partialFitCore (s : LP α) (B : Batch α) : LP α :=
  match s.kind with
  | .random => s
  | _ => ((s.bumpTotal B.length).parallelFit B).post B true

theorem fit_eq_core (s : LP α) (b : Batch α) (w : Option Nat) : s.fit b w = s.fitCore (s.binarize b) w := by
  unfold LP.fit LP.fitCore; cases s.kind <;> rfl

theorem partialFit_eq_core (s : LP α) (b : Batch α) : s.partialFit b = s.partialFitCore (s.binarize b) := by
  unfold LP.partialFit LP.partialFitCore; cases s.kind <;> rfl

theorem fitCore_withBinz (s : LP α) (f : Option (α → Rat → Rat)) (B : Batch α) (w : Option Nat) :
    (s.withBinz f).fitCore B w = (s.fitCore B w).withBinz f := by
  unfold LP.fitCore
  have hk : (s.withBinz f).kind = s.kind := rfl
  rw [hk]
  cases s.kind with
  | random => rfl
  | _ =>
    simp only []
    have hr : (s.withBinz f).resetFor B w = (s.resetFor B w).withBinz f := rfl
    rw [hr, parallelFit_withBinz, post_withBinz]

theorem partialFitCore_withBinz (s : LP α) (f : Option (α → Rat → Rat)) (B : Batch α) :
    (s.withBinz f).partialFitCore B = (s.partialFitCore B).withBinz f := by
  unfold LP.partialFitCore
  have hk : (s.withBinz f).kind = s.kind := rfl
  rw [hk]
  cases s.kind with
  | random => rfl
  | _ =>
    simp only []
    have hr : (s.withBinz f).bumpTotal B.length = (s.bumpTotal B.length).withBinz f := rfl
    rw [hr, parallelFit_withBinz, post_withBinz]

/-- **C14 (fit).**  `fit` of a policy holding a binarizer is `fit` of the same policy without binarizer
    on the rewards converted by `_get_binary_rewards` — each reward converted exactly once — and the
    binarizer is kept for later calls. -/
theorem fit_binarizer_once (s : LP α) (b : Batch α) (w : Option Nat) :
    s.fit b w = (s.noBinz.fit (s.binarize b) w).withBinz s.binz := by
  have hb : s.noBinz.binarize (s.binarize b) = s.binarize b := by simp [LP.binarize, LP.noBinz]
  have hs : s = s.noBinz.withBinz s.binz := rfl
  rw [fit_eq_core, fit_eq_core s.noBinz, hb]
  conv => lhs; rw [hs]
  exact fitCore_withBinz s.noBinz s.binz (s.binarize b) w

theorem partialFit_binarizer_once (s : LP α) (b : Batch α) :
    s.partialFit b = (s.noBinz.partialFit (s.binarize b)).withBinz s.binz := by
  have hb : s.noBinz.binarize (s.binarize b) = s.binarize b := by simp [LP.binarize, LP.noBinz]
  have hs : s = s.noBinz.withBinz s.binz := rfl
  rw [partialFit_eq_core, partialFit_eq_core s.noBinz, hb]
  conv => lhs; rw [hs]
  exact partialFitCore_withBinz s.noBinz s.binz (s.binarize b)

/-- the conversion itself: `binarizer(decision, reward)` per observation, when a binarizer is set and
    the rewards were not converted by a neighbourhood policy already -/
theorem binarize_spec (s : LP α) (f : α → Rat → Rat) (b : Batch α) (hf : s.binz = some f) (hc : s.ctxBin = false) :
    s.binarize b = b.map fun r => { r with reward := f r.arm r.reward } := by
  simp [LP.binarize, hf, hc]

theorem binarize_noop_ctxBin (s : LP α) (b : Batch α) (hc : s.ctxBin = true) : s.binarize b = b := by
  unfold LP.binarize; cases s.binz <;> simp [hc]

/-- **C14 (neighbourhood policies).**  Radius / KNearest / LSHNearest / Clusters / TreeBandit convert the
    rewards once when they arrive (`fit` and `partial_fit` alike), store the converted values and mark
    the learning policy so that its own `fit` on a neighbourhood does not convert again. -/
theorem np_binarize_once (lp : LP α) (f : α → Rat → Rat) (b : Batch α) (hk : lp.kind = .thompson) (hf : lp.binz = some f) :
    (npBinarize lp b).2 = (b.map fun r => { r with reward := f r.arm r.reward }) ∧
    (npBinarize lp b).1.ctxBin = true ∧
    ∀ rows, (npBinarize lp b).1.binarize rows = rows := by
  simp only [npBinarize, hk, hf]
  refine ⟨by simp [LP.binarize, hf], by simp, ?_⟩
  intro rows
  exact binarize_noop_ctxBin _ rows rfl

/-- after `add_arm(arm, new_binarizer)` on a Radius / KNearest / LSHNearest bandit the stored rewards
    are still not converted again, and subsequent observations use the new binarizer -/
theorem addArm_new_binarizer (b : Bandit α) (a : α) (f' : α → Rat → Rat) (r : Rat) (m : Metric) (pr : Option (List Rat))
    (hnp : b.np = .radius r m pr) (hk : b.lp.kind = .thompson) :
    (b.impAddArm a (some f')).lp.ctxBin = true ∧ (b.impAddArm a (some f')).lp.binz = some f' ∧
    (b.impAddArm a (some f')).hist = b.hist := by
  have hk2 : (b.lp.addArm a (some f')).kind = .thompson := by rw [addArm_kind]; exact hk
  have hbz : (b.lp.addArm a (some f')).binz = some f' := by
    unfold LP.addArm; rw [expOp_binz]; unfold LP.insertArm; simp [hk]
  simp only [Bandit.impAddArm, hnp, hk2]
  exact ⟨trivial, hbz, trivial⟩

/-! ### known finding K2: TreeBandit converts twice -/

def k2Binz : Nat → Rat → Rat := fun _ r => if r ≤ (1 : Rat) / 2 then 1 else 0   -- not idempotent on {0,1}

def k2Bandit : Bandit Nat :=
  ((Bandit.init [0] .thompson .tree (some k2Binz)).impFit
      [⟨0, 0, [1]⟩, ⟨0, 0, [1]⟩, ⟨0, 0, [1]⟩] { leaves := [[1, 1, 1]] } { tape := [] }).1

/-- three observations with reward 0: the binarizer maps each to a success, so the leaf holds [1,1,1]
    and the Beta parameters should be (4, 1); the leaf policy converts them again to failures: (1, 4). -/
theorem tree_binarizer_twice_counterexample :
    (k2Bandit.leafRewards.getD 0 []).getD 1 [] = [1, 1, 1] ∧
    ((k2Bandit.treeLeafExp 0 [1, 1, 1] { tape := [[1/2]] }).2.reqs.map (·.params)) = [[.val 1, .val 4]] := by
  decide +kernel

end Mab
