/-
  C05 — results do not depend on n_jobs, backend or scheduling (the logical part).
  * `_partition_contexts` is an exact ordered cover of the rows for every n ≥ 1, every n_jobs ≠ 0 and
    every CPU count;
  * concatenating the per-chunk results of *any* contiguous partition gives the row-wise results;
  * the per-arm `_fit_arm` tasks commute: every execution order yields the same model.
  Real thread pre-emption, process scheduling and pickling are outside the model (sampled by the
  harness across backends).
-/
import MabModel.Lemmas.LPBasic
import MabModel.Core.Parallel
open Py
set_option linter.unusedSectionVars false
set_option linter.unusedVariables false

namespace Mab
variable {α : Type} [DecidableEq α]

theorem sum_range_sizes (q r : Nat) : ∀ j : Nat,
    ((List.range j).map fun i => q + (if i < r then 1 else 0)).sum = j * q + min r j := by
  intro j
  induction j with
  | zero => simp
  | succ j ih =>
    rw [List.range_succ, List.map_append, List.sum_append, ih]
    simp only [List.map_cons, List.map_nil, List.sum_cons, List.sum_nil]
    by_cases h : j < r
    · simp [h]; rw [Nat.min_eq_right (by omega), Nat.min_eq_right (by omega)]; rw [Nat.succ_mul]; omega
    · simp [h]; rw [Nat.min_eq_left (by omega), Nat.min_eq_left (by omega)]; rw [Nat.succ_mul]; omega

/-- the number of workers is between 1 and the number of rows -/
theorem effectiveJobs_bounds (n : Nat) (nJobs : Int) (cpu : Nat) (hn : 1 ≤ n) (hj : nJobs ≠ 0) :
    1 ≤ effectiveJobs n nJobs cpu ∧ effectiveJobs n nJobs cpu ≤ n := by
  unfold effectiveJobs
  constructor
  · by_cases h : nJobs < 0
    · simp only [h, if_true]
      have : 1 ≤ (max ((cpu : Int) + 1 + nJobs) 1).toNat := by omega
      omega
    · simp only [h, if_false]
      have : 1 ≤ nJobs.toNat := by omega
      omega
  · exact Nat.min_le_right _ _

/-- **C05 (partition).** For every `n ≥ 1`, `n_jobs ≠ 0`, `cpu`: the chunk sizes are all positive,
    there are exactly `n_jobs_effective` of them, they sum to `n`, and `starts` are their prefix sums
    beginning at 0. -/
theorem partition_exact_cover (n : Nat) (nJobs : Int) (cpu : Nat) (hn : 1 ≤ n) (hj : nJobs ≠ 0) :
    let p := partitionContexts n nJobs cpu
    p.2.1.length = p.1 ∧ p.2.1.sum = n ∧ (∀ s ∈ p.2.1, 1 ≤ s) ∧ p.2.2 = 0 :: prefixSums p.2.1 0 ∧
    1 ≤ p.1 ∧ p.1 ≤ n := by
  obtain ⟨h1, h2⟩ := effectiveJobs_bounds n nJobs cpu hn hj
  simp only [partitionContexts]
  refine ⟨by simp, ?_, ?_, by simp, h1, h2⟩
  · rw [sum_range_sizes]
    have hm : n % effectiveJobs n nJobs cpu < effectiveJobs n nJobs cpu := Nat.mod_lt _ h1
    rw [Nat.min_eq_left (Nat.le_of_lt hm)]
    exact Nat.div_add_mod n _
  · intro s hs
    simp only [List.mem_map, List.mem_range] at hs
    obtain ⟨i, _, rfl⟩ := hs
    have : 1 ≤ n / effectiveJobs n nJobs cpu := (Nat.one_le_div_iff h1).mpr h2
    omega

/-- splitting by sizes that add up to the length and concatenating gives back the rows in order -/
theorem splitBySizes_flatten {β : Type} : ∀ (sizes : List Nat) (l : List β), sizes.sum = l.length →
    (splitBySizes sizes l).flatten = l := by
  intro sizes
  induction sizes with
  | nil => intro l h; simp at h; simp [splitBySizes, List.eq_nil_of_length_eq_zero h.symm]
  | cons k ks ih =>
    intro l h
    simp only [splitBySizes, List.flatten_cons]
    rw [ih (l.drop k) (by simp [List.length_drop] at h ⊢; omega)]
    exact List.take_append_drop k l

/-- **C05 (any partition).** For *every* split of the rows into contiguous chunks and every row-local
    worker `f`, reducing the per-chunk result lists gives exactly the row-wise results, in row order. -/
theorem chunked_map {β γ : Type} (f : β → γ) (sizes : List Nat) (rows : List β) (h : sizes.sum = rows.length) :
    ((splitBySizes sizes rows).map (·.map f)).flatten = rows.map f := by
  rw [← List.map_flatten, splitBySizes_flatten sizes rows h]

/-- the partition the library picks is one of them -/
theorem predict_any_partition {β γ : Type} (f : β → γ) (rows : List β) (nJobs : Int) (cpu : Nat)
    (hn : 1 ≤ rows.length) (hj : nJobs ≠ 0) :
    ((splitBySizes (partitionContexts rows.length nJobs cpu).2.1 rows).map (·.map f)).flatten = rows.map f :=
  chunked_map f _ rows (partition_exact_cover rows.length nJobs cpu hn hj).2.1

/-- **C05 (fit tasks commute).** `_parallel_fit` run in any order of the arm tasks (any permutation of
    any duplicate-free task list) yields the same policy state: each task reads and writes only its own
    arm's entry. -/
theorem fit_tasks_commute (s : LP α) (b : Batch α) (o₁ o₂ : List α) (h1 : o₁.Nodup) (h2 : o₂.Nodup)
    (hperm : ∀ a, a ∈ o₁ ↔ a ∈ o₂) (hk : s.st.keys.Nodup) :
    s.parallelFitIn b o₁ = s.parallelFitIn b o₂ := by
  rw [parallelFitIn_closed s b o₁ h1 hk, parallelFitIn_closed s b o₂ h2 hk]
  congr 1
  apply Dict.mapKV_congr
  intro k v _
  by_cases h : k ∈ o₁
  · simp [h, (hperm k).mp h]
  · have : k ∉ o₂ := fun e => h ((hperm k).mpr e)
    simp [h, this]

example : partitionContexts 7 3 16 = (3, [3, 2, 2], [0, 3, 5, 7]) := by decide +kernel
example : partitionContexts 2 (-1) 16 = (2, [1, 1], [0, 1, 2]) := by decide +kernel

end Mab
