/-
  C13 — warm_start only initialises cold arms, from their nearest trained arm.
-/
import MabModel.Lemmas.RefineSteps
open Py
set_option linter.unusedSectionVars false
set_option linter.unusedVariables false
set_option linter.unusedSimpArgs false

namespace Mab
variable {α : Type} [DecidableEq α]

/-! ### `argmin` -/

def minStep (acc p : α × Rat) : α × Rat := if p.2 < acc.2 then p else acc

theorem foldMin_spec (t : List (α × Rat)) : ∀ (acc r : α × Rat), r = t.foldl minStep acc →
    r.2 ≤ acc.2 ∧ (∀ q ∈ t, r.2 ≤ q.2) ∧ (r = acc ∨ r ∈ t) := by
  induction t with
  | nil => intro acc r hr; simp at hr; subst hr; exact ⟨Rat.le_refl, by simp, Or.inl rfl⟩
  | cons p t ih =>
    intro acc r hr
    simp only [List.foldl_cons] at hr
    obtain ⟨i1, i2, i3⟩ := ih (minStep acc p) r hr
    have hm : (minStep acc p).2 ≤ acc.2 ∧ (minStep acc p).2 ≤ p.2 := by
      unfold minStep; split
      · next h => exact ⟨Rat.le_of_lt h, Rat.le_refl⟩
      · next h => exact ⟨Rat.le_refl, Rat.not_lt.mp h⟩
    refine ⟨Rat.le_trans i1 hm.1, ?_, ?_⟩
    · intro q hq
      rcases List.mem_cons.mp hq with e | e
      · subst e; exact Rat.le_trans i1 hm.2
      · exact i2 q e
    · rcases i3 with e | e
      · rw [e]; unfold minStep; split
        · exact Or.inr (by simp)
        · exact Or.inl rfl
      · exact Or.inr (List.mem_cons_of_mem _ e)

/-- `utils.argmin`: the returned key is one of the keys and carries a minimal value -/
theorem argminFirst_spec (l : List (α × Rat)) (w : α) (h : argminFirst l = some w) :
    ∃ v, (w, v) ∈ l ∧ ∀ q ∈ l, v ≤ q.2 := by
  cases l with
  | nil => simp [argminFirst] at h
  | cons x t =>
    obtain ⟨k, v⟩ := x
    have hfold : argminFirst ((k, v) :: t) = some (t.foldl minStep (k, v)).1 := rfl
    rw [hfold] at h
    simp only [Option.some.injEq] at h
    obtain ⟨i1, i2, i3⟩ := foldMin_spec t (k, v) _ rfl
    generalize t.foldl minStep (k, v) = r at *
    refine ⟨r.2, ?_, ?_⟩
    · subst h
      rcases i3 with e | e
      · rw [e]; simp
      · exact List.mem_cons_of_mem _ e
    · intro q hq
      rcases List.mem_cons.mp hq with e | e
      · subst e; exact i1
      · exact i2 q e

/-! ### which arms are warm started, and from which arm -/

/-- **C13 (choice of source).**  Every pair `(cold, warm)` that `warm_start` acts on consists of an arm
    that is cold (never observed since the last fit, not warm-started before) and a *trained* arm
    that is closest to it among all trained arms, at a distance not exceeding the quantile threshold. -/
theorem ws_pairs_spec (s : LP α) (keys : List α) (raw : α → α → Option Rat) (q : Rat) (m : List (α × α))
    (h : s.coldToWarm keys raw q = some m) :
    ∃ thr, distanceThreshold keys raw q = some thr ∧
      ∀ p ∈ m, p.1 ∈ s.coldArms ∧ p.2 ∈ s.trainedArms ∧ armDistance raw p.1 p.2 ≤ thr ∧
        ∀ t ∈ s.trainedArms, armDistance raw p.1 p.2 ≤ armDistance raw p.1 t := by
  unfold LP.coldToWarm at h
  cases hthr : distanceThreshold keys raw q with
  | none => rw [hthr] at h; simp at h
  | some thr =>
    rw [hthr] at h
    simp only [Option.some.injEq] at h
    refine ⟨thr, rfl, ?_⟩
    intro p hp
    rw [← h] at hp
    simp only [List.mem_filterMap] at hp
    obtain ⟨c, hc, hsome⟩ := hp
    cases harg : argminFirst (s.trainedArms.map fun t => (t, armDistance raw c t)) with
    | none => rw [harg] at hsome; simp at hsome
    | some w =>
      rw [harg] at hsome
      simp only at hsome
      split at hsome
      · next hle =>
        simp only [Option.some.injEq] at hsome
        subst hsome
        obtain ⟨v, hv, hmin⟩ := argminFirst_spec _ w harg
        simp only [List.mem_map] at hv
        obtain ⟨t0, ht0, e0⟩ := hv
        simp only [Prod.mk.injEq] at e0
        obtain ⟨e1, e2⟩ := e0
        subst e1
        refine ⟨hc, ht0, hle, ?_⟩
        intro t ht
        have := hmin (t, armDistance raw c t) (List.mem_map.mpr ⟨t, ht, rfl⟩)
        rw [← e2] at this
        exact this
      · simp at hsome

/-- a cold arm is not trained: sources and targets of a warm start are disjoint -/
theorem cold_not_trained (s : LP α) (a : α) (hc : a ∈ s.coldArms) : a ∉ s.trainedArms := by
  simp only [LP.coldArms, LP.trainedArms, List.mem_filter] at hc ⊢
  intro ⟨_, ht⟩
  obtain ⟨_, hcold⟩ := hc
  cases hr : s.st.get? a with
  | none => simp [hr] at ht
  | some r => simp [hr] at ht hcold; simp [ht] at hcold

/-! ### what the copy does -/

theorem copyOne_kind (s : LP α) (p : α × α) : (s.copyOne p).kind = s.kind := by
  unfold LP.copyOne; split <;> rfl

theorem copyFold_kind (s : LP α) (m : List (α × α)) : (s.copyFold m).kind = s.kind := by
  unfold LP.copyFold
  induction m generalizing s with
  | nil => rfl
  | cons p m ih => simp only [List.foldl_cons]; rw [ih, copyOne_kind]

theorem copyOne_get_ne (s : LP α) (p : α × α) (a : α) (h : a ≠ p.1) : (s.copyOne p).st.get? a = s.st.get? a := by
  unfold LP.copyOne; split
  · exact Dict.get?_modify_ne _ _ _ _ h
  · rfl

/-- **C13 (only cold arms change).**  An arm that is not the target of any pair keeps its record
    untouched by the copying phase — in particular every trained arm and every arm that was warm
    started before. -/
theorem copyFold_get_other (m : List (α × α)) : ∀ (s : LP α) (a : α), a ∉ m.map (·.1) →
    (s.copyFold m).st.get? a = s.st.get? a := by
  induction m with
  | nil => intro s a _; rfl
  | cons p m ih =>
    intro s a ha
    simp only [List.map_cons, List.mem_cons, not_or] at ha
    simp only [LP.copyFold, List.foldl_cons]
    have := ih (s.copyOne p) a ha.2
    simp only [LP.copyFold] at this
    rw [this, copyOne_get_ne s p a ha.1]

/-- **C13 (exact copy).**  When the targets are distinct and no source is a target (guaranteed:
    targets are cold, sources are trained), the record of each target after the copying phase is
    `copyRec` of the source's record *as it was before the call* — the learned state of the closest
    trained arm, field by field as the policy's `_copy_arms` lists them. -/
theorem copyFold_get_target (m : List (α × α)) : ∀ (s : LP α), (m.map (·.1)).Nodup →
    (∀ p ∈ m, p.2 ∉ m.map (·.1)) → ∀ p ∈ m, ∀ src, s.st.get? p.2 = some src →
    (s.copyFold m).st.get? p.1 = (s.st.get? p.1).map (copyRec s.kind src) := by
  induction m with
  | nil => intro s _ _ p hp; simp at hp
  | cons p0 m ih =>
    intro s hnd hdis p hp src hsrc
    simp only [List.map_cons, List.nodup_cons] at hnd
    simp only [LP.copyFold, List.foldl_cons]
    rcases List.mem_cons.mp hp with e | e
    · subst e
      have h1 := copyFold_get_other m (s.copyOne p) p.1 hnd.1
      simp only [LP.copyFold] at h1
      rw [h1]
      unfold LP.copyOne
      rw [hsrc]
      exact Dict.get?_modify_eq _ _ _
    · have hne1 : p.1 ≠ p0.1 := by
        intro e2; apply hnd.1; rw [← e2]; exact List.mem_map.mpr ⟨p, e, rfl⟩
      have hne2 : p.2 ≠ p0.1 := by
        intro e2; exact hdis p (List.mem_cons_of_mem _ e) (by simp [e2])
      have hdis' : ∀ p' ∈ m, p'.2 ∉ m.map (·.1) := by
        intro p' hp' hin
        exact hdis p' (List.mem_cons_of_mem _ hp') (by simp only [List.map_cons, List.mem_cons]; exact Or.inr hin)
      have := ih (s.copyOne p0) hnd.2 hdis' p e src (by rw [copyOne_get_ne s p0 p.2 hne2]; exact hsrc)
      simp only [LP.copyFold] at this
      rw [this, copyOne_get_ne s p0 p.1 hne1, copyOne_kind]

/-- the status pass marks exactly the targets -/
theorem markWarm_get_other (m : List (α × α)) : ∀ (s : LP α) (a : α), a ∉ m.map (·.1) →
    (s.markWarm m).st.get? a = s.st.get? a := by
  induction m with
  | nil => intro s a _; rfl
  | cons p m ih =>
    intro s a ha
    simp only [List.map_cons, List.mem_cons, not_or] at ha
    simp only [LP.markWarm, List.foldl_cons]
    have := ih (s.markOne p) a ha.2
    simp only [LP.markWarm] at this
    rw [this]
    exact Dict.get?_modify_ne _ _ _ _ ha.1

theorem markWarm_get_target (m : List (α × α)) : ∀ (s : LP α), (m.map (·.1)).Nodup → ∀ p ∈ m,
    (s.markWarm m).st.get? p.1 = (s.st.get? p.1).map fun r => { r with warm := true, warmBy := some p.2 } := by
  induction m with
  | nil => intro s _ p hp; simp at hp
  | cons p0 m ih =>
    intro s hnd p hp
    simp only [List.map_cons, List.nodup_cons] at hnd
    simp only [LP.markWarm, List.foldl_cons]
    rcases List.mem_cons.mp hp with e | e
    · subst e
      have h1 := markWarm_get_other m (s.markOne p) p.1 hnd.1
      simp only [LP.markWarm] at h1
      rw [h1]
      exact Dict.get?_modify_eq _ _ _
    · have hne1 : p.1 ≠ p0.1 := by
        intro e2; apply hnd.1; rw [← e2]; exact List.mem_map.mpr ⟨p, e, rfl⟩
      have := ih (s.markOne p0) hnd.2 p e
      simp only [LP.markWarm] at this
      rw [this]
      congr 1
      exact Dict.get?_modify_ne _ _ _ _ hne1

/-- **C13 (trained and untouched arms).**  For every arm that is not warm started by this call, the
    learned part of its record (everything but the Softmax share, which is recomputed from the new
    means of all arms) and its status are exactly what they were. -/
theorem ws_untouched (s s' : LP α) (keys : List α) (raw : α → α → Option Rat) (q : Rat) (m : List (α × α))
    (hk : s.kind ≠ .random) (hm : s.coldToWarm keys raw q = some m) (h : s.warmStart keys raw q = some s')
    (a : α) (ha : a ∉ m.map (·.1)) :
    (s'.st.get? a).map (fun r => (r.strip s.kind, r.trained, r.warm, r.warmBy)) =
      (s.st.get? a).map (fun r => (r.strip s.kind, r.trained, r.warm, r.warmBy)) := by
  have hws : s' = (s.copyArms m).markWarm m := by
    unfold LP.warmStart at h
    rw [hm] at h
    cases hkk : s.kind <;> simp_all
  rw [hws, markWarm_get_other m _ a ha]
  unfold LP.copyArms
  have h1 := expOp_get_strip (s.copyFold m) a
  rw [copyFold_kind] at h1
  have hflags : ∀ x, ((s.copyFold m).expOp.st.get? x).map (fun r => (r.trained, r.warm, r.warmBy)) =
      ((s.copyFold m).st.get? x).map (fun r => (r.trained, r.warm, r.warmBy)) := by
    intro x
    unfold LP.expOp
    split
    · simp only [Dict.get?_mapKV, Option.map_map]; cases (s.copyFold m).st.get? x <;> rfl
    · rfl
  have h2 := hflags a
  rw [copyFold_get_other m s a ha] at h1 h2
  cases hr : (s.copyFold m).expOp.st.get? a with
  | none => rw [hr] at h1 h2; cases hr0 : s.st.get? a <;> simp_all
  | some r =>
    rw [hr] at h1 h2
    cases hr0 : s.st.get? a with
    | none => rw [hr0] at h1; simp at h1
    | some r0 =>
      rw [hr0] at h1 h2
      simp only [Option.map_some, Option.some.injEq, Prod.mk.injEq] at h1 h2 ⊢
      exact ⟨h1, h2.1, h2.2.1, h2.2.2⟩

/-- `MAB.cold_arms`: exactly the arms that are neither observed since the last fit nor warm started -/
theorem cold_arms_spec (s : LP α) (a : α) :
    a ∈ s.coldArms ↔ a ∈ s.arms ∧ ∃ r, s.st.get? a = some r ∧ r.trained = false ∧ r.warm = false := by
  simp only [LP.coldArms, List.mem_filter]
  constructor
  · intro ⟨h1, h2⟩
    refine ⟨h1, ?_⟩
    cases hr : s.st.get? a with
    | none => simp [hr] at h2
    | some r => simp [hr] at h2; exact ⟨r, rfl, h2.1, h2.2⟩
  · intro ⟨h1, r, hr, h2, h3⟩
    exact ⟨h1, by simp [hr, h2, h3]⟩


/-! ### putting it together -/

theorem filterMap_fst_sublist {β : Type} (l : List α) (f : α → Option (α × β))
    (hf : ∀ c p, f c = some p → p.1 = c) : ((l.filterMap f).map (·.1)).Sublist l := by
  induction l with
  | nil => simp
  | cons x l ih =>
    simp only [List.filterMap_cons]
    cases hfx : f x with
    | none => simp only []; exact List.Sublist.cons _ ih
    | some p =>
      simp only [List.map_cons]
      rw [hf x p hfx]
      exact List.Sublist.cons_cons _ ih

theorem coldToWarm_targets (s : LP α) (keys : List α) (raw : α → α → Option Rat) (q : Rat) (m : List (α × α))
    (h : s.coldToWarm keys raw q = some m) : (m.map (·.1)).Sublist s.coldArms := by
  unfold LP.coldToWarm at h
  cases hthr : distanceThreshold keys raw q with
  | none => rw [hthr] at h; simp at h
  | some thr =>
    rw [hthr] at h
    simp only [Option.some.injEq] at h
    rw [← h]
    apply filterMap_fst_sublist
    intro c p hp
    cases harg : argminFirst (s.trainedArms.map fun t => (t, armDistance raw c t)) with
    | none => rw [harg] at hp; simp at hp
    | some w =>
      rw [harg] at hp
      simp only at hp
      split at hp
      · simp only [Option.some.injEq] at hp; rw [← hp]
      · simp at hp

/-- **C13 (warm-started arms).**  In a well-formed policy, every arm the call warm starts ends up with
    an exact copy of the learned state its source — the closest trained arm — had before the call,
    is flagged warm with that source recorded, and stays untrained. -/
theorem ws_target (s s' : LP α) (keys : List α) (raw : α → α → Option Rat) (q : Rat) (m : List (α × α))
    (hwf : s.WF) (hk : s.kind ≠ .random) (hm : s.coldToWarm keys raw q = some m)
    (h : s.warmStart keys raw q = some s') (p : α × α) (hp : p ∈ m) :
    ∃ src r0 r', s.st.get? p.2 = some src ∧ s.st.get? p.1 = some r0 ∧ s'.st.get? p.1 = some r' ∧
      r'.strip s.kind = (copyRec s.kind src r0).strip s.kind ∧
      r'.warm = true ∧ r'.warmBy = some p.2 ∧ r'.trained = false := by
  have hws : s' = (s.copyArms m).markWarm m := by
    unfold LP.warmStart at h
    rw [hm] at h
    cases hkk : s.kind <;> simp_all
  obtain ⟨thr, _, hspec⟩ := ws_pairs_spec s keys raw q m hm
  have hsub := coldToWarm_targets s keys raw q m hm
  have hcoldnd : s.coldArms.Nodup := by unfold LP.coldArms; exact hwf.nodup.filter _
  have hnd : (m.map (·.1)).Nodup := hsub.nodup hcoldnd
  have hdis : ∀ p' ∈ m, p'.2 ∉ m.map (·.1) := by
    intro p' hp' hin
    have h1 : p'.2 ∈ s.coldArms := hsub.subset hin
    exact cold_not_trained s p'.2 h1 (hspec p' hp').2.1
  obtain ⟨hc, ht, _, _⟩ := hspec p hp
  -- the source and the target have records
  have hsrc : ∃ src, s.st.get? p.2 = some src := by
    simp only [LP.trainedArms, List.mem_filter] at ht
    cases hr : s.st.get? p.2 with
    | none => simp [hr] at ht
    | some r => exact ⟨r, rfl⟩
  obtain ⟨src, hsrc⟩ := hsrc
  obtain ⟨_, r0, hr0, htr, hwm⟩ := (cold_arms_spec s p.1).mp hc
  have hcf := copyFold_get_target m s hnd hdis p hp src hsrc
  rw [hr0] at hcf
  simp only [Option.map_some] at hcf
  -- through the Softmax pass and the status pass
  have h1 := expOp_get_strip (s.copyFold m) p.1
  rw [copyFold_kind, hcf] at h1
  have hflags : ((s.copyFold m).expOp.st.get? p.1).map (fun r => r.trained) =
      ((s.copyFold m).st.get? p.1).map (fun r => r.trained) := by
    unfold LP.expOp
    split
    · simp only [Dict.get?_mapKV, Option.map_map]; cases (s.copyFold m).st.get? p.1 <;> rfl
    · rfl
  rw [hcf] at hflags
  cases hr1 : (s.copyFold m).expOp.st.get? p.1 with
  | none => rw [hr1] at h1; simp at h1
  | some r1 =>
    rw [hr1] at h1 hflags
    simp only [Option.map_some, Option.some.injEq] at h1 hflags
    have hmw := markWarm_get_target m (s.copyArms m) hnd p hp
    unfold LP.copyArms at hmw
    rw [hr1] at hmw
    simp only [Option.map_some] at hmw
    refine ⟨src, r0, _, hsrc, hr0, by rw [hws]; exact hmw, ?_, rfl, rfl, ?_⟩
    · have : ({ r1 with warm := true, warmBy := some p.2 } : ArmSt α).strip s.kind = r1.strip s.kind := by
        simp [ArmSt.strip]
      rw [this, h1]
    · simp only
      rw [hflags]
      cases hkk : s.kind <;> simp [copyRec, htr]

end Mab
