/-
  C04 — seeded runs are reproducible and bandit instances are isolated (the logical part).
-/
import MabModel.Core.World
import MabModel.Core.Facade
set_option linter.unusedVariables false

namespace Mab

/-- every tree of every bandit was built with that bandit's own seed, and no cell outside the bandits
    has been written -/
def World.Isolated (w : World) : Prop :=
  (∀ b ∈ w.bandits, b.ownParams = b.seed ∧ ∀ t ∈ b.trees, t = b.seed) ∧ w.callerCell = none

theorem private_copy_frame (w : World) (op : WOp) (h : w.shared = false) :
    (w.step op).shared = false ∧ (w.step op).defaultCell = w.defaultCell ∧ (w.step op).callerCell = w.callerCell := by
  cases op with
  | copy i => simp only [World.step]; cases w.bandits[i]? <;> simp [h]
  | _ => simp [World.step, h]

/-- **C04 (isolation, private copies).**  With private parameter copies, after *any* interleaving of
    constructions, fits and other calls on any number of bandits, every bandit's trees were built
    with its own seed — what other bandits exist or did in between is irrelevant — and the default
    dictionary and the caller's dictionary were never written. -/
theorem noninterference_private (ops : List WOp) (d0 : Nat) :
    (World.run { shared := false, defaultCell := d0 } ops).Isolated ∧
    (World.run { shared := false, defaultCell := d0 } ops).defaultCell = d0 := by
  have key : ∀ (ops : List WOp) (w : World), w.shared = false → w.Isolated →
      (w.run ops).Isolated ∧ (w.run ops).defaultCell = w.defaultCell := by
    intro ops
    induction ops with
    | nil => intro w _ h; exact ⟨h, rfl⟩
    | cons op ops ih =>
      intro w hs hi
      obtain ⟨f1, f2, f3⟩ := private_copy_frame w op hs
      have hstep : (w.step op).Isolated := by
        refine ⟨?_, by rw [f3]; exact hi.2⟩
        cases op with
        | construct seed d =>
          simp only [World.step, hs, Bool.false_eq_true, if_false]
          intro b hb
          rcases List.mem_append.mp hb with e | e
          · exact hi.1 b e
          · simp at e; subst e; exact ⟨rfl, by simp⟩
        | fit i =>
          simp only [World.step, hs, Bool.false_eq_true, false_and, if_false]
          intro b hb
          rw [List.mem_mapIdx] at hb
          obtain ⟨j, hj, rfl⟩ := hb
          have hmem : w.bandits[j] ∈ w.bandits := List.getElem_mem hj
          obtain ⟨h1, h2⟩ := hi.1 _ hmem
          split
          · refine ⟨h1, ?_⟩
            intro t ht
            rcases List.mem_append.mp ht with e | e
            · exact h2 t e
            · simp at e; rw [e, h1]
          · exact ⟨h1, h2⟩
        | other i => exact hi.1
        | copy i =>
          simp only [World.step]
          cases hb : w.bandits[i]? with
          | none => exact hi.1
          | some b0 =>
            simp only []
            intro b hb'
            rcases List.mem_append.mp hb' with e | e
            · exact hi.1 b e
            · simp at e; subst e; exact hi.1 b (List.mem_of_getElem? hb)
      have := ih (w.step op) f1 hstep
      simp only [World.run, List.foldl_cons] at this ⊢
      exact ⟨this.1, by rw [this.2, f2]⟩
  exact key ops _ rfl ⟨by simp, rfl⟩

/-- the step function is a function: equal worlds and equal operations give equal worlds -/
theorem world_step_deterministic (w w' : World) (op : WOp) (h : w = w') : w.step op = w'.step op := by rw [h]

/-- the repaired defect D5 (pinned tree: the dictionary is shared): two default-constructed bandits
    with seeds 1 and 2 — the first one's tree is built with `random_state = 2` -/
theorem shared_default_counterexample :
    ((World.run { shared := true } [.construct 1 true, .construct 2 true, .fit 0]).bandits.map (·.trees)) = [[2], []] ∧
    ((World.run { shared := false } [.construct 1 true, .construct 2 true, .fit 0]).bandits.map (·.trees)) = [[1], []] ∧
    (World.run { shared := true } [.construct 7 false]).callerCell = some 7 := by
  decide +kernel

end Mab
