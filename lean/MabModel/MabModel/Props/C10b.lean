/-
  C10 (continued) — the bisimulation behind "indistinguishable under every later sequence of calls":
  forgetting the last Thompson draw commutes with every operation of the facade, so a bandit that answered
  queries produces the same errors, outputs and sampler requests as one that did not, for every history.
-/
import MabModel.Props.C10
import MabModel.Props.C13b
open Py
set_option linter.unusedSectionVars false
set_option linter.unusedVariables false
set_option linter.unusedSimpArgs false
set_option linter.unusedTactic false
set_option linter.unreachableTactic false

namespace Mab
variable {α : Type} [DecidableEq α]

/-! ### dictionary operations commute with a value map -/

theorem mapKV_modify_comm {ν : Type} (d : Dict α ν) (g : α → ν → ν) (a : α) (f : ν → ν)
    (h : ∀ k r, f (g k r) = g k (f r)) : (d.mapKV g).modify a f = (d.modify a f).mapKV g := by
  induction d with
  | nil => rfl
  | cons p t ih =>
    obtain ⟨k, v⟩ := p
    simp only [Dict.mapKV, List.map_cons, Dict.modify] at ih ⊢
    split
    · simp [h]
    · simp only [List.map_cons, ih]

theorem mapKV_set_comm {ν : Type} (d : Dict α ν) (g : α → ν → ν) (a : α) (v : ν) :
    (d.mapKV g).set a (g a v) = (d.set a v).mapKV g := by
  induction d with
  | nil => rfl
  | cons p t ih =>
    obtain ⟨k, w⟩ := p
    simp only [Dict.mapKV, List.map_cons, Dict.set] at ih ⊢
    split
    · simp
    · simp only [List.map_cons, ih]

theorem mapKV_pop_comm {ν : Type} (d : Dict α ν) (g : α → ν → ν) (a : α) :
    (d.mapKV g).pop a = (d.pop a).mapKV g := by
  induction d with
  | nil => rfl
  | cons p t ih =>
    obtain ⟨k, w⟩ := p
    simp only [Dict.mapKV, List.map_cons, Dict.pop] at ih ⊢
    split
    · exact ih
    · simp only [List.map_cons, ih]

/-- forget the last draw -/
def zeroExp (r : ArmSt α) : ArmSt α := { r with exp := .val 0 }

def LP.normT (s : LP α) : LP α := { s with st := s.st.mapKV fun _ r => zeroExp r }

theorem norm_thompson (s : LP α) (h : s.kind = .thompson) : s.norm = s.normT := by
  unfold LP.norm LP.normT zeroExp; rw [h]

theorem norm_other (s : LP α) (h : s.kind ≠ .thompson) : s.norm = s := by
  unfold LP.norm; cases hk : s.kind <;> simp_all

theorem normT_idem (s : LP α) : s.normT.normT = s.normT := by
  simp [LP.normT, Dict.mapKV_mapKV, zeroExp]

/-! ### every operation of a Thompson policy commutes with forgetting the last draw -/

theorem foldl_modify_normT (l : List α) (f : α → ArmSt α → ArmSt α) (h : ∀ a r, f a (zeroExp r) = zeroExp (f a r)) :
    ∀ d : Dict α (ArmSt α), l.foldl (fun d a => d.modify a (f a)) (d.mapKV fun _ r => zeroExp r) =
      (l.foldl (fun d a => d.modify a (f a)) d).mapKV fun _ r => zeroExp r := by
  induction l with
  | nil => intro d; rfl
  | cons a l ih =>
    intro d
    simp only [List.foldl_cons]
    rw [mapKV_modify_comm d _ a (f a) (fun _ r => h a r)]
    exact ih _

theorem resetFor_normT (s : LP α) (bb : Batch α) (w : Option Nat) (hk : s.kind = .thompson) :
    s.normT.resetFor bb w = (s.resetFor bb w).normT := by
  have hnf : s.normT.nfFor bb w = s.nfFor bb w := rfl
  simp only [LP.resetFor, hnf]
  simp only [LP.normT, hk, Dict.mapKV_mapKV]
  rfl

theorem parallelFit_normT (s : LP α) (bb : Batch α) (hk : s.kind = .thompson) :
    s.normT.parallelFit bb = (s.parallelFit bb).normT := by
  simp only [LP.parallelFit, parallelFitIn_eq]
  simp only [LP.normT, hk]
  congr 1
  exact foldl_modify_normT _ _ (by intro a r; rfl) _

theorem post_normT (s : LP α) (bb : Batch α) (p : Bool) (hk : s.kind = .thompson) :
    s.normT.post bb p = (s.post bb p).normT := by
  simp only [LP.post, LP.expOp, LP.normalize, LP.setTrained, LP.normT, hk, Dict.mapKV_mapKV]
  congr 1
  apply Dict.mapKV_congr
  intro k v _
  split
  · cases p <;> rfl
  · rfl

theorem fit_normT (s : LP α) (b : Batch α) (w : Option Nat) (hk : s.kind = .thompson) :
    s.normT.fit b w = (s.fit b w).normT := by
  have hb : s.normT.binarize b = s.binarize b := rfl
  unfold LP.fit
  have hk' : s.normT.kind = .thompson := hk
  rw [hk, hk']
  simp only [hb]
  rw [resetFor_normT s _ w hk, parallelFit_normT _ _ (by exact hk), post_normT _ _ _ (by rw [parallelFit_kind]; exact hk)]

theorem partialFit_normT (s : LP α) (b : Batch α) (hk : s.kind = .thompson) :
    s.normT.partialFit b = (s.partialFit b).normT := by
  have hb : s.normT.binarize b = s.binarize b := rfl
  unfold LP.partialFit
  have hk' : s.normT.kind = .thompson := hk
  rw [hk, hk']
  simp only [hb]
  have h0 : s.normT.bumpTotal (s.binarize b).length = (s.bumpTotal (s.binarize b).length).normT := rfl
  rw [h0, parallelFit_normT _ _ (by exact hk), post_normT _ _ _ (by rw [parallelFit_kind]; exact hk)]

theorem addArm_normT (s : LP α) (a : α) (bz : Option (α → Rat → Rat)) (hk : s.kind = .thompson) :
    s.normT.addArm a bz = (s.addArm a bz).normT := by
  simp only [LP.addArm, LP.insertArm, LP.expOp, LP.normT, hk]
  congr 1
  exact mapKV_set_comm s.st (fun _ r => zeroExp r) a (freshRec Kind.thompson s.numFeatures s.k1fixed)

theorem removeArm_normT (s : LP α) (a : α) (hk : s.kind = .thompson) :
    s.normT.removeArm a = (s.removeArm a).normT := by
  simp only [LP.removeArm, LP.dropArm, LP.expOp, LP.normalize, LP.normT, hk, mapKV_pop_comm]

theorem get?_normT (s : LP α) (a : α) : s.normT.st.get? a = (s.st.get? a).map zeroExp := by
  simp [LP.normT, Dict.get?_mapKV]

theorem coldArms_normT (s : LP α) : s.normT.coldArms = s.coldArms := by
  unfold LP.coldArms
  apply List.filter_congr
  intro a _
  rw [get?_normT]; cases s.st.get? a <;> rfl

theorem trainedArms_normT (s : LP α) : s.normT.trainedArms = s.trainedArms := by
  unfold LP.trainedArms
  apply List.filter_congr
  intro a _
  rw [get?_normT]; cases s.st.get? a <;> rfl

theorem coldToWarm_normT (s : LP α) (keys : List α) (raw : α → α → Option Rat) (q : Rat) :
    s.normT.coldToWarm keys raw q = s.coldToWarm keys raw q := by
  unfold LP.coldToWarm
  rw [coldArms_normT, trainedArms_normT]

theorem copyOne_normT (s : LP α) (p : α × α) (hk : s.kind = .thompson) :
    s.normT.copyOne p = (s.copyOne p).normT := by
  unfold LP.copyOne
  rw [get?_normT]
  cases s.st.get? p.2 with
  | none => rfl
  | some src =>
    simp only [Option.map_some, LP.normT, hk]
    congr 1
    exact mapKV_modify_comm s.st _ p.1 _ (fun _ r => rfl)

theorem copyFold_normT (m : List (α × α)) : ∀ (s : LP α), s.kind = .thompson →
    s.normT.copyFold m = (s.copyFold m).normT := by
  induction m with
  | nil => intro s _; rfl
  | cons p m ih =>
    intro s hk
    simp only [LP.copyFold, List.foldl_cons]
    rw [copyOne_normT s p hk]
    exact ih (s.copyOne p) (by rw [copyOne_kind]; exact hk)

theorem markWarm_normT (m : List (α × α)) : ∀ (s : LP α), s.normT.markWarm m = (s.markWarm m).normT := by
  induction m with
  | nil => intro s; rfl
  | cons p m ih =>
    intro s
    simp only [LP.markWarm, List.foldl_cons]
    have : s.normT.markOne p = (s.markOne p).normT := by
      simp only [LP.markOne, LP.normT]
      congr 1
      exact mapKV_modify_comm s.st _ p.1 _ (fun _ r => rfl)
    rw [this]
    exact ih (s.markOne p)

theorem warmStart_normT (s : LP α) (keys : List α) (raw : α → α → Option Rat) (q : Rat) (hk : s.kind = .thompson) :
    s.normT.warmStart keys raw q = (s.warmStart keys raw q).map LP.normT := by
  unfold LP.warmStart
  have hk' : s.normT.kind = .thompson := hk
  rw [hk, hk', coldToWarm_normT]
  cases s.coldToWarm keys raw q with
  | none => rfl
  | some m =>
    simp only [Option.map_some, LP.copyArms]
    rw [copyFold_normT m s hk]
    have e1 : (s.copyFold m).normT.expOp = (s.copyFold m).expOp.normT := by
      have : (s.copyFold m).kind = .thompson := by rw [copyFold_kind]; exact hk
      simp only [LP.expOp, LP.normT, this]
    rw [e1, markWarm_normT]

theorem getD_map_zeroExp_succ (o : Option (ArmSt α)) : ((o.map zeroExp).getD {}).succ = (o.getD {}).succ := by
  cases o <;> rfl
theorem getD_map_zeroExp_fail (o : Option (ArmSt α)) : ((o.map zeroExp).getD {}).fail = (o.getD {}).fail := by
  cases o <;> rfl
theorem normT_arms (s : LP α) : s.normT.arms = s.arms := rfl
theorem normT_keys (s : LP α) : s.normT.st.keys = s.st.keys := by simp [LP.normT]

/-- what a Thompson prediction returns and requests does not depend on the remembered last draw -/
theorem predictExp_normT (s : LP α) (m : Option Nat) (ctxs : List Vec) (own : Stream) (g : Rng) (hk : s.kind = .thompson) :
    (s.normT.predictExp m ctxs own g).2 = (s.predictExp m ctxs own g).2 ∧
    (s.normT.predictExp m ctxs own g).1.normT = (s.predictExp m ctxs own g).1.normT := by
  have hk' : s.normT.kind = .thompson := hk
  unfold LP.predictExp
  simp only [hk, hk', normT_keys, normT_arms, get?_normT, getD_map_zeroExp_succ, getD_map_zeroExp_fail]
  simp only [LP.normT, Dict.mapKV_mapKV, zeroExp, and_self]

end Mab

namespace Mab
variable {α : Type} [DecidableEq α]

/-! ### the facade: a bandit that answered queries is bisimilar to one that did not -/

def Bandit.norm (b : Bandit α) : Bandit α := { b with lp := b.lp.norm }

theorem Bandit.norm_other (b : Bandit α) (h : b.lp.kind ≠ .thompson) : b.norm = b := by
  unfold Bandit.norm; rw [Mab.norm_other b.lp h]

theorem Bandit.norm_thompson (b : Bandit α) (h : b.lp.kind = .thompson) : b.norm = { b with lp := b.lp.normT } := by
  unfold Bandit.norm; rw [Mab.norm_thompson b.lp h]

theorem norm_kind (s : LP α) : s.norm.kind = s.kind := by
  unfold LP.norm; split <;> rfl

theorem normT_norm (s : LP α) (hk : s.kind = .thompson) : s.normT.norm = s.norm := by
  rw [Mab.norm_thompson _ (by exact hk), Mab.norm_thompson _ hk, normT_idem]

theorem fit_norm' (s : LP α) (b : Batch α) (w : Option Nat) (hk : s.kind = .thompson) :
    (s.normT.fit b w).norm = (s.fit b w).norm := by
  rw [fit_normT s b w hk, normT_norm _ (by rw [fit_kind]; exact hk)]
theorem partialFit_norm' (s : LP α) (b : Batch α) (hk : s.kind = .thompson) :
    (s.normT.partialFit b).norm = (s.partialFit b).norm := by
  rw [partialFit_normT s b hk, normT_norm _ (by rw [partialFit_kind]; exact hk)]
theorem addArm_norm' (s : LP α) (a : α) (bz : Option (α → Rat → Rat)) (hk : s.kind = .thompson) :
    (s.normT.addArm a bz).norm = (s.addArm a bz).norm := by
  rw [addArm_normT s a bz hk, normT_norm _ (by rw [addArm_kind]; exact hk)]
theorem removeArm_norm' (s : LP α) (a : α) (hk : s.kind = .thompson) :
    (s.normT.removeArm a).norm = (s.removeArm a).norm := by
  rw [removeArm_normT s a hk, normT_norm _ (by rw [removeArm_kind]; exact hk)]

theorem Bandit.norm_congr (x : Bandit α) (l1 l2 : LP α) (h : l1.norm = l2.norm) :
    ({ x with lp := l1 } : Bandit α).norm = ({ x with lp := l2 } : Bandit α).norm := by
  unfold Bandit.norm; simp only [h]

theorem predictExp_kind (s : LP α) (m : Option Nat) (ctxs : List Vec) (own : Stream) (g : Rng) :
    (s.predictExp m ctxs own g).1.kind = s.kind := by
  have := (predictExp_readonly s m ctxs own g).1
  have h2 := congrArg LP.kind this
  rwa [norm_kind, norm_kind] at h2

/-- one facade step of a bandit without neighbourhood policy commutes with forgetting the last draw:
    same error / outputs / requests / tape, and the same state up to the last draw -/
theorem step_norm (le : Expect → Expect → Bool) (b : Bandit α) (op : Op α) (o : Oracle) (g : Rng) (hnp : b.np = .none) :
    (b.norm.step le op o g).2 = (b.step le op o g).2 ∧ (b.norm.step le op o g).1.norm = (b.step le op o g).1.norm := by
  by_cases hk : b.lp.kind = .thompson
  swap
  · rw [Bandit.norm_other b hk]; exact ⟨rfl, rfl⟩
  rw [Bandit.norm_thompson b hk]
  have hv : ∀ a, ({ b with lp := b.lp.normT } : Bandit α).validateTrain a = b.validateTrain a := by
    intro a; simp only [Bandit.validateTrain, Bandit.isContextual, Bandit.currentBinz, hnp, LP.normT]
  have hs : ∀ bt p, ({ b with lp := b.lp.normT } : Bandit α).trainShapeErr bt p = b.trainShapeErr bt p := by
    intro bt p; simp only [Bandit.trainShapeErr, Bandit.storedWidth, hnp, LP.normT]
  have hsame : ({ b with lp := b.lp.normT } : Bandit α).norm = b.norm := by
    have := Bandit.norm_congr b b.lp.normT b.lp (normT_norm b.lp hk)
    exact this
  cases op with
  | fit a =>
    simp only [Bandit.step, Bandit.train, hv, hs]
    cases b.validateTrain a with
    | some e => exact ⟨rfl, hsame⟩
    | none =>
      simp only []
      cases b.trainShapeErr a.toBatch (false && b.isFit) with
      | some e => exact ⟨rfl, hsame⟩
      | none =>
        simp only [Bool.false_and, Bool.false_eq_true, if_false, Bandit.impFit, hnp, true_and]
        (unfold Bandit.norm; simp only [fit_norm' b.lp _ _ hk])
  | partialFit a =>
    simp only [Bandit.step, Bandit.train, hv, hs]
    cases b.validateTrain a with
    | some e => exact ⟨rfl, hsame⟩
    | none =>
      simp only []
      cases b.trainShapeErr a.toBatch (true && b.isFit) with
      | some e => exact ⟨rfl, hsame⟩
      | none =>
        simp only [Bool.true_and]
        by_cases hf : b.isFit = true
        · simp only [hf, if_true, Bandit.impPartialFit, hnp, true_and]
          (unfold Bandit.norm; simp only [partialFit_norm' b.lp _ hk])
        · simp only [hf, Bool.false_eq_true, if_false, Bandit.impFit, hnp, true_and]
          (unfold Bandit.norm; simp only [fit_norm' b.lp _ _ hk])
  | addArm arg binz callable =>
    simp only [Bandit.step]
    have hkk : b.lp.normT.kind = b.lp.kind := rfl
    simp only [hkk]
    split
    · exact ⟨rfl, hsame⟩
    · split
      · exact ⟨rfl, hsame⟩
      · cases arg with
        | ok a =>
          simp only []
          split
          · exact ⟨rfl, hsame⟩
          · simp only [Bandit.impAddArm, hnp, true_and]
            (unfold Bandit.norm; simp only [addArm_norm' b.lp a binz hk])
        | none => exact ⟨rfl, hsame⟩
        | nan => exact ⟨rfl, hsame⟩
        | inf => exact ⟨rfl, hsame⟩
  | removeArm arg =>
    simp only [Bandit.step]
    cases arg with
    | ok a =>
      simp only []
      split
      · simp only [Bandit.impRemoveArm, hnp, true_and]
        (unfold Bandit.norm; simp only [removeArm_norm' b.lp a hk])
      · exact ⟨rfl, hsame⟩
    | none => exact ⟨rfl, hsame⟩
    | nan => exact ⟨rfl, hsame⟩
    | inf => exact ⟨rfl, hsame⟩
  | warmStart w =>
    have hsame' : ({ b with lp := b.lp.normT, np := .none } : Bandit α).norm = b.norm := by
      rw [← hsame, hnp]
    simp only [Bandit.step, hnp]
    split
    · exact ⟨rfl, hsame'⟩
    · split
      · exact ⟨rfl, hsame'⟩
      · split
        · exact ⟨rfl, hsame'⟩
        · split
          · exact ⟨rfl, hsame'⟩
          · rw [warmStart_normT b.lp w.keys w.raw w.q hk]
            cases hws : b.lp.warmStart w.keys w.raw w.q with
            | none => exact ⟨rfl, hsame'⟩
            | some lp' =>
              simp only [Option.map_some, true_and]
              have hk2 : lp'.kind = .thompson := by
                unfold LP.warmStart at hws
                rw [hk] at hws
                simp only at hws
                cases hc : b.lp.coldToWarm w.keys w.raw w.q with
                | none => rw [hc] at hws; simp at hws
                | some m =>
                  rw [hc] at hws
                  simp only [Option.some.injEq] at hws
                  rw [← hws, markWarm_kind]
                  simp only [LP.copyArms, expOp_kind, copyFold_kind, hk]
              (unfold Bandit.norm; simp only [normT_norm lp' hk2])
  | predict a =>
    have hic : ({ b with lp := b.lp.normT } : Bandit α).isContextual = b.isContextual := by
      simp only [Bandit.isContextual, hnp, LP.normT]
    have hpe := predictExp_normT b.lp (a.contexts.map (·.length)) (a.contexts.getD []) .main g hk
    have hk1 : (b.lp.predictExp (a.contexts.map (·.length)) (a.contexts.getD []) .main g).1.kind = .thompson := by
      rw [predictExp_kind]; exact hk
    have hk2 : (b.lp.normT.predictExp (a.contexts.map (·.length)) (a.contexts.getD []) .main g).1.kind = .thompson := by
      rw [predictExp_kind]; exact hk
    simp only [Bandit.step, Bandit.query, hic]
    split
    · exact ⟨rfl, hsame⟩
    · split
      · exact ⟨rfl, hsame⟩
      · split
        · exact ⟨rfl, hsame⟩
        · simp only [Bandit.impPredict, hnp, if_true, LP.predict]
          refine ⟨?_, ?_⟩
          · rw [Prod.ext_iff] at hpe
            simp only [Prod.mk.injEq]
            refine ⟨?_, hpe.1.2⟩
            rw [hpe.1.1]
          · unfold Bandit.norm
            simp only
            rw [Mab.norm_thompson _ hk1, Mab.norm_thompson _ hk2, hpe.2]
  | predictExp a =>
    have hic : ({ b with lp := b.lp.normT } : Bandit α).isContextual = b.isContextual := by
      simp only [Bandit.isContextual, hnp, LP.normT]
    have hpe := predictExp_normT b.lp (a.contexts.map (·.length)) (a.contexts.getD []) .main g hk
    have hk1 : (b.lp.predictExp (a.contexts.map (·.length)) (a.contexts.getD []) .main g).1.kind = .thompson := by
      rw [predictExp_kind]; exact hk
    have hk2 : (b.lp.normT.predictExp (a.contexts.map (·.length)) (a.contexts.getD []) .main g).1.kind = .thompson := by
      rw [predictExp_kind]; exact hk
    simp only [Bandit.step, Bandit.query, hic]
    split
    · exact ⟨rfl, hsame⟩
    · split
      · exact ⟨rfl, hsame⟩
      · split
        · exact ⟨rfl, hsame⟩
        · simp only [Bandit.impPredict, hnp, Bool.false_eq_true, if_false]
          refine ⟨?_, ?_⟩
          · rw [Prod.ext_iff] at hpe
            simp only [Prod.mk.injEq]
            refine ⟨?_, hpe.1.2⟩
            rw [hpe.1.1]
          · unfold Bandit.norm
            simp only
            rw [Mab.norm_thompson _ hk1, Mab.norm_thompson _ hk2, hpe.2]

end Mab

namespace Mab
variable {α : Type} [DecidableEq α]

/-- a query leaves the bandit as it was, up to the last Thompson draw -/
theorem query_norm (le : Expect → Expect → Bool) (b : Bandit α) (a : PredArgs) (isPredict : Bool) (o : Oracle) (g : Rng) :
    (b.query le a isPredict o g).1.norm = b.norm := by
  unfold Bandit.query
  split
  · rfl
  · split
    · rfl
    · split
      · rfl
      · simp only []
        by_cases hnp : b.np = .none
        · unfold Bandit.impPredict
          simp only [hnp]
          cases isPredict
          · simp only [Bool.false_eq_true, if_false]
            unfold Bandit.norm
            simp only [(predictExp_readonly b.lp _ _ .main g).1]
            rw [hnp]
          · simp only [if_true]
            unfold Bandit.norm
            simp only [(predict_readonly le b.lp _ _ .main g).1]
            rw [hnp]
        · rw [impPredict_readonly le b isPredict _ _ o g hnp]

theorem step_np (le : Expect → Expect → Bool) (b : Bandit α) (op : Op α) (o : Oracle) (g : Rng) :
    (b.step le op o g).1.np = b.np := by
  cases op with
  | fit a =>
    simp only [Bandit.step, Bandit.train]
    split
    · rfl
    · split
      · rfl
      · split
        · unfold Bandit.impPartialFit; cases hnp : b.np <;> simp [npBinarize, lshFitOp, clustersFitOp, treeFitArms] <;> (try split) <;> rfl
        · unfold Bandit.impFit; cases hnp : b.np <;> simp [npBinarize, lshFitOp, clustersFitOp, treeFitArms] <;> (try split) <;> rfl
  | partialFit a =>
    simp only [Bandit.step, Bandit.train]
    split
    · rfl
    · split
      · rfl
      · split
        · unfold Bandit.impPartialFit; cases hnp : b.np <;> simp [npBinarize, lshFitOp, clustersFitOp, treeFitArms] <;> (try split) <;> rfl
        · unfold Bandit.impFit; cases hnp : b.np <;> simp [npBinarize, lshFitOp, clustersFitOp, treeFitArms] <;> (try split) <;> rfl
  | predict a =>
    have := congrArg Bandit.np (query_norm le b a true o g)
    exact this
  | predictExp a =>
    have := congrArg Bandit.np (query_norm le b a false o g)
    exact this
  | addArm arg binz callable =>
    simp only [Bandit.step]
    split
    · rfl
    · split
      · rfl
      · cases arg with
        | ok a => simp only []; split; rfl; unfold Bandit.impAddArm; cases hnp : b.np <;> simp
        | none => rfl
        | nan => rfl
        | inf => rfl
  | removeArm arg =>
    simp only [Bandit.step]
    cases arg with
    | ok a => simp only []; split; unfold Bandit.impRemoveArm; cases hnp : b.np <;> simp; rfl
    | none => rfl
    | nan => rfl
    | inf => rfl
  | warmStart w =>
    simp only [Bandit.step]
    split
    · rfl
    · split
      · rfl
      · split
        · rfl
        · cases hnp : b.np with
          | none =>
            simp only []
            split
            · first | rfl | exact hnp
            · split
              · first | rfl | exact hnp
              · first | rfl | exact hnp
          | _ => simp [hnp]

/-- a history: operations with the oracle values and the recorded sampler answers of each call -/
abbrev History (α : Type) := List (Op α × Oracle × Rng)

/-- everything observable of running a history: per call the error / outputs and the sampler requests -/
def Bandit.runOuts (le : Expect → Expect → Bool) (b : Bandit α) : History α → List (StepOut α × Rng)
  | [] => []
  | (op, o, g) :: t => (b.step le op o g).2 :: Bandit.runOuts le (b.step le op o g).1 t

/-- **C10 (bisimulation).**  Two bandits (without neighbourhood policy) that agree up to the last
    Thompson draw produce the same errors, outputs and sampler requests under every history. -/
theorem norm_bisim (le : Expect → Expect → Bool) (h : History α) : ∀ (b1 b2 : Bandit α), b1.np = .none →
    b1.norm = b2.norm → b1.runOuts le h = b2.runOuts le h := by
  induction h with
  | nil => intro _ _ _ _; rfl
  | cons x t ih =>
    intro b1 b2 hnp hn
    obtain ⟨op, o, g⟩ := x
    have hnp2 : b2.np = .none := by
      have := congrArg Bandit.np hn
      simp only [Bandit.norm] at this
      rw [← this]; exact hnp
    obtain ⟨e1, s1⟩ := step_norm le b1 op o g hnp
    obtain ⟨e2, s2⟩ := step_norm le b2 op o g hnp2
    rw [hn] at e1 s1
    simp only [Bandit.runOuts]
    rw [← e1, e2]
    congr 1
    apply ih
    · rw [step_np]; exact hnp
    · rw [← s1, s2]

def Bandit.afterQueries (le : Expect → Expect → Bool) (b : Bandit α) : List (PredArgs × Bool × Oracle × Rng) → Bandit α
  | [] => b
  | (a, p, o, g) :: t => Bandit.afterQueries le (b.query le a p o g).1 t

/-- **C10 (prediction is read-only).**  A bandit that has answered any number of `predict` /
    `predict_expectations` calls (valid or rejected, any contexts, any draws) is indistinguishable from
    the bandit before those calls under **every** later history of calls — same errors, same outputs,
    same sampler requests — for every learning policy and every neighbourhood policy. -/
theorem queried_indistinguishable (le : Expect → Expect → Bool) (qs : List (PredArgs × Bool × Oracle × Rng)) :
    ∀ (b : Bandit α) (h : History α), (b.afterQueries le qs).runOuts le h = b.runOuts le h := by
  induction qs with
  | nil => intro b h; rfl
  | cons x t ih =>
    intro b h
    obtain ⟨a, p, o, g⟩ := x
    simp only [Bandit.afterQueries]
    rw [ih]
    by_cases hnp : b.np = .none
    · apply norm_bisim le h
      · have := congrArg Bandit.np (query_norm le b a p o g)
        simp only [Bandit.norm] at this
        rw [this]; exact hnp
      · exact query_norm le b a p o g
    · have : (b.query le a p o g).1 = b := by
        unfold Bandit.query
        split
        · rfl
        · split
          · rfl
          · split
            · rfl
            · exact impPredict_readonly le b p _ _ o g hnp
      rw [this]

end Mab
