/-
  C20 (continued) — equivariance under one-to-one relabelling of the arms, machine-checked: every
  training operation commutes with renaming, hence every history does; learned expectations are
  renamed in place and `predict` returns the renamed arm.
-/
import MabModel.Props.C20
open Py
set_option linter.unusedSectionVars false
set_option linter.unusedVariables false
set_option linter.unusedSimpArgs false

namespace Mab
variable {α β : Type} [DecidableEq α] [DecidableEq β]

/-! ### relabelling the arms of a policy -/

def relabelRec (f : α → β) (r : ArmSt α) : ArmSt β :=
  { sum := r.sum, cnt := r.cnt, mean := r.mean, exp := r.exp, succ := r.succ, fail := r.fail, trained := r.trained,
    warm := r.warm, warmBy := r.warmBy.map f, inited := r.inited, A := r.A, Xty := r.Xty, Ainv := r.Ainv,
    beta := r.beta, rngPriv := r.rngPriv, mu := r.mu, sc := r.sc }

def relabelDict (f : α → β) (d : Dict α (ArmSt α)) : Dict β (ArmSt β) := d.map fun p => (f p.1, relabelRec f p.2)

/-- the policy with every arm label `a` replaced by `f a` (`finv` is a left inverse of `f`, used to
    transport a binarizer, which takes the arm as an argument) -/
def LP.relabel (f : α → β) (finv : β → α) (s : LP α) : LP β :=
  { kind := s.kind, arms := s.arms.map f, total := s.total, st := relabelDict f s.st,
    binz := s.binz.map fun bz b => bz (finv b), ctxBin := s.ctxBin, numFeatures := s.numFeatures, k1fixed := s.k1fixed }

def relabelBatch (f : α → β) (b : Batch α) : Batch β := b.map fun r => { arm := f r.arm, reward := r.reward, ctx := r.ctx }

variable (f : α → β) (finv : β → α) (hinv : ∀ a, finv (f a) = a)

theorem inj_of_inv {f : α → β} {finv : β → α} (hinv : ∀ a, finv (f a) = a) {a a' : α} : f a = f a' ↔ a = a' :=
  ⟨fun h => by have := congrArg finv h; rwa [hinv, hinv] at this, fun h => by rw [h]⟩

include hinv

theorem rowsOf_relabel (b : Batch α) (a : α) : rowsOf (relabelBatch f b) (f a) = rowsOf b a := by
  unfold rowsOf relabelBatch
  induction b with
  | nil => rfl
  | cons r b ih =>
    simp only [List.map_cons, List.filter_cons]
    by_cases h : r.arm = a
    · simp only [h, decide_true, if_true, List.map_cons]
      simp only [List.filter_map, List.map_map] at ih ⊢
      rw [← ih]
    · have h' : ¬ f r.arm = f a := fun e => h ((inj_of_inv hinv).mp e)
      simp only [h, h', decide_false, Bool.false_eq_true, if_false]
      exact ih

theorem get?_relabelDict (d : Dict α (ArmSt α)) (a : α) : (relabelDict f d).get? (f a) = (d.get? a).map (relabelRec f) := by
  induction d with
  | nil => rfl
  | cons p t ih =>
    obtain ⟨k, v⟩ := p
    simp only [relabelDict, List.map_cons, Dict.get?] at ih ⊢
    by_cases h : k = a
    · simp [h]
    · have h' : ¬ f k = f a := fun e => h ((inj_of_inv hinv).mp e)
      simp only [h, h', if_false]
      exact ih

theorem modify_relabelDict (d : Dict α (ArmSt α)) (a : α) (g : ArmSt α → ArmSt α) (g' : ArmSt β → ArmSt β)
    (hg : ∀ r, g' (relabelRec f r) = relabelRec f (g r)) :
    (relabelDict f d).modify (f a) g' = relabelDict f (d.modify a g) := by
  induction d with
  | nil => rfl
  | cons p t ih =>
    obtain ⟨k, v⟩ := p
    simp only [relabelDict, List.map_cons, Dict.modify] at ih ⊢
    by_cases h : k = a
    · simp [h, hg]
    · have h' : ¬ f k = f a := fun e => h ((inj_of_inv hinv).mp e)
      simp only [h, h', if_false, List.map_cons, ih]

theorem set_relabelDict (d : Dict α (ArmSt α)) (a : α) (v : ArmSt α) :
    (relabelDict f d).set (f a) (relabelRec f v) = relabelDict f (d.set a v) := by
  induction d with
  | nil => rfl
  | cons p t ih =>
    obtain ⟨k, w⟩ := p
    simp only [relabelDict, List.map_cons, Dict.set] at ih ⊢
    by_cases h : k = a
    · simp [h]
    · have h' : ¬ f k = f a := fun e => h ((inj_of_inv hinv).mp e)
      simp only [h, h', if_false, List.map_cons, ih]

theorem pop_relabelDict (d : Dict α (ArmSt α)) (a : α) :
    (relabelDict f d).pop (f a) = relabelDict f (d.pop a) := by
  induction d with
  | nil => rfl
  | cons p t ih =>
    obtain ⟨k, w⟩ := p
    simp only [relabelDict, List.map_cons, Dict.pop] at ih ⊢
    by_cases h : k = a
    · simp [h, ih]
    · have h' : ¬ f k = f a := fun e => h ((inj_of_inv hinv).mp e)
      simp only [h, h', if_false, List.map_cons, ih]

omit hinv in
theorem mapKV_relabelDict (d : Dict α (ArmSt α)) (g : α → ArmSt α → ArmSt α) (g' : β → ArmSt β → ArmSt β)
    (hg : ∀ a r, (a, r) ∈ d → g' (f a) (relabelRec f r) = relabelRec f (g a r)) :
    (relabelDict f d).mapKV g' = relabelDict f (d.mapKV g) := by
  simp only [relabelDict, Dict.mapKV, List.map_map]
  apply List.map_congr_left
  intro p hp
  simp [hg p.1 p.2 hp]

omit hinv in
theorem fitRec_relabel (kind : Kind) (N : Nat) (rs : List (Rat × Vec)) (r : ArmSt α) :
    fitRec kind N rs (relabelRec f r) = relabelRec f (fitRec kind N rs r) := by
  cases kind <;> simp only [fitRec, relabelRec] <;> (try split) <;> (try split) <;> rfl

theorem mem_map_inj (l : List α) (a : α) : f a ∈ l.map f ↔ a ∈ l := by
  constructor
  · intro h
    obtain ⟨x, hx, e⟩ := List.mem_map.mp h
    rw [← (inj_of_inv hinv).mp e]; exact hx
  · exact fun h => List.mem_map.mpr ⟨a, h, rfl⟩

end Mab

namespace Mab
variable {α β : Type} [DecidableEq α] [DecidableEq β]
variable (f : α → β) (finv : β → α) (hinv : ∀ a, finv (f a) = a)

theorem relabel_kind (s : LP α) : (s.relabel f finv).kind = s.kind := rfl
theorem relabel_arms (s : LP α) : (s.relabel f finv).arms = s.arms.map f := rfl

theorem vals_relabelDict_proj {γ : Type} (d : Dict α (ArmSt α)) (pr : ArmSt α → γ) (pr' : ArmSt β → γ)
    (h : ∀ r, pr' (relabelRec f r) = pr r) : (relabelDict f d).vals.map pr' = d.vals.map pr := by
  simp [relabelDict, Dict.vals, List.map_map, Function.comp_def, h]

theorem means_relabel (s : LP α) : (s.relabel f finv).means = s.means :=
  vals_relabelDict_proj f s.st (·.mean) (·.mean) (fun _ => rfl)

theorem expOp_relabel (s : LP α) : (s.relabel f finv).expOp = (s.expOp).relabel f finv := by
  unfold LP.expOp
  rw [relabel_kind]
  cases hk : s.kind <;> simp only []
  rename_i tau
  rw [means_relabel f finv s]
  simp only [LP.relabel, hk]
  congr 1
  exact mapKV_relabelDict f s.st _ _ (fun a r _ => rfl)

theorem popTotal_relabel (s : LP α) : (s.relabel f finv).popTotal = s.popTotal := by
  unfold LP.popTotal
  have := vals_relabelDict_proj f s.st (popMean) (popMean) (fun r => rfl)
  simp only [LP.relabel]; rw [this]

theorem normalize_relabel (s : LP α) : (s.relabel f finv).normalize = (s.normalize).relabel f finv := by
  unfold LP.normalize
  rw [relabel_kind]
  cases hk : s.kind <;> simp only []
  rw [popTotal_relabel]
  split
  · simp only [LP.relabel, hk, List.length_map]
    congr 1
    exact mapKV_relabelDict f s.st _ _ (fun a r _ => rfl)
  · simp only [LP.relabel, hk]
    congr 1
    exact mapKV_relabelDict f s.st _ _ (fun a r _ => rfl)

include hinv

theorem batchArms_relabel (b : Batch α) (a : α) : f a ∈ batchArms (relabelBatch f b) ↔ a ∈ batchArms b := by
  have : batchArms (relabelBatch f b) = (batchArms b).map f := by
    simp [batchArms, relabelBatch, List.map_map, Function.comp_def]
  rw [this]; exact mem_map_inj f finv hinv _ a

theorem setTrained_relabel (s : LP α) (b : Batch α) (p : Bool) :
    (s.relabel f finv).setTrained (relabelBatch f b) p = (s.setTrained b p).relabel f finv := by
  simp only [LP.setTrained, LP.relabel]
  congr 1
  apply mapKV_relabelDict
  intro a r _
  have h1 : (f a ∈ s.arms.map f ∧ f a ∈ batchArms (relabelBatch f b)) ↔ (a ∈ s.arms ∧ a ∈ batchArms b) := by
    rw [mem_map_inj f finv hinv, batchArms_relabel f finv hinv]
  by_cases hc : a ∈ s.arms ∧ a ∈ batchArms b
  · have hc' := h1.mpr hc
    simp only [hc', hc, and_self, if_true]; cases p <;> rfl
  · have hc' : ¬ (f a ∈ s.arms.map f ∧ f a ∈ batchArms (relabelBatch f b)) := fun h => hc (h1.mp h)
    simp only [hc', hc, if_false]

theorem post_relabel (s : LP α) (b : Batch α) (p : Bool) :
    (s.relabel f finv).post (relabelBatch f b) p = (s.post b p).relabel f finv := by
  unfold LP.post
  rw [expOp_relabel, setTrained_relabel f finv hinv, normalize_relabel]

theorem binarize_relabel (s : LP α) (b : Batch α) :
    (s.relabel f finv).binarize (relabelBatch f b) = relabelBatch f (s.binarize b) := by
  unfold LP.binarize
  simp only [LP.relabel]
  cases hb : s.binz with
  | none => rfl
  | some bz =>
    cases hc : s.ctxBin
    · simp only [Option.map_some, relabelBatch, List.map_map]
      apply List.map_congr_left
      intro r _
      simp [hinv]
    · rfl

theorem parallelFit_relabel (s : LP α) (b : Batch α) :
    (s.relabel f finv).parallelFit (relabelBatch f b) = (s.parallelFit b).relabel f finv := by
  simp only [LP.parallelFit, parallelFitIn_eq]
  simp only [LP.relabel]
  congr 1
  rw [List.foldl_map]
  generalize s.st = d
  generalize s.arms = l
  induction l generalizing d with
  | nil => rfl
  | cons a l ih =>
    simp only [List.foldl_cons]
    rw [rowsOf_relabel f finv hinv, modify_relabelDict f finv hinv d a _ _ (fun r => fitRec_relabel f s.kind s.total (rowsOf b a) r)]
    exact ih _

omit hinv in
theorem batchWidth_relabel (b : Batch α) : batchWidth (relabelBatch f b) = batchWidth b := by
  cases b <;> rfl

omit hinv in
theorem resetFor_relabel (s : LP α) (b : Batch α) (w : Option Nat) :
    (s.relabel f finv).resetFor (relabelBatch f b) w = (s.resetFor b w).relabel f finv := by
  have hnf : (s.relabel f finv).nfFor (relabelBatch f b) w = s.nfFor b w := by
    simp only [LP.nfFor, relabel_kind, batchWidth_relabel]; rfl
  simp only [LP.resetFor, hnf]
  simp only [LP.relabel, relabelBatch, List.length_map]
  congr 1
  apply mapKV_relabelDict
  intro a r _
  cases hk : s.kind <;> simp [resetRec, freshRec, relabelRec, Kind.isLinear, linInitRec] <;> (split <;> simp)

/-- **C20 (relabelling, `fit`).**  Training the relabelled policy on the relabelled batch gives the
    relabelled result — for every policy kind, every batch, every one-to-one relabelling. -/
theorem fit_relabel (s : LP α) (b : Batch α) (w : Option Nat) :
    (s.relabel f finv).fit (relabelBatch f b) w = (s.fit b w).relabel f finv := by
  unfold LP.fit
  rw [relabel_kind]
  cases hk : s.kind <;> simp only [] <;>
    rw [binarize_relabel f finv hinv, resetFor_relabel, parallelFit_relabel f finv hinv, post_relabel f finv hinv]

theorem partialFit_relabel (s : LP α) (b : Batch α) :
    (s.relabel f finv).partialFit (relabelBatch f b) = (s.partialFit b).relabel f finv := by
  unfold LP.partialFit
  rw [relabel_kind]
  have hb : ∀ n, (s.relabel f finv).bumpTotal n = (s.bumpTotal n).relabel f finv := fun _ => rfl
  have hl : (relabelBatch f (s.binarize b)).length = (s.binarize b).length := by simp [relabelBatch]
  cases hk : s.kind <;> simp only [] <;>
    rw [binarize_relabel f finv hinv, hl, hb, parallelFit_relabel f finv hinv, post_relabel f finv hinv]

end Mab

namespace Mab
variable {α β : Type} [DecidableEq α] [DecidableEq β]
variable (f : α → β) (finv : β → α) (hinv : ∀ a, finv (f a) = a)

theorem freshRec_relabel (kind : Kind) (nf : Option Nat) (k1 : Bool) :
    relabelRec f (freshRec kind nf k1 : ArmSt α) = (freshRec kind nf k1 : ArmSt β) := by
  unfold freshRec
  split <;> rfl

include hinv

theorem addArm_relabel (s : LP α) (a : α) (bz : Option (α → Rat → Rat)) :
    (s.relabel f finv).addArm (f a) (bz.map fun g b => g (finv b)) = (s.addArm a bz).relabel f finv := by
  unfold LP.addArm
  rw [← expOp_relabel]
  congr 1
  simp only [LP.insertArm, LP.relabel, List.map_append, List.map_cons, List.map_nil]
  congr 1
  · rw [← freshRec_relabel f s.kind s.numFeatures s.k1fixed, set_relabelDict f finv hinv]
  · cases s.kind <;> cases bz <;> rfl

theorem filter_ne_map (l : List α) (a : α) : (l.map f).filter (· != f a) = (l.filter (· != a)).map f := by
  induction l with
  | nil => rfl
  | cons x l ih =>
    simp only [List.map_cons, List.filter_cons]
    by_cases h : x = a
    · simp [h, ih]
    · have h' : ¬ f x = f a := fun e => h ((inj_of_inv hinv).mp e)
      simp [h, h', ih]

theorem removeArm_relabel (s : LP α) (a : α) :
    (s.relabel f finv).removeArm (f a) = (s.removeArm a).relabel f finv := by
  unfold LP.removeArm
  rw [← normalize_relabel, ← expOp_relabel]
  congr 2
  simp only [LP.dropArm, LP.relabel]
  congr 1
  · exact filter_ne_map f finv hinv s.arms a
  · exact pop_relabelDict f finv hinv s.st a

omit hinv in
theorem init_relabel (kind : Kind) (arms : List α) (bz : Option (α → Rat → Rat)) (k1 : Bool) :
    LP.init kind (arms.map f) (bz.map fun g b => g (finv b)) k1 = (LP.init kind arms bz k1).relabel f finv := by
  simp only [LP.init, LP.relabel, relabelDict, Dict.ofFn, List.map_map]
  congr 1
  apply List.map_congr_left
  intro a _
  simp [freshRec_relabel]

def relabelOp (f : α → β) : LPOp α → LPOp β
  | .fit b w => .fit (relabelBatch f b) w
  | .partialFit b => .partialFit (relabelBatch f b)
  | .addArm a => .addArm (f a)
  | .removeArm a => .removeArm (f a)

theorem stepOp_relabel (s : LP α) (op : LPOp α) :
    (s.relabel f finv).stepOp (relabelOp f op) = (s.stepOp op).relabel f finv := by
  cases op with
  | fit b w => exact fit_relabel f finv hinv s b w
  | partialFit b => exact partialFit_relabel f finv hinv s b
  | addArm a =>
    simp only [LP.stepOp, relabelOp, relabel_arms, mem_map_inj f finv hinv]
    split
    · rfl
    · exact addArm_relabel f finv hinv s a none
  | removeArm a =>
    simp only [LP.stepOp, relabelOp, relabel_arms, mem_map_inj f finv hinv]
    split
    · exact removeArm_relabel f finv hinv s a
    · rfl

/-- **C20 (relabelling, every history).**  For every one-to-one relabelling `f` of the arms, running
    the relabelled history on the relabelled policy gives the relabelled state: every statistic,
    status, model and expectation is the one the original arm has, under the new name, in the same
    order. -/
theorem run_relabel (s : LP α) (ops : List (LPOp α)) :
    (s.relabel f finv).run (ops.map (relabelOp f)) = (s.run ops).relabel f finv := by
  unfold LP.run
  induction ops generalizing s with
  | nil => rfl
  | cons op ops ih =>
    simp only [List.map_cons, List.foldl_cons]
    rw [stepOp_relabel f finv hinv]
    exact ih _

omit hinv in
/-- the learned expectations are renamed, in the same order, and nothing else changes -/
theorem expDict_relabel (s : LP α) : (s.relabel f finv).expDict = s.expDict.map fun p => (f p.1, p.2) := by
  simp [LP.expDict, LP.relabel, relabelDict, List.map_map, Function.comp_def, relabelRec]

omit hinv in
/-- `predict` renames: the first maximiser of the renamed expectations is the renamed first maximiser -/
theorem argmaxFirst_relabel (le : Expect → Expect → Bool) (d : ExpDict α) :
    argmaxFirst le (d.map fun p => (f p.1, p.2)) = (argmaxFirst le d).map f := by
  cases d with
  | nil => rfl
  | cons x t =>
    obtain ⟨k, v⟩ := x
    simp only [List.map_cons, argmaxFirst, Option.map_some, Option.some.injEq]
    have : ∀ (t : ExpDict α) (acc : α × Expect),
        ((t.map fun p => (f p.1, p.2)).foldl (fun (acc : β × Expect) p => if Expect.leWith le p.2 acc.2 then acc else p) (f acc.1, acc.2)) =
        (f (t.foldl (fun (acc : α × Expect) p => if Expect.leWith le p.2 acc.2 then acc else p) acc).1,
           (t.foldl (fun (acc : α × Expect) p => if Expect.leWith le p.2 acc.2 then acc else p) acc).2) := by
      intro t
      induction t with
      | nil => intro acc; rfl
      | cons p t ih =>
        intro acc
        simp only [List.map_cons, List.foldl_cons]
        by_cases h : Expect.leWith le p.2 acc.2 = true
        · simp only [h, if_true]; exact ih acc
        · simp only [h, if_false]; exact ih p
    rw [this t (k, v)]

/-- **C20 (relabelling, the whole constructor-to-expectations pipeline).** -/
theorem init_run_relabel (kind : Kind) (arms : List α) (bz : Option (α → Rat → Rat)) (k1 : Bool) (ops : List (LPOp α)) :
    ((LP.init kind (arms.map f) (bz.map fun g b => g (finv b)) k1).run (ops.map (relabelOp f))).expDict =
      ((LP.init kind arms bz k1).run ops).expDict.map fun p => (f p.1, p.2) := by
  rw [init_relabel, run_relabel f finv hinv, expDict_relabel]

end Mab

namespace Mab
/-! non-vacuity: a relabelling of `Nat` arms with a left inverse, on a history with a removed and re-added arm -/
example : ∀ a : Nat, (fun b => b - 10) ((fun a => a + 10) a) = a := by intro a; simp
example : ((LP.init (.ucb 1) [11, 12, 13]).run
      ((([.fit [{ arm := 1, reward := 1 }, { arm := 2, reward := 0 }], .removeArm 2, .addArm 2,
          .partialFit [{ arm := 3, reward := 1/2 }]] : List (LPOp Nat)).map (relabelOp (· + 10))))).expDict
    = ((LP.init (.ucb 1) [1, 2, 3]).run
        [.fit [{ arm := 1, reward := 1 }, { arm := 2, reward := 0 }], .removeArm 2, .addArm 2,
         .partialFit [{ arm := 3, reward := 1/2 }]]).expDict.map fun p => (p.1 + 10, p.2) := by
  decide +kernel
end Mab
