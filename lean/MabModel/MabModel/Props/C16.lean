/-
  C16 — Simulator bookkeeping is a faithful account of the data.
  (`train_test_split` and the float arithmetic `int(n * (1 - test_size))` produce the realised split,
  which is an input here.)
-/
import MabModel.Core.Simulator
import MabModel.Props.C05
import Mathlib.Algebra.Order.Field.Basic
import Mathlib.Algebra.Order.Ring.Rat
import Mathlib.Tactic.Ring
import Mathlib.Tactic.Linarith
import Mathlib.Algebra.BigOperators.Group.List.Basic
open Py
set_option linter.unusedSectionVars false
set_option linter.unusedVariables false
set_option linter.unusedSimpArgs false

namespace Mab
variable {α : Type} [DecidableEq α]

/-- **C16 (ordered split).**  Train and test indices are the first `k` and the last `n - k` rows: together
    all rows in order, nothing twice. -/
theorem split_partition (n k : Nat) (h : k ≤ n) :
    (orderedSplit n k).1 ++ (orderedSplit n k).2 = List.range n ∧ (orderedSplit n k).2.length = n - k := by
  simp only [orderedSplit]
  constructor
  · have : List.range k = (List.range n).take k := by
      rw [List.take_range]; simp [Nat.min_eq_left h]
    rw [this, List.take_append_drop]
  · simp

/-- any duplicate-free index list and its complement partition the rows -/
theorem random_split_partition (n : Nat) (test : List Nat) (hnd : test.Nodup) (hin : ∀ i ∈ test, i < n) :
    ∀ i, i < n → (i ∈ test ∨ i ∈ (List.range n).filter (fun j => j ∉ test)) ∧
      ¬ (i ∈ test ∧ i ∈ (List.range n).filter (fun j => j ∉ test)) := by
  intro i hi
  constructor
  · by_cases h : i ∈ test
    · exact Or.inl h
    · exact Or.inr (by simp [hi, h])
  · rintro ⟨h1, h2⟩
    simp at h2
    exact h2.2 h1

/-! ### online batches -/

theorem flatten_slices_eq {β : Type} (b : Nat) (hb : 0 < b) : ∀ (m : Nat) (l : List β) (off : Nat), l.length ≤ m * b →
    ((List.range m).map fun i => (l.drop (i * b)).take b).flatten = l := by
  intro m
  induction m with
  | zero => intro l off h; simp at h; simp [h]
  | succ m ih =>
    intro l off h
    rw [List.range_succ_eq_map, List.map_cons, List.flatten_cons, List.map_map]
    simp only [Nat.zero_mul, List.drop_zero]
    have : ((List.range m).map ((fun i => (l.drop (i * b)).take b) ∘ Nat.succ)) =
        ((List.range m).map fun i => ((l.drop b).drop (i * b)).take b) := by
      apply List.map_congr_left
      intro i _
      simp only [Function.comp, List.drop_drop]
      congr 2
      rw [Nat.succ_mul]; omega
    rw [this, ih (l.drop b) off (by simp [List.length_drop]; rw [Nat.succ_mul] at h; omega)]
    exact List.take_append_drop b l

/-- **C16 (batches).**  For every test size `n ≥ 1` and batch size `b ≥ 1` the online loop visits every
    test row exactly once, in order — also when `b` does not divide `n` (the last batch is shorter). -/
theorem batches_cover_once {β : Type} (l : List β) (b : Nat) (hb : 0 < b) :
    ((batchBounds l.length b).map (sliceOf l)).flatten = l := by
  simp only [batchBounds, List.map_map]
  have hslice : ∀ i, (sliceOf l ∘ fun i => (i * b, min (i * b + b) (l.length + 1))) i = (l.drop (i * b)).take b := by
    intro i
    simp only [Function.comp, sliceOf]
    by_cases h : i * b + b ≤ l.length + 1
    · rw [Nat.min_eq_left h]; congr 1; omega
    · have h' : l.length + 1 ≤ i * b + b := by omega
      rw [Nat.min_eq_right h']
      -- both take at least everything that is left
      rw [List.take_of_length_le (by simp [List.length_drop]; omega), List.take_of_length_le (by simp [List.length_drop]; omega)]
  rw [List.map_congr_left (fun i _ => hslice i)]
  apply flatten_slices_eq b hb _ l 0
  have : l.length ≤ ((l.length + b - 1) / b) * b := by
    have h1 := Nat.div_add_mod (l.length + b - 1) b
    have h2 := Nat.mod_lt (l.length + b - 1) hb
    rw [Nat.mul_comm] at h1
    generalize ((l.length + b - 1) / b) * b = t at h1 ⊢
    omega
  exact this

/-! ### statistics -/

theorem getStats_count_sum (rs : List Rat) : (getStats rs).count = rs.length ∧ (getStats rs).sum = rs.sum := by
  unfold getStats
  by_cases h : rs.length = 0
  · have : rs = [] := List.eq_nil_of_length_eq_zero h
    subst this; simp
  · simp [h]

/-- **C16 (train + test = total).**  Counts and sums of an arm's rewards over any two row sets that
    together are a rearrangement of all rows add up to the totals. -/
theorem stats_additive (total train test : List Rat) (h : total.Perm (train ++ test)) :
    (getStats total).count = (getStats train).count + (getStats test).count ∧
    (getStats total).sum = (getStats train).sum + (getStats test).sum := by
  simp only [getStats_count_sum]
  exact ⟨by rw [h.length_eq, List.length_append], by rw [h.sum_eq, List.sum_append]⟩

theorem foldl_min_le (xs : List Rat) : ∀ (m : Rat), (xs.foldl (fun m y => if y < m then y else m) m) ≤ m ∧
    ∀ y ∈ xs, (xs.foldl (fun m y => if y < m then y else m) m) ≤ y := by
  induction xs with
  | nil => intro m; simp
  | cons x xs ih =>
    intro m
    simp only [List.foldl_cons]
    obtain ⟨h1, h2⟩ := ih (if x < m then x else m)
    have hm : (if x < m then x else m) ≤ m ∧ (if x < m then x else m) ≤ x := by
      split
      · next h => exact ⟨le_of_lt h, le_refl _⟩
      · next h => exact ⟨le_refl _, not_lt.mp h⟩
    refine ⟨le_trans h1 hm.1, ?_⟩
    intro y hy
    rcases List.mem_cons.mp hy with e | e
    · subst e; exact le_trans h1 hm.2
    · exact h2 y e

theorem foldl_max_ge (xs : List Rat) : ∀ (m : Rat), m ≤ (xs.foldl (fun m y => if m < y then y else m) m) ∧
    ∀ y ∈ xs, y ≤ (xs.foldl (fun m y => if m < y then y else m) m) := by
  induction xs with
  | nil => intro m; simp
  | cons x xs ih =>
    intro m
    simp only [List.foldl_cons]
    obtain ⟨h1, h2⟩ := ih (if m < x then x else m)
    have hm : m ≤ (if m < x then x else m) ∧ x ≤ (if m < x then x else m) := by
      split
      · next h => exact ⟨le_of_lt h, le_refl _⟩
      · next h => exact ⟨le_refl _, not_lt.mp h⟩
    refine ⟨le_trans hm.1 h1, ?_⟩
    intro y hy
    rcases List.mem_cons.mp hy with e | e
    · subst e; exact le_trans hm.2 h1
    · exact h2 y e

theorem sum_bounds (rs : List Rat) (lo hi : Rat) (hlo : ∀ y ∈ rs, lo ≤ y) (hhi : ∀ y ∈ rs, y ≤ hi) :
    (rs.length : Rat) * lo ≤ rs.sum ∧ rs.sum ≤ (rs.length : Rat) * hi := by
  induction rs with
  | nil => simp
  | cons x xs ih =>
    obtain ⟨i1, i2⟩ := ih (fun y hy => hlo y (List.mem_cons_of_mem _ hy)) (fun y hy => hhi y (List.mem_cons_of_mem _ hy))
    have a := hlo x (by simp)
    have b := hhi x (by simp)
    simp only [List.length_cons, List.sum_cons]
    push_cast
    constructor <;> nlinarith

/-- the statistics of a non-empty reward list are ordered: `min ≤ mean ≤ max` -/
theorem min_le_mean_le_max (rs : List Rat) (h : rs ≠ []) :
    (getStats rs).min ≤ (getStats rs).mean ∧ (getStats rs).mean ≤ (getStats rs).max := by
  cases rs with
  | nil => exact absurd rfl h
  | cons x xs =>
    have hl : (x :: xs).length ≠ 0 := by simp
    simp only [getStats, hl, if_false, listMin, listMaxR]
    obtain ⟨a1, a2⟩ := foldl_min_le xs x
    obtain ⟨b1, b2⟩ := foldl_max_ge xs x
    have hlo : ∀ y ∈ x :: xs, (xs.foldl (fun m y => if y < m then y else m) x) ≤ y := by
      intro y hy; rcases List.mem_cons.mp hy with e | e
      · subst e; exact a1
      · exact a2 y e
    have hhi : ∀ y ∈ x :: xs, y ≤ (xs.foldl (fun m y => if m < y then y else m) x) := by
      intro y hy; rcases List.mem_cons.mp hy with e | e
      · subst e; exact b1
      · exact b2 y e
    obtain ⟨s1, s2⟩ := sum_bounds (x :: xs) _ _ hlo hhi
    have hpos : (0 : Rat) < ((x :: xs).length : Rat) := by simp; positivity
    constructor
    · rw [le_div_iff₀ hpos]; linarith [mul_comm (((x :: xs).length : Rat)) (xs.foldl (fun m y => if y < m then y else m) x)]
    · rw [div_le_iff₀ hpos]; linarith [mul_comm (((x :: xs).length : Rat)) (xs.foldl (fun m y => if m < y then y else m) x)]

/-! ### the default evaluator -/

theorem credited_length_sum (arms : List α) (hn : arms.Nodup) (decisions : List α) (rewards : List Rat)
    (train : α → Rat) : ∀ (predictions : List α), (∀ p ∈ predictions, p ∈ arms) →
    predictions.length ≤ decisions.length → decisions.length = rewards.length →
    ((arms.map fun a => (credited decisions rewards predictions train a).length).sum) = predictions.length := by
  intro predictions
  induction predictions generalizing decisions rewards with
  | nil =>
    intro _ _ _
    simp only [credited, List.zip_nil_left, List.filterMap_nil, List.length_nil]
    induction arms with
    | nil => rfl
    | cons x xs ihx => simp [List.sum_cons]
  | cons p ps ih =>
    intro hin hlen hdr
    cases decisions with
    | nil => simp at hlen
    | cons d ds =>
      cases rewards with
      | nil => simp at hdr
      | cons r rs =>
        have hp : p ∈ arms := hin p (by simp)
        have ih' := ih ds rs (fun q hq => hin q (List.mem_cons_of_mem _ hq)) (by simpa using hlen) (by simpa using hdr)
        have hstep : ∀ a, (credited (d :: ds) (r :: rs) (p :: ps) train a).length =
            (if p = a then 1 else 0) + (credited ds rs ps train a).length := by
          intro a
          simp only [credited, List.zip_cons_cons, List.filterMap_cons]
          by_cases hpa : p = a
          · simp [hpa]; omega
          · simp [hpa]
        simp only [hstep]
        have hsum : ∀ (l : List α), l.Nodup → ((l.map fun a => (if p = a then 1 else 0) + (credited ds rs ps train a).length).sum) =
            (if p ∈ l then 1 else 0) + (l.map fun a => (credited ds rs ps train a).length).sum := by
          intro l
          induction l with
          | nil => intro _; simp
          | cons x l ihl =>
            intro hnd
            have hx : x ∉ l := (List.nodup_cons.mp hnd).1
            simp only [List.map_cons, List.sum_cons, List.mem_cons]
            rw [ihl (List.nodup_cons.mp hnd).2]
            by_cases hpx : p = x
            · subst hpx; simp [hx]; omega
            · simp [hpx]; omega
        rw [hsum arms hn, ih']
        simp [hp]; omega

/-- **C16 (evaluated counts).**  When every prediction is one of the arms, the counts the default
    evaluator reports over all arms add up to the number of evaluated test rows. -/
theorem evaluator_count_total (arms : List α) (hn : arms.Nodup) (decisions : List α) (rewards : List Rat)
    (predictions : List α) (train : α → Rat) (hin : ∀ p ∈ predictions, p ∈ arms)
    (h1 : predictions.length = decisions.length) (h2 : decisions.length = rewards.length) :
    (((evaluate arms decisions rewards predictions train).map fun q => q.2.length).sum) = predictions.length := by
  simp only [evaluate, List.map_map, Function.comp_def]
  exact credited_length_sum arms hn decisions rewards train predictions hin (le_of_eq h1) h2

/-- **C16 (ordered analyses).**  Crediting the training minimum, mean or maximum where the prediction
    differs from the logged decision gives per-arm sums ordered `min ≤ mean ≤ max`, whenever the
    training statistics themselves are ordered. -/
theorem evaluator_ordered (decisions : List α) (rewards : List Rat) (predictions : List α) (lo hi : α → Rat) (a : α)
    (h : lo a ≤ hi a) :
    (credited decisions rewards predictions lo a).sum ≤ (credited decisions rewards predictions hi a).sum := by
  simp only [credited]
  generalize List.zip predictions (List.zip decisions rewards) = zs
  induction zs with
  | nil => simp
  | cons z zs ih =>
    simp only [List.filterMap_cons]
    by_cases hz : z.1 = a
    · rw [if_pos hz, if_pos hz]
      have hle : (if z.1 = z.2.1 then z.2.2 else lo a) ≤ (if z.1 = z.2.1 then z.2.2 else hi a) := by
        split
        · exact le_refl _
        · exact h
      simp only [List.sum_cons]
      linarith
    · rw [if_neg hz, if_neg hz]; exact ih

example : batchBounds 7 3 = [(0, 3), (3, 6), (6, 8)] := by decide +kernel

end Mab
