/-
  C06 — incremental training equals batch training.
-/
import MabModel.Props.C01
import MabModel.Core.Facade
open Py
set_option linter.unusedSectionVars false
set_option linter.unusedVariables false
set_option linter.unusedSimpArgs false

namespace Mab
variable {α : Type} [DecidableEq α]

theorem rowsOf_append (b₁ b₂ : Batch α) (a : α) : rowsOf (b₁ ++ b₂) a = rowsOf b₁ a ++ rowsOf b₂ a := by
  simp [rowsOf, List.filter_append, List.map_append]

/-- the operation list "fit on the first chunk, partial_fit on every later chunk" -/
def chunkedOps (w : Option Nat) (c₀ : Batch α) (cs : List (Batch α)) : List (LPOp α) :=
  LPOp.fit c₀ w :: cs.map LPOp.partialFit

theorem spec_chunked (t : Spec α) (w : Option Nat) (c₀ : Batch α) (cs : List (Batch α)) :
    (t.run (chunkedOps w c₀ cs)).arms = t.arms ∧
    (t.run (chunkedOps w c₀ cs)).N = (c₀ ++ cs.flatten).length ∧
    ∀ a, (t.run (chunkedOps w c₀ cs)).log a = rowsOf (c₀ ++ cs.flatten) a := by
  simp only [chunkedOps, Spec.run, List.foldl_cons]
  have key : ∀ (cs : List (Batch α)) (u : Spec α) (pre : Batch α), u.N = pre.length → (∀ a, u.log a = rowsOf pre a) →
      (List.foldl Spec.step u (cs.map LPOp.partialFit)).arms = u.arms ∧
      (List.foldl Spec.step u (cs.map LPOp.partialFit)).N = (pre ++ cs.flatten).length ∧
      ∀ a, (List.foldl Spec.step u (cs.map LPOp.partialFit)).log a = rowsOf (pre ++ cs.flatten) a := by
    intro cs
    induction cs with
    | nil => intro u pre h1 h2; simp [h1, h2]
    | cons c cs ih =>
      intro u pre h1 h2
      simp only [List.map_cons, List.foldl_cons, List.flatten_cons]
      have := ih (u.step (.partialFit c)) (pre ++ c) (by simp [Spec.step, h1]) (by intro a; simp [Spec.step, h2, rowsOf_append])
      simpa [Spec.step, List.append_assoc] using this
  have := key cs (t.step (.fit c₀ w)) c₀ (by simp [Spec.step]) (by intro a; simp [Spec.step])
  simpa [Spec.step] using this

/-- **C06 (learning policies).**  From any reachable state, training with `fit` on the first chunk
    and `partial_fit` on each later chunk — for every split into consecutive chunks, including empty
    chunks, single-row chunks and chunks in which some arms do not occur — leaves for every arm
    exactly the learned record that one `fit` on the concatenated rows leaves: sums, counts, means,
    UCB values with the same N, Thompson counters, and for linear policies the same `A`, `Xᵀy`,
    `A⁻¹` and coefficients (exact rational arithmetic; float rounding is outside the model). -/
theorem incremental_eq_batch (kind : Kind) (arms : List α) (k1 : Bool) (hn : arms.Nodup)
    (pre : List (LPOp α)) (w : Option Nat) (c₀ : Batch α) (cs : List (Batch α))
    (hw : kind.isLinear = true → w.isSome) :
    let s₀ := (LP.init kind arms none k1).run pre
    let inc := s₀.run (chunkedOps w c₀ cs)
    let bat := s₀.run [.fit (c₀ ++ cs.flatten) w]
    inc.arms = bat.arms ∧ (kind = .random ∨ inc.total = bat.total) ∧
    ∀ a ∈ inc.arms, (inc.st.get? a).map (·.strip kind) = (bat.st.get? a).map (·.strip kind) := by
  intro s₀ inc bat
  have hinc := cf_refines_log_aux kind arms k1 hn (pre ++ chunkedOps w c₀ cs)
  have hbat := cf_refines_log_aux kind arms k1 hn (pre ++ [.fit (c₀ ++ cs.flatten) w])
  have e1 : (LP.init kind arms none k1).run (pre ++ chunkedOps w c₀ cs) = inc := by
    simp [LP.run, List.foldl_append, inc, s₀]
  have e2 : (LP.init kind arms none k1).run (pre ++ [.fit (c₀ ++ cs.flatten) w]) = bat := by
    simp [LP.run, List.foldl_append, bat, s₀]
  have t1 : (Spec.init arms).run (pre ++ chunkedOps w c₀ cs) = ((Spec.init arms).run pre).run (chunkedOps w c₀ cs) := by
    simp [Spec.run, List.foldl_append]
  have t2 : (Spec.init arms).run (pre ++ [.fit (c₀ ++ cs.flatten) w]) = ((Spec.init arms).run pre).run [.fit (c₀ ++ cs.flatten) w] := by
    simp [Spec.run, List.foldl_append]
  rw [e1, t1] at hinc
  rw [e2, t2] at hbat
  obtain ⟨s1, s2, s3⟩ := spec_chunked ((Spec.init arms).run pre) w c₀ cs
  have hk1 : inc.kind = kind := by rw [← e1]; exact run_kind _ _
  have hk2 : bat.kind = kind := by rw [← e2]; exact run_kind _ _
  have harms : inc.arms = bat.arms := by
    rw [hinc.1.arms, hbat.1.arms, s1]; simp [Spec.run, Spec.step]
  -- `num_features` agree: untouched for context-free policies, the given width for linear ones
  have hnf : inc.numFeatures = bat.numFeatures := by
    by_cases hl : kind.isLinear = true
    · obtain ⟨wv, hwv⟩ := Option.isSome_iff_exists.mp (hw hl)
      have f1 : ∀ (cs : List (Batch α)) (u : LP α), (u.run (cs.map LPOp.partialFit)).numFeatures = u.numFeatures := by
        intro cs; induction cs with
        | nil => intro u; rfl
        | cons c cs ih => intro u; simp only [List.map_cons, LP.run, List.foldl_cons]; exact (ih _).trans (partialFit_config u c).2.2.2
      have g : ∀ (u : LP α) (b : Batch α), u.kind = kind → (u.fit b w).numFeatures = some wv := by
        intro u b hu
        rw [hwv]
        exact fit_numFeatures_linear u b wv (hu ▸ hl)
      have hs0 : s₀.kind = kind := run_kind _ _
      have i1 : inc.numFeatures = some wv := by
        show (s₀.run (chunkedOps w c₀ cs)).numFeatures = _
        simp only [chunkedOps, LP.run, List.foldl_cons]
        exact (f1 cs _).trans (g s₀ c₀ hs0)
      have i2 : bat.numFeatures = some wv := by
        show (s₀.run [.fit (c₀ ++ cs.flatten) w]).numFeatures = _
        simp only [LP.run, List.foldl_cons, List.foldl_nil]
        exact g s₀ _ hs0
      rw [i1, i2]
    · have hl' : kind.isLinear = false := by simpa using hl
      rw [hinc.2.2.2.2 hl', hbat.2.2.2.2 hl']
  refine ⟨harms, ?_, ?_⟩
  · rcases hinc.1.total with e | e
    · exact Or.inl (hk1 ▸ e)
    · rcases hbat.1.total with e' | e'
      · exact Or.inl (hk2 ▸ e')
      · refine Or.inr ?_
        rw [e, e', s2]; simp [Spec.run, Spec.step]
  · intro a ha
    have h1 := hinc.1.entry a ha
    have h2 := hbat.1.entry a (harms ▸ ha)
    simp only [statOf] at h1 h2
    rw [hk1] at h1
    rw [hk2] at h2
    rw [h1, h2, s3 a, s2, hnf, hinc.2.2.2.1, hbat.2.2.2.1]
    simp [Spec.run, Spec.step]

/-- the first `partial_fit` of a bandit is a `fit` (facade) -/
theorem first_partial_is_fit (b : Bandit α) (a : TrainArgs α) (o : Oracle) (g : Rng) (h : b.isFit = false) :
    b.train a true o g = b.train a false o g := by
  simp [Bandit.train, h]

/-- Radius / KNearest: the stored history after `fit c₀; partial_fit c₁; …` is the concatenation of all
    rows in order, the three columns aligned (no binarizer). -/
theorem neighbors_history (b : Bandit α) (r : Rat) (m : Metric) (pr : Option (List Rat)) (hnp : b.np = .radius r m pr)
    (hbz : b.lp.binz = none) (c₀ c₁ : Batch α) (o : Oracle) (g : Rng) :
    (((b.impFit c₀ o g).1).impPartialFit c₁ o g).1.hist = c₀ ++ c₁ := by
  simp [Bandit.impFit, Bandit.impPartialFit, hnp, npBinarize, hbz]

end Mab
