/-
  C20 — results are invariant to the order of training rows; rewards enter only through the
  documented statistics (shift / scale laws).
  Relabelling: every definition of the model is polymorphic in the arm type `α` and uses arms only
  through `DecidableEq`; equivariance under one-to-one relabelling is the free theorem of that type
  (not stated inside Lean — no parametricity translation is available here); the harness checks it on
  the code with int ↔ str ↔ float relabelled twins.
-/
import MabModel.Props.C01
import Mathlib.Algebra.Order.Field.Basic
import Mathlib.Tactic.Ring
import Mathlib.Tactic.FieldSimp
open Py
set_option linter.unusedSectionVars false
set_option linter.unusedVariables false
set_option linter.unusedSimpArgs false

namespace Mab
variable {α : Type} [DecidableEq α]

/-! ### row order -/

theorem rowsOf_perm (b b' : Batch α) (a : α) (h : b.Perm b') : (rowsOf b a).Perm (rowsOf b' a) :=
  (h.filter _).map _

theorem rsum_perm (rs rs' : List (Rat × Vec)) (h : rs.Perm rs') : rsum rs = rsum rs' := by
  unfold rsum
  exact (h.map _).sum_eq

/-- a context-free policy's `_fit_arm` sees the arm's rows only through their sum and their number -/
theorem fitRec_perm (kind : Kind) (hlin : kind.isLinear = false) (N : Nat) (rs rs' : List (Rat × Vec))
    (h : rs.Perm rs') (r : ArmSt α) : fitRec kind N rs r = fitRec kind N rs' r := by
  have hs := rsum_perm rs rs' h
  have hl := h.length_eq
  cases kind <;> simp [Kind.isLinear] at hlin <;> simp [fitRec, hs, hl]

theorem batchArms_perm (b b' : Batch α) (h : b.Perm b') (a : α) : a ∈ batchArms b ↔ a ∈ batchArms b' := by
  simp only [batchArms]
  exact (h.map _).mem_iff

/-- **C20 (row order).**  For every context-free policy in a well-formed state, `fit` on any
    permutation of a batch gives *the same state*: every sum, count, mean, expectation, counter and
    status flag (sums of rationals commute; float rounding is outside the model). -/
theorem fit_perm (s : LP α) (b b' : Batch α) (w : Option Nat) (hwf : s.WF) (hlin : s.kind.isLinear = false)
    (hbz : s.binz = none) (h : b.Perm b') : s.fit b w = s.fit b' w := by
  have hb : s.binarize b = b := by simp [LP.binarize, hbz]
  have hb' : s.binarize b' = b' := by simp [LP.binarize, hbz]
  unfold LP.fit
  rw [hb, hb']
  cases hk : s.kind with
  | random => rfl
  | _ =>
    simp only []
    all_goals
      have hr : s.resetFor b w = s.resetFor b' w := by
        simp [LP.resetFor, LP.nfFor, hlin, h.length_eq]
      have hwf' : (s.resetFor b' w).WF := ⟨by simp [LP.resetFor, hwf.keys], hwf.nodup⟩
      rw [hr, parallelFit_closed _ _ hwf', parallelFit_closed _ _ hwf']
      have hkk : (s.resetFor b' w).kind.isLinear = false := hlin
      have hst : ((s.resetFor b' w).st.mapKV fun c v => fitRec (s.resetFor b' w).kind (s.resetFor b' w).total (rowsOf b c) v) =
          ((s.resetFor b' w).st.mapKV fun c v => fitRec (s.resetFor b' w).kind (s.resetFor b' w).total (rowsOf b' c) v) := by
        apply Dict.mapKV_congr
        intro k v _
        exact fitRec_perm _ hkk _ _ _ (rowsOf_perm b b' k h) v
      rw [hst]
      unfold LP.post LP.setTrained
      have hm : ∀ a, (a ∈ batchArms b) = (a ∈ batchArms b') := fun a => propext (batchArms_perm b b' h a)
      simp only [hm]

theorem partialFit_perm (s : LP α) (b b' : Batch α) (hwf : s.WF) (hlin : s.kind.isLinear = false)
    (hbz : s.binz = none) (h : b.Perm b') : s.partialFit b = s.partialFit b' := by
  have hb : s.binarize b = b := by simp [LP.binarize, hbz]
  have hb' : s.binarize b' = b' := by simp [LP.binarize, hbz]
  unfold LP.partialFit
  rw [hb, hb']
  cases hk : s.kind with
  | random => rfl
  | _ =>
    simp only []
    all_goals
      have hr : s.bumpTotal b.length = s.bumpTotal b'.length := by simp [LP.bumpTotal, h.length_eq]
      have hwf' : (s.bumpTotal b'.length).WF := ⟨hwf.keys, hwf.nodup⟩
      rw [hr, parallelFit_closed _ _ hwf', parallelFit_closed _ _ hwf']
      have hkk : (s.bumpTotal b'.length).kind.isLinear = false := hlin
      have hst : ((s.bumpTotal b'.length).st.mapKV fun c v => fitRec (s.bumpTotal b'.length).kind (s.bumpTotal b'.length).total (rowsOf b c) v) =
          ((s.bumpTotal b'.length).st.mapKV fun c v => fitRec (s.bumpTotal b'.length).kind (s.bumpTotal b'.length).total (rowsOf b' c) v) := by
        apply Dict.mapKV_congr
        intro k v _
        exact fitRec_perm _ hkk _ _ _ (rowsOf_perm b b' k h) v
      rw [hst]
      unfold LP.post LP.setTrained
      have hm : ∀ a, (a ∈ batchArms b) = (a ∈ batchArms b') := fun a => propext (batchArms_perm b b' h a)
      simp only [hm]

/-! ### reward shift and scale -/

def shiftRows (c : Rat) (rs : List (Rat × Vec)) : List (Rat × Vec) := rs.map fun p => (p.1 + c, p.2)
def scaleRows (c : Rat) (rs : List (Rat × Vec)) : List (Rat × Vec) := rs.map fun p => (c * p.1, p.2)

theorem rsum_shift (c : Rat) (rs : List (Rat × Vec)) : rsum (shiftRows c rs) = rsum rs + (rs.length : Rat) * c := by
  induction rs with
  | nil => simp [rsum, shiftRows]
  | cons p rs ih =>
    simp only [rsum, shiftRows, List.map_cons, List.sum_cons, List.length_cons] at ih ⊢
    rw [ih]; push_cast; ring

theorem mean_shift (S c : Rat) (n : Nat) (h : n ≠ 0) : (S + (n : Rat) * c) / (n : Rat) = S / (n : Rat) + c := by
  have hne : (n : Rat) ≠ 0 := by exact_mod_cast h
  field_simp

/-- **C20 (shift, greedy).**  Adding `c` to every reward of an observed arm shifts its running mean by `c`. -/
theorem shift_greedy (eps c : Rat) (N : Nat) (rs : List (Rat × Vec)) (h : rs.length ≠ 0) :
    (fitRec (.greedy eps) N (shiftRows c rs) ({} : ArmSt α)).exp = .val (rsum rs / (rs.length : Rat) + c) ∧
    (fitRec (.greedy eps) N rs ({} : ArmSt α)).exp = .val (rsum rs / (rs.length : Rat)) := by
  have hl : (shiftRows c rs).length = rs.length := by simp [shiftRows]
  have hne : (rs.length : Rat) ≠ 0 := by exact_mod_cast h
  constructor
  · simp only [fitRec, hl, h, ne_eq, not_false_eq_true, if_true, rsum_shift]
    simp only [Nat.zero_add, Rat.zero_add]
    rw [mean_shift _ _ _ h]
  · simp [fitRec, h, Rat.zero_add]

/-- **C20 (shift, UCB1).**  The mean shifts by `c`; the exploration bonus (which depends on counts only)
    is untouched. -/
theorem shift_ucb (alpha c : Rat) (N : Nat) (rs : List (Rat × Vec)) (h : rs.length ≠ 0) :
    (fitRec (.ucb alpha) N (shiftRows c rs) ({} : ArmSt α)).exp = .ucb (rsum rs / (rs.length : Rat) + c) alpha N rs.length ∧
    (fitRec (.ucb alpha) N rs ({} : ArmSt α)).exp = .ucb (rsum rs / (rs.length : Rat)) alpha N rs.length := by
  have hl : (shiftRows c rs).length = rs.length := by simp [shiftRows]
  have hne : (rs.length : Rat) ≠ 0 := by exact_mod_cast h
  constructor
  · simp only [fitRec, hl, h, ne_eq, not_false_eq_true, if_true, rsum_shift]
    simp only [Nat.zero_add, Rat.zero_add, h, not_false_eq_true, if_true]
    rw [mean_shift _ _ _ h]
  · simp [fitRec, h, Rat.zero_add]

/-- **C20 (scale, linear).**  `Xᵀy` is linear in the rewards: scaling every reward by `c` scales it by `c`
    (and leaves the Gram matrix untouched), hence the ridge coefficients and LinGreedy's `x·β` scale by `c`. -/
theorem addXty_scale (c : Rat) (rs : List (Rat × Vec)) (v : Vec) (d : Nat)
    (hv : v.length = d) (hrs : ∀ p ∈ rs, p.2.length = d) :
    addXty (vsmul c v) (scaleRows c rs) = vsmul c (addXty v rs) := by
  induction rs generalizing v with
  | nil => rfl
  | cons p rs ih =>
    simp only [addXty, scaleRows, List.map_cons, List.foldl_cons] at ih ⊢
    have hp : p.2.length = d := hrs p (by simp)
    have hstep : ∀ (v x : Vec) (a : Rat), vadd (vsmul c v) (vsmul (c * a) x) = vsmul c (vadd v (vsmul a x)) := by
      intro v
      induction v with
      | nil => intro x a; simp [vadd, vsmul]
      | cons y v ihv =>
        intro x a
        cases x with
        | nil => simp [vadd, vsmul]
        | cons z x =>
          have := ihv x a
          simp only [vadd, vsmul, List.map_cons, List.zipWith_cons_cons, List.cons.injEq] at this ⊢
          exact ⟨by ring, this⟩
    rw [hstep v p.2 p.1]
    apply ih
    · simp [vadd, vsmul, hv, hp]
    · intro q hq; exact hrs q (by simp [hq])

theorem gram_ignores_rewards (c : Rat) (A : Mat) (rs : List (Rat × Vec)) :
    addGram A ((scaleRows c rs).map (·.2)) = addGram A (rs.map (·.2)) := by
  simp [scaleRows, List.map_map, Function.comp_def]

/-! ### Softmax is shift invariant (real numbers) -/

theorem listMax_shift (c : Rat) : ∀ (ms : List Rat), ms ≠ [] → listMax (ms.map (· + c)) = listMax ms + c := by
  intro ms h
  cases ms with
  | nil => exact absurd rfl h
  | cons x xs =>
    simp only [listMax, List.map_cons]
    induction xs generalizing x with
    | nil => simp
    | cons y ys ih =>
      simp only [List.map_cons, List.foldl_cons]
      rw [show max (x + c) (y + c) = max x y + c from (max_add_add_right x y c)]
      exact ih (max x y) (by simp)

/-- **C20 (shift, Softmax).**  The max-shifted soft-max share of an arm does not change when a constant
    is added to all means. -/
theorem shift_softmax_invariant (ms : List Rat) (tau m c : Rat) (h : ms ≠ []) :
    interp (.soft (ms.map (· + c)) tau (m + c)) = interp (.soft ms tau m) := by
  have hw : ∀ x, softW (ms.map (· + c)) tau (x + c) = softW ms tau x := by
    intro x
    simp only [softW, listMax_shift c ms h]
    congr 2
    ring
  simp only [interp, hw, List.map_map, Function.comp_def]

end Mab
