/-
  C10 — prediction is read-only.
  The model contains the side effect `predict*` really has on a learning policy: `_ThompsonSampling`
  overwrites its `arm_to_expectation` with the last draw.  Everything else a prediction touches in the
  code (deep copies of the policy that are re-fit per row, leaf policies, local dictionaries) is a
  local value in the model; that those copies are really private is what the correspondence and the
  queried-vs-unqueried twin observe.
-/
import MabModel.Props.C01
import MabModel.Core.Facade
open Py
set_option linter.unusedSectionVars false
set_option linter.unusedVariables false
set_option linter.unusedSimpArgs false

namespace Mab
variable {α : Type} [DecidableEq α]

/-- forget the last Thompson draw (the only thing a prediction writes into a policy) -/
def LP.norm (s : LP α) : LP α :=
  match s.kind with
  | .thompson => { s with st := s.st.mapKV fun _ r => { r with exp := .val 0 } }
  | _ => s

/-- **C10 (learning policies).**  `predict_expectations` returns the policy it was called on, except
    that a Thompson policy remembers the last draw in the expectation field of each arm; nothing that
    was learned (sums, counts, means, counters, models, statuses, arms, configuration) changes. -/
theorem predictExp_readonly (s : LP α) (m : Option Nat) (ctxs : List Vec) (own : Stream) (g : Rng) :
    (s.predictExp m ctxs own g).1.norm = s.norm ∧
    (s.kind ≠ .thompson → (s.predictExp m ctxs own g).1 = s) := by
  unfold LP.predictExp
  cases hk : s.kind with
  | greedy eps =>
    simp only []
    constructor
    · split
      · split <;> rfl
      · rfl
    · intro _; split
      · split <;> rfl
      · rfl
  | ucb a => simp only []; constructor <;> (try intro _) <;> split <;> rfl
  | softmax t => simp
  | popularity => simp
  | random => simp
  | linGreedy e l => simp
  | linUCB a l => simp
  | linTS a l => simp
  | thompson =>
    simp only []
    refine ⟨?_, fun h => absurd rfl h⟩
    simp only [LP.norm, hk, Dict.mapKV_mapKV]

theorem predict_readonly (le : Expect → Expect → Bool) (s : LP α) (m : Option Nat) (ctxs : List Vec)
    (own : Stream) (g : Rng) :
    (s.predict le m ctxs own g).1.norm = s.norm ∧ (s.kind ≠ .thompson → (s.predict le m ctxs own g).1 = s) := by
  have := predictExp_readonly s m ctxs own g
  simpa [LP.predict] using this

/-- **C10 (neighbourhood policies).**  Under Radius, KNearest, LSHNearest, Clusters and TreeBandit a
    query returns the bandit unchanged: stored history, tables, planes, cluster policies, leaf
    rewards and the template policy are not touched (workers operate on copies). -/
theorem impPredict_readonly (le : Expect → Expect → Bool) (b : Bandit α) (isPredict : Bool) (m : Option Nat)
    (qs : List Vec) (o : Oracle) (g : Rng) (h : b.np ≠ .none) :
    (b.impPredict le isPredict m qs o g).1 = b := by
  unfold Bandit.impPredict
  cases hnp : b.np <;> simp_all

/-- facade: a successful query changes nothing but (for a Thompson policy without neighbourhood
    policy) the remembered last draw -/
theorem query_readonly (le : Expect → Expect → Bool) (b : Bandit α) (a : PredArgs) (isPredict : Bool)
    (o : Oracle) (g : Rng) :
    let b' := (b.query le a isPredict o g).1
    b'.arms = b.arms ∧ b'.isFit = b.isFit ∧ b'.hist = b.hist ∧ b'.tables = b.tables ∧ b'.planes = b.planes ∧
    b'.lps = b.lps ∧ b'.leafRewards = b.leafRewards ∧ b'.npExp = b.npExp ∧ b'.lp.norm = b.lp.norm := by
  unfold Bandit.query
  by_cases h1 : (!b.isFit) = true
  · rw [if_pos h1]; simp
  · rw [if_neg h1]
    by_cases h2 : b.isContextual ∧ a.contexts.isNone
    · rw [if_pos h2]; simp
    · rw [if_neg h2]
      by_cases h3 : a.contexts.isSome ∧ !a.ctxTypeOk
      · rw [if_pos h3]; simp
      · rw [if_neg h3]
        simp only []
        by_cases hnp : b.np = .none
        · unfold Bandit.impPredict
          simp only [hnp]
          cases isPredict
          · simpa using (predictExp_readonly b.lp (Option.map (fun x => x.length) a.contexts) (a.contexts.getD []) .main g).1
          · simpa using (predict_readonly le b.lp (Option.map (fun x => x.length) a.contexts) (a.contexts.getD []) .main g).1
        · rw [impPredict_readonly le b isPredict _ _ o g hnp]
          simp

end Mab
