/-
  C09 — predict returns the arm with the highest expectation.
-/
import MabModel.Core.Facade
open Py
set_option linter.unusedSectionVars false
set_option linter.unusedVariables false

namespace Mab
variable {α : Type} [DecidableEq α]

/-- the fold inside `argmaxFirst` -/
def maxStep (R : Expect → Expect → Bool) (acc p : α × Expect) : α × Expect :=
  if R p.2 acc.2 then acc else p

theorem argmaxFirst_eq_fold (le : Expect → Expect → Bool) (x : α × Expect) (t : ExpDict α) :
    argmaxFirst le (x :: t) = some (t.foldl (maxStep (Expect.leWith le)) x).1 := by
  obtain ⟨k, v⟩ := x
  rfl

/-- Running maximum over a list with "keep the earlier one on ties": the result dominates the
    start value and every element, and it is the *first* element that does so. -/
theorem foldMax_spec (R : Expect → Expect → Bool)
    (total : ∀ a b, R a b = true ∨ R b a = true) (trans : ∀ a b c, R a b = true → R b c = true → R a c = true)
    (t : List (α × Expect)) : ∀ (acc r : α × Expect), r = t.foldl (maxStep R) acc →
    R acc.2 r.2 = true ∧ (∀ q ∈ t, R q.2 r.2 = true) ∧
    (r = acc ∨ ∃ pre post, t = pre ++ r :: post ∧ R r.2 acc.2 = false ∧ ∀ q ∈ pre, R r.2 q.2 = false) := by
  induction t with
  | nil =>
    intro acc r hr
    simp only [List.foldl_nil] at hr
    subst hr
    refine ⟨?_, by simp, Or.inl rfl⟩
    rcases total r.2 r.2 with h | h <;> exact h
  | cons p t ih =>
    intro acc r hr
    simp only [List.foldl_cons] at hr
    by_cases hp : R p.2 acc.2 = true
    · have hstep : maxStep R acc p = acc := by simp [maxStep, hp]
      rw [hstep] at hr
      obtain ⟨i1, i2, i3⟩ := ih acc r hr
      refine ⟨i1, ?_, ?_⟩
      · intro q hq
        rcases List.mem_cons.mp hq with e | e
        · subst e; exact trans _ _ _ hp i1
        · exact i2 q e
      · rcases i3 with e | ⟨pre, post, e1, e2, e3⟩
        · exact Or.inl e
        · refine Or.inr ⟨p :: pre, post, by rw [List.cons_append]; exact congrArg _ e1, e2, ?_⟩
          intro q hq
          rcases List.mem_cons.mp hq with e | e
          · subst e
            cases hrq : R r.2 q.2 with
            | false => rfl
            | true => rw [trans _ _ _ hrq hp] at e2; exact absurd e2 (by simp)
          · exact e3 q e
    · have hp' : R p.2 acc.2 = false := by simpa using hp
      have hstep : maxStep R acc p = p := by simp [maxStep, hp']
      rw [hstep] at hr
      have hacc : R acc.2 p.2 = true := by
        rcases total acc.2 p.2 with h | h
        · exact h
        · rw [h] at hp'; exact absurd hp' (by simp)
      obtain ⟨i1, i2, i3⟩ := ih p r hr
      refine ⟨trans _ _ _ hacc i1, ?_, ?_⟩
      · intro q hq
        rcases List.mem_cons.mp hq with e | e
        · subst e; exact i1
        · exact i2 q e
      · refine Or.inr ?_
        rcases i3 with e | ⟨pre, post, e1, e2, e3⟩
        · subst e
          exact ⟨[], t, rfl, hp', by simp⟩
        · refine ⟨p :: pre, post, by rw [List.cons_append]; exact congrArg _ e1, ?_, ?_⟩
          · cases hrq : R r.2 acc.2 with
            | false => rfl
            | true => rw [trans _ _ _ hrq hacc] at e2; exact absurd e2 (by simp)
          · intro q hq
            rcases List.mem_cons.mp hq with e | e
            · subst e; exact e2
            · exact e3 q e

/-- **C09 (arg-max).** `utils.argmax` / `np.argmax` as modelled: for every total, transitive
    comparison of expectations the returned arm attains the maximum, and no arm listed before it
    does — it is the first arm in dictionary (arm-list) order attaining the maximum. -/
theorem argmax_first (le : Expect → Expect → Bool)
    (total : ∀ a b, Expect.leWith le a b = true ∨ Expect.leWith le b a = true)
    (trans : ∀ a b c, Expect.leWith le a b = true → Expect.leWith le b c = true → Expect.leWith le a c = true)
    (d : ExpDict α) (hne : d ≠ []) :
    ∃ pre r post, d = pre ++ r :: post ∧ argmaxFirst le d = some r.1 ∧
      (∀ q ∈ d, Expect.leWith le q.2 r.2 = true) ∧ (∀ q ∈ pre, Expect.leWith le r.2 q.2 = false) := by
  cases d with
  | nil => exact absurd rfl hne
  | cons x t =>
    rw [argmaxFirst_eq_fold]
    obtain ⟨i1, i2, i3⟩ := foldMax_spec (Expect.leWith le) total trans t x _ rfl
    generalize List.foldl (maxStep (Expect.leWith le)) x t = r at *
    rcases i3 with e | ⟨pre, post, e1, e2, e3⟩
    · subst e
      refine ⟨[], r, t, rfl, rfl, ?_, by simp⟩
      intro q hq
      rcases List.mem_cons.mp hq with h | h
      · subst h; exact i1
      · exact i2 q h
    · refine ⟨x :: pre, r, post, by rw [List.cons_append]; exact congrArg _ e1, rfl, ?_, ?_⟩
      · intro q hq
        rcases List.mem_cons.mp hq with h | h
        · subst h; exact i1
        · exact i2 q h
      · intro q hq
        rcases List.mem_cons.mp hq with h | h
        · subst h; exact e2
        · exact e3 q h

/-- the arm `predict` returns is always one of the keys of the expectations -/
theorem argmaxFirst_mem (le : Expect → Expect → Bool) (d : ExpDict α) (a : α) (h : argmaxFirst le d = some a) :
    a ∈ d.keys := by
  cases d with
  | nil => simp [argmaxFirst] at h
  | cons x t =>
    rw [argmaxFirst_eq_fold] at h
    have : ∀ (t : List (α × Expect)) (acc : α × Expect), (t.foldl (maxStep (Expect.leWith le)) acc) = acc ∨
        (t.foldl (maxStep (Expect.leWith le)) acc) ∈ t := by
      intro t
      induction t with
      | nil => intro acc; exact Or.inl rfl
      | cons p t ih =>
        intro acc
        simp only [List.foldl_cons]
        rcases ih (maxStep (Expect.leWith le) acc p) with e | e
        · rw [e]
          unfold maxStep; split
          · exact Or.inl rfl
          · exact Or.inr (by simp)
        · exact Or.inr (List.mem_cons_of_mem _ e)
    simp only [Option.some.injEq] at h
    rcases this t x with e | e
    · rw [e] at h; subst h; simp [Dict.keys]
    · subst h
      exact Dict.mem_keys_of_mem _ _ _ (List.mem_cons_of_mem _ e)

/-- **C09.** In the model `predict` *is* the first arg-max of the expectations `predict_expectations`
    computes from the same state and the same draws (for every learning policy). -/
theorem predict_eq_argmax (le : Expect → Expect → Bool) (s : LP α) (m : Option Nat) (ctxs : List Vec)
    (own : Stream) (g : Rng) :
    (s.predict le m ctxs own g).2.1 = (s.predictExp m ctxs own g).2.1.map (fun d => (argmaxFirst le d, d)) ∧
    (s.predict le m ctxs own g).1 = (s.predictExp m ctxs own g).1 ∧
    (s.predict le m ctxs own g).2.2 = (s.predictExp m ctxs own g).2.2 := by
  simp [LP.predict]

/-- on exact (rational) expectations the comparison is `≤`, whatever oracle is supplied -/
theorem leWith_val (le : Expect → Expect → Bool) (x y : Rat) :
    Expect.leWith le (.val x) (.val y) = decide (x ≤ y) := rfl

example : argmaxFirst (α := Nat) (fun _ _ => true) [(3, .val 1), (1, .val 5), (7, .val 5), (2, .val 0)] = some 1 := by
  decide +kernel

end Mab
