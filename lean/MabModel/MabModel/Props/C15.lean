/-
  C15 — the Simulator reports what the public API would have produced (the logical part: the shared
  distance list, its indexing under any partition of a chunk among workers, the per-metric cache, and
  the equality of the re-implemented selection rule with the library's).
-/
import MabModel.Core.Simulator
import MabModel.Core.Parallel
import MabModel.Props.C03
open Py
set_option linter.unusedSectionVars false
set_option linter.unusedVariables false
set_option linter.unusedSimpArgs false

namespace Mab
variable {α : Type} [DecidableEq α]

/-- **C15 (index arithmetic).**  A worker that handles the rows `start, start+1, …` of a chunk and looks
    up `distances[start + index]` reads the distance vector of exactly the row it is predicting — for
    every partition of the chunk among workers. -/
theorem sim_distance_lookup (dist : Vec → Vec → Rat) (hist qs : List Vec) (start index : Nat)
    (h : start + index < qs.length) :
    (simDistances dist hist qs).getD (start + index) [] = hist.map fun x => dist x (qs[start + index]'h) := by
  simp only [simDistances, List.getD_eq_getElem?_getD, List.getElem?_map, List.getElem?_eq_getElem h,
    Option.map_some, Option.getD_some]

/-- … and that row is row `index` of the worker's slice `qs[start : start + len]` -/
theorem slice_row {β : Type} (qs : List β) (start len index : Nat) (hi : index < len) (h : start + index < qs.length) :
    ((qs.drop start).take len)[index]? = some (qs[start + index]'h) := by
  rw [List.getElem?_take_of_lt hi, List.getElem?_drop, List.getElem?_eq_getElem h]

/-- **C15 (same selection as the library).**  `_RadiusSimulator` selects from the shared distance list
    exactly the rows `_Radius` selects by recomputing the distances of that row. -/
theorem sim_selection_eq_library (b : Bandit α) (r : Rat) (metric : Metric) (pr : Option (List Rat))
    (hnp : b.np = .radius r metric pr) (hm : metric ≠ .oracle) (qs : List Vec) (start index : Nat)
    (h : start + index < qs.length) :
    simRadiusSelect (simDistances (fun x q => distExact metric x q) (b.hist.map (·.ctx)) qs) start index (radiusBound metric r) =
      (b.selectIdx (qs[start + index]'h) [] []).1 := by
  simp only [simRadiusSelect, sim_distance_lookup _ _ _ _ _ h, Bandit.selectIdx, hnp, hm, if_false, List.map_map,
    Function.comp_def]

/-- **C15 (cache per metric).**  However many neighbour bandits with whatever metrics share a chunk,
    each one is handed the distances computed *with its own metric* (the cache invariant: an entry
    for metric `m` holds the distances under `m`). -/
theorem sim_cache_correct {μ : Type} [DecidableEq μ] (dist : μ → Vec → Vec → Rat) (hist qs : List Vec) :
    ∀ (ms : List μ) (cache : Dict μ (List (List Rat))),
      (∀ m d, cache.get? m = some d → d = simDistances (dist m) hist qs) →
      ∀ p ∈ (simCache dist hist qs ms cache).1, p.2 = simDistances (dist p.1) hist qs := by
  intro ms
  induction ms with
  | nil => intro cache _ p hp; simp [simCache] at hp
  | cons m ms ih =>
    intro cache hinv p hp
    simp only [simCache] at hp
    cases hc : cache.get? m with
    | some d =>
      rw [hc] at hp
      simp only [List.mem_cons] at hp
      rcases hp with e | e
      · rw [e]; exact hinv m d hc
      · exact ih cache hinv p e
    | none =>
      rw [hc] at hp
      simp only [List.mem_cons] at hp
      rcases hp with e | e
      · rw [e]
      · refine ih (cache.set m (simDistances (dist m) hist qs)) ?_ p e
        intro m' d' h'
        by_cases hmm : m' = m
        · subst hmm
          rw [Dict.get?_set_eq] at h'
          simp only [Option.some.injEq] at h'
          exact h'.symm
        · rw [Dict.get?_set_ne _ _ _ _ hmm] at h'
          exact hinv m' d' h'

/-- starting each chunk with an empty cache satisfies the invariant -/
theorem sim_cache_fresh {μ : Type} [DecidableEq μ] (dist : μ → Vec → Vec → Rat) (hist qs : List Vec) (ms : List μ) :
    ∀ p ∈ (simCache dist hist qs ms []).1, p.2 = simDistances (dist p.1) hist qs :=
  sim_cache_correct dist hist qs ms [] (by intro m d h; simp [Dict.get?] at h)

/-- the defect that was repaired (one cache slot for all metrics): a bandit with another metric would
    read the first bandit's distances — `1 ≠ 4` for the rows `[0]`, `[2]` under cityblock vs sqeuclidean -/
theorem shared_cache_counterexample :
    simDistances (distExact .cityblock) [[0]] [[2]] ≠ simDistances (distExact .sqeuclidean) [[0]] [[2]] := by
  decide +kernel

end Mab
