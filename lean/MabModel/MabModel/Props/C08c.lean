/-
  C08 (continued) — the facade invariant through every history: arm list duplicate-free; learning policy (under
  Clusters: every cluster's policy) well-formed over exactly the arm list; the neighbourhood policy's neutral
  expectations and TreeBandit's leaf stores keyed by exactly the arms — preserved by every accepted or rejected call.
-/
import MabModel.Props.C08b
open Py
set_option linter.unusedSectionVars false
set_option linter.unusedVariables false
set_option linter.unusedSimpArgs false
set_option linter.unnecessarySeqFocus false

namespace Mab
variable {α : Type} [DecidableEq α]

/-! ### the facade invariant: every per-arm structure of every neighbourhood policy ranges over the arm list -/

structure BInv (b : Bandit α) : Prop where
  nodup : b.arms.Nodup
  /-- the (template) learning policy; `_Clusters` keeps its policies per cluster instead -/
  lp : (∀ n, b.np ≠ .clusters n) → b.lp.WF ∧ b.lp.arms = b.arms
  lps : ∀ n, b.np = .clusters n → ∀ l ∈ b.lps, l.WF ∧ l.arms = b.arms
  npExp : b.np ≠ .none → b.npExp.keys = b.arms
  leaf : b.np = .tree → b.leafRewards.keys = b.arms

theorem binv_init (arms : List α) (kind : Kind) (np : NPCfg) (bz : Option (α → Rat → Rat)) (k1 : Bool) (hn : arms.Nodup) :
    BInv (Bandit.init arms kind np bz k1) := by
  have hlp : (LP.init kind arms bz k1).WF := ⟨by simp [LP.init], hn⟩
  cases np <;> simp only [Bandit.init] <;>
    refine ⟨hn, fun _ => ⟨hlp, rfl⟩, ?_, ?_, ?_⟩ <;> simp [List.mem_replicate] <;> (try (intro _ ; exact ⟨hlp, rfl⟩))

theorem npBinarize_wf (lp : LP α) (batch : Batch α) (arms : List α) (h : lp.WF ∧ lp.arms = arms) :
    (npBinarize lp batch).1.WF ∧ (npBinarize lp batch).1.arms = arms := by
  unfold npBinarize
  split
  · exact ⟨⟨h.1.keys, h.1.nodup⟩, h.2⟩
  · exact h

theorem foldl_modify_keys {κ ν β : Type} [DecidableEq κ] (l : List β) (key : β → κ) (f : β → ν → ν) (c : β → Prop) [DecidablePred c] :
    ∀ d : Dict κ ν, (l.foldl (fun d p => if c p then d else d.modify (key p) (f p)) d).keys = d.keys := by
  induction l with
  | nil => intro d; rfl
  | cons x l ih =>
    intro d
    simp only [List.foldl_cons]
    rw [ih]
    split <;> simp

theorem treeFitArms_keys (b : Bandit α) (batch : Batch α) (leaves : List (List Nat)) :
    (treeFitArms b batch leaves).leafRewards.keys = b.leafRewards.keys := by
  simp only [treeFitArms]
  exact foldl_modify_keys b.arms.zipIdx (fun p => p.1)
    (fun p d => (List.zip (rowsOf batch p.1) (leaves.getD p.2 [])).foldl (fun d rl => d.set rl.2 (d.getD rl.2 [] ++ [rl.1.1])) d)
    (fun p => (rowsOf batch p.1).length = 0) b.leafRewards

theorem impFit_proj (b : Bandit α) (batch : Batch α) (o : Oracle) (g : Rng) :
    (b.impFit batch o g).1.np = b.np ∧ (b.impFit batch o g).1.arms = b.arms ∧ (b.impFit batch o g).1.npExp = b.npExp := by
  unfold Bandit.impFit
  cases hk : b.np <;> simp [lshFitOp, clustersFitOp, treeFitArms, hk]

theorem impPartialFit_proj (b : Bandit α) (batch : Batch α) (o : Oracle) (g : Rng) :
    (b.impPartialFit batch o g).1.np = b.np ∧ (b.impPartialFit batch o g).1.arms = b.arms ∧
    (b.impPartialFit batch o g).1.npExp = b.npExp := by
  unfold Bandit.impPartialFit
  cases hk : b.np <;> simp [lshFitOp, clustersFitOp, treeFitArms, hk]

theorem mem_zipIdx_fst {β : Type} (l : List β) (k : Nat) (p : β × Nat) (h : p ∈ l.zipIdx k) : p.1 ∈ l := by
  induction l generalizing k with
  | nil => simp at h
  | cons x l ih =>
    simp only [List.zipIdx_cons, List.mem_cons] at h
    rcases h with e | e
    · rw [e]; simp
    · exact List.mem_cons_of_mem _ (ih _ e)

theorem clusters_lps_wf (lps : List (LP α)) (arms : List α) (flag : Bool) (labels : List Nat) (w : Option Nat) (hist : Batch α)
    (h : ∀ l ∈ lps, l.WF ∧ l.arms = arms) :
    ∀ l ∈ (lps.map fun l => ({ l with ctxBin := flag } : LP α)).zipIdx.map (fun (p : LP α × Nat) =>
        p.1.fit ((List.zip hist labels).filterMap fun rl => if rl.2 = p.2 then some rl.1 else none) w),
      l.WF ∧ l.arms = arms := by
  intro l hl
  simp only [List.mem_map] at hl
  obtain ⟨p, hp, rfl⟩ := hl
  have hp1 := mem_zipIdx_fst _ _ p hp
  simp only [List.mem_map] at hp1
  obtain ⟨l0, hl0, e⟩ := hp1
  have h0 := h l0 hl0
  have hwf : p.1.WF ∧ p.1.arms = arms := by rw [← e]; exact ⟨⟨h0.1.keys, h0.1.nodup⟩, h0.2⟩
  have := fit_wf p.1 ((List.zip hist labels).filterMap fun rl => if rl.2 = p.2 then some rl.1 else none) w hwf.1
  exact ⟨this.1, this.2.trans hwf.2⟩

theorem binv_impFit (b : Bandit α) (batch : Batch α) (o : Oracle) (g : Rng) (h : BInv b) : BInv (b.impFit batch o g).1 := by
  obtain ⟨p1, p2, p3⟩ := impFit_proj b batch o g
  refine ⟨by rw [p2]; exact h.nodup, ?_, ?_, by rw [p1, p2, p3]; exact h.npExp, ?_⟩
  · rw [p1, p2]
    intro hn
    have hl := h.lp hn
    unfold Bandit.impFit
    cases hk : b.np with
    | none =>
      simp only []
      have := fit_wf b.lp batch (batchWidth batch) hl.1
      exact ⟨this.1, this.2.trans hl.2⟩
    | clusters n => exact absurd hk (hn n)
    | radius r m p => exact npBinarize_wf _ _ _ hl
    | knn k m => exact npBinarize_wf _ _ _ hl
    | lsh d t p => simp only [lshFitOp]; exact npBinarize_wf _ _ _ hl
    | tree => simp only [treeFitArms]; exact npBinarize_wf _ _ _ hl
  · rw [p1, p2]
    intro n hk
    unfold Bandit.impFit
    simp only [hk, clustersFitOp]
    exact clusters_lps_wf b.lps b.arms _ _ _ _ (h.lps n hk)
  · rw [p1, p2]
    intro hk
    unfold Bandit.impFit
    simp only [hk]
    rw [treeFitArms_keys]
    simp

theorem binv_impPartialFit (b : Bandit α) (batch : Batch α) (o : Oracle) (g : Rng) (h : BInv b) :
    BInv (b.impPartialFit batch o g).1 := by
  obtain ⟨p1, p2, p3⟩ := impPartialFit_proj b batch o g
  refine ⟨by rw [p2]; exact h.nodup, ?_, ?_, by rw [p1, p2, p3]; exact h.npExp, ?_⟩
  · rw [p1, p2]
    intro hn
    have hl := h.lp hn
    unfold Bandit.impPartialFit
    cases hk : b.np with
    | none =>
      simp only []
      have := partialFit_wf b.lp batch hl.1
      exact ⟨this.1, this.2.trans hl.2⟩
    | clusters n => exact absurd hk (hn n)
    | radius r m p => exact npBinarize_wf _ _ _ hl
    | knn k m => exact npBinarize_wf _ _ _ hl
    | lsh d t p => simp only [lshFitOp]; exact npBinarize_wf _ _ _ hl
    | tree => simp only [treeFitArms]; exact npBinarize_wf _ _ _ hl
  · rw [p1, p2]
    intro n hk
    unfold Bandit.impPartialFit
    simp only [hk, clustersFitOp]
    exact clusters_lps_wf b.lps b.arms _ _ _ _ (h.lps n hk)
  · rw [p1, p2]
    intro hk
    unfold Bandit.impPartialFit
    simp only [hk]
    rw [treeFitArms_keys]
    exact h.leaf hk

theorem nodup_append_singleton (l : List α) (a : α) (h : l.Nodup) (ha : a ∉ l) : (l ++ [a]).Nodup :=
  List.nodup_append.mpr ⟨h, by simp, by intro x hx y hy; simp at hy; subst hy; exact fun e => ha (e ▸ hx)⟩

theorem impAddArm_proj (b : Bandit α) (a : α) (bz : Option (α → Rat → Rat)) :
    (b.impAddArm a bz).np = b.np ∧ (b.impAddArm a bz).arms = b.arms ++ [a] := by
  unfold Bandit.impAddArm
  cases hk : b.np <;> simp [hk]

theorem binv_impAddArm (b : Bandit α) (a : α) (bz : Option (α → Rat → Rat)) (h : BInv b) (ha : a ∉ b.arms) :
    BInv (b.impAddArm a bz) := by
  obtain ⟨p1, p2⟩ := impAddArm_proj b a bz
  have hnd := nodup_append_singleton b.arms a h.nodup ha
  refine ⟨by rw [p2]; exact hnd, ?_, ?_, ?_, ?_⟩
  · rw [p1, p2]
    intro hn
    have hl := h.lp hn
    have hw := addArm_wf b.lp a bz hl.1 (by rw [hl.2]; exact ha)
    have hw' : (b.lp.addArm a bz).WF ∧ (b.lp.addArm a bz).arms = b.arms ++ [a] := ⟨hw.1, by rw [hw.2, hl.2]⟩
    unfold Bandit.impAddArm
    cases hk : b.np with
    | clusters n => exact absurd hk (hn n)
    | none => exact hw'
    | tree => exact hw'
    | radius r m p => simp only []; split <;> first | exact hw' | exact ⟨⟨hw'.1.keys, hw'.1.nodup⟩, hw'.2⟩
    | knn k m => simp only []; split <;> first | exact hw' | exact ⟨⟨hw'.1.keys, hw'.1.nodup⟩, hw'.2⟩
    | lsh d t p => simp only []; split <;> first | exact hw' | exact ⟨⟨hw'.1.keys, hw'.1.nodup⟩, hw'.2⟩
  · rw [p1, p2]
    intro n hk
    unfold Bandit.impAddArm
    simp only [hk]
    intro l hl
    simp only [List.mem_map] at hl
    obtain ⟨l0, hl0, rfl⟩ := hl
    have h0 := h.lps n hk l0 hl0
    have hw := addArm_wf l0 a bz h0.1 (by rw [h0.2]; exact ha)
    exact ⟨hw.1, by rw [hw.2, h0.2]⟩
  · rw [p1, p2]
    intro hne
    have hk0 := h.npExp hne
    have hnot : a ∉ b.npExp.keys := by rw [hk0]; exact ha
    unfold Bandit.impAddArm
    cases hk : b.np with
    | none => exact absurd hk hne
    | _ => simp only []; rw [Dict.keys_set_not_mem _ _ _ hnot, hk0]
  · rw [p1, p2]
    intro hk
    have hk0 := h.leaf hk
    unfold Bandit.impAddArm
    simp only [hk]
    rw [Dict.keys_set_not_mem _ _ _ (by rw [hk0]; exact ha), hk0]

theorem impRemoveArm_proj (b : Bandit α) (a : α) :
    (b.impRemoveArm a).np = b.np ∧ (b.impRemoveArm a).arms = b.arms.filter (· != a) := by
  unfold Bandit.impRemoveArm
  cases hk : b.np <;> simp [hk]

theorem binv_impRemoveArm (b : Bandit α) (a : α) (h : BInv b) : BInv (b.impRemoveArm a) := by
  obtain ⟨p1, p2⟩ := impRemoveArm_proj b a
  refine ⟨by rw [p2]; exact h.nodup.filter _, ?_, ?_, ?_, ?_⟩
  · rw [p1, p2]
    intro hn
    have hl := h.lp hn
    have hw := removeArm_wf b.lp a hl.1
    have hw' : (b.lp.removeArm a).WF ∧ (b.lp.removeArm a).arms = b.arms.filter (· != a) := ⟨hw.1, by rw [hw.2, hl.2]⟩
    unfold Bandit.impRemoveArm
    cases hk : b.np with
    | clusters n => exact absurd hk (hn n)
    | _ => exact hw'
  · rw [p1, p2]
    intro n hk
    unfold Bandit.impRemoveArm
    simp only [hk]
    intro l hl
    simp only [List.mem_map] at hl
    obtain ⟨l0, hl0, rfl⟩ := hl
    have h0 := h.lps n hk l0 hl0
    have hw := removeArm_wf l0 a h0.1
    exact ⟨hw.1, by rw [hw.2, h0.2]⟩
  · rw [p1, p2]
    intro hne
    have hk0 := h.npExp hne
    unfold Bandit.impRemoveArm
    cases hk : b.np with
    | none => exact absurd hk hne
    | _ => simp only []; rw [Dict.keys_pop, hk0]
  · rw [p1, p2]
    intro hk
    have hk0 := h.leaf hk
    unfold Bandit.impRemoveArm
    simp only [hk]
    rw [Dict.keys_pop, hk0]

end Mab

namespace Mab
variable {α : Type} [DecidableEq α]

theorem binv_of_lp (b : Bandit α) (lp' : LP α) (h : BInv b) (hl : lp'.WF ∧ lp'.arms = b.arms) :
    BInv { b with lp := lp' } :=
  ⟨h.nodup, fun _ => hl, h.lps, h.npExp, h.leaf⟩

/-- **C08 (facade invariant).**  Every call of the facade — accepted or rejected, training, arm change,
    warm start or query — preserves: the arm list is duplicate-free; the learning policy (or, under
    Clusters, every cluster's policy) is well-formed over exactly the arm list; the neutral-expectation
    dictionary of the neighbourhood policy and TreeBandit's leaf stores have exactly the arms as keys. -/
theorem binv_step (le : Expect → Expect → Bool) (b : Bandit α) (op : Op α) (o : Oracle) (g : Rng) (h : BInv b) :
    BInv (b.step le op o g).1 := by
  cases op with
  | fit a =>
    simp only [Bandit.step, Bandit.train]
    split
    · exact h
    · split
      · exact h
      · split
        · exact binv_impPartialFit b _ o g h
        · have := binv_impFit b a.toBatch o g h
          exact ⟨this.nodup, this.lp, this.lps, this.npExp, this.leaf⟩
  | partialFit a =>
    simp only [Bandit.step, Bandit.train]
    split
    · exact h
    · split
      · exact h
      · split
        · exact binv_impPartialFit b _ o g h
        · have := binv_impFit b a.toBatch o g h
          exact ⟨this.nodup, this.lp, this.lps, this.npExp, this.leaf⟩
  | predict a =>
    simp only [Bandit.step, Bandit.query]
    split
    · exact h
    · split
      · exact h
      · split
        · exact h
        · simp only []
          by_cases hnp : b.np = .none
          · unfold Bandit.impPredict
            simp only [hnp, if_true, LP.predict]
            have hl := h.lp (by simp [hnp])
            have hw := predictExp_wf b.lp (a.contexts.map (·.length)) (a.contexts.getD []) .main g hl.1
            have hb := binv_of_lp b _ h ⟨hw.1, hw.2.trans hl.2⟩
            rw [hnp] at hb
            exact hb
          · rw [impPredict_readonly le b true _ _ o g hnp]; exact h
  | predictExp a =>
    simp only [Bandit.step, Bandit.query]
    split
    · exact h
    · split
      · exact h
      · split
        · exact h
        · simp only []
          by_cases hnp : b.np = .none
          · unfold Bandit.impPredict
            simp only [hnp, Bool.false_eq_true, if_false]
            have hl := h.lp (by simp [hnp])
            have hw := predictExp_wf b.lp (a.contexts.map (·.length)) (a.contexts.getD []) .main g hl.1
            have hb := binv_of_lp b _ h ⟨hw.1, hw.2.trans hl.2⟩
            rw [hnp] at hb
            exact hb
          · rw [impPredict_readonly le b false _ _ o g hnp]; exact h
  | addArm arg binz callable =>
    simp only [Bandit.step]
    split
    · exact h
    · split
      · exact h
      · cases arg with
        | ok a =>
          simp only []
          split
          · exact h
          · next hmem => exact binv_impAddArm b a binz h hmem
        | none => exact h
        | nan => exact h
        | inf => exact h
  | removeArm arg =>
    simp only [Bandit.step]
    cases arg with
    | ok a =>
      simp only []
      split
      · exact binv_impRemoveArm b a h
      · exact h
    | none => exact h
    | nan => exact h
    | inf => exact h
  | warmStart w =>
    simp only [Bandit.step]
    split
    · exact h
    · split
      · exact h
      · split
        · exact h
        · cases hnp : b.np with
          | none =>
            simp only []
            split
            · exact h
            · split
              · next lp' hws =>
                have hl := h.lp (by simp [hnp])
                have hw := warmStart_wf b.lp lp' w.keys w.raw w.q hl.1 hws
                have hb := binv_of_lp b _ h ⟨hw.1, hw.2.trans hl.2⟩
                rw [hnp] at hb
                exact hb
              · exact h
          | _ => exact h

end Mab

namespace Mab
variable {α : Type} [DecidableEq α]

/-- the bandit after a history of facade calls (each with its oracle values and recorded draws) -/
def Bandit.runHist (le : Expect → Expect → Bool) (b : Bandit α) : List (Op α × Oracle × Rng) → Bandit α
  | [] => b
  | (op, o, g) :: t => Bandit.runHist le (b.step le op o g).1 t

/-- **C08 (every reachable state).**  After *any* history of calls on a bandit constructed with a
    duplicate-free arm list — whatever policy combination, whatever calls were rejected — the invariant holds. -/
theorem binv_reachable (le : Expect → Expect → Bool) (arms : List α) (kind : Kind) (np : NPCfg)
    (bz : Option (α → Rat → Rat)) (k1 : Bool) (hn : arms.Nodup) (hist : List (Op α × Oracle × Rng)) :
    BInv ((Bandit.init arms kind np bz k1).runHist le hist) := by
  have key : ∀ (hist : List (Op α × Oracle × Rng)) (b : Bandit α), BInv b → BInv (b.runHist le hist) := by
    intro hist
    induction hist with
    | nil => intro b h; exact h
    | cons x t ih =>
      intro b h
      obtain ⟨op, o, g⟩ := x
      exact ih _ (binv_step le b op o g h)
  exact key hist _ (binv_init arms kind np bz k1 hn)

/-- **C08 (outputs, no neighbourhood policy).**  In a state satisfying the invariant, every dictionary a
    successful `predict_expectations` / `predict` call computes has exactly the current arms as keys in
    arm-list order, and every predicted arm is a current arm. -/
theorem query_outputs_over_arms (le : Expect → Expect → Bool) (b : Bandit α) (a : PredArgs) (isPredict : Bool)
    (o : Oracle) (g : Rng) (h : BInv b) (hnp : b.np = .none)
    (hne : b.lp.kind.isLinear = true → a.contexts.getD [] ≠ [])
    (hok : (b.query le a isPredict o g).2.1.err = none) :
    (∀ d ∈ (b.query le a isPredict o g).2.1.out.exps.toList, Dict.keys d = b.arms) ∧
    (∀ p ∈ (b.query le a isPredict o g).2.1.out.arms.toList, Dict.keys p.2 = b.arms ∧ ∀ x, p.1 = some x → x ∈ b.arms) := by
  have hl := h.lp (by simp [hnp])
  have hk := predictExp_keys_all b.lp hl.1 (a.contexts.map (·.length)) (a.contexts.getD []) hne .main g
  unfold Bandit.query at hok ⊢
  split at hok
  · simp at hok
  · split at hok
    · simp at hok
    · split at hok
      · simp at hok
      · rename_i h1 h2 h3
        simp only [h1, h2, h3, if_false]
        unfold Bandit.impPredict
        simp only [hnp]
        cases isPredict
        · simp only [Bool.false_eq_true, if_false]
          refine ⟨fun d hd => (hk d hd).trans hl.2, ?_⟩
          intro p hp; simp [Out.toList] at hp
        · simp only [if_true, LP.predict]
          refine ⟨by intro d hd; simp [Out.toList] at hd, ?_⟩
          intro p hp
          have : ∃ d ∈ (b.lp.predictExp (a.contexts.map (·.length)) (a.contexts.getD []) .main g).2.1.toList,
              p = (argmaxFirst le d, d) := by
            cases ho : (b.lp.predictExp (a.contexts.map (·.length)) (a.contexts.getD []) .main g).2.1 with
            | one x => rw [ho] at hp; simp [Out.map, Out.toList] at hp ⊢; exact hp
            | many l => rw [ho] at hp; simp [Out.map, Out.toList] at hp ⊢; obtain ⟨d, hd, e⟩ := hp; exact ⟨d, hd, e.symm⟩
          obtain ⟨d, hd, rfl⟩ := this
          have hkd := (hk d hd).trans hl.2
          exact ⟨hkd, fun x hx => predict_mem le d b.arms hkd x hx⟩

end Mab
