/-
  FacadeLift — whole-history theorems of the learning-policy level (C07, C14) read at the public API,
  through `runHist_lp` (C01b): the facade hands the policy exactly the accepted calls.
-/
import MabModel.Props.C01b
import MabModel.Props.C14b
import MabModel.Props.C07
open Py
set_option linter.unusedSectionVars false
set_option linter.unusedVariables false
set_option linter.unusedSimpArgs false

namespace Mab
variable {α : Type} [DecidableEq α]

theorem runHist_np (le : Expect → Expect → Bool) (h : History α) : ∀ b : Bandit α, (b.runHist le h).np = b.np := by
  induction h with
  | nil => intro b; rfl
  | cons c t ih =>
    intro b
    obtain ⟨op, o, g⟩ := c
    simp only [Bandit.runHist]
    rw [ih, step_np]

/-- **C14 at the facade.**  For a bandit without neighbourhood policy whose policy holds a binarizer, after
    any facade history of training calls (accepted or rejected) the policy is the binarizer-free twin run
    on the trace of accepted calls with every training batch converted exactly once. -/
theorem facade_binarizer_once (le : Expect → Expect → Bool) (h : History α) (b : Bandit α) (hi : BInv b)
    (hnp : b.np = .none) (ht : ∀ c ∈ h, c.1.isTraining = true) :
    (b.runHist le h).lp =
      (b.lp.noBinz.run ((b.lpTrace le h).map (LPOp.binarizeWith b.lp))).withBinz b.lp.binz := by
  rw [runHist_lp le h b hi hnp ht]
  exact run_binarizer_once _ _

/-- **C07 at the facade.**  After any facade history of training calls on a freshly constructed bandit, an
    accepted `fit(D)` leaves the policy in exactly the state a freshly constructed policy with the
    current arm list gets from `fit(D)`: nothing learned before survives. -/
theorem facade_fit_discards (le : Expect → Expect → Bool) (kind : Kind) (arms : List α) (k1 : Bool) (hn : arms.Nodup)
    (h : History α) (ht : ∀ c ∈ h, c.1.isTraining = true) (a : TrainArgs α) (o : Oracle) (g : Rng)
    (hts : kind ≠ .thompson) (hr : kind ≠ .random) (hlin : kind.isLinear = false)
    (hacc : ((((Bandit.init arms kind .none none k1).runHist le h).step le (.fit a) o g).2.1.err).isSome = false) :
    (((Bandit.init arms kind .none none k1).runHist le h).step le (.fit a) o g).1.lp =
      (LP.init kind ((Bandit.init arms kind .none none k1).runHist le h).arms none k1).fit
        a.toBatch (batchWidth a.toBatch) := by
  have hi := binv_reachable (le := le) arms kind .none none k1 hn h
  have hnp : ((Bandit.init arms kind .none none k1).runHist le h).np = .none := by rw [runHist_np]; rfl
  have hlp := facade_lp_is_trace le kind arms k1 hn h ht
  have harms := (hi.lp (by intro n; rw [hnp]; simp)).2
  rw [step_lp le _ (.fit a) o g hi hnp rfl]
  simp only [Bandit.lpOpOf, hacc, Bool.false_eq_true, if_false, LP.stepOp]
  rw [← harms, hlp]
  exact fit_after_history_eq_fresh kind arms k1 hn _ a.toBatch _ hts hr hlin

end Mab
