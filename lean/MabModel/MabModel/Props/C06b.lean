/-
  C06 (continued) — full-state equality: fit on a prefix followed by partial_fit on the remaining rows in any
  chunking yields *exactly* the state one fit on all rows yields (statistics, expectations, Softmax / Popularity
  shares, statuses, models, counters, configuration), for every policy kind, with or without binarizer.
-/
import MabModel.Props.C06
open Py
set_option linter.unusedSectionVars false
set_option linter.unusedVariables false
set_option linter.unusedSimpArgs false

namespace Mab
variable {α : Type} [DecidableEq α]

/-! ### the three whole-policy passes of `post`, per record -/

/-- what `post` does to one record, given the globals it reads: the list of means `M` (Softmax), the
    sum of raw means `P` and the number of arms `len` (Popularity), and whether the arm occurs in the batch -/
def postRec (kind : Kind) (M : List Rat) (P : Rat) (len : Nat) (inBatch isPartial : Bool) (r : ArmSt α) : ArmSt α :=
  let r1 : ArmSt α := match kind with
    | .softmax tau => { r with exp := .soft M tau r.mean }
    | _ => r
  let r2 : ArmSt α :=
    if inBatch then (if isPartial then { r1 with trained := true } else { r1 with trained := true, warm := false, warmBy := none })
    else r1
  match kind with
  | .popularity => if P = 0 then { r2 with exp := .val (1 / (len : Rat)) } else { r2 with exp := .val (popMean r2 / P) }
  | _ => r2

theorem popTotal_expOp_setTrained (s : LP α) (b : Batch α) (p : Bool) :
    ((s.expOp).setTrained b p).popTotal = s.popTotal := by
  unfold LP.popTotal LP.setTrained LP.expOp
  cases hk : s.kind <;> simp only [Dict.vals, Dict.mapKV, List.map_map] <;>
    (apply congrArg; apply List.map_congr_left; intro x _; simp only [Function.comp, popMean]; split <;> (try split) <;> rfl)

/-- `post` as one pass over the records -/
theorem post_eq_mapKV (s : LP α) (b : Batch α) (p : Bool) :
    s.post b p = { s with st := s.st.mapKV (fun a r =>
      postRec s.kind s.means s.popTotal s.arms.length (decide (a ∈ s.arms ∧ a ∈ batchArms b)) p r) } := by
  unfold LP.post
  have hP := popTotal_expOp_setTrained s b p
  unfold LP.normalize
  have hk' : ((s.expOp).setTrained b p).kind = s.kind := by simp [LP.setTrained, expOp_kind]
  have ha' : ((s.expOp).setTrained b p).arms = s.arms := by simp [LP.setTrained, expOp_arms]
  rw [hk', hP, ha']
  cases hk : s.kind <;>
    simp only [LP.setTrained, LP.expOp, hk, Dict.mapKV_mapKV, postRec] <;>
    (try split) <;>
    (congr 1; apply Dict.mapKV_congr; intro k v _; by_cases hc : k ∈ s.arms ∧ k ∈ batchArms b <;> cases p <;> simp [hc])

end Mab

namespace Mab
variable {α : Type} [DecidableEq α]

/-- the statistics of a record trained in two calls are those of one call on the concatenation —
    whatever the whole-policy passes did to the record in between -/
theorem rec_stats_append (kind : Kind) (n₁ N : Nat) (rs₁ rs₂ : List (Rat × Vec)) (M₁ : List Rat) (P₁ : Rat) (len : Nat)
    (in₁ : Bool) (r : ArmSt α) :
    (fitRec kind N rs₂ (postRec kind M₁ P₁ len in₁ false (fitRec kind n₁ rs₁ r))).mean = (fitRec kind N (rs₁ ++ rs₂) r).mean ∧
    (fitRec kind N rs₂ (postRec kind M₁ P₁ len in₁ false (fitRec kind n₁ rs₁ r))).sum = (fitRec kind N (rs₁ ++ rs₂) r).sum ∧
    (fitRec kind N rs₂ (postRec kind M₁ P₁ len in₁ false (fitRec kind n₁ rs₁ r))).cnt = (fitRec kind N (rs₁ ++ rs₂) r).cnt := by
  rw [← fitRec_append kind n₁ N rs₁ rs₂ r]
  generalize fitRec kind n₁ rs₁ r = r1
  cases in₁ <;> cases kind <;> simp [fitRec, postRec] <;> (try split) <;> (try split) <;> simp_all

end Mab

namespace Mab
variable {α : Type} [DecidableEq α]

theorem fitRec_flags (kind : Kind) (N : Nat) (rs : List (Rat × Vec)) (r : ArmSt α) :
    (fitRec kind N rs r).trained = r.trained ∧ (fitRec kind N rs r).warm = r.warm ∧ (fitRec kind N rs r).warmBy = r.warmBy := by
  cases kind <;> simp [fitRec] <;> (try split) <;> (try split) <;> simp_all

/-- per record: train, whole-policy passes, train again, whole-policy passes = train once on the
    concatenation, whole-policy passes — given that the final passes read the same globals -/
theorem rec_append_post (kind : Kind) (N : Nat) (rs₂ : List (Rat × Vec)) (M₁ M : List Rat) (P₁ P : Rat) (len : Nat)
    (in₁ in₂ : Bool) (r1 : ArmSt α) (h1 : r1.trained = false) (h2 : r1.warm = false) (h3 : r1.warmBy = none) :
    postRec kind M P len in₂ true (fitRec kind N rs₂ (postRec kind M₁ P₁ len in₁ false r1)) =
      postRec kind M P len (in₁ || in₂) false (fitRec kind N rs₂ r1) := by
  obtain ⟨sum, cnt, mean, exp, succ, fail, trained, warm, warmBy, inited, A, Xty, Ainv, beta, rngPriv⟩ := r1
  simp only at h1 h2 h3
  subst h1 h2 h3
  by_cases he : rs₂.length = 0 <;> cases in₁ <;> cases in₂ <;> cases kind <;>
    simp [fitRec, postRec, popMean, he] <;> (try split) <;> (try split) <;> simp_all

end Mab

namespace Mab
variable {α : Type} [DecidableEq α]

/-- the record of an arm right after the per-arm tasks of `fit` -/
def fitStage (s : LP α) (bb : Batch α) (w : Option Nat) (a : α) (r : ArmSt α) : ArmSt α :=
  fitRec s.kind bb.length (rowsOf bb a) (resetRec s.kind (s.nfFor bb w) s.k1fixed r)

/-- `fit` in closed form (well-formed state, any policy but Random) -/
theorem fit_closed (s : LP α) (b : Batch α) (w : Option Nat) (h : s.WF) (hk : s.kind ≠ .random) :
    s.fit b w =
      { s with total := (s.binarize b).length, numFeatures := s.nfFor (s.binarize b) w,
               st := s.st.mapKV fun a r =>
                 postRec s.kind ((s.st.map fun p => (fitStage s (s.binarize b) w p.1 p.2).mean))
                   ((s.st.map fun p => popMean (fitStage s (s.binarize b) w p.1 p.2)).sum) s.arms.length
                   (decide (a ∈ s.arms ∧ a ∈ batchArms (s.binarize b))) false (fitStage s (s.binarize b) w a r) } := by
  have hfit : s.fit b w = ((s.resetFor (s.binarize b) w).parallelFit (s.binarize b)).post (s.binarize b) false := by
    unfold LP.fit; cases hkk : s.kind <;> simp_all
  generalize s.binarize b = bb at *
  have hwf : (s.resetFor bb w).WF := ⟨by simp [LP.resetFor, h.keys], h.nodup⟩
  rw [hfit, parallelFit_closed _ _ hwf, post_eq_mapKV]
  simp only [LP.resetFor, Dict.mapKV_mapKV, LP.means, LP.popTotal, Dict.vals, Dict.mapKV, List.map_map, Function.comp_def,
    fitStage]
  rfl

/-- `partial_fit` in closed form -/
theorem partialFit_closed (s : LP α) (b : Batch α) (h : s.WF) (hk : s.kind ≠ .random) :
    s.partialFit b =
      { s with total := s.total + (s.binarize b).length,
               st := s.st.mapKV fun a r =>
                 postRec s.kind ((s.st.map fun p => (fitRec s.kind (s.total + (s.binarize b).length) (rowsOf (s.binarize b) p.1) p.2).mean))
                   ((s.st.map fun p => popMean (fitRec s.kind (s.total + (s.binarize b).length) (rowsOf (s.binarize b) p.1) p.2)).sum)
                   s.arms.length (decide (a ∈ s.arms ∧ a ∈ batchArms (s.binarize b))) true
                   (fitRec s.kind (s.total + (s.binarize b).length) (rowsOf (s.binarize b) a) r) } := by
  have hfit : s.partialFit b = ((s.bumpTotal (s.binarize b).length).parallelFit (s.binarize b)).post (s.binarize b) true := by
    unfold LP.partialFit; cases hkk : s.kind <;> simp_all
  generalize s.binarize b = bb at *
  have hwf : (s.bumpTotal bb.length).WF := ⟨h.keys, h.nodup⟩
  rw [hfit, parallelFit_closed _ _ hwf, post_eq_mapKV]
  simp only [LP.bumpTotal, Dict.mapKV_mapKV, LP.means, LP.popTotal, Dict.vals, Dict.mapKV, List.map_map, Function.comp_def]
  rfl

end Mab

namespace Mab
variable {α : Type} [DecidableEq α]

theorem popMean_congr (x y : ArmSt α) (h1 : x.sum = y.sum) (h2 : x.cnt = y.cnt) : popMean x = popMean y := by
  unfold popMean; rw [h1, h2]

theorem binarize_append (s : LP α) (b₁ b₂ : Batch α) : s.binarize (b₁ ++ b₂) = s.binarize b₁ ++ s.binarize b₂ := by
  unfold LP.binarize
  split <;> simp

theorem nfFor_append (s : LP α) (bb₁ bb₂ : Batch α) (w : Option Nat) (hw : s.kind.isLinear = true → w.isSome) :
    s.nfFor (bb₁ ++ bb₂) w = s.nfFor bb₁ w := by
  unfold LP.nfFor
  by_cases hl : s.kind.isLinear = true
  · obtain ⟨wv, hwv⟩ := Option.isSome_iff_exists.mp (hw hl)
    simp [hl, hwv]
  · simp [hl]

theorem batchArms_append (b₁ b₂ : Batch α) (a : α) : a ∈ batchArms (b₁ ++ b₂) ↔ a ∈ batchArms b₁ ∨ a ∈ batchArms b₂ := by
  simp [batchArms, List.map_append]

theorem resetRec_flags (kind : Kind) (nf : Option Nat) (k1 : Bool) (r : ArmSt α) :
    (resetRec kind nf k1 r).trained = false ∧ (resetRec kind nf k1 r).warm = false ∧ (resetRec kind nf k1 r).warmBy = none := by
  cases kind <;> simp [resetRec, freshRec, Kind.isLinear, linInitRec] <;> (split <;> simp)

/-- **C06 (one step, full state).**  `fit` on `b₁` followed by `partial_fit` on `b₂` leaves *exactly*
    the state `fit` on `b₁ ++ b₂` leaves: every statistic, expectation, status flag, model, counter and
    configuration field — for every policy kind, with or without binarizer. -/
theorem fit_partialFit_append (s : LP α) (b₁ b₂ : Batch α) (w : Option Nat) (h : s.WF)
    (hw : s.kind.isLinear = true → w.isSome) :
    (s.fit b₁ w).partialFit b₂ = s.fit (b₁ ++ b₂) w := by
  by_cases hr : s.kind = .random
  · have e1 : ∀ b, s.fit b w = s := by intro b; unfold LP.fit; rw [hr]
    rw [e1, e1]; unfold LP.partialFit; rw [hr]
  rw [fit_closed s (b₁ ++ b₂) w h hr, fit_closed s b₁ w h hr, binarize_append]
  generalize hbb₁ : s.binarize b₁ = bb₁
  generalize hbb₂ : s.binarize b₂ = bb₂
  have hex : ∃ X : LP α, X = ({ s with total := bb₁.length, numFeatures := s.nfFor bb₁ w, st := s.st.mapKV (fun a r => postRec s.kind ((s.st.map fun p => (fitStage s bb₁ w p.1 p.2).mean)) ((s.st.map fun p => popMean (fitStage s bb₁ w p.1 p.2)).sum) s.arms.length (decide (a ∈ s.arms ∧ a ∈ batchArms bb₁)) false (fitStage s bb₁ w a r)) } : LP α) := ⟨_, rfl⟩
  obtain ⟨X, hX⟩ := hex
  rw [← hX]
  have hXwf : X.WF := ⟨by rw [hX]; simp [h.keys], by rw [hX]; exact h.nodup⟩
  have hXk : X.kind ≠ .random := by rw [hX]; exact hr
  have hXb : X.binarize b₂ = bb₂ := by rw [← hbb₂, hX]; rfl
  rw [partialFit_closed X b₂ hXwf hXk, hXb]
  simp only [hX, Dict.mapKV_mapKV, nfFor_append s bb₁ bb₂ w hw, List.length_append]
  -- the globals the final passes read are the same on both sides
  have hstage : ∀ (p : α × ArmSt α) (M₁ : List Rat) (P₁ : Rat) (in₁ : Bool),
      (fitRec s.kind (bb₁.length + bb₂.length) (rowsOf bb₂ p.1)
        (postRec s.kind M₁ P₁ s.arms.length in₁ false (fitStage s bb₁ w p.1 p.2))) =
      (fitRec s.kind (bb₁.length + bb₂.length) (rowsOf bb₂ p.1)
        (postRec s.kind M₁ P₁ s.arms.length in₁ false (fitStage s bb₁ w p.1 p.2))) := fun _ _ _ _ => rfl
  have hR : ∀ (a : α) (r : ArmSt α), fitStage s (bb₁ ++ bb₂) w a r =
      fitRec s.kind (bb₁.length + bb₂.length) (rowsOf bb₁ a ++ rowsOf bb₂ a) (resetRec s.kind (s.nfFor bb₁ w) s.k1fixed r) := by
    intro a r
    simp only [fitStage, nfFor_append s bb₁ bb₂ w hw, List.length_append, rowsOf_append]
  have hM : (s.st.mapKV fun a r => postRec s.kind ((s.st.map fun p => (fitStage s bb₁ w p.1 p.2).mean))
                   ((s.st.map fun p => popMean (fitStage s bb₁ w p.1 p.2)).sum) s.arms.length
                   (decide (a ∈ s.arms ∧ a ∈ batchArms bb₁)) false (fitStage s bb₁ w a r)).map
        (fun p => (fitRec s.kind (bb₁.length + bb₂.length) (rowsOf bb₂ p.1) p.2).mean) =
      s.st.map fun p => (fitStage s (bb₁ ++ bb₂) w p.1 p.2).mean := by
    simp only [Dict.mapKV, List.map_map, Function.comp_def]
    apply List.map_congr_left
    intro p _
    rw [hR]
    exact (rec_stats_append s.kind bb₁.length (bb₁.length + bb₂.length) (rowsOf bb₁ p.1) (rowsOf bb₂ p.1) _ _ _ _ _).1
  have hP : ((s.st.mapKV fun a r => postRec s.kind ((s.st.map fun p => (fitStage s bb₁ w p.1 p.2).mean))
                   ((s.st.map fun p => popMean (fitStage s bb₁ w p.1 p.2)).sum) s.arms.length
                   (decide (a ∈ s.arms ∧ a ∈ batchArms bb₁)) false (fitStage s bb₁ w a r)).map
        (fun p => popMean (fitRec s.kind (bb₁.length + bb₂.length) (rowsOf bb₂ p.1) p.2))) =
      s.st.map fun p => popMean (fitStage s (bb₁ ++ bb₂) w p.1 p.2) := by
    simp only [Dict.mapKV, List.map_map, Function.comp_def]
    apply List.map_congr_left
    intro p _
    rw [hR]
    have e := rec_stats_append s.kind bb₁.length (bb₁.length + bb₂.length) (rowsOf bb₁ p.1) (rowsOf bb₂ p.1)
      ((s.st.map fun p => (fitStage s bb₁ w p.1 p.2).mean)) ((s.st.map fun p => popMean (fitStage s bb₁ w p.1 p.2)).sum)
      s.arms.length (decide (p.1 ∈ s.arms ∧ p.1 ∈ batchArms bb₁)) (resetRec s.kind (s.nfFor bb₁ w) s.k1fixed p.2)
    exact popMean_congr _ _ e.2.1 e.2.2
  rw [hM, hP]
  congr 1
  apply Dict.mapKV_congr
  intro a r _
  rw [hR, ← fitRec_append s.kind bb₁.length (bb₁.length + bb₂.length) (rowsOf bb₁ a) (rowsOf bb₂ a)]
  obtain ⟨f1, f2, f3⟩ := resetRec_flags s.kind (s.nfFor bb₁ w) s.k1fixed r
  obtain ⟨g1, g2, g3⟩ := fitRec_flags s.kind bb₁.length (rowsOf bb₁ a) (resetRec s.kind (s.nfFor bb₁ w) s.k1fixed r)
  have := rec_append_post s.kind (bb₁.length + bb₂.length) (rowsOf bb₂ a)
    ((s.st.map fun p => (fitStage s bb₁ w p.1 p.2).mean))
    ((s.st.map fun p => (fitStage s (bb₁ ++ bb₂) w p.1 p.2).mean))
    ((s.st.map fun p => popMean (fitStage s bb₁ w p.1 p.2)).sum)
    ((s.st.map fun p => popMean (fitStage s (bb₁ ++ bb₂) w p.1 p.2)).sum) s.arms.length
    (decide (a ∈ s.arms ∧ a ∈ batchArms bb₁)) (decide (a ∈ s.arms ∧ a ∈ batchArms bb₂))
    (fitRec s.kind bb₁.length (rowsOf bb₁ a) (resetRec s.kind (s.nfFor bb₁ w) s.k1fixed r))
    (by rw [g1, f1]) (by rw [g2, f2]) (by rw [g3, f3])
  simp only [fitStage] at this ⊢
  rw [this]
  congr 1
  by_cases ha : a ∈ s.arms <;> simp [ha, batchArms_append]

end Mab

namespace Mab
variable {α : Type} [DecidableEq α]

/-- **C06 (full state, any chunking).**  From any well-formed state, `fit` on the first chunk followed by
    `partial_fit` on every later chunk — for every split into consecutive chunks, including empty and
    single-row chunks and chunks that omit arms — yields *the same state* as one `fit` on the
    concatenation.  Equal states answer every later sequence of calls identically from the same
    random-stream position (the model's operations are functions of the state, the arguments and the tape). -/
theorem chunked_eq_batch_full (s : LP α) (h : s.WF) (w : Option Nat) (hw : s.kind.isLinear = true → w.isSome) :
    ∀ (cs : List (Batch α)) (c₀ : Batch α), s.run (chunkedOps w c₀ cs) = s.fit (c₀ ++ cs.flatten) w := by
  intro cs
  induction cs with
  | nil => intro c₀; simp [chunkedOps, LP.run, LP.stepOp]
  | cons c cs ih =>
    intro c₀
    have := ih (c₀ ++ c)
    simp only [chunkedOps, LP.run, List.map_cons, List.foldl_cons, LP.stepOp, List.flatten_cons] at this ⊢
    rw [fit_partialFit_append s c₀ c w h hw, this, List.append_assoc]

/-- the same from every reachable state of a policy constructed with a duplicate-free arm list -/
theorem incremental_eq_batch_full (kind : Kind) (arms : List α) (k1 : Bool) (hn : arms.Nodup)
    (pre : List (LPOp α)) (w : Option Nat) (c₀ : Batch α) (cs : List (Batch α))
    (hw : kind.isLinear = true → w.isSome) :
    ((LP.init kind arms none k1).run pre).run (chunkedOps w c₀ cs) =
      ((LP.init kind arms none k1).run pre).run [.fit (c₀ ++ cs.flatten) w] := by
  have hwf := (cf_refines_log kind arms k1 hn pre).wf
  have hk : ((LP.init kind arms none k1).run pre).kind = kind := run_kind _ _
  rw [chunked_eq_batch_full _ hwf w (by rw [hk]; exact hw)]
  simp [LP.run, LP.stepOp]

/-! non-vacuity: three chunks (one empty, one omitting an arm) against the batch, Softmax and LinUCB -/
example : ((LP.init (.softmax (1/2)) [1, 2, 3]).run (chunkedOps none
      [{ arm := 1, reward := 1 }, { arm := 2, reward := 0 }] [[], [{ arm := 3, reward := 2 }, { arm := 1, reward := 0 }]])).expDict =
    ((LP.init (.softmax (1/2)) [1, 2, 3]).run [.fit [{ arm := 1, reward := 1 }, { arm := 2, reward := 0 },
      { arm := 3, reward := 2 }, { arm := 1, reward := 0 }] none]).expDict := by decide +kernel

end Mab
