/-
  C20 (continued) — relabelling equivariance at the level of the whole bandit (`MAB` with any neighbourhood
  policy): the stored history, the LSH tables, the per-cluster policies and the leaf reward stores of the
  relabelled bandit are the relabelled ones, through every training call and arm change.  (Prediction and the
  facade are in `C20f`.)
-/
import MabModel.Props.C20d
import MabModel.Core.Facade
open Py
set_option linter.unusedSectionVars false
set_option linter.unusedVariables false
set_option linter.unusedSimpArgs false

namespace Mab
variable {α β : Type} [DecidableEq α] [DecidableEq β]

/-! ### renaming the keys of any per-arm dictionary -/

def renameK {γ : Type} (f : α → β) (d : Dict α γ) : Dict β γ := d.map fun p => (f p.1, p.2)

/-- the bandit with every arm label `a` replaced by `f a` -/
def Bandit.relabel (f : α → β) (finv : β → α) (b : Bandit α) : Bandit β :=
  { arms := b.arms.map f, lp := b.lp.relabel f finv, np := b.np, isFit := b.isFit, hist := relabelBatch f b.hist,
    npExp := renameK f b.npExp, planes := b.planes, tables := b.tables, lps := b.lps.map (LP.relabel f finv),
    labels := b.labels, leafRewards := renameK f b.leafRewards }

variable (f : α → β) (finv : β → α) (hinv : ∀ a, finv (f a) = a)

theorem renameK_eq_renameD (d : ExpDict α) : renameK f d = renameD f d := rfl

theorem renameK_fromKeys {γ : Type} (ks : List α) (v : γ) : renameK f (Dict.fromKeys ks v) = Dict.fromKeys (ks.map f) v := by
  simp [renameK, Dict.fromKeys, List.map_map, Function.comp_def]

theorem renameK_keys {γ : Type} (d : Dict α γ) : (renameK f d).keys = d.keys.map f := by
  simp [renameK, Dict.keys, List.map_map, Function.comp_def]

include hinv

theorem get?_renameK {γ : Type} (d : Dict α γ) (a : α) : (renameK f d).get? (f a) = d.get? a := by
  induction d with
  | nil => rfl
  | cons p t ih =>
    obtain ⟨k, v⟩ := p
    simp only [renameK, List.map_cons, Dict.get?] at ih ⊢
    by_cases h : k = a
    · simp [h]
    · have h' : ¬ f k = f a := fun e => h ((inj_of_inv hinv).mp e)
      simp only [h, h', if_false]
      exact ih

theorem getD_renameK {γ : Type} (d : Dict α γ) (a : α) (v : γ) : (renameK f d).getD (f a) v = d.getD a v := by
  simp only [Dict.getD, get?_renameK f finv hinv]

theorem set_renameK {γ : Type} (d : Dict α γ) (a : α) (v : γ) : (renameK f d).set (f a) v = renameK f (d.set a v) := by
  induction d with
  | nil => rfl
  | cons p t ih =>
    obtain ⟨k, w⟩ := p
    simp only [renameK, List.map_cons, Dict.set] at ih ⊢
    by_cases h : k = a
    · simp [h]
    · have h' : ¬ f k = f a := fun e => h ((inj_of_inv hinv).mp e)
      simp only [h, h', if_false, List.map_cons, ih]

theorem pop_renameK {γ : Type} (d : Dict α γ) (a : α) : (renameK f d).pop (f a) = renameK f (d.pop a) := by
  induction d with
  | nil => rfl
  | cons p t ih =>
    obtain ⟨k, w⟩ := p
    simp only [renameK, List.map_cons, Dict.pop] at ih ⊢
    by_cases h : k = a
    · simpa [h] using ih
    · have h' : ¬ f k = f a := fun e => h ((inj_of_inv hinv).mp e)
      simp only [h, h', if_false, List.map_cons, ih]

theorem modify_renameK {γ : Type} (d : Dict α γ) (a : α) (g : γ → γ) : (renameK f d).modify (f a) g = renameK f (d.modify a g) := by
  induction d with
  | nil => rfl
  | cons p t ih =>
    obtain ⟨k, w⟩ := p
    simp only [renameK, List.map_cons, Dict.modify] at ih ⊢
    by_cases h : k = a
    · simp [h]
    · have h' : ¬ f k = f a := fun e => h ((inj_of_inv hinv).mp e)
      simp only [h, h', if_false, List.map_cons, ih]

/-! ### training -/

omit hinv in
theorem relabelBatch_ctx (b : Batch α) : (relabelBatch f b).map (·.ctx) = b.map (·.ctx) := by
  simp [relabelBatch, List.map_map, Function.comp_def]

omit hinv in
theorem relabelBatch_append (b c : Batch α) : relabelBatch f (b ++ c) = relabelBatch f b ++ relabelBatch f c := by
  simp [relabelBatch]

omit hinv in
theorem relabelBatch_length (b : Batch α) : (relabelBatch f b).length = b.length := by simp [relabelBatch]

theorem npBinarize_relabel (lp : LP α) (b : Batch α) :
    npBinarize (lp.relabel f finv) (relabelBatch f b) =
      ((npBinarize lp b).1.relabel f finv, relabelBatch f (npBinarize lp b).2) := by
  unfold npBinarize
  rw [relabel_kind]
  cases hk : lp.kind <;> try rfl
  cases hb : lp.binz with
  | none => simp [LP.relabel, hb]
  | some bz =>
    have h1 : (lp.relabel f finv).binz = some (fun b => bz (finv b)) := by simp [LP.relabel, hb]
    rw [h1]
    simp only []
    refine Prod.ext rfl ?_
    simp only [LP.binarize, LP.relabel, hb, Option.map_some, relabelBatch, List.map_map, Function.comp_def, hinv]

omit hinv in
theorem lshFitOp_relabel (b : Bandit α) (ctxs : List Vec) (start : Nat) :
    lshFitOp (b.relabel f finv) ctxs start = (lshFitOp b ctxs start).relabel f finv := rfl

omit hinv in
theorem zip_relabelBatch {γ : Type} (h : Batch α) (l : List γ) :
    List.zip (relabelBatch f h) l = (List.zip h l).map fun p => ({ arm := f p.1.arm, reward := p.1.reward, ctx := p.1.ctx }, p.2) := by
  induction h generalizing l with
  | nil => simp [relabelBatch]
  | cons r h ih =>
    cases l with
    | nil => simp [relabelBatch]
    | cons x l =>
      have := ih l
      simp only [relabelBatch, List.map_cons, List.zip_cons_cons] at this ⊢
      rw [this]

theorem clustersFitOp_relabel (b : Bandit α) (labels : List Nat) (w : Option Nat) :
    clustersFitOp (b.relabel f finv) labels w = (clustersFitOp b labels w).relabel f finv := by
  simp only [clustersFitOp, Bandit.relabel]
  congr 1
  rw [List.zipIdx_map, List.map_map, List.map_map]
  apply List.map_congr_left
  intro p _
  simp only [Function.comp_def, Prod.map_fst, Prod.map_snd, id_eq]
  rw [← fit_relabel f finv hinv]
  congr 1
  rw [zip_relabelBatch, List.filterMap_map]
  simp only [relabelBatch, List.map_filterMap]
  congr 1
  funext rl
  simp only [Function.comp_def]
  split <;> simp

theorem treeFitArms_relabel (b : Bandit α) (batch : Batch α) (leaves : List (List Nat)) :
    treeFitArms (b.relabel f finv) (relabelBatch f batch) leaves = (treeFitArms b batch leaves).relabel f finv := by
  simp only [treeFitArms, Bandit.relabel]
  congr 1
  rw [List.zipIdx_map, List.foldl_map]
  generalize b.leafRewards = lr
  generalize b.arms.zipIdx = l
  induction l generalizing lr with
  | nil => rfl
  | cons p l ih =>
    simp only [List.foldl_cons, Prod.map_fst, Prod.map_snd, id_eq]
    rw [rowsOf_relabel f finv hinv]
    split
    · exact ih lr
    · rw [modify_renameK f finv hinv]
      exact ih _

theorem headD_relabel (l : List (LP α)) (d : LP α) :
    (l.map (LP.relabel f finv)).headD (d.relabel f finv) = (l.headD d).relabel f finv := by
  cases l <;> rfl

/-- **C20 (relabelling, `fit` of the whole bandit).** -/
theorem impFit_relabel (b : Bandit α) (batch : Batch α) (o : Oracle) (g : Rng) :
    (b.relabel f finv).impFit (relabelBatch f batch) o g = ((b.impFit batch o g).1.relabel f finv, (b.impFit batch o g).2) := by
  unfold Bandit.impFit
  have hnp : (b.relabel f finv).np = b.np := rfl
  rw [hnp, batchWidth_relabel f]
  cases hk : b.np with
  | none =>
    simp only []
    refine Prod.ext ?_ rfl
    simp only [Bandit.relabel]
    rw [fit_relabel f finv hinv]
  | radius r m p =>
    simp only []
    refine Prod.ext ?_ rfl
    simp only [Bandit.relabel]
    rw [npBinarize_relabel f finv hinv]
  | knn k m =>
    simp only []
    refine Prod.ext ?_ rfl
    simp only [Bandit.relabel]
    rw [npBinarize_relabel f finv hinv]
  | lsh nd nt p =>
    simp only []
    have hlp : (b.relabel f finv).lp = b.lp.relabel f finv := rfl
    rw [hlp, npBinarize_relabel f finv hinv]
    simp only [relabelBatch_ctx]
    refine Prod.ext ?_ rfl
    rfl
  | clusters n =>
    simp only []
    refine Prod.ext ?_ rfl
    simp only []
    have hh : (b.relabel f finv).lps.headD (b.relabel f finv).lp = (b.lps.headD b.lp).relabel f finv :=
      headD_relabel f finv hinv b.lps b.lp
    rw [hh, npBinarize_relabel f finv hinv]
    simp only []
    rw [← clustersFitOp_relabel f finv hinv]
    congr 1
    simp only [Bandit.relabel, List.map_map]
    congr 1
  | tree =>
    simp only []
    refine Prod.ext ?_ rfl
    simp only []
    have hlp : (b.relabel f finv).lp = b.lp.relabel f finv := rfl
    rw [hlp, npBinarize_relabel f finv hinv]
    simp only []
    rw [← treeFitArms_relabel f finv hinv]
    congr 1
    simp only [Bandit.relabel, renameK_fromKeys]

/-- **C20 (relabelling, `partial_fit` of the whole bandit).** -/
theorem impPartialFit_relabel (b : Bandit α) (batch : Batch α) (o : Oracle) (g : Rng) :
    (b.relabel f finv).impPartialFit (relabelBatch f batch) o g =
      ((b.impPartialFit batch o g).1.relabel f finv, (b.impPartialFit batch o g).2) := by
  unfold Bandit.impPartialFit
  have hnp : (b.relabel f finv).np = b.np := rfl
  have hlp : (b.relabel f finv).lp = b.lp.relabel f finv := rfl
  have hhist : (b.relabel f finv).hist = relabelBatch f b.hist := rfl
  rw [hnp]
  cases hk : b.np with
  | none =>
    simp only []
    refine Prod.ext ?_ rfl
    simp only [Bandit.relabel]
    rw [partialFit_relabel f finv hinv]
  | radius r m p =>
    simp only []
    refine Prod.ext ?_ rfl
    simp only [Bandit.relabel]
    rw [npBinarize_relabel f finv hinv, relabelBatch_append]
  | knn k m =>
    simp only []
    refine Prod.ext ?_ rfl
    simp only [Bandit.relabel]
    rw [npBinarize_relabel f finv hinv, relabelBatch_append]
  | lsh nd nt p =>
    simp only []
    rw [hlp, hhist, npBinarize_relabel f finv hinv, relabelBatch_length]
    simp only [relabelBatch_ctx]
    refine Prod.ext ?_ rfl
    simp only [lshFitOp, Bandit.relabel, relabelBatch_append]
  | clusters n =>
    simp only []
    refine Prod.ext ?_ rfl
    simp only []
    have hh : (b.relabel f finv).lps.headD (b.relabel f finv).lp = (b.lps.headD b.lp).relabel f finv :=
      headD_relabel f finv hinv b.lps b.lp
    rw [hh, hhist, npBinarize_relabel f finv hinv]
    simp only []
    rw [← relabelBatch_append, batchWidth_relabel f, ← clustersFitOp_relabel f finv hinv]
    congr 1
    simp only [Bandit.relabel, List.map_map]
    congr 1
  | tree =>
    simp only []
    refine Prod.ext ?_ rfl
    simp only []
    rw [hlp, npBinarize_relabel f finv hinv]
    simp only []
    rw [← treeFitArms_relabel f finv hinv]
    congr 1

/-- **C20 (relabelling, `add_arm`).** -/
theorem impAddArm_relabel (b : Bandit α) (a : α) (bz : Option (α → Rat → Rat)) :
    (b.relabel f finv).impAddArm (f a) (bz.map fun g x => g (finv x)) = (b.impAddArm a bz).relabel f finv := by
  unfold Bandit.impAddArm
  have hnp : (b.relabel f finv).np = b.np := rfl
  rw [hnp]
  cases hk : b.np with
  | none =>
    simp only [Bandit.relabel, List.map_append, List.map_cons, List.map_nil]
    rw [addArm_relabel f finv hinv]
  | radius r m p =>
    simp only [Bandit.relabel, List.map_append, List.map_cons, List.map_nil]
    rw [addArm_relabel f finv hinv, set_renameK f finv hinv]
    congr 1
    rw [relabel_kind]
    cases (b.lp.addArm a bz).kind <;> cases bz <;> rfl
  | knn k m =>
    simp only [Bandit.relabel, List.map_append, List.map_cons, List.map_nil]
    rw [addArm_relabel f finv hinv, set_renameK f finv hinv]
    congr 1
    rw [relabel_kind]
    cases (b.lp.addArm a bz).kind <;> cases bz <;> rfl
  | lsh nd nt p =>
    simp only [Bandit.relabel, List.map_append, List.map_cons, List.map_nil]
    rw [addArm_relabel f finv hinv, set_renameK f finv hinv]
    congr 1
    rw [relabel_kind]
    cases (b.lp.addArm a bz).kind <;> cases bz <;> rfl
  | clusters n =>
    simp only [Bandit.relabel, List.map_append, List.map_cons, List.map_nil, List.map_map]
    rw [set_renameK f finv hinv]
    congr 1
    apply List.map_congr_left
    intro l _
    simp only [Function.comp_def]
    rw [addArm_relabel f finv hinv]
  | tree =>
    simp only [Bandit.relabel, List.map_append, List.map_cons, List.map_nil]
    rw [addArm_relabel f finv hinv, set_renameK f finv hinv, set_renameK f finv hinv]

omit hinv in
theorem filter_ne_map' (hinv : ∀ a, finv (f a) = a) (l : List α) (a : α) : (l.map f).filter (· != f a) = (l.filter (· != a)).map f := by
  induction l with
  | nil => rfl
  | cons x l ih =>
    simp only [List.map_cons, List.filter_cons]
    by_cases h : x = a
    · simp [h, ih]
    · have h' : ¬ f x = f a := fun e => h ((inj_of_inv hinv).mp e)
      simp [h, h', ih]

/-- **C20 (relabelling, `remove_arm`).** -/
theorem impRemoveArm_relabel (b : Bandit α) (a : α) :
    (b.relabel f finv).impRemoveArm (f a) = (b.impRemoveArm a).relabel f finv := by
  unfold Bandit.impRemoveArm
  have hnp : (b.relabel f finv).np = b.np := rfl
  rw [hnp]
  cases hk : b.np <;>
    simp only [Bandit.relabel, filter_ne_map' f finv hinv, pop_renameK f finv hinv, removeArm_relabel f finv hinv,
      List.map_map] <;> try rfl
  congr 1
  apply List.map_congr_left
  intro l _
  simp only [Function.comp_def]
  rw [removeArm_relabel f finv hinv]

end Mab
