/-
  C02 (end to end) — histories, normal equations, certificate and closed form in one statement.
-/
import MabModel.Props.C02b
open Py
set_option linter.unusedSectionVars false
set_option linter.unusedVariables false
set_option linter.unusedSimpArgs false

namespace Mab
open Matrix
variable {α : Type} [DecidableEq α]

/-- **C02 (end to end).**  Take any linear policy, any duplicate-free arm list, any finite history of
    fit / partial_fit / add_arm / remove_arm (any chunking, batches that omit the arm, arms added
    later).  For every current arm whose observation log since the last fit / add is non-empty and
    consists of `d`-feature rows, and whose fitted model passes the inverse certificate the driver
    checks on every run: the stored matrix is `XᵀX + λI` over exactly that log, the stored inverse is its
    inverse, and the coefficients are `(XᵀX + λI)⁻¹ Xᵀy` — the unique solution of the normal equations. -/
theorem linear_history_closed_form (kind : Kind) (hlin : kind.isLinear = true) (arms : List α) (k1 : Bool) (hn : arms.Nodup)
    (ops : List (LPOp α)) (a : α) (ha : a ∈ ((LP.init kind arms none k1).run ops).arms) (d : Nat)
    (hnf : ((LP.init kind arms none k1).run ops).numFeatures = some d)
    (hne : (((Spec.init arms).run ops).log a).length ≠ 0)
    (hw : ∀ row ∈ ((Spec.init arms).run ops).log a, row.2.length = d)
    (r : ArmSt α) (hr : ((LP.init kind arms none k1).run ops).st.get? a = some r)
    (hcert : isInverseCert r.A r.Ainv = true) :
    let log := ((Spec.init arms).run ops).log a
    let G : Matrix (Fin d) (Fin d) ℚ := kind.lam • (1 : Matrix (Fin d) (Fin d) ℚ) + (log.map fun p => vecMulVec (toV d p.2) (toV d p.2)).sum
    let b : Fin d → ℚ := (log.map fun p => p.1 • toV d p.2).sum
    toM d d r.A = G ∧ toM d d r.Ainv = G⁻¹ ∧ toV d r.beta = G⁻¹ *ᵥ b ∧ G *ᵥ toV d r.beta = b ∧
    ∀ w : Fin d → ℚ, G *ᵥ w = b → w = toV d r.beta := by
  intro log G b
  obtain ⟨r', hr', hA, hX, hAinv, hbeta, _, _⟩ := lin_statistics kind hlin arms k1 hn ops a ha
  rw [hr] at hr'
  simp only [Option.some.injEq] at hr'
  subst hr'
  -- the specification record is the ridge record of the log
  have hfresh : (freshRec kind ((LP.init kind arms none k1).run ops).numFeatures k1 : ArmSt α) = linInitRec kind.lam d k1 {} := by
    rw [hnf]; unfold freshRec; rw [hlin]
  have hspec : fitRec kind ((Spec.init arms).run ops).N log (freshRec kind ((LP.init kind arms none k1).run ops).numFeatures k1 : ArmSt α) =
      ridgeOf kind ((Spec.init arms).run ops).N d k1 log := by
    rw [hfresh]; rfl
  rw [hspec] at hA hX hAinv hbeta
  have hc : isInverseCert (ridgeOf (α := α) kind ((Spec.init arms).run ops).N d k1 log).A
      (ridgeOf (α := α) kind ((Spec.init arms).run ops).N d k1 log).Ainv = true := by
    rw [← hA, ← hAinv]; exact hcert
  have := ridge_closed_form (α := α) kind hlin ((Spec.init arms).run ops).N d k1 log hne hw hc
  simp only [] at this
  rw [← hA, ← hAinv, ← hbeta] at this
  exact this

end Mab
