/-
  C18 — results are independent of the data container type; inputs are never modified
  (the conversion logic of `MAB._convert_array` / `__convert_context`; container internals of numpy
  and pandas are runtime behaviour sampled by the harness).
-/
import MabModel.Props.C04
open Py
set_option linter.unusedVariables false

namespace Mab

/-- the canonical value of a 2-D container: its rows (lists, C- or Fortran-ordered arrays, int or float
    dtype, non-contiguous views and DataFrames that *denote* the same matrix have the same rows) -/
def flattenRows (m : List (List Rat)) : List Rat := m.flatten

/-- a matrix is *Series-representable* when it has one column or one row -/
def seriesOf (m : List (List Rat)) : List Rat := m.flatten

theorem flatten_singletons (vals : List Rat) : (vals.map fun v => [v]).flatten = vals := by
  induction vals with
  | nil => rfl
  | cons v vs ih => simp [ih]

theorem column_roundtrip (m : List (List Rat)) (h : ∀ r ∈ m, r.length = 1) :
    (m.flatten.map fun v => [v]) = m := by
  induction m with
  | nil => rfl
  | cons r m ih =>
    have hr : r.length = 1 := h r (by simp)
    match r, hr with
    | [x], _ =>
      simp only [List.flatten_cons, List.singleton_append, List.map_cons, List.cons.injEq, true_and]
      exact ih (fun q hq => h q (List.mem_cons_of_mem _ hq))

/-- **C18 (Series disambiguation, training).**  A training matrix with `n ≥ 1` rows passed as a Series —
    possible when it has one feature column, or one row — is reconstructed exactly: `n > 1` rows
    means a single column, one decision means a single row (also when that row has one feature). -/
theorem series_disambiguation_fit (m : List (List Rat)) (n : Nat) (hn : m.length = n) (hpos : 0 < n)
    (hshape : (1 < n → ∀ r ∈ m, r.length = 1)) :
    convertSeries (seriesOf m) true n 0 = m := by
  simp only [convertSeries, seriesOf, if_true]
  by_cases h1 : n > 1
  · simp only [h1, if_true]
    exact column_roundtrip m (hshape h1)
  · simp only [h1, if_false]
    have : n = 1 := by omega
    subst this
    match m, hn with
    | [r], _ => simp

/-- **C18 (Series disambiguation, prediction).**  With `d` features known from training, a Series is read
    as one column of `len` rows when `d = 1` and as one row of `d` features otherwise. -/
theorem series_disambiguation_predict (m : List (List Rat)) (d : Nat)
    (hshape : (d = 1 ∧ ∀ r ∈ m, r.length = 1) ∨ (d ≠ 1 ∧ ∃ r, m = [r] ∧ r.length = d)) :
    convertSeries (seriesOf m) false 0 d = m := by
  simp only [convertSeries, seriesOf, Bool.false_eq_true, if_false]
  rcases hshape with ⟨h1, h2⟩ | ⟨h1, r, hr, _⟩
  · simp only [h1, if_true]; exact column_roundtrip m h2
  · simp only [h1, if_false]; subst hr; simp

/-- **C18 (caller-owned parameter objects).**  In the World model with private copies no operation on
    any bandit ever writes the caller's `tree_parameters` dictionary or the shared default one
    (this is `noninterference_private`, restated for the caller's cell). -/
theorem caller_cells_untouched (ops : List WOp) (d0 : Nat) :
    (World.run { shared := false, defaultCell := d0 } ops).callerCell = none ∧
    (World.run { shared := false, defaultCell := d0 } ops).defaultCell = d0 :=
  ⟨(noninterference_private ops d0).1.2, (noninterference_private ops d0).2⟩

/-- the facade stores a *copy* of the caller's arm list: the model's `Bandit.init` takes the list by
    value, and `add_arm` / `remove_arm` return a new list -/
theorem arms_by_value {α : Type} [DecidableEq α] (arms : List α) (kind : Kind) (a : α) :
    ((Bandit.init arms kind .none).impAddArm a none).arms = arms ++ [a] ∧ (Bandit.init arms kind .none).arms = arms := by
  simp [Bandit.init, Bandit.impAddArm]

example : convertSeries [1, 2, 3] true 3 0 = [[1], [2], [3]] ∧ convertSeries [1, 2, 3] true 1 0 = [[1, 2, 3]] ∧
    convertSeries [1, 2, 3] false 0 1 = [[1], [2], [3]] ∧ convertSeries [1, 2, 3] false 0 3 = [[1, 2, 3]] := by
  decide +kernel

end Mab
