/-
  C20 (continued) — relabelling equivariance of the whole facade, for every history: validation, training,
  queries, arm changes and warm start of the relabelled bandit reject exactly the same calls, return the renamed
  outputs, issue the same sampler requests and reach the relabelled state, under every policy combination.
-/
import MabModel.Props.C20f
import MabModel.Props.C20c
import MabModel.Props.C10b
import MabModel.Props.C08c
open Py
set_option linter.unusedSectionVars false
set_option linter.unusedVariables false
set_option linter.unusedSimpArgs false
set_option linter.unnecessarySeqFocus false

namespace Mab
variable {α β : Type} [DecidableEq α] [DecidableEq β]

def ArmArg.rename (f : α → β) : ArmArg α → ArmArg β
  | .ok a => .ok (f a) | .none => .none | .nan => .nan | .inf => .inf

def TrainArgs.rename (f : α → β) (a : TrainArgs α) : TrainArgs β :=
  { typeOk := a.typeOk, decisions := a.decisions.map f, rewards := a.rewards, contexts := a.contexts, ctxTypeOk := a.ctxTypeOk }

def WarmArgs.rename (f : α → β) (finv : β → α) (w : WarmArgs α) : WarmArgs β :=
  { typeOk := w.typeOk, q := w.q, keys := w.keys.map f, raw := relabelRaw finv w.raw, featOk := w.featOk }

/-- the call with every arm label renamed (a binarizer receives the original label back) -/
def Op.rename (f : α → β) (finv : β → α) : Op α → Op β
  | .fit a => .fit (a.rename f)
  | .partialFit a => .partialFit (a.rename f)
  | .predict a => .predict a
  | .predictExp a => .predictExp a
  | .addArm a bz c => .addArm (a.rename f) (bz.map fun g x => g (finv x)) c
  | .removeArm a => .removeArm (a.rename f)
  | .warmStart w => .warmStart (w.rename f finv)

def StepOut.rename (f : α → β) (s : StepOut α) : StepOut β := { err := s.err, out := s.out.rename f }

variable (f : α → β) (finv : β → α) (hinv : ∀ a, finv (f a) = a)

theorem isContextual_relabel (b : Bandit α) : (b.relabel f finv).isContextual = b.isContextual := rfl

theorem currentBinz_relabel (b : Bandit α) : (b.relabel f finv).currentBinz.isNone = b.currentBinz.isNone := by
  unfold Bandit.currentBinz
  have hnp : (b.relabel f finv).np = b.np := rfl
  rw [hnp]
  cases b.np <;> simp only [Bandit.relabel, LP.relabel, Option.isNone_map]
  cases b.lps <;> simp [LP.relabel]

theorem validateTrain_relabel (b : Bandit α) (a : TrainArgs α) :
    (b.relabel f finv).validateTrain (a.rename f) = b.validateTrain a := by
  unfold Bandit.validateTrain
  simp only [isContextual_relabel, currentBinz_relabel, TrainArgs.rename, List.length_map]
  rfl

theorem toBatch_rename (a : TrainArgs α) : (a.rename f).toBatch = relabelBatch f a.toBatch := by
  unfold TrainArgs.toBatch relabelBatch
  simp only [TrainArgs.rename, List.map_map]
  rw [zip_map_left, List.zipIdx_map, List.map_map]
  apply List.map_congr_left
  intro p _
  rfl

include hinv

theorem any_mem_relabel (batch : Batch α) (arms : List α) :
    (relabelBatch f batch).any (fun r => decide (r.arm ∈ arms.map f)) = batch.any (fun r => decide (r.arm ∈ arms)) := by
  simp only [relabelBatch, List.any_map, Function.comp_def, mem_map_inj f finv hinv]

theorem trainShapeErr_relabel (b : Bandit α) (batch : Batch α) (p : Bool) :
    (b.relabel f finv).trainShapeErr (relabelBatch f batch) p = b.trainShapeErr batch p := by
  unfold Bandit.trainShapeErr Bandit.storedWidth
  have hnp : (b.relabel f finv).np = b.np := rfl
  have hh : (b.relabel f finv).hist = relabelBatch f b.hist := rfl
  have hk : (b.relabel f finv).lp.kind = b.lp.kind := rfl
  have hnf : (b.relabel f finv).lp.numFeatures = b.lp.numFeatures := rfl
  have harms : (b.relabel f finv).arms = b.arms.map f := rfl
  have hrag : ∀ w : Option Nat, (relabelBatch f batch).any (fun r => decide (some r.ctx.length ≠ w)) =
      batch.any (fun r => decide (some r.ctx.length ≠ w)) := by
    intro w; simp only [relabelBatch, List.any_map, Function.comp_def]
  simp only [hnp, hh, hk, hnf, harms, batchWidth_relabel f, relabelBatch_length, hrag, any_mem_relabel f finv hinv]

/-- **C20 (relabelling, `fit` / `partial_fit` through the facade).** -/
theorem train_relabel (b : Bandit α) (a : TrainArgs α) (p : Bool) (o : Oracle) (g : Rng) :
    (b.relabel f finv).train (a.rename f) p o g =
      ((b.train a p o g).1.relabel f finv, (b.train a p o g).2.1.rename f, (b.train a p o g).2.2) := by
  unfold Bandit.train
  rw [validateTrain_relabel, toBatch_rename]
  have hfit : (b.relabel f finv).isFit = b.isFit := rfl
  cases b.validateTrain a with
  | some e => rfl
  | none =>
    simp only [hfit]
    rw [trainShapeErr_relabel f finv hinv]
    cases b.trainShapeErr a.toBatch (p && b.isFit) with
    | some e => rfl
    | none =>
      simp only []
      split
      · rw [impPartialFit_relabel f finv hinv]; rfl
      · rw [impFit_relabel f finv hinv]; rfl

/-- **C20 (relabelling, queries through the facade).** -/
theorem query_relabel (le : Expect → Expect → Bool) (b : Bandit α) (a : PredArgs) (isPredict : Bool) (o : Oracle) (g : Rng) :
    (b.relabel f finv).query le a isPredict o g =
      ((b.query le a isPredict o g).1.relabel f finv, (b.query le a isPredict o g).2.1.rename f, (b.query le a isPredict o g).2.2) := by
  unfold Bandit.query
  have hfit : (b.relabel f finv).isFit = b.isFit := rfl
  have hc : (b.relabel f finv).isContextual = b.isContextual := rfl
  by_cases h1 : (!b.isFit) = true
  · simp only [hfit, hc, h1, if_true]; rfl
  · by_cases h2 : b.isContextual = true ∧ a.contexts.isNone = true
    · simp only [hfit, hc, h1, h2, if_true, if_false]; rfl
    · by_cases h3 : a.contexts.isSome = true ∧ (!a.ctxTypeOk) = true
      · simp only [hfit, hc, h1, h2, h3, if_true, if_false]; rfl
      · simp only [hfit, hc, h1, h2, h3, if_true, if_false]
        rw [impPredict_relabel f finv hinv]; rfl

theorem all_mem_relabel (l m : List α) : (l.map f).all (fun x => decide (x ∈ m.map f)) = l.all (fun x => decide (x ∈ m)) := by
  simp only [List.all_map, Function.comp_def, mem_map_inj f finv hinv]

/-- what the relabelled bandit must deliver for one call: relabelled state, renamed output, same generator -/
def trStep (f : α → β) (finv : β → α) (x : Bandit α × StepOut α × Rng) : Bandit β × StepOut β × Rng :=
  (x.1.relabel f finv, x.2.1.rename f, x.2.2)

/-- **C20 (relabelling, one call through the facade).**  Whatever the call — accepted or rejected — the
    relabelled bandit reports the same error or the renamed outputs, issues the same sampler requests and
    ends in the relabelled state. -/
theorem step_relabel (le : Expect → Expect → Bool) (b : Bandit α) (op : Op α) (o : Oracle) (g : Rng) :
    (b.relabel f finv).step le (op.rename f finv) o g = trStep f finv (b.step le op o g) := by
  have hk : (b.relabel f finv).lp.kind = b.lp.kind := rfl
  have harms : (b.relabel f finv).arms = b.arms.map f := rfl
  have hnp : (b.relabel f finv).np = b.np := rfl
  cases op with
  | fit a => exact train_relabel f finv hinv b a false o g
  | partialFit a => exact train_relabel f finv hinv b a true o g
  | predict a => exact query_relabel f finv hinv le b a true o g
  | predictExp a => exact query_relabel f finv hinv le b a false o g
  | addArm arg bz c =>
    cases arg with
    | ok a =>
      simp only [Bandit.step, Op.rename, ArmArg.rename, hk, Option.isSome_map, harms, mem_map_inj f finv hinv,
        apply_ite (trStep f finv)]
      split
      · rfl
      · split
        · rfl
        · split
          · rfl
          · rw [impAddArm_relabel f finv hinv]; rfl
    | none =>
      simp only [Bandit.step, Op.rename, ArmArg.rename, hk, Option.isSome_map, apply_ite (trStep f finv)]
      split
      · rfl
      · split <;> rfl
    | nan =>
      simp only [Bandit.step, Op.rename, ArmArg.rename, hk, Option.isSome_map, apply_ite (trStep f finv)]
      split
      · rfl
      · split <;> rfl
    | inf =>
      simp only [Bandit.step, Op.rename, ArmArg.rename, hk, Option.isSome_map, apply_ite (trStep f finv)]
      split
      · rfl
      · split <;> rfl
  | removeArm arg =>
    cases arg with
    | ok a =>
      simp only [Bandit.step, Op.rename, ArmArg.rename, harms, mem_map_inj f finv hinv, apply_ite (trStep f finv)]
      split
      · rw [impRemoveArm_relabel f finv hinv]; rfl
      · rfl
    | none => rfl
    | nan => rfl
    | inf => rfl
  | warmStart w =>
    cases hn : b.np with
    | none =>
      have hlp : (b.relabel f finv).lp = b.lp.relabel f finv := rfl
      simp only [Bandit.step, Op.rename, WarmArgs.rename, harms, hnp, hn, hlp, all_mem_relabel f finv hinv,
        warmStart_relabel f finv hinv, apply_ite (trStep f finv)]
      split
      · rfl
      · split
        · rfl
        · split
          · rfl
          · split
            · rfl
            · cases b.lp.warmStart w.keys w.raw w.q <;> rfl
    | radius r m p =>
      simp only [Bandit.step, Op.rename, WarmArgs.rename, harms, hnp, hn, all_mem_relabel f finv hinv, apply_ite (trStep f finv)]
      split
      · rfl
      · split
        · rfl
        · split <;> rfl
    | knn k m =>
      simp only [Bandit.step, Op.rename, WarmArgs.rename, harms, hnp, hn, all_mem_relabel f finv hinv, apply_ite (trStep f finv)]
      split
      · rfl
      · split
        · rfl
        · split <;> rfl
    | lsh nd nt p =>
      simp only [Bandit.step, Op.rename, WarmArgs.rename, harms, hnp, hn, all_mem_relabel f finv hinv, apply_ite (trStep f finv)]
      split
      · rfl
      · split
        · rfl
        · split <;> rfl
    | clusters n =>
      simp only [Bandit.step, Op.rename, WarmArgs.rename, harms, hnp, hn, all_mem_relabel f finv hinv, apply_ite (trStep f finv)]
      split
      · rfl
      · split
        · rfl
        · split <;> rfl
    | tree =>
      simp only [Bandit.step, Op.rename, WarmArgs.rename, harms, hnp, hn, all_mem_relabel f finv hinv, apply_ite (trStep f finv)]
      split
      · rfl
      · split
        · rfl
        · split <;> rfl

/-- a history with every arm label renamed (oracle values and recorded sampler answers are the same) -/
def renameHistory (f : α → β) (finv : β → α) (h : History α) : History β :=
  h.map fun p => (p.1.rename f finv, p.2.1, p.2.2)

/-- **C20 (relabelling, every history, state).**  Running the renamed history on the relabelled bandit ends in
    the relabelled state — under every learning policy and every neighbourhood policy. -/
theorem runHist_relabel (le : Expect → Expect → Bool) (h : History α) : ∀ b : Bandit α,
    (b.relabel f finv).runHist le (renameHistory f finv h) = (b.runHist le h).relabel f finv := by
  induction h with
  | nil => intro b; rfl
  | cons p t ih =>
    intro b
    obtain ⟨op, o, g⟩ := p
    simp only [renameHistory, List.map_cons, Bandit.runHist]
    rw [step_relabel f finv hinv]
    exact ih _

/-- **C20 (relabelling, every history, everything observable).**  Call by call, the relabelled bandit rejects
    exactly the calls the original rejects (same error class), returns the renamed arms and the expectations keyed
    by the new names in the same order, and issues the same sampler requests. -/
theorem runOuts_relabel (le : Expect → Expect → Bool) (h : History α) : ∀ b : Bandit α,
    (b.relabel f finv).runOuts le (renameHistory f finv h) = (b.runOuts le h).map fun p => (p.1.rename f, p.2) := by
  induction h with
  | nil => intro b; rfl
  | cons p t ih =>
    intro b
    obtain ⟨op, o, g⟩ := p
    simp only [renameHistory, List.map_cons, Bandit.runOuts]
    rw [step_relabel f finv hinv]
    simp only [trStep]
    congr 1
    exact ih _

omit hinv in
/-- constructing the bandit with renamed arms is constructing the relabelled bandit -/
theorem init_relabel_bandit (arms : List α) (kind : Kind) (np : NPCfg) (bz : Option (α → Rat → Rat)) (k1 : Bool) :
    Bandit.init (arms.map f) kind np (bz.map fun g x => g (finv x)) k1 = (Bandit.init arms kind np bz k1).relabel f finv := by
  unfold Bandit.init
  simp only [init_relabel f finv]
  cases np <;> simp only [Bandit.relabel, renameK_fromKeys, List.map_replicate, List.map_nil] <;> rfl

/-- **C20 (relabelling, end to end).**  A bandit constructed with renamed arms and driven through the renamed
    history produces, call by call, exactly the renamed outputs of the original. -/
theorem relabel_end_to_end (le : Expect → Expect → Bool) (arms : List α) (kind : Kind) (np : NPCfg)
    (bz : Option (α → Rat → Rat)) (k1 : Bool) (h : History α) :
    (Bandit.init (arms.map f) kind np (bz.map fun g x => g (finv x)) k1).runOuts le (renameHistory f finv h) =
      ((Bandit.init arms kind np bz k1).runOuts le h).map fun p => (p.1.rename f, p.2) := by
  rw [init_relabel_bandit f finv, runOuts_relabel f finv hinv]

/-- the hypothesis is satisfiable and the statement has content: renaming `1, 2` to `11, 12` -/
example : ∀ a : Nat, (fun b => b - 10) ((fun a => a + 10) a) = a := by intro a; simp

example : ((Bandit.init [1, 2] (.greedy 0) (.knn 1 .cityblock)).relabel (fun a => a + 10) (fun b => b - 10)).arms = [11, 12] := rfl

end Mab
