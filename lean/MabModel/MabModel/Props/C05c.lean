/-
  C05 (continued) — row-locality for *every* learning policy (Thompson Sampling, Random, LinTS included)
  and for Radius, KNearest and LSHNearest alike: outputs, draws and requests of a row do not depend on
  the rows the worker handled before, hence not on the partition of the rows among workers.
-/
import MabModel.Props.C05b
import MabModel.Props.C10b
open Py
set_option linter.unusedSectionVars false
set_option linter.unusedVariables false
set_option linter.unusedSimpArgs false

namespace Mab
variable {α : Type} [DecidableEq α]

/-- same configuration, *whatever* the remembered last Thompson draw is -/
structure SameCfg (s s' : LP α) : Prop where
  kind : s.kind = s'.kind
  arms : s.arms = s'.arms
  keys : s.st.keys = s'.st.keys
  binz : s.binz = s'.binz
  ctxBin : s.ctxBin = s'.ctxBin
  k1 : s.k1fixed = s'.k1fixed
  nf : s.kind.isLinear = false → s.numFeatures = s'.numFeatures

theorem SameCfg.refl (s : LP α) : SameCfg s s := ⟨rfl, rfl, rfl, rfl, rfl, rfl, fun _ => rfl⟩
theorem SameCfg.symm {s s' : LP α} (h : SameCfg s s') : SameCfg s' s :=
  ⟨h.kind.symm, h.arms.symm, h.keys.symm, h.binz.symm, h.ctxBin.symm, h.k1.symm, fun hl => (h.nf (h.kind ▸ hl)).symm⟩
theorem SameCfg.trans {a b c : LP α} (h1 : SameCfg a b) (h2 : SameCfg b c) : SameCfg a c :=
  ⟨h1.kind.trans h2.kind, h1.arms.trans h2.arms, h1.keys.trans h2.keys, h1.binz.trans h2.binz,
   h1.ctxBin.trans h2.ctxBin, h1.k1.trans h2.k1, fun hl => (h1.nf hl).trans (h2.nf (h1.kind ▸ hl))⟩

theorem map_exp_of_keys (d d' : Dict α (ArmSt α)) (h : d.keys = d'.keys) :
    (d.mapKV fun _ r => zeroExp r).map (fun p => (p.1, p.2.exp)) = (d'.mapKV fun _ r => zeroExp r).map (fun p => (p.1, p.2.exp)) := by
  induction d generalizing d' with
  | nil => cases d' with
    | nil => rfl
    | cons q t => simp [Dict.keys] at h
  | cons p t ih =>
    cases d' with
    | nil => simp [Dict.keys] at h
    | cons q t' =>
      simp only [Dict.keys_cons, List.cons.injEq] at h
      simp only [Dict.mapKV, List.map_cons, List.cons.injEq, List.map_map] at ih ⊢
      exact ⟨by simp [h.1, zeroExp], ih t' h.2⟩

/-- forgetting the last draw on both sides turns `SameCfg` into `SameConfig` -/
theorem sameConfig_normT (s s' : LP α) (h : SameCfg s s') : SameConfig s.normT s'.normT :=
  ⟨h.kind, h.arms, by simp [LP.normT, h.keys], h.binz, h.ctxBin, h.k1, h.nf,
   fun _ => map_exp_of_keys s.st s'.st h.keys⟩

/-- **C07 / C05 (outputs).**  Whatever two policy objects with the same configuration have learned or
    drawn before, after `fit(D)` they answer a query identically: same expectations, same draws
    requested, same tape consumed. -/
theorem fit_then_predictExp_congr (s s' : LP α) (b : Batch α) (w : Option Nat) (m : Option Nat) (ctxs : List Vec)
    (own : Stream) (g : Rng) (h : SameCfg s s') :
    ((s.fit b w).predictExp m ctxs own g).2 = ((s'.fit b w).predictExp m ctxs own g).2 := by
  by_cases hr : s.kind = .random
  · -- `fit` is a no-op and the draws depend on the arm list only
    have hr' : s'.kind = .random := h.kind ▸ hr
    have e1 : s.fit b w = s := by unfold LP.fit; rw [hr]
    have e2 : s'.fit b w = s' := by unfold LP.fit; rw [hr']
    rw [e1, e2]
    unfold LP.predictExp
    simp only [hr, hr', h.arms]
  by_cases ht : s.kind = .thompson
  · have ht' : s'.kind = .thompson := h.kind ▸ ht
    have k1 : (s.fit b w).kind = .thompson := by rw [fit_kind]; exact ht
    have k2 : (s'.fit b w).kind = .thompson := by rw [fit_kind]; exact ht'
    rw [← (predictExp_normT (s.fit b w) m ctxs own g k1).1, ← (predictExp_normT (s'.fit b w) m ctxs own g k2).1,
        ← fit_normT s b w ht, ← fit_normT s' b w ht',
        fit_discards s.normT s'.normT b w (sameConfig_normT s s' h) (by exact hr)]
  · have hc : SameConfig s s' := ⟨h.kind, h.arms, h.keys, h.binz, h.ctxBin, h.k1, h.nf, fun x => absurd x ht⟩
    rw [fit_discards s s' b w hc hr]

theorem fit_sameCfg (s : LP α) (b : Batch α) (w : Option Nat) : SameCfg s (s.fit b w) := by
  obtain ⟨c1, c2, c3, c4⟩ := fit_config s b w
  obtain ⟨a1, a2⟩ := fit_arms_keys s b w
  exact ⟨(fit_kind s b w).symm, a1.symm, a2.symm, c1.symm, c2.symm, c3.symm, fun hl => (c4 hl).symm⟩

theorem predictExp_sameCfg (s : LP α) (m : Option Nat) (ctxs : List Vec) (own : Stream) (g : Rng) :
    SameCfg s (s.predictExp m ctxs own g).1 := by
  by_cases ht : s.kind = .thompson
  · have h1 := (predictExp_readonly s m ctxs own g).1
    rw [norm_thompson _ ht, norm_thompson _ (by rw [predictExp_kind]; exact ht)] at h1
    have hk := predictExp_kind s m ctxs own g
    have e : ∀ (x y : LP α), x.normT = y.normT → x.kind = y.kind → SameCfg y x := by
      intro x y hxy hkk
      exact ⟨hkk.symm, (congrArg LP.arms hxy).symm, by
        have := congrArg (fun z : LP α => z.st.keys) hxy
        simpa [LP.normT] using this.symm,
        (congrArg LP.binz hxy).symm, (congrArg LP.ctxBin hxy).symm, (congrArg LP.k1fixed hxy).symm,
        fun _ => (congrArg LP.numFeatures hxy).symm⟩
    exact e _ _ h1 hk
  · rw [(predictExp_readonly s m ctxs own g).2 ht]; exact SameCfg.refl s

/-- after one row the worker's copy still has the configuration it started with (all policies) -/
theorem nhoodRow_sameCfg (le : Expect → Expect → Bool) (b : Bandit α) (isPredict : Bool) (lp : LP α)
    (i : Nat) (q : Vec) (ds : List Rat) (ks : List Nat) (g : Rng) :
    SameCfg lp (b.nhoodRow le isPredict lp i q ds ks g).1 := by
  unfold Bandit.nhoodRow
  cases hs : b.selectIdx q ds ks with
  | mk idx tie =>
    simp only
    by_cases hlen : idx.length > 0
    · simp only [hlen, if_true]
      cases isPredict
      · simp only [Bool.false_eq_true, if_false]
        exact (fit_sameCfg lp _ _).trans (predictExp_sameCfg _ _ _ _ _)
      · simp only [if_true, LP.predict]
        exact (fit_sameCfg lp _ _).trans (predictExp_sameCfg _ _ _ _ _)
    · simp only [hlen, if_false]
      cases isPredict <;> simp <;> exact SameCfg.refl lp

/-- **C03 / C05 (from scratch, every learning policy).**  The outputs, tie flag, draws and requests of
    one query row do not depend on what the worker's policy copy was fit on or drew before. -/
theorem nhoodRow_congr (le : Expect → Expect → Bool) (b : Bandit α) (isPredict : Bool) (lp lp' : LP α)
    (i : Nat) (q : Vec) (ds : List Rat) (ks : List Nat) (g : Rng) (hc : SameCfg lp lp') :
    (b.nhoodRow le isPredict lp i q ds ks g).2 = (b.nhoodRow le isPredict lp' i q ds ks g).2 := by
  unfold Bandit.nhoodRow
  cases hs : b.selectIdx q ds ks with
  | mk idx tie =>
    simp only
    by_cases hlen : idx.length > 0
    · simp only [hlen, if_true]
      have := fit_then_predictExp_congr lp lp' (idx.filterMap fun j => b.hist[j]?) (some q.length) (some 1) [q] (.row i) g hc
      cases isPredict
      · simp only [Bool.false_eq_true, if_false]
        rw [Prod.ext_iff] at this
        simp only [Prod.mk.injEq, true_and]
        exact ⟨by rw [this.1], this.2⟩
      · simp only [if_true, LP.predict]
        rw [Prod.ext_iff] at this
        simp only [Prod.mk.injEq, true_and]
        exact ⟨by rw [this.1], this.2⟩
    · simp only [hlen, if_false]
      cases isPredict <;> simp

/-- **C05 (row-locality, every learning policy).** -/
theorem chunkFold_congr_all (le : Expect → Expect → Bool) (b : Bandit α) (isPredict : Bool) (o : Oracle) (start : Nat) :
    ∀ (qs : List (Vec × Nat)) (lp lp' : LP α) (outs : List (ExpDict α ⊕ (Option α × ExpDict α))) (ties : List Bool) (g : Rng),
      SameCfg lp lp' →
      (chunkFold le b isPredict o start qs (lp, outs, ties, g)).2 =
        (chunkFold le b isPredict o start qs (lp', outs, ties, g)).2 := by
  intro qs
  induction qs with
  | nil => intro lp lp' outs ties g _; rfl
  | cons p qs ih =>
    intro lp lp' outs ties g hc
    simp only [chunkFold, List.foldl_cons]
    have h2 := nhoodRow_congr le b isPredict lp lp' (start + p.2) p.1 (o.dists.getD (start + p.2) [])
      (o.ksets.getD (start + p.2) []) g hc
    have c1 := nhoodRow_sameCfg le b isPredict lp (start + p.2) p.1 (o.dists.getD (start + p.2) [])
      (o.ksets.getD (start + p.2) []) g
    have c2 := nhoodRow_sameCfg le b isPredict lp' (start + p.2) p.1 (o.dists.getD (start + p.2) [])
      (o.ksets.getD (start + p.2) []) g
    have hc' := (c1.symm.trans hc).trans c2
    generalize hA : b.nhoodRow le isPredict lp (start + p.2) p.1 (o.dists.getD (start + p.2) []) (o.ksets.getD (start + p.2) []) g = A at *
    generalize hB : b.nhoodRow le isPredict lp' (start + p.2) p.1 (o.dists.getD (start + p.2) []) (o.ksets.getD (start + p.2) []) g = B at *
    obtain ⟨a1, a2, a3, a4⟩ := A
    obtain ⟨b1, b2, b3, b4⟩ := B
    simp only [Prod.mk.injEq] at h2
    obtain ⟨e2, e3, e4⟩ := h2
    subst e2 e3 e4
    exact ih a1 b1 _ _ _ hc'

theorem chunkFold_sameCfg (le : Expect → Expect → Bool) (b : Bandit α) (isPredict : Bool) (o : Oracle) (start : Nat) :
    ∀ (qs : List (Vec × Nat)) (acc : LP α × List (ExpDict α ⊕ (Option α × ExpDict α)) × List Bool × Rng),
      SameCfg b.lp acc.1 → SameCfg b.lp (chunkFold le b isPredict o start qs acc).1 := by
  intro qs
  induction qs with
  | nil => intro acc h; exact h
  | cons p qs ih =>
    intro acc h
    simp only [chunkFold, List.foldl_cons]
    apply ih
    exact h.trans (nhoodRow_sameCfg le b isPredict acc.1 _ _ _ _ _)

/-- **C05 (any split of a chunk, every learning policy).**  Handling rows `qs₁ ++ qs₂` with one worker
    gives the same outputs, tie flags, requests and tape as handling `qs₁` and then `qs₂` with a *fresh*
    copy of the policy — by induction every contiguous partition of the rows among workers gives the
    results of a single worker, for Thompson Sampling, Random and LinTS as well. -/
theorem chunk_split_all (le : Expect → Expect → Bool) (b : Bandit α) (isPredict : Bool) (o : Oracle) (start : Nat)
    (qs₁ qs₂ : List (Vec × Nat)) (g : Rng) :
    (chunkFold le b isPredict o start (qs₁ ++ qs₂) (b.lp, [], [], g)).2 =
      (chunkFold le b isPredict o start qs₂
        (b.lp, (chunkFold le b isPredict o start qs₁ (b.lp, [], [], g)).2.1,
               (chunkFold le b isPredict o start qs₁ (b.lp, [], [], g)).2.2.1,
               (chunkFold le b isPredict o start qs₁ (b.lp, [], [], g)).2.2.2)).2 := by
  simp only [chunkFold, List.foldl_append]
  have h1 := chunkFold_sameCfg le b isPredict o start qs₁ (b.lp, [], [], g) (SameCfg.refl _)
  generalize hR : chunkFold le b isPredict o start qs₁ (b.lp, [], [], g) = R at *
  obtain ⟨r1, r2, r3, r4⟩ := R
  simp only [chunkFold] at hR
  rw [hR]
  have := chunkFold_congr_all le b isPredict o start qs₂ r1 b.lp r2 r3 r4 h1.symm
  simp only [chunkFold] at this
  exact this

/-- `chunkFold` is the worker of the executable model for Radius, KNearest and LSHNearest alike -/
theorem predictChunk_eq_chunkFold_all (le : Expect → Expect → Bool) (b : Bandit α) (isPredict : Bool) (qs : List Vec)
    (start : Nat) (o : Oracle) (g : Rng)
    (hnp : (∃ r m pr, b.np = .radius r m pr) ∨ (∃ k m, b.np = .knn k m) ∨ (∃ d t pr, b.np = .lsh d t pr)) :
    b.predictChunk le isPredict qs start o g =
      ((chunkFold le b isPredict o start qs.zipIdx (b.lp, [], [], g)).2.1,
       (chunkFold le b isPredict o start qs.zipIdx (b.lp, [], [], g)).2.2.1,
       (chunkFold le b isPredict o start qs.zipIdx (b.lp, [], [], g)).2.2.2) := by
  rcases hnp with ⟨r, m, pr, h⟩ | ⟨k, m, h⟩ | ⟨d, t, pr, h⟩ <;> simp only [Bandit.predictChunk, h, chunkFold]

end Mab
