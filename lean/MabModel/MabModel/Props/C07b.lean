/-
  C07 (continued) — the facade: `fit(D)` on two bandit objects with the same configuration leaves the same stored
  history, hash tables and hyper-planes, cluster labels and cluster policies, leaf stores and stream position,
  whatever either object held before.
-/
import MabModel.Props.C05d
open Py
set_option linter.unusedSectionVars false
set_option linter.unusedVariables false
set_option linter.unusedSimpArgs false

namespace Mab
variable {α : Type} [DecidableEq α]

/-- two bandit objects with the same configuration: same neighbourhood policy, same arm list, policy
    objects with the same configuration (whatever they have learned), same neutral expectations -/
structure BSame (b b' : Bandit α) : Prop where
  np : b.np = b'.np
  arms : b.arms = b'.arms
  lp : SameCfg b.lp b'.lp
  lps : List.Forall₂ SameCfg b.lps b'.lps
  npExp : b.npExp = b'.npExp

/-- the state `fit` leaves is determined by the configuration, up to the last Thompson draw -/
theorem fit_norm_congr (s s' : LP α) (b : Batch α) (w : Option Nat) (h : SameCfg s s') (hr : s.kind ≠ .random) :
    (s.fit b w).norm = (s'.fit b w).norm := by
  by_cases ht : s.kind = .thompson
  · have ht' : s'.kind = .thompson := h.kind ▸ ht
    rw [norm_thompson _ (by rw [fit_kind]; exact ht), norm_thompson _ (by rw [fit_kind]; exact ht'),
        ← fit_normT s b w ht, ← fit_normT s' b w ht', fit_discards s.normT s'.normT b w (sameConfig_normT s s' h) (by exact hr)]
  · have hc : SameConfig s s' := ⟨h.kind, h.arms, h.keys, h.binz, h.ctxBin, h.k1, h.nf, fun x => absurd x ht⟩
    rw [fit_discards s s' b w hc hr]

theorem npBinarize_congr (s s' : LP α) (batch : Batch α) (h : SameCfg s s') :
    (npBinarize s batch).2 = (npBinarize s' batch).2 ∧ SameCfg (npBinarize s batch).1 (npBinarize s' batch).1 := by
  by_cases ht : s.kind = .thompson
  · have ht' : s'.kind = .thompson := h.kind ▸ ht
    cases hb : s.binz with
    | none =>
      have hb' : s'.binz = none := h.binz ▸ hb
      simp only [npBinarize, ht, ht', hb, hb']
      exact ⟨trivial, h⟩
    | some f =>
      have hb' : s'.binz = some f := h.binz ▸ hb
      simp only [npBinarize, ht, ht', hb, hb']
      refine ⟨?_, ⟨by simp, h.arms, h.keys, by simp, rfl, h.k1, fun _ => h.nf (by rw [ht]; rfl)⟩⟩
      simp [LP.binarize, hb, hb']
  · have ht' : s'.kind ≠ .thompson := h.kind ▸ ht
    have e1 : npBinarize s batch = (s, batch) := by
      unfold npBinarize; cases hk : s.kind <;> simp_all
    have e2 : npBinarize s' batch = (s', batch) := by
      unfold npBinarize; cases hk : s'.kind <;> simp_all
    rw [e1, e2]; exact ⟨rfl, h⟩

theorem forall₂_head (l l' : List (LP α)) (d d' : LP α) (h : List.Forall₂ SameCfg l l') (hd : SameCfg d d') :
    SameCfg (l.headD d) (l'.headD d') := by
  cases h with
  | nil => exact hd
  | cons h1 _ => exact h1

/-- **C07 (facade, no neighbourhood policy).** -/
theorem impFit_none_congr (b b' : Bandit α) (batch : Batch α) (o : Oracle) (g : Rng) (h : BSame b b')
    (hk : b.np = .none) (hr : b.lp.kind ≠ .random) :
    (b.impFit batch o g).2 = (b'.impFit batch o g).2 ∧
    (b.impFit batch o g).1.lp.norm = (b'.impFit batch o g).1.lp.norm := by
  have hk' : b'.np = .none := h.np ▸ hk
  simp only [Bandit.impFit, hk, hk']
  exact ⟨trivial, fit_norm_congr _ _ _ _ h.lp hr⟩

/-- **C07 (facade, Radius / KNearest).**  The stored history after `fit` is the new data only. -/
theorem impFit_neighbors_congr (b b' : Bandit α) (batch : Batch α) (o : Oracle) (g : Rng) (h : BSame b b')
    (hk : (∃ r m p, b.np = .radius r m p) ∨ (∃ k m, b.np = .knn k m)) :
    (b.impFit batch o g).2 = (b'.impFit batch o g).2 ∧
    (b.impFit batch o g).1.hist = (b'.impFit batch o g).1.hist ∧
    SameCfg (b.impFit batch o g).1.lp (b'.impFit batch o g).1.lp := by
  obtain ⟨bb, hbin⟩ := npBinarize_congr b.lp b'.lp batch h.lp
  rcases hk with ⟨r, m, p, hk⟩ | ⟨k, m, hk⟩ <;>
    (have hk' := h.np ▸ hk
     simp only [Bandit.impFit, hk, hk']
     exact ⟨trivial, bb, hbin⟩)

/-- **C07 (facade, LSHNearest).**  New hyper-planes are drawn from the same stream position, the tables
    are rebuilt from empty tables with the new rows only. -/
theorem impFit_lsh_congr (b b' : Bandit α) (batch : Batch α) (o : Oracle) (g : Rng) (h : BSame b b')
    (d t : Nat) (p : Option (List Rat)) (hk : b.np = .lsh d t p) :
    (b.impFit batch o g).2 = (b'.impFit batch o g).2 ∧
    (b.impFit batch o g).1.hist = (b'.impFit batch o g).1.hist ∧
    (b.impFit batch o g).1.planes = (b'.impFit batch o g).1.planes ∧
    (b.impFit batch o g).1.tables = (b'.impFit batch o g).1.tables ∧
    SameCfg (b.impFit batch o g).1.lp (b'.impFit batch o g).1.lp := by
  obtain ⟨bb, hbin⟩ := npBinarize_congr b.lp b'.lp batch h.lp
  have hk' := h.np ▸ hk
  simp only [Bandit.impFit, hk, hk', lshFitOp, bb]
  refine ⟨?_, ?_, ?_, ?_, hbin⟩ <;> first | rfl | trivial

/-- **C07 (facade, TreeBandit).**  The leaf stores are rebuilt from empty stores with the new rows only. -/
theorem impFit_tree_congr (b b' : Bandit α) (batch : Batch α) (o : Oracle) (g : Rng) (h : BSame b b')
    (hk : b.np = .tree) :
    (b.impFit batch o g).2 = (b'.impFit batch o g).2 ∧
    (b.impFit batch o g).1.leafRewards = (b'.impFit batch o g).1.leafRewards ∧
    SameCfg (b.impFit batch o g).1.lp (b'.impFit batch o g).1.lp := by
  obtain ⟨bb, hbin⟩ := npBinarize_congr b.lp b'.lp batch h.lp
  have hk' := h.np ▸ hk
  simp only [Bandit.impFit, hk, hk', treeFitArms, bb, h.arms]
  refine ⟨?_, ?_, hbin⟩ <;> first | rfl | trivial

theorem forall₂_map_zipIdx (l l' : List (LP α)) (R S : LP α → LP α → Prop) (f : LP α × Nat → LP α)
    (h : List.Forall₂ R l l') (hf : ∀ x y i, R x y → S (f (x, i)) (f (y, i))) :
    ∀ k, List.Forall₂ S ((l.zipIdx k).map f) ((l'.zipIdx k).map f) := by
  induction h with
  | nil => intro k; exact List.Forall₂.nil
  | cons h1 _ ih => intro k; simp only [List.zipIdx_cons, List.map_cons]; exact List.Forall₂.cons (hf _ _ _ h1) (ih _)

/-- **C07 (facade, Clusters).**  Every cluster policy is re-`fit` on the new rows of its (new) cell. -/
theorem impFit_clusters_congr (b b' : Bandit α) (batch : Batch α) (o : Oracle) (g : Rng) (h : BSame b b')
    (n : Nat) (hk : b.np = .clusters n) (hrs : ∀ l ∈ b.lps, l.kind ≠ .random) :
    (b.impFit batch o g).2 = (b'.impFit batch o g).2 ∧
    (b.impFit batch o g).1.hist = (b'.impFit batch o g).1.hist ∧
    (b.impFit batch o g).1.labels = (b'.impFit batch o g).1.labels ∧
    List.Forall₂ (fun x y => x.norm = y.norm) (b.impFit batch o g).1.lps (b'.impFit batch o g).1.lps := by
  have hhead := forall₂_head b.lps b'.lps b.lp b'.lp h.lps h.lp
  obtain ⟨bb2, hbin2⟩ := npBinarize_congr (b.lps.headD b.lp) (b'.lps.headD b'.lp) batch hhead
  have hk' := h.np ▸ hk
  simp only [Bandit.impFit, hk, hk', clustersFitOp, bb2]
  refine ⟨?_, ?_, ?_, ?_⟩ <;> (try first | rfl | trivial)
  -- the per-cluster policies, with the binarizer flag installed, still have pairwise the same configuration
  have hflag : List.Forall₂ (fun x y => SameCfg x y ∧ x.kind ≠ .random)
      (b.lps.map fun l => { l with ctxBin := (npBinarize (b.lps.headD b.lp) batch).1.ctxBin })
      (b'.lps.map fun l => { l with ctxBin := (npBinarize (b'.lps.headD b'.lp) batch).1.ctxBin }) := by
    have hc := hbin2.ctxBin
    have : ∀ (l l' : List (LP α)), List.Forall₂ SameCfg l l' → (∀ x ∈ l, x.kind ≠ .random) →
        List.Forall₂ (fun x y => SameCfg x y ∧ x.kind ≠ .random)
          (l.map fun x => { x with ctxBin := (npBinarize (b.lps.headD b.lp) batch).1.ctxBin })
          (l'.map fun x => { x with ctxBin := (npBinarize (b'.lps.headD b'.lp) batch).1.ctxBin }) := by
      intro l l' hl
      induction hl with
      | nil => intro _; exact List.Forall₂.nil
      | cons h1 _ ih =>
        intro hx
        simp only [List.map_cons]
        refine List.Forall₂.cons ⟨⟨h1.kind, h1.arms, h1.keys, h1.binz, hc, h1.k1, h1.nf⟩, ?_⟩ (ih fun x hx' => hx x (List.mem_cons_of_mem _ hx'))
        rename_i a0 b0 _ _ _
        exact hx a0 List.mem_cons_self
    exact this _ _ h.lps hrs
  exact forall₂_map_zipIdx _ _ _ _ _ hflag (fun x y i hxy => fit_norm_congr x y _ _ hxy.1 hxy.2) 0

end Mab
