/-
  C02 — linear policies are exact per-arm ridge regressions with the stated bonus (scale=False;
  exact rational arithmetic; `np.linalg.inv` is replaced by an exact inverse whose certificate
  `A * Ainv = I` the driver re-checks on every fitted model).
-/
import MabModel.Props.C01
import MabModel.Py.Shape
open Py
set_option linter.unusedSectionVars false
set_option linter.unusedVariables false
set_option linter.unusedSimpArgs false

namespace Mab
variable {α : Type} [DecidableEq α]

/-- the ridge record of an arm with observation log `log` (`d` features) -/
def ridgeOf (kind : Kind) (N : Nat) (d : Nat) (k1 : Bool) (log : List (Rat × Vec)) : ArmSt α :=
  fitRec kind N log (linInitRec kind.lam d k1 {})

/-- **C02 (normal equations).**  For the three linear policies, after *any* history of fit /
    partial_fit / add_arm / remove_arm (any split into fit + partial_fit, batches that omit the arm,
    arms added after fit) the model of every current arm holds
    `A = λI + Σ x xᵀ`, `Xᵀy = Σ y·x` over exactly that arm's rows since the last fit / add,
    `A⁻¹ = inv A`, `β = A⁻¹ Xᵀy` — and `A = λI`, `β = 0` for an arm never observed. -/
theorem lin_statistics (kind : Kind) (hlin : kind.isLinear = true) (arms : List α) (k1 : Bool) (hn : arms.Nodup)
    (ops : List (LPOp α)) (a : α) (ha : a ∈ ((LP.init kind arms none k1).run ops).arms) :
    ∃ r : ArmSt α, ((LP.init kind arms none k1).run ops).st.get? a = some r ∧
      let s := (LP.init kind arms none k1).run ops
      let spec : ArmSt α := fitRec kind ((Spec.init arms).run ops).N (((Spec.init arms).run ops).log a)
                              (freshRec kind s.numFeatures k1)
      r.A = spec.A ∧ r.Xty = spec.Xty ∧ r.Ainv = spec.Ainv ∧ r.beta = spec.beta ∧ r.inited = spec.inited ∧
      r.rngPriv = spec.rngPriv := by
  have h := cf_refines_log_aux kind arms k1 hn ops
  have hk : ((LP.init kind arms none k1).run ops).kind = kind := run_kind _ _
  have he := h.1.entry a ha
  simp only [statOf] at he
  rw [hk, h.2.2.2.1] at he
  cases hr : ((LP.init kind arms none k1).run ops).st.get? a with
  | none => rw [hr] at he; simp at he
  | some r =>
    rw [hr] at he
    simp only [Option.map_some, Option.some.injEq] at he
    refine ⟨r, rfl, ?_⟩
    have e1 := congrArg ArmSt.A he
    have e2 := congrArg ArmSt.Xty he
    have e3 := congrArg ArmSt.Ainv he
    have e4 := congrArg ArmSt.beta he
    have e5 := congrArg ArmSt.inited he
    have e6 := congrArg ArmSt.rngPriv he
    simp only [ArmSt.strip] at e1 e2 e3 e4 e5 e6
    exact ⟨e1, e2, e3, e4, e5, e6⟩

/-- the ridge record written out -/
theorem stat_linear (kind : Kind) (hlin : kind.isLinear = true) (N d : Nat) (k1 : Bool) (log : List (Rat × Vec)) :
    let r : ArmSt α := ridgeOf kind N d k1 log
    (log.length = 0 → r.A = msmul kind.lam (ident d) ∧ r.Xty = zeroVec d ∧ r.beta = zeroVec d ∧
        r.Ainv = (if k1 then msmul (1 / kind.lam) (ident d) else msmul kind.lam (ident d))) ∧
    (log.length ≠ 0 → r.A = addGram (msmul kind.lam (ident d)) (log.map (·.2)) ∧
        r.Xty = addXty (zeroVec d) log ∧ r.Ainv = invD r.A ∧ r.beta = mulVec r.Ainv r.Xty) := by
  cases kind <;> simp [Kind.isLinear] at hlin <;>
    (constructor
     · intro h0
       have : log = [] := List.eq_nil_of_length_eq_zero h0
       subst this
       simp [ridgeOf, fitRec, linInitRec]
     · intro h1
       simp [ridgeOf, fitRec, linInitRec, h1])

/-- rows accumulate: training on `log₁` then `log₂` gives the Gram matrix of `log₁ ++ log₂` -/
theorem gram_accumulates (A : Mat) (x y : List Vec) : addGram A (x ++ y) = addGram (addGram A x) y :=
  addGram_append A x y

/-! ### known finding K1: the inverse of an unobserved arm is initialised with `λI` -/

theorem k1_counterexample :
    (linInitRec (4 : Rat) 1 false ({} : ArmSt Nat)).Ainv = [[4]] ∧
    (linInitRec (4 : Rat) 1 true ({} : ArmSt Nat)).Ainv = [[1 / 4]] ∧
    isInverse (linInitRec (4 : Rat) 1 true ({} : ArmSt Nat)).A (linInitRec (4 : Rat) 1 true ({} : ArmSt Nat)).Ainv = true ∧
    isInverse (linInitRec (4 : Rat) 1 false ({} : ArmSt Nat)).A (linInitRec (4 : Rat) 1 false ({} : ArmSt Nat)).Ainv = false := by
  decide +kernel

/-- with `λ = 1` the two initialisations coincide (the deviation is invisible) -/
theorem k1_lambda_one (d : Nat) :
    (linInitRec (1 : Rat) d false ({} : ArmSt α)).Ainv = (linInitRec (1 : Rat) d true ({} : ArmSt α)).Ainv := by
  simp [linInitRec]

/-! ### what the three policies return for a context row -/

/-- an arm whose scaler is not fitted (scale=False, or an arm never trained) sees the raw query row -/
theorem scaleRow_unfitted (sc x : Vec) : scaleRow [] sc x = x := rfl

/-- with a fitted scaler every coordinate is `(x - mean) / scale` -/
theorem scaleRow_fitted (m : Rat) (mu : Vec) (s : Rat) (sc : Vec) (x0 : Rat) (x : Vec) :
    scaleRow (m :: mu) (s :: sc) (x0 :: x) = (x0 - m) / s :: List.zipWith (fun (p : Rat × Rat) s => (p.1 - p.2) / s) (List.zip x mu) sc := by
  simp [scaleRow]

/-- the per-arm column fold of `_vectorized_predict_context` for LinUCB: no draws, one symbolic value
    `x'·β + α·sqrt(x' A⁻¹ x'ᵀ)` per non-random row and arm, `x'` the row standardised with that arm's
    scaler (the row itself when `scale=False`) -/
theorem linucb_columns (s : LP α) (alpha lam : Rat) (hk : s.kind = .linUCB alpha lam) (rows : List Vec)
    (arms : List α) (acc : List (List Expect)) (g : Rng) :
    arms.foldl (fun (acc : List (List Expect) × Rng) a =>
      let r : ArmSt α := (s.st.get? a).getD {}
      match s.kind with
      | .linUCB alpha _ =>
        (acc.1 ++ [rows.map fun x0 => Expect.lin (dot (scaleRow r.mu r.sc x0) r.beta) alpha
                      (dot (vecMul (scaleRow r.mu r.sc x0) r.Ainv) (scaleRow r.mu r.sc x0))], acc.2)
      | .linTS alpha _ =>
        let d := r.beta.length
        let strm := if r.rngPriv then Stream.copyOf Stream.main else Stream.main
        let (bv, g) := acc.2.draw { stream := strm, kind := .mvn,
                                    params := r.beta.map Expect.val ++ (msmul (alpha * alpha) r.Ainv).flatten.map Expect.val,
                                    size := rows.length * d }
        let B := chunk d rows.length bv
        (acc.1 ++ [(List.zip rows B).map fun p => Expect.val (dot (scaleRow r.mu r.sc p.1) p.2)], g)
      | _ => (acc.1 ++ [rows.map fun x0 => Expect.val (dot (scaleRow r.mu r.sc x0) r.beta)], acc.2)) (acc, g) =
    (acc ++ arms.map (fun a => rows.map fun x0 =>
        Expect.lin (dot (scaleRow ((s.st.get? a).getD {}).mu ((s.st.get? a).getD {}).sc x0) ((s.st.get? a).getD {}).beta) alpha
          (dot (vecMul (scaleRow ((s.st.get? a).getD {}).mu ((s.st.get? a).getD {}).sc x0) ((s.st.get? a).getD {}).Ainv)
               (scaleRow ((s.st.get? a).getD {}).mu ((s.st.get? a).getD {}).sc x0))), g) := by
  induction arms generalizing acc with
  | nil => simp
  | cons a arms ih =>
    simp only [List.foldl_cons, List.map_cons]
    rw [hk]
    simp only []
    rw [hk] at ih
    simp only [] at ih
    rw [ih]
    simp [List.append_assoc]

/-! ### shapes (regression guard for the repaired defect D2) -/

/-- with the samples reshaped to `x.shape`, row `i` of `sum(x * B, axis=1)` is `Σ_k x[i,k]·B[i,k]`,
    for every number of rows and features -/
theorem reshape_rowwise (x B : List (List Rat)) :
    sumAxis1 (mulBroadcast x (.mat B)) = List.zipWith (fun r br => (List.zipWith (· * ·) r br).sum) x B := by
  simp only [sumAxis1, mulBroadcast]
  induction x generalizing B with
  | nil => simp
  | cons r x ih => cases B with
    | nil => simp
    | cons br B => simp [ih]

/-- `np.squeeze` alone: with one feature and two rows the squeezed sample vector broadcasts across the
    contexts and every expectation becomes `x_i · Σ_j β_j` instead of `x_i · β_i` -/
theorem squeeze_counterexample :
    squeeze [[2], [3]] = .vec [2, 3] ∧
    sumAxis1 (mulBroadcastVec [[10], [100]] [2, 3]) = [50, 500] ∧
    sumAxis1 (mulBroadcast [[10], [100]] (.mat (reshapeRows 1 2 [2, 3]))) = [20, 300] := by
  decide +kernel

end Mab
