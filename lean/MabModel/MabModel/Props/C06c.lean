/-
  C06 (continued) — incremental = batch at the level of the whole bandit for the neighbourhood policies that store
  the history: Radius / KNearest (identical state, any chunking, with or without a Thompson binarizer) and
  LSHNearest (same hyper-planes, same stored rows, every bucket of every table holds the same positions — hence
  every later query selects the same rows and returns the same outputs).
-/
import MabModel.Props.C06b
import MabModel.Props.C11
import MabModel.Props.C07b
open Py
set_option linter.unusedSectionVars false
set_option linter.unusedVariables false
set_option linter.unusedSimpArgs false
set_option linter.unnecessarySeqFocus false

namespace Mab
variable {α : Type} [DecidableEq α]

theorem npBinarize_thompson (lp : LP α) (f : α → Rat → Rat) (hk : lp.kind = .thompson) (hb : lp.binz = some f) (b : Batch α) :
    npBinarize lp b = ({ lp with ctxBin := true }, ({ lp with ctxBin := false } : LP α).binarize b) := by
  unfold npBinarize
  rw [hk, hb]

theorem npBinarize_other (lp : LP α) (h : ¬ (lp.kind = .thompson ∧ lp.binz.isSome = true)) (b : Batch α) :
    npBinarize lp b = (lp, b) := by
  unfold npBinarize
  cases hk : lp.kind <;> try rfl
  cases hb : lp.binz with
  | none => rfl
  | some f => exact absurd ⟨hk, by rw [hb]; rfl⟩ h

/-- the binarizer of a Thompson policy is applied row by row: binarizing a concatenation is concatenating -/
theorem npBinarize_append (lp : LP α) (c₀ c₁ : Batch α) :
    (npBinarize lp (c₀ ++ c₁)).2 = (npBinarize lp c₀).2 ++ (npBinarize (npBinarize lp c₀).1 c₁).2 ∧
    (npBinarize lp (c₀ ++ c₁)).1 = (npBinarize (npBinarize lp c₀).1 c₁).1 := by
  by_cases h : lp.kind = .thompson ∧ lp.binz.isSome = true
  · obtain ⟨hk, hb⟩ := h
    obtain ⟨f, hf⟩ := Option.isSome_iff_exists.mp hb
    have hk' : ({ lp with ctxBin := true } : LP α).kind = .thompson := hk
    have hf' : ({ lp with ctxBin := true } : LP α).binz = some f := hf
    rw [npBinarize_thompson lp f hk hf, npBinarize_thompson lp f hk hf, npBinarize_thompson _ f hk' hf']
    simp [LP.binarize, hf]
  · rw [npBinarize_other lp h, npBinarize_other lp h, npBinarize_other lp h]
    simp

/-- **C06 (Radius, whole bandit).**  `fit` on a prefix followed by `partial_fit` on the rest is `fit` on everything:
    the very same state. -/
theorem radius_incremental_eq_batch (b : Bandit α) (r : Rat) (m : Metric) (pr : Option (List Rat))
    (hnp : b.np = .radius r m pr) (c₀ c₁ : Batch α) (o o' : Oracle) (g : Rng) :
    ((b.impFit c₀ o g).1.impPartialFit c₁ o' g).1 = (b.impFit (c₀ ++ c₁) o g).1 := by
  obtain ⟨h1, h2⟩ := npBinarize_append b.lp c₀ c₁
  simp only [Bandit.impFit, Bandit.impPartialFit, hnp]
  rw [h1, h2]

/-- **C06 (KNearest, whole bandit).** -/
theorem knn_incremental_eq_batch (b : Bandit α) (k : Nat) (m : Metric)
    (hnp : b.np = .knn k m) (c₀ c₁ : Batch α) (o o' : Oracle) (g : Rng) :
    ((b.impFit c₀ o g).1.impPartialFit c₁ o' g).1 = (b.impFit (c₀ ++ c₁) o g).1 := by
  obtain ⟨h1, h2⟩ := npBinarize_append b.lp c₀ c₁
  simp only [Bandit.impFit, Bandit.impPartialFit, hnp]
  rw [h1, h2]

/-- any chunking: fold of `partial_fit` over the remaining chunks -/
theorem radius_chunked_eq_batch (b : Bandit α) (r : Rat) (m : Metric) (pr : Option (List Rat))
    (hnp : b.np = .radius r m pr) (o : Oracle) (g : Rng) : ∀ (cs : List (Batch α)) (c₀ : Batch α),
    cs.foldl (fun acc c => (acc.impPartialFit c o g).1) (b.impFit c₀ o g).1 = (b.impFit (c₀ ++ cs.flatten) o g).1 := by
  intro cs
  induction cs with
  | nil => intro c₀; simp
  | cons c cs ih =>
    intro c₀
    simp only [List.foldl_cons, List.flatten_cons]
    rw [radius_incremental_eq_batch b r m pr hnp c₀ c o o g, ih (c₀ ++ c), List.append_assoc]

theorem knn_chunked_eq_batch (b : Bandit α) (k : Nat) (m : Metric)
    (hnp : b.np = .knn k m) (o : Oracle) (g : Rng) : ∀ (cs : List (Batch α)) (c₀ : Batch α),
    cs.foldl (fun acc c => (acc.impPartialFit c o g).1) (b.impFit c₀ o g).1 = (b.impFit (c₀ ++ cs.flatten) o g).1 := by
  intro cs
  induction cs with
  | nil => intro c₀; simp
  | cons c cs ih =>
    intro c₀
    simp only [List.foldl_cons, List.flatten_cons]
    rw [knn_incremental_eq_batch b k m hnp c₀ c o o g, ih (c₀ ++ c), List.append_assoc]

/-! ### LSHNearest -/

/-- the bucket invariant after `fit`, with or without a Thompson binarizer (which touches rewards only) -/
theorem lshInv_fit_any (b : Bandit α) (d t : Nat) (pr : Option (List Rat)) (hnp : b.np = .lsh d t pr)
    (batch : Batch α) (o : Oracle) (g : Rng) : (b.impFit batch o g).1.LshInv := by
  simp only [Bandit.impFit, hnp]
  cases hnb : npBinarize b.lp batch with
  | mk lp' bb =>
    simp only []
    have hlen : (drawPlanes t ((batchWidth batch).getD 0) d g).1.length = t := by
      simp only [drawPlanes]
      rw [drawPlanes_length]; simp
    constructor
    · simp [lshFitOp, hlen]
    · intro i hp ht h
      simp only [lshFitOp] at hp ht ⊢
      simp only [List.getElem_map, List.getElem_zip, List.getElem_replicate]
      rw [lshInsert_getD]
      simp [Dict.getD, Dict.get?]

theorem lshInv_partialFit_any (b : Bandit α) (d t : Nat) (pr : Option (List Rat)) (hnp : b.np = .lsh d t pr)
    (batch : Batch α) (o : Oracle) (g : Rng) (hinv : b.LshInv) : (b.impPartialFit batch o g).1.LshInv := by
  obtain ⟨hl, hb⟩ := hinv
  simp only [Bandit.impPartialFit, hnp]
  cases hnb : npBinarize b.lp batch with
  | mk lp' bb =>
    simp only []
    constructor
    · simp [lshFitOp, hl]
    · intro i hp ht h
      simp only [lshFitOp] at hp ht ⊢
      simp only [List.getElem_map, List.getElem_zip]
      rw [lshInsert_getD]
      have hp' : i < b.planes.length := by simpa using hp
      have ht' : i < b.tables.length := by rw [← hl]; exact hp'
      rw [hb i hp' ht' h, List.map_append, hashIdx_append]
      simp

/-- two LSH bandits that agree on everything except the representation of the tables, both satisfying the bucket
    invariant: every bucket of every table holds the same positions -/
structure LshSame (b b' : Bandit α) : Prop where
  same : b' = { b with tables := b'.tables }
  inv : b.LshInv
  inv' : b'.LshInv

theorem lshSame_buckets (b b' : Bandit α) (h : LshSame b b') :
    (List.zip b'.planes b'.tables).map (fun pt => (pt.1, fun hh => pt.2.getD hh [])) =
      (List.zip b.planes b.tables).map (fun pt => (pt.1, fun hh => pt.2.getD hh [])) := by
  have hpl : b'.planes = b.planes := by rw [h.same]
  have hhist : b'.hist = b.hist := by rw [h.same]
  obtain ⟨l1, i1⟩ := h.inv
  obtain ⟨l2, i2⟩ := h.inv'
  apply List.ext_getElem
  · simp [hpl, ← l1, ← l2]
  · intro n h1 h2
    simp only [List.getElem_map, List.getElem_zip]
    have hp : n < b.planes.length := by simp at h2; omega
    have ht : n < b.tables.length := by simp at h2; omega
    have hp' : n < b'.planes.length := by simp at h1; omega
    have ht' : n < b'.tables.length := by simp at h1; omega
    refine Prod.ext ?_ ?_
    · simp only [hpl]
    · funext hh
      simp only []
      rw [i1 n hp ht hh, i2 n hp' ht' hh]
      simp only [hpl, hhist]

/-- … hence every query selects the very same rows, in the same order -/
theorem lshSame_selectIdx (b b' : Bandit α) (h : LshSame b b') (d t : Nat) (pr : Option (List Rat))
    (hnp : b.np = .lsh d t pr) (q : Vec) (ds : List Rat) (ks : List Nat) : b'.selectIdx q ds ks = b.selectIdx q ds ks := by
  have hnp' : b'.np = .lsh d t pr := by rw [h.same]; exact hnp
  simp only [Bandit.selectIdx, hnp, hnp']
  have hb := lshSame_buckets b b' h
  have key : ∀ (l : List (Mat × (Nat → List Nat))) (acc : List Nat),
      l.foldl (fun acc pt => acc ++ pt.2 (contextHash pt.1 q)) acc = l.foldl (fun acc pt => acc ++ pt.2 (contextHash pt.1 q)) acc := fun _ _ => rfl
  have e1 : ∀ (z : List (Mat × Dict Nat (List Nat))) (acc : List Nat),
      z.foldl (fun acc pt => acc ++ pt.2.getD (contextHash pt.1 q) []) acc =
        (z.map (fun pt => (pt.1, fun hh => pt.2.getD hh []))).foldl (fun acc (pt : Mat × (Nat → List Nat)) => acc ++ pt.2 (contextHash pt.1 q)) acc := by
    intro z
    induction z with
    | nil => intro acc; rfl
    | cons x z ih => intro acc; simp only [List.foldl_cons, List.map_cons]; exact ih _
  rw [e1, e1, hb]

theorem lshSame_nhoodRow (le : Expect → Expect → Bool) (b b' : Bandit α) (h : LshSame b b') (d t : Nat) (pr : Option (List Rat))
    (hnp : b.np = .lsh d t pr) (isPredict : Bool) (lp : LP α) (i : Nat) (q : Vec) (ds : List Rat) (ks : List Nat) (g : Rng) :
    b'.nhoodRow le isPredict lp i q ds ks g = b.nhoodRow le isPredict lp i q ds ks g := by
  have hs := lshSame_selectIdx b b' h d t pr hnp q ds ks
  have hhist : b'.hist = b.hist := by rw [h.same]
  have harms : b'.arms = b.arms := by rw [h.same]
  have hexp : b'.npExp = b.npExp := by rw [h.same]
  have hnn : b'.np = b.np := by rw [h.same]
  unfold Bandit.nhoodRow
  simp only [hs, hhist, harms, hexp, hnn]

/-- **C06 (LSHNearest, queries).**  Bandits that agree up to the representation of the tables answer every query
    alike: same outputs, same sampler requests. -/
theorem lshSame_impPredict (le : Expect → Expect → Bool) (b b' : Bandit α) (h : LshSame b b') (d t : Nat) (pr : Option (List Rat))
    (hnp : b.np = .lsh d t pr) (isPredict : Bool) (mm : Option Nat) (qs : List Vec) (o : Oracle) (g : Rng) :
    (b'.impPredict le isPredict mm qs o g).2 = (b.impPredict le isPredict mm qs o g).2 := by
  have hnp' : b'.np = .lsh d t pr := by rw [h.same]; exact hnp
  have hlp : b'.lp = b.lp := by rw [h.same]
  unfold Bandit.impPredict Bandit.parallelPredict Bandit.predictChunk
  simp only [hnp, hnp', hlp, lshSame_nhoodRow le b b' h d t pr hnp]

/-- **C06 (LSHNearest, whole bandit).**  `fit` on a non-empty prefix followed by `partial_fit` on the rest stores the
    same rows, draws the same hyper-planes and fills every bucket of every table with the same positions as one `fit`
    on everything (with or without a Thompson binarizer). -/
theorem lsh_incremental_eq_batch (b : Bandit α) (d t : Nat) (pr : Option (List Rat)) (hnp : b.np = .lsh d t pr)
    (c₀ c₁ : Batch α) (hne : c₀ ≠ []) (o o' : Oracle) (g : Rng) :
    LshSame (b.impFit (c₀ ++ c₁) o g).1 ((b.impFit c₀ o g).1.impPartialFit c₁ o' g).1 := by
  have hnp1 : (b.impFit c₀ o g).1.np = .lsh d t pr := by
    simp only [Bandit.impFit, hnp, lshFitOp]
  have i0 := lshInv_fit_any b d t pr hnp c₀ o g
  have i1 := lshInv_partialFit_any (b.impFit c₀ o g).1 d t pr hnp1 c₁ o' g i0
  have i2 := lshInv_fit_any b d t pr hnp (c₀ ++ c₁) o g
  obtain ⟨h1, h2⟩ := npBinarize_append b.lp c₀ c₁
  have hw : batchWidth (c₀ ++ c₁) = batchWidth c₀ := by
    cases c₀ with
    | nil => exact absurd rfl hne
    | cons r c => rfl
  refine ⟨?_, i2, i1⟩
  simp only [Bandit.impFit, Bandit.impPartialFit, hnp, lshFitOp, hw]
  rw [h1, h2]

/-- … so every later query coincides -/
theorem lsh_incremental_queries (le : Expect → Expect → Bool) (b : Bandit α) (d t : Nat) (pr : Option (List Rat))
    (hnp : b.np = .lsh d t pr) (c₀ c₁ : Batch α) (hne : c₀ ≠ []) (o o' : Oracle) (g : Rng)
    (isPredict : Bool) (mm : Option Nat) (qs : List Vec) (oq : Oracle) (gq : Rng) :
    (((b.impFit c₀ o g).1.impPartialFit c₁ o' g).1.impPredict le isPredict mm qs oq gq).2 =
      ((b.impFit (c₀ ++ c₁) o g).1.impPredict le isPredict mm qs oq gq).2 := by
  have h := lsh_incremental_eq_batch b d t pr hnp c₀ c₁ hne o o' g
  have hnp2 : (b.impFit (c₀ ++ c₁) o g).1.np = .lsh d t pr := by simp only [Bandit.impFit, hnp, lshFitOp]
  exact lshSame_impPredict le _ _ h d t pr hnp2 isPredict mm qs oq gq

theorem LshSame.trans {a b c : Bandit α} (h1 : LshSame a b) (h2 : LshSame b c) : LshSame a c :=
  ⟨by rw [h2.same]; rw [h1.same], h1.inv, h2.inv'⟩

theorem lshSame_partialFit (b b' : Bandit α) (h : LshSame b b') (d t : Nat) (pr : Option (List Rat)) (hnp : b.np = .lsh d t pr)
    (c : Batch α) (o o' : Oracle) (g : Rng) : LshSame (b.impPartialFit c o g).1 (b'.impPartialFit c o' g).1 := by
  have hnp' : b'.np = .lsh d t pr := by rw [h.same]; exact hnp
  have hlp : b'.lp = b.lp := by rw [h.same]
  have hhist : b'.hist = b.hist := by rw [h.same]
  refine ⟨?_, lshInv_partialFit_any b d t pr hnp c o g h.inv, lshInv_partialFit_any b' d t pr hnp' c o' g h.inv'⟩
  simp only [Bandit.impPartialFit, hnp, hnp', hlp, hhist, lshFitOp]
  rw [h.same]

theorem lsh_partialFit_np (b : Bandit α) (d t : Nat) (pr : Option (List Rat)) (hnp : b.np = .lsh d t pr) (c : Batch α)
    (o : Oracle) (g : Rng) : (b.impPartialFit c o g).1.np = .lsh d t pr := by
  simp only [Bandit.impPartialFit, hnp, lshFitOp]

/-- **C06 (LSHNearest, any chunking).**  `fit` on a non-empty first chunk followed by `partial_fit` on the remaining
    chunks agrees with one `fit` on all rows up to the representation of the tables — and therefore on every query. -/
theorem lsh_chunked_eq_batch (b : Bandit α) (d t : Nat) (pr : Option (List Rat)) (hnp : b.np = .lsh d t pr) (o : Oracle) (g : Rng) :
    ∀ (cs : List (Batch α)) (c₀ : Batch α), c₀ ≠ [] →
      LshSame (b.impFit (c₀ ++ cs.flatten) o g).1 (cs.foldl (fun acc c => (acc.impPartialFit c o g).1) (b.impFit c₀ o g).1) := by
  intro cs
  induction cs with
  | nil =>
    intro c₀ _
    simp only [List.flatten_nil, List.append_nil, List.foldl_nil]
    exact ⟨rfl, lshInv_fit_any b d t pr hnp c₀ o g, lshInv_fit_any b d t pr hnp c₀ o g⟩
  | cons c cs ih =>
    intro c₀ hne
    simp only [List.foldl_cons, List.flatten_cons]
    have h1 := lsh_incremental_eq_batch b d t pr hnp c₀ c hne o o g
    have hne' : c₀ ++ c ≠ [] := by simp [hne]
    have h2 := ih (c₀ ++ c) hne'
    rw [List.append_assoc] at h2
    refine h2.trans ?_
    have hnp2 : (b.impFit (c₀ ++ c) o g).1.np = .lsh d t pr := by simp only [Bandit.impFit, hnp, lshFitOp]
    have key : ∀ (l : List (Batch α)) (x y : Bandit α), LshSame x y → x.np = .lsh d t pr →
        LshSame (l.foldl (fun acc c => (acc.impPartialFit c o g).1) x) (l.foldl (fun acc c => (acc.impPartialFit c o g).1) y) := by
      intro l
      induction l with
      | nil => intro x y hxy _; exact hxy
      | cons e l ihl =>
        intro x y hxy hx
        simp only [List.foldl_cons]
        exact ihl _ _ (lshSame_partialFit x y hxy d t pr hx e o o g) (lsh_partialFit_np x d t pr hx e o g)
    exact key cs _ _ h1 hnp2

/-! ### Clusters -/

/-- no policy of the bandit carries a Thompson binarizer (then `npBinarize` is the identity) -/
def NoTsBinz (b : Bandit α) : Prop := ∀ l ∈ b.lp :: b.lps, ¬ (l.kind = .thompson ∧ l.binz.isSome = true)

theorem headD_mem (l : List (LP α)) (d : LP α) : l.headD d ∈ d :: l := by
  cases l <;> simp

theorem forall₂_mem_left {R : LP α → LP α → Prop} {l l' : List (LP α)} (h : List.Forall₂ R l l') :
    ∀ x ∈ l, ∃ y ∈ l', R x y := by
  induction h with
  | nil => intro x hx; simp at hx
  | cons h1 _ ih =>
    intro x hx
    rcases List.mem_cons.mp hx with e | hx
    · exact ⟨_, List.mem_cons_self, e ▸ h1⟩
    · obtain ⟨y, hy, r⟩ := ih x hx
      exact ⟨y, List.mem_cons_of_mem _ hy, r⟩

/-- `_Clusters.partial_fit` *is* a `fit` on the accumulated history (k-means and every cluster policy are refit) -/
theorem clusters_partialFit_is_fit (b : Bandit α) (n : Nat) (hnp : b.np = .clusters n) (hb : NoTsBinz b) (c : Batch α)
    (o : Oracle) (g : Rng) : b.impPartialFit c o g = b.impFit (b.hist ++ c) o g := by
  have h1 : ∀ x : Batch α, npBinarize (b.lps.headD b.lp) x = (b.lps.headD b.lp, x) :=
    fun x => npBinarize_other _ (hb _ (headD_mem b.lps b.lp)) x
  simp only [Bandit.impPartialFit, Bandit.impFit, hnp, h1]

/-- **C06 (Clusters, whole bandit).**  `fit` on a prefix followed by `partial_fit` on the rest (k-means giving the
    labels `o.labels` for the whole history) leaves the same history, the same labels and, cluster by cluster, the
    same policy state as one `fit` on everything — identical for every policy but Thompson Sampling, where the states
    agree up to the remembered last draw. -/
theorem clusters_incremental_eq_batch (b : Bandit α) (n : Nat) (hnp : b.np = .clusters n) (hb : NoTsBinz b)
    (hrs : ∀ l ∈ b.lps, l.kind ≠ .random) (hflag : ∀ l ∈ b.lps, l.ctxBin = (b.lps.headD b.lp).ctxBin)
    (c₀ c₁ : Batch α) (hne : c₀ ≠ []) (o₀ o : Oracle) (g : Rng) :
    ((b.impFit c₀ o₀ g).1.impPartialFit c₁ o g).1.hist = (b.impFit (c₀ ++ c₁) o g).1.hist ∧
    ((b.impFit c₀ o₀ g).1.impPartialFit c₁ o g).1.labels = (b.impFit (c₀ ++ c₁) o g).1.labels ∧
    List.Forall₂ (fun x y => x.norm = y.norm) ((b.impFit c₀ o₀ g).1.impPartialFit c₁ o g).1.lps
      (b.impFit (c₀ ++ c₁) o g).1.lps := by
  have h1 : ∀ x : Batch α, npBinarize (b.lps.headD b.lp) x = (b.lps.headD b.lp, x) :=
    fun x => npBinarize_other _ (hb _ (headD_mem b.lps b.lp)) x
  -- the bandit after the first `fit`: same configuration as `b`, history = the first chunk
  have hhist : (b.impFit c₀ o₀ g).1.hist = c₀ := by simp only [Bandit.impFit, hnp, h1, clustersFitOp]
  have hnp1 : (b.impFit c₀ o₀ g).1.np = .clusters n := by simp only [Bandit.impFit, hnp, clustersFitOp]
  have hlp1 : (b.impFit c₀ o₀ g).1.lp = b.lp := by simp only [Bandit.impFit, hnp, clustersFitOp]
  have hlps1 : List.Forall₂ SameCfg (b.impFit c₀ o₀ g).1.lps b.lps := by
    simp only [Bandit.impFit, hnp, h1, clustersFitOp]
    have : ∀ (l : List (LP α)) (k : Nat), (∀ x ∈ l, x.ctxBin = (b.lps.headD b.lp).ctxBin) → List.Forall₂ SameCfg
        ((l.map fun x => ({ x with ctxBin := (b.lps.headD b.lp).ctxBin } : LP α)).zipIdx k |>.map fun (p : LP α × Nat) =>
          p.1.fit ((List.zip c₀ o₀.labels).filterMap fun rl => if rl.2 = p.2 then some rl.1 else none) (batchWidth c₀)) l := by
      intro l
      induction l with
      | nil => intro k _; exact List.Forall₂.nil
      | cons x l ih =>
        intro k hx
        simp only [List.map_cons, List.zipIdx_cons]
        refine List.Forall₂.cons ?_ (ih _ (fun y hy => hx y (List.mem_cons_of_mem _ hy)))
        refine (SameCfg.symm (fit_sameCfg _ _ _)).trans ⟨rfl, rfl, rfl, rfl, ?_, rfl, fun _ => rfl⟩
        exact (hx x List.mem_cons_self).symm
    exact this b.lps 0 hflag
  -- the second call is a `fit` of that bandit on the whole history …
  have hb1 : NoTsBinz (b.impFit c₀ o₀ g).1 := by
    intro l hl
    rw [hlp1] at hl
    rcases List.mem_cons.mp hl with e | hl
    · rw [e]; exact hb _ List.mem_cons_self
    · obtain ⟨y, hy, c⟩ := forall₂_mem_left hlps1 l hl
      rw [c.kind, c.binz]
      exact hb y (List.mem_cons_of_mem _ hy)
  have hrs1 : ∀ l ∈ (b.impFit c₀ o₀ g).1.lps, l.kind ≠ .random := by
    intro l hl
    obtain ⟨y, hy, c⟩ := forall₂_mem_left hlps1 l hl
    rw [c.kind]; exact hrs y hy
  rw [clusters_partialFit_is_fit _ n hnp1 hb1 c₁ o g, hhist]
  -- … and `fit` forgets what the cluster policies had learned from the first chunk
  have hsame : BSame (b.impFit c₀ o₀ g).1 b :=
    ⟨by rw [hnp1, hnp], by simp only [Bandit.impFit, hnp, clustersFitOp], by rw [hlp1]; exact SameCfg.refl _, hlps1,
     by simp only [Bandit.impFit, hnp, clustersFitOp]⟩
  obtain ⟨_, e2, e3, e4⟩ := impFit_clusters_congr (b.impFit c₀ o₀ g).1 b (c₀ ++ c₁) o g hsame n hnp1 hrs1
  exact ⟨e2, e3, e4⟩

/-- the hypotheses hold for a freshly constructed bandit: all cluster policies are copies of one policy -/
theorem clusters_init_flags (arms : List α) (kind : Kind) (n : Nat) (bz : Option (α → Rat → Rat)) (k1 : Bool) :
    ∀ l ∈ (Bandit.init arms kind (.clusters n) bz k1).lps,
      l.ctxBin = ((Bandit.init arms kind (.clusters n) bz k1).lps.headD (Bandit.init arms kind (.clusters n) bz k1).lp).ctxBin := by
  intro l hl
  simp only [Bandit.init, List.mem_replicate] at hl
  rw [hl.2]
  cases n <;> rfl

/-- same configuration as the reference bandit `b0` ⇒ the side conditions carry over -/
theorem noTsBinz_of_bsame (b b0 : Bandit α) (h : BSame b b0) (hb0 : NoTsBinz b0) : NoTsBinz b := by
  intro l hl
  rcases List.mem_cons.mp hl with e | hl
  · rw [e, h.lp.kind, h.lp.binz]; exact hb0 _ List.mem_cons_self
  · obtain ⟨y, hy, c⟩ := forall₂_mem_left h.lps l hl
    rw [c.kind, c.binz]
    exact hb0 y (List.mem_cons_of_mem _ hy)

theorem notRandom_of_bsame (b b0 : Bandit α) (h : BSame b b0) (hrs : ∀ l ∈ b0.lps, l.kind ≠ .random) :
    ∀ l ∈ b.lps, l.kind ≠ .random := by
  intro l hl
  obtain ⟨y, hy, c⟩ := forall₂_mem_left h.lps l hl
  rw [c.kind]; exact hrs y hy

/-- a `fit` of any Clusters bandit with the configuration of `b0` leaves a bandit with the configuration of `b0`
    whose history is the new data -/
theorem clusters_fit_keeps (b b0 : Bandit α) (n : Nat) (hnp : b.np = .clusters n) (hsame : BSame b b0)
    (hb0 : NoTsBinz b0) (hflag : ∀ l ∈ b0.lps, l.ctxBin = (b0.lps.headD b0.lp).ctxBin) (x : Batch α) (o : Oracle) (g : Rng) :
    BSame (b.impFit x o g).1 b0 ∧ (b.impFit x o g).1.hist = x ∧ (b.impFit x o g).1.np = .clusters n := by
  have hb := noTsBinz_of_bsame b b0 hsame hb0
  have h1 : ∀ y : Batch α, npBinarize (b.lps.headD b.lp) y = (b.lps.headD b.lp, y) :=
    fun y => npBinarize_other _ (hb _ (headD_mem b.lps b.lp)) y
  have hhead : SameCfg (b.lps.headD b.lp) (b0.lps.headD b0.lp) := forall₂_head _ _ _ _ hsame.lps hsame.lp
  refine ⟨⟨?_, ?_, ?_, ?_, ?_⟩, ?_, ?_⟩
  · simp only [Bandit.impFit, hnp, clustersFitOp]; rw [← hnp]; exact hsame.np
  · simp only [Bandit.impFit, hnp, clustersFitOp]; exact hsame.arms
  · simp only [Bandit.impFit, hnp, clustersFitOp]; exact hsame.lp
  · simp only [Bandit.impFit, hnp, h1, clustersFitOp]
    have : ∀ (l l' : List (LP α)) (k : Nat), List.Forall₂ SameCfg l l' → (∀ y ∈ l', y.ctxBin = (b0.lps.headD b0.lp).ctxBin) →
        List.Forall₂ SameCfg
          ((l.map fun z => ({ z with ctxBin := (b.lps.headD b.lp).ctxBin } : LP α)).zipIdx k |>.map fun (p : LP α × Nat) =>
            p.1.fit ((List.zip x o.labels).filterMap fun rl => if rl.2 = p.2 then some rl.1 else none) (batchWidth x)) l' := by
      intro l l' k hl
      induction hl generalizing k with
      | nil => intro _; exact List.Forall₂.nil
      | cons hxy _ ih =>
        intro hf
        simp only [List.map_cons, List.zipIdx_cons]
        refine List.Forall₂.cons ?_ (ih _ (fun y hy => hf y (List.mem_cons_of_mem _ hy)))
        refine (SameCfg.symm (fit_sameCfg _ _ _)).trans ⟨hxy.kind, hxy.arms, hxy.keys, hxy.binz, ?_, hxy.k1, hxy.nf⟩
        rw [hhead.ctxBin]; exact (hf _ List.mem_cons_self).symm
    exact this b.lps b0.lps 0 hsame.lps hflag
  · simp only [Bandit.impFit, hnp, clustersFitOp]; exact hsame.npExp
  · simp only [Bandit.impFit, hnp, h1, clustersFitOp]
  · simp only [Bandit.impFit, hnp, clustersFitOp]

/-- **C06 (Clusters, any chunking).**  `fit` on the first chunk and `partial_fit` on every further chunk: the stored
    history is the concatenation, and the last call leaves, cluster by cluster, the policy states a single `fit` on
    everything leaves (k-means giving the same labels for the whole history) — up to the last Thompson draw. -/
theorem clusters_chunked_eq_batch (b : Bandit α) (n : Nat) (hnp : b.np = .clusters n) (hb : NoTsBinz b)
    (hrs : ∀ l ∈ b.lps, l.kind ≠ .random) (hflag : ∀ l ∈ b.lps, l.ctxBin = (b.lps.headD b.lp).ctxBin)
    (o₀ o : Oracle) (g : Rng) (c₀ : Batch α) (init : List (Batch α)) (last : Batch α) :
    let bk := init.foldl (fun acc c => (acc.impPartialFit c o₀ g).1) (b.impFit c₀ o₀ g).1
    (bk.impPartialFit last o g).1.hist = (b.impFit (c₀ ++ init.flatten ++ last) o g).1.hist ∧
    (bk.impPartialFit last o g).1.labels = (b.impFit (c₀ ++ init.flatten ++ last) o g).1.labels ∧
    List.Forall₂ (fun x y => x.norm = y.norm) (bk.impPartialFit last o g).1.lps
      (b.impFit (c₀ ++ init.flatten ++ last) o g).1.lps := by
  intro bk
  have bself : BSame b b := ⟨rfl, rfl, SameCfg.refl _, by
    have : ∀ l : List (LP α), List.Forall₂ SameCfg l l := by
      intro l; induction l with
      | nil => exact List.Forall₂.nil
      | cons x l ih => exact List.Forall₂.cons (SameCfg.refl x) ih
    exact this b.lps, rfl⟩
  -- invariant along the chunks: configuration of `b`, history = everything received so far
  have key : ∀ (l : List (Batch α)) (x : Bandit α) (hx : Batch α), BSame x b → x.np = .clusters n → x.hist = hx →
      BSame (l.foldl (fun acc c => (acc.impPartialFit c o₀ g).1) x) b ∧
      (l.foldl (fun acc c => (acc.impPartialFit c o₀ g).1) x).np = .clusters n ∧
      (l.foldl (fun acc c => (acc.impPartialFit c o₀ g).1) x).hist = hx ++ l.flatten := by
    intro l
    induction l with
    | nil => intro x hx h1 h2 h3; simp [h1, h2, h3]
    | cons c l ih =>
      intro x hx h1 h2 h3
      simp only [List.foldl_cons, List.flatten_cons]
      have hbx := noTsBinz_of_bsame x b h1 hb
      rw [clusters_partialFit_is_fit x n h2 hbx c o₀ g, h3]
      obtain ⟨k1, k2, k3⟩ := clusters_fit_keeps x b n h2 h1 hb hflag (hx ++ c) o₀ g
      have := ih _ (hx ++ c) k1 k3 k2
      rw [List.append_assoc] at this
      exact this
  obtain ⟨f1, f2, f3⟩ := clusters_fit_keeps b b n hnp bself hb hflag c₀ o₀ g
  obtain ⟨s1, s2, s3⟩ := key init _ c₀ f1 f3 f2
  have hbk := noTsBinz_of_bsame bk b s1 hb
  rw [clusters_partialFit_is_fit bk n s2 hbk last o g, s3]
  obtain ⟨_, e2, e3, e4⟩ := impFit_clusters_congr bk b (c₀ ++ init.flatten ++ last) o g s1 n s2 (notRandom_of_bsame bk b s1 hrs)
  exact ⟨e2, e3, e4⟩

end Mab
