/-
  C11 — LSHNearest neighbourhoods are the sign-random-projection collisions.
-/
import MabModel.Core.Facade
import Mathlib.Algebra.Order.Field.Basic
import Mathlib.Algebra.Order.Ring.Rat
import Mathlib.Tactic.Ring
import Mathlib.Tactic.Tauto
open Py
set_option linter.unusedSectionVars false
set_option linter.unusedVariables false
set_option linter.unusedSimpArgs false

namespace Mab
variable {α : Type} [DecidableEq α]

theorem sum_map_mul_left (c : Rat) (l : List Rat) : (l.map (c * ·)).sum = c * l.sum := by
  induction l with
  | nil => simp
  | cons x xs ih => simp [List.sum_cons, ih, mul_add]

theorem zipWith_scale (c : Rat) (j : Nat) : ∀ (x : Vec) (A : Mat),
    List.zipWith (fun xi row => xi * row.getD j 0) (vsmul c x) A =
      (List.zipWith (fun xi row => xi * row.getD j 0) x A).map (c * ·) := by
  intro x
  induction x with
  | nil => intro A; simp [vsmul]
  | cons a x ih =>
    intro A
    cases A with
    | nil => simp [vsmul]
    | cons r A =>
      simp only [vsmul, List.map_cons, List.zipWith_cons_cons, List.cons.injEq]
      exact ⟨by ring, ih A⟩

/-- the projection of a scaled row is the scaled projection -/
theorem vecMul_scale (c : Rat) (x : Vec) (A : Mat) : vecMul (vsmul c x) A = vsmul c (vecMul x A) := by
  cases A with
  | nil => simp [vecMul, vsmul]
  | cons r A =>
    simp only [vecMul, vsmul, List.map_map]
    apply List.map_congr_left
    intro j _
    have := zipWith_scale c j x (r :: A)
    simp only [vsmul] at this
    simp only [Function.comp]
    rw [this, sum_map_mul_left]

/-- **C11 (scale invariance).**  Multiplying a context by any `c > 0` changes no projection sign and
    therefore no hash code, in any table: a positive multiple of a stored context always collides
    with it. -/
theorem hash_scale_invariant (plane : Mat) (x : Vec) (c : Rat) (hc : 0 < c) :
    contextHash plane (vsmul c x) = contextHash plane x := by
  simp only [contextHash, vecMul_scale]
  congr 1
  simp only [vsmul]
  rw [List.zipIdx_map, List.map_map]
  apply List.map_congr_left
  intro p _
  simp only [Function.comp, Prod.map]
  have : (0 < c * p.1) ↔ (0 < p.1) := by
    constructor
    · intro h
      by_contra hn
      have : p.1 ≤ 0 := not_lt.mp hn
      have := mul_nonpos_of_nonneg_of_nonpos (le_of_lt hc) this
      exact absurd h (not_lt.mpr this)
    · intro h; exact mul_pos hc h
  simp [this]

/-- a row whose projections are all zero (e.g. the zero vector) hashes to 0 in every table, the same
    on the stored and on the query side -/
theorem hash_zero_projection (plane : Mat) (x : Vec) (h : ∀ p ∈ vecMul x plane, p = 0) :
    contextHash plane x = 0 := by
  simp only [contextHash]
  have hz : ∀ l : List Nat, (∀ n ∈ l, n = 0) → l.sum = 0 := by
    intro l; induction l with
    | nil => intro _; rfl
    | cons y ys ih => intro hl; simp [List.sum_cons, hl y (by simp), ih (fun n hn => hl n (List.mem_cons_of_mem _ hn))]
  apply hz
  intro n hn
  simp only [List.mem_map] at hn
  obtain ⟨p, hp, rfl⟩ := hn
  have hm : p.1 ∈ vecMul x plane := by
    have := List.mem_zipIdx_iff_getElem?.mp hp
    exact List.mem_of_getElem? this
  simp [h p.1 hm]

/-- the planes are drawn at `fit` and only there: `partial_fit` hashes with the same planes -/
theorem planes_fixed_at_fit (b : Bandit α) (d t : Nat) (pr : Option (List Rat)) (hnp : b.np = .lsh d t pr)
    (batch : Batch α) (o : Oracle) (g : Rng) :
    (b.impPartialFit batch o g).1.planes = b.planes ∧ (b.impPartialFit batch o g).2 = g := by
  simp [Bandit.impPartialFit, hnp, lshFitOp]

/-- rows added by `partial_fit` are appended to the stored history, so their positions are offset by
    the number of rows stored before -/
theorem lsh_partial_hist (b : Bandit α) (d t : Nat) (pr : Option (List Rat)) (hnp : b.np = .lsh d t pr)
    (hbz : b.lp.binz = none) (batch : Batch α) (o : Oracle) (g : Rng) :
    (b.impPartialFit batch o g).1.hist = b.hist ++ batch := by
  simp [Bandit.impPartialFit, hnp, lshFitOp, npBinarize, hbz]

/-- the neighbourhood of a query is the de-duplicated union, over the tables, of the buckets of the
    query's hash codes -/
theorem lsh_nhood_union (b : Bandit α) (d t : Nat) (pr : Option (List Rat)) (hnp : b.np = .lsh d t pr)
    (q : Vec) (ds : List Rat) (ks : List Nat) (i : Nat) :
    i ∈ (b.selectIdx q ds ks).1 ↔
      ∃ pt ∈ List.zip b.planes b.tables, i ∈ pt.2.getD (contextHash pt.1 q) [] := by
  simp only [Bandit.selectIdx, hnp]
  have dedup : ∀ (l : List Nat) (acc : List Nat),
      i ∈ l.foldl (fun acc j => if j ∈ acc then acc else acc ++ [j]) acc ↔ i ∈ acc ∨ i ∈ l := by
    intro l
    induction l with
    | nil => intro acc; simp
    | cons x l ih =>
      intro acc
      simp only [List.foldl_cons]
      rw [ih]
      by_cases hx : x ∈ acc
      · simp only [hx, if_true, List.mem_cons]
        constructor
        · rintro (h | h)
          · exact Or.inl h
          · exact Or.inr (Or.inr h)
        · rintro (h | h | h)
          · exact Or.inl h
          · subst h; exact Or.inl hx
          · exact Or.inr h
      · simp only [hx, if_false, List.mem_append, List.mem_singleton, List.mem_cons, List.not_mem_nil, or_false]
        tauto
  rw [dedup]
  simp only [List.not_mem_nil, false_or]
  have union : ∀ (l : List (Mat × Dict Nat (List Nat))) (acc : List Nat),
      i ∈ l.foldl (fun acc pt => acc ++ pt.2.getD (contextHash pt.1 q) []) acc ↔
        i ∈ acc ∨ ∃ pt ∈ l, i ∈ pt.2.getD (contextHash pt.1 q) [] := by
    intro l
    induction l with
    | nil => intro acc; simp
    | cons x l ih =>
      intro acc
      simp only [List.foldl_cons]
      rw [ih]
      simp only [List.mem_append, List.mem_cons, exists_eq_or_imp]
      tauto
  rw [union]
  simp


end Mab

namespace Mab
variable {α : Type} [DecidableEq α]

/-! ### bucket contents: exactly the positions of the rows with that hash code -/

/-- positions (offset by `start`) of the rows of `ctxs` whose hash under `plane` is `h`, ascending -/
def hashIdx (plane : Mat) (ctxs : List Vec) (start : Nat) (h : Nat) : List Nat :=
  (ctxs.map (contextHash plane)).zipIdx.filterMap fun (p : Nat × Nat) => if p.1 = h then some (p.2 + start) else none

theorem getD_set_eq {κ ν : Type} [DecidableEq κ] (d : Dict κ ν) (k : κ) (v dflt : ν) : (d.set k v).getD k dflt = v := by
  simp [Dict.getD, Dict.get?_set_eq]

theorem getD_set_ne {κ ν : Type} [DecidableEq κ] (d : Dict κ ν) (k k' : κ) (v dflt : ν) (h : k' ≠ k) :
    (d.set k v).getD k' dflt = d.getD k' dflt := by
  simp [Dict.getD, Dict.get?_set_ne _ _ _ _ h]

theorem fold_buckets (idx : Nat → List Nat) (h : Nat) : ∀ (ks : List Nat), ks.Nodup → ∀ (t : Dict Nat (List Nat)),
    (ks.foldl (fun t k => t.set k (t.getD k [] ++ idx k)) t).getD h [] =
      t.getD h [] ++ (if h ∈ ks then idx h else []) := by
  intro ks
  induction ks with
  | nil => intro _ t; simp
  | cons k ks ih =>
    intro hnd t
    have hk : k ∉ ks := (List.nodup_cons.mp hnd).1
    simp only [List.foldl_cons]
    rw [ih (List.nodup_cons.mp hnd).2]
    by_cases hh : h = k
    · subst hh
      simp [getD_set_eq, hk]
    · rw [getD_set_ne _ _ _ _ _ hh]
      have : (h ∈ k :: ks) ↔ (h ∈ ks) := by simp [hh]
      simp [this]

theorem dedup_spec : ∀ (hs acc : List Nat), acc.Nodup →
    (hs.foldl (fun acc h => if h ∈ acc then acc else acc ++ [h]) acc).Nodup ∧
    ∀ x, x ∈ hs.foldl (fun acc h => if h ∈ acc then acc else acc ++ [h]) acc ↔ x ∈ acc ∨ x ∈ hs := by
  intro hs
  induction hs with
  | nil => intro acc h; simp [h]
  | cons y ys ih =>
    intro acc hacc
    simp only [List.foldl_cons]
    by_cases hy : y ∈ acc
    · simp only [hy, if_true]
      obtain ⟨i1, i2⟩ := ih acc hacc
      refine ⟨i1, ?_⟩
      intro x; rw [i2 x]; simp only [List.mem_cons]
      constructor
      · rintro (h | h); exact Or.inl h; exact Or.inr (Or.inr h)
      · rintro (h | h | h); exact Or.inl h; subst h; exact Or.inl hy; exact Or.inr h
    · simp only [hy, if_false]
      have hn : (acc ++ [y]).Nodup := List.nodup_append.mpr ⟨hacc, by simp, by
        intro a ha b hb; simp at hb; subst hb; intro e; subst e; exact hy ha⟩
      obtain ⟨i1, i2⟩ := ih (acc ++ [y]) hn
      refine ⟨i1, ?_⟩
      intro x; rw [i2 x]; simp only [List.mem_append, List.mem_singleton, List.mem_cons]
      tauto

theorem hashIdx_nil_of_not_mem (plane : Mat) (ctxs : List Vec) (start h : Nat)
    (hn : h ∉ ctxs.map (contextHash plane)) : hashIdx plane ctxs start h = [] := by
  simp only [hashIdx, List.filterMap_eq_nil_iff]
  intro p hp
  have := List.mem_zipIdx_iff_getElem?.mp hp
  have hm : p.1 ∈ ctxs.map (contextHash plane) := List.mem_of_getElem? this
  have : p.1 ≠ h := fun e => hn (e ▸ hm)
  simp [this]

/-- **C11 (buckets).**  After hashing the rows `ctxs` into a table, the bucket of every hash code `h` is
    the old bucket followed by exactly the positions (offset by the number of rows stored before) of
    the new rows whose code is `h`, in row order. -/
theorem lshInsert_getD (plane : Mat) (table : Dict Nat (List Nat)) (ctxs : List Vec) (start h : Nat) :
    (lshInsert plane table ctxs start).getD h [] = table.getD h [] ++ hashIdx plane ctxs start h := by
  simp only [lshInsert]
  obtain ⟨hnd, hmem⟩ := dedup_spec (ctxs.map (contextHash plane)) [] (by simp)
  have hnd' : (((ctxs.map (contextHash plane)).foldl (fun acc h => if h ∈ acc then acc else acc ++ [h]) []).mergeSort (· ≤ ·)).Nodup :=
    (List.mergeSort_perm _ _).nodup_iff.mpr hnd
  have := fold_buckets (fun k => hashIdx plane ctxs start k) h _ hnd' table
  simp only [hashIdx] at this ⊢
  rw [this]
  congr 1
  split
  · rfl
  · next hno =>
    have hno' : h ∉ ctxs.map (contextHash plane) := by
      intro hin
      apply hno
      rw [List.mem_mergeSort, hmem]
      exact Or.inr hin
    exact (hashIdx_nil_of_not_mem plane ctxs start h hno').symm

theorem mem_hashIdx (plane : Mat) (ctxs : List Vec) (start h j : Nat) :
    j ∈ hashIdx plane ctxs start h ↔ ∃ i, ∃ (hi : i < ctxs.length), contextHash plane (ctxs[i]) = h ∧ j = i + start := by
  simp only [hashIdx, List.mem_filterMap, Prod.exists]
  constructor
  · rintro ⟨c, i, hmem, hsome⟩
    have hget := List.mem_zipIdx_iff_getElem?.mp hmem
    simp only [List.getElem?_map] at hget
    split at hsome
    · next hc =>
      simp only [Option.some.injEq] at hsome
      cases hci : ctxs[i]? with
      | none => simp [hci] at hget
      | some row =>
        simp [hci] at hget
        obtain ⟨hlt, hrow⟩ := List.getElem?_eq_some_iff.mp hci
        exact ⟨i, hlt, by rw [hrow, hget]; exact hc, hsome.symm⟩
    · simp at hsome
  · rintro ⟨i, hi, hc, rfl⟩
    refine ⟨contextHash plane ctxs[i], i, ?_, by simp [hc]⟩
    rw [List.mem_zipIdx_iff_getElem?]
    simp [List.getElem?_map, List.getElem?_eq_getElem hi]

theorem hashIdx_append (plane : Mat) (c₁ c₂ : List Vec) (h : Nat) :
    hashIdx plane (c₁ ++ c₂) 0 h = hashIdx plane c₁ 0 h ++ hashIdx plane c₂ c₁.length h := by
  simp only [hashIdx, List.map_append, List.zipIdx_append, List.filterMap_append, List.length_map]
  congr 1
  rw [List.zipIdx_eq_map_add (l := c₂.map (contextHash plane)) (i := 0 + c₁.length)]
  · simp only [List.filterMap_map, Function.comp_def]
    congr 1
    funext p
    simp only [Nat.zero_add]
    split <;> simp
    omega

end Mab

namespace Mab
variable {α : Type} [DecidableEq α]

/-- every table's buckets list exactly the stored rows with that hash code -/
def Bandit.LshInv (b : Bandit α) : Prop :=
  b.planes.length = b.tables.length ∧
  ∀ (t : Nat) (hp : t < b.planes.length) (ht : t < b.tables.length) (h : Nat),
    (b.tables[t]).getD h [] = hashIdx (b.planes[t]) (b.hist.map (·.ctx)) 0 h

theorem drawPlanes_length (nCols nDim : Nat) : ∀ (l : List Nat) (acc : List Mat × Rng),
    (l.foldl (fun (acc : List Mat × Rng) _ =>
      let (v, g) := acc.2.draw { stream := .main, kind := .normal, size := nCols * nDim }
      (acc.1 ++ [chunk nDim nCols v], g)) acc).1.length = acc.1.length + l.length := by
  intro l
  induction l with
  | nil => intro acc; simp
  | cons x l ih => intro acc; simp only [List.foldl_cons]; rw [ih]; simp; omega

theorem lshFitOp_tables (b : Bandit α) (ctxs : List Vec) (start : Nat) (hl : b.planes.length = b.tables.length)
    (t : Nat) (hp : t < b.planes.length) (ht : t < b.tables.length) :
    ∃ ht' : t < (lshFitOp b ctxs start).tables.length,
      (lshFitOp b ctxs start).tables[t] = lshInsert (b.planes[t]) (b.tables[t]) ctxs start := by
  simp only [lshFitOp]
  refine ⟨by simp [hl]; omega, ?_⟩
  simp

/-- `fit` establishes the invariant (planes freshly drawn, tables emptied, every row hashed) -/
theorem lshInv_fit (b : Bandit α) (d t : Nat) (pr : Option (List Rat)) (hnp : b.np = .lsh d t pr)
    (hbz : b.lp.binz = none) (batch : Batch α) (o : Oracle) (g : Rng) : (b.impFit batch o g).1.LshInv := by
  have hnb : npBinarize b.lp batch = (b.lp, batch) := by unfold npBinarize; rw [hbz]; cases b.lp.kind <;> rfl
  simp only [Bandit.impFit, hnp, hnb]
  have hlen : (drawPlanes t ((batchWidth batch).getD 0) d g).1.length = t := by
    simp only [drawPlanes]
    rw [drawPlanes_length]; simp
  constructor
  · simp [lshFitOp, hlen]
  · intro i hp ht h
    simp only [lshFitOp] at hp ht ⊢
    simp only [List.getElem_map, List.getElem_zip, List.getElem_replicate]
    rw [lshInsert_getD]
    simp [Dict.getD, Dict.get?]

/-- `partial_fit` preserves it: the new rows are hashed with the same planes and stored under their
    positions in the accumulated history -/
theorem lshInv_partialFit (b : Bandit α) (d t : Nat) (pr : Option (List Rat)) (hnp : b.np = .lsh d t pr)
    (hbz : b.lp.binz = none) (batch : Batch α) (o : Oracle) (g : Rng) (hinv : b.LshInv) :
    (b.impPartialFit batch o g).1.LshInv := by
  have hnb : npBinarize b.lp batch = (b.lp, batch) := by unfold npBinarize; rw [hbz]; cases b.lp.kind <;> rfl
  obtain ⟨hl, hb⟩ := hinv
  simp only [Bandit.impPartialFit, hnp, hnb]
  constructor
  · simp [lshFitOp, hl]
  · intro i hp ht h
    simp only [lshFitOp] at hp ht ⊢
    simp only [List.getElem_map, List.getElem_zip]
    rw [lshInsert_getD]
    have hp' : i < b.planes.length := by simpa using hp
    have ht' : i < b.tables.length := by rw [← hl]; exact hp'
    rw [hb i hp' ht' h, List.map_append, hashIdx_append]
    simp

/-- **C11 (exact neighbourhood).**  In a state satisfying the invariant — i.e. after `fit` and any number
    of `partial_fit` calls — the neighbourhood of a query is *exactly* the set of stored rows (positions
    in the accumulated history) that share the query's hash code, hence its sign pattern, in at least
    one table. -/
theorem lsh_nhood_exact (b : Bandit α) (d t : Nat) (pr : Option (List Rat)) (hnp : b.np = .lsh d t pr)
    (hinv : b.LshInv) (q : Vec) (ds : List Rat) (ks : List Nat) (i : Nat) :
    i ∈ (b.selectIdx q ds ks).1 ↔
      ∃ (tb : Nat) (hp : tb < b.planes.length) (hi : i < b.hist.length),
        contextHash (b.planes[tb]) (b.hist[i]).ctx = contextHash (b.planes[tb]) q := by
  obtain ⟨hl, hb⟩ := hinv
  rw [lsh_nhood_union b d t pr hnp]
  constructor
  · rintro ⟨pt, hpt, hmem⟩
    obtain ⟨tb, htb, hget⟩ := List.mem_iff_getElem.mp hpt
    have hp : tb < b.planes.length := by simp at htb; omega
    have ht : tb < b.tables.length := by simp at htb; omega
    have hpt' : pt = (b.planes[tb], b.tables[tb]) := by rw [← hget]; simp
    rw [hpt'] at hmem
    simp only at hmem
    rw [hb tb hp ht] at hmem
    obtain ⟨j, hj, hc, hij⟩ := (mem_hashIdx _ _ _ _ _).mp hmem
    simp only [Nat.add_zero] at hij
    subst hij
    have hj' : i < b.hist.length := by simpa using hj
    refine ⟨tb, hp, hj', ?_⟩
    simpa using hc
  · rintro ⟨tb, hp, hi, hc⟩
    have ht : tb < b.tables.length := by rw [← hl]; exact hp
    refine ⟨(b.planes[tb], b.tables[tb]), ?_, ?_⟩
    · apply List.mem_iff_getElem.mpr
      exact ⟨tb, by simp; omega, by simp⟩
    · simp only
      rw [hb tb hp ht]
      apply (mem_hashIdx _ _ _ _ _).mpr
      exact ⟨i, by simpa using hi, by simpa using hc, by simp⟩

/-- consequently a stored row is always in the neighbourhood of a query equal to it, or to a positive
    multiple of it -/
theorem self_collision (b : Bandit α) (d t : Nat) (pr : Option (List Rat)) (hnp : b.np = .lsh d t pr)
    (hinv : b.LshInv) (hpl : 0 < b.planes.length) (i : Nat) (hi : i < b.hist.length) (c : Rat) (hc : 0 < c)
    (ds : List Rat) (ks : List Nat) :
    i ∈ (b.selectIdx (vsmul c (b.hist[i]).ctx) ds ks).1 := by
  rw [lsh_nhood_exact b d t pr hnp hinv]
  exact ⟨0, hpl, hi, (hash_scale_invariant _ _ c hc).symm⟩

end Mab
