/-
  C11 — LSHNearest neighbourhoods are the sign-random-projection collisions.
-/
import MabModel.Core.Facade
import Mathlib.Algebra.Order.Field.Basic
import Mathlib.Algebra.Order.Ring.Rat
import Mathlib.Tactic.Ring
import Mathlib.Tactic.Tauto
open Py
set_option linter.unusedSectionVars false
set_option linter.unusedVariables false
set_option linter.unusedSimpArgs false

namespace Mab
variable {α : Type} [DecidableEq α]

theorem sum_map_mul_left (c : Rat) (l : List Rat) : (l.map (c * ·)).sum = c * l.sum := by
  induction l with
  | nil => simp
  | cons x xs ih => simp [List.sum_cons, ih, mul_add]

theorem zipWith_scale (c : Rat) (j : Nat) : ∀ (x : Vec) (A : Mat),
    List.zipWith (fun xi row => xi * row.getD j 0) (vsmul c x) A =
      (List.zipWith (fun xi row => xi * row.getD j 0) x A).map (c * ·) := by
  intro x
  induction x with
  | nil => intro A; simp [vsmul]
  | cons a x ih =>
    intro A
    cases A with
    | nil => simp [vsmul]
    | cons r A =>
      simp only [vsmul, List.map_cons, List.zipWith_cons_cons, List.cons.injEq]
      exact ⟨by ring, ih A⟩

/-- the projection of a scaled row is the scaled projection -/
theorem vecMul_scale (c : Rat) (x : Vec) (A : Mat) : vecMul (vsmul c x) A = vsmul c (vecMul x A) := by
  cases A with
  | nil => simp [vecMul, vsmul]
  | cons r A =>
    simp only [vecMul, vsmul, List.map_map]
    apply List.map_congr_left
    intro j _
    have := zipWith_scale c j x (r :: A)
    simp only [vsmul] at this
    simp only [Function.comp]
    rw [this, sum_map_mul_left]

/-- **C11 (scale invariance).**  Multiplying a context by any `c > 0` changes no projection sign and
    therefore no hash code, in any table: a positive multiple of a stored context always collides
    with it. -/
theorem hash_scale_invariant (plane : Mat) (x : Vec) (c : Rat) (hc : 0 < c) :
    contextHash plane (vsmul c x) = contextHash plane x := by
  simp only [contextHash, vecMul_scale]
  congr 1
  simp only [vsmul]
  rw [List.zipIdx_map, List.map_map]
  apply List.map_congr_left
  intro p _
  simp only [Function.comp, Prod.map]
  have : (0 < c * p.1) ↔ (0 < p.1) := by
    constructor
    · intro h
      by_contra hn
      have : p.1 ≤ 0 := not_lt.mp hn
      have := mul_nonpos_of_nonneg_of_nonpos (le_of_lt hc) this
      exact absurd h (not_lt.mpr this)
    · intro h; exact mul_pos hc h
  simp [this]

/-- a row whose projections are all zero (e.g. the zero vector) hashes to 0 in every table, the same
    on the stored and on the query side -/
theorem hash_zero_projection (plane : Mat) (x : Vec) (h : ∀ p ∈ vecMul x plane, p = 0) :
    contextHash plane x = 0 := by
  simp only [contextHash]
  have hz : ∀ l : List Nat, (∀ n ∈ l, n = 0) → l.sum = 0 := by
    intro l; induction l with
    | nil => intro _; rfl
    | cons y ys ih => intro hl; simp [List.sum_cons, hl y (by simp), ih (fun n hn => hl n (List.mem_cons_of_mem _ hn))]
  apply hz
  intro n hn
  simp only [List.mem_map] at hn
  obtain ⟨p, hp, rfl⟩ := hn
  have hm : p.1 ∈ vecMul x plane := by
    have := List.mem_zipIdx_iff_getElem?.mp hp
    exact List.mem_of_getElem? this
  simp [h p.1 hm]

/-- the planes are drawn at `fit` and only there: `partial_fit` hashes with the same planes -/
theorem planes_fixed_at_fit (b : Bandit α) (d t : Nat) (pr : Option (List Rat)) (hnp : b.np = .lsh d t pr)
    (batch : Batch α) (o : Oracle) (g : Rng) :
    (b.impPartialFit batch o g).1.planes = b.planes ∧ (b.impPartialFit batch o g).2 = g := by
  simp [Bandit.impPartialFit, hnp, lshFitOp]

/-- rows added by `partial_fit` are appended to the stored history, so their positions are offset by
    the number of rows stored before -/
theorem lsh_partial_hist (b : Bandit α) (d t : Nat) (pr : Option (List Rat)) (hnp : b.np = .lsh d t pr)
    (hbz : b.lp.binz = none) (batch : Batch α) (o : Oracle) (g : Rng) :
    (b.impPartialFit batch o g).1.hist = b.hist ++ batch := by
  simp [Bandit.impPartialFit, hnp, lshFitOp, npBinarize, hbz]

/-- the neighbourhood of a query is the de-duplicated union, over the tables, of the buckets of the
    query's hash codes -/
theorem lsh_nhood_union (b : Bandit α) (d t : Nat) (pr : Option (List Rat)) (hnp : b.np = .lsh d t pr)
    (q : Vec) (ds : List Rat) (ks : List Nat) (i : Nat) :
    i ∈ (b.selectIdx q ds ks).1 ↔
      ∃ pt ∈ List.zip b.planes b.tables, i ∈ pt.2.getD (contextHash pt.1 q) [] := by
  simp only [Bandit.selectIdx, hnp]
  have dedup : ∀ (l : List Nat) (acc : List Nat),
      i ∈ l.foldl (fun acc j => if j ∈ acc then acc else acc ++ [j]) acc ↔ i ∈ acc ∨ i ∈ l := by
    intro l
    induction l with
    | nil => intro acc; simp
    | cons x l ih =>
      intro acc
      simp only [List.foldl_cons]
      rw [ih]
      by_cases hx : x ∈ acc
      · simp only [hx, if_true, List.mem_cons]
        constructor
        · rintro (h | h)
          · exact Or.inl h
          · exact Or.inr (Or.inr h)
        · rintro (h | h | h)
          · exact Or.inl h
          · subst h; exact Or.inl hx
          · exact Or.inr h
      · simp only [hx, if_false, List.mem_append, List.mem_singleton, List.mem_cons, List.not_mem_nil, or_false]
        tauto
  rw [dedup]
  simp only [List.not_mem_nil, false_or]
  have union : ∀ (l : List (Mat × Dict Nat (List Nat))) (acc : List Nat),
      i ∈ l.foldl (fun acc pt => acc ++ pt.2.getD (contextHash pt.1 q) []) acc ↔
        i ∈ acc ∨ ∃ pt ∈ l, i ∈ pt.2.getD (contextHash pt.1 q) [] := by
    intro l
    induction l with
    | nil => intro acc; simp
    | cons x l ih =>
      intro acc
      simp only [List.foldl_cons]
      rw [ih]
      simp only [List.mem_append, List.mem_cons, exists_eq_or_imp]
      tauto
  rw [union]
  simp


end Mab
