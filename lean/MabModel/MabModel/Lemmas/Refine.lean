/-
  Refinement of the learning-policy model to the abstract specification "per-arm log of the
  observations since the most recent fit / add_arm".
-/
import MabModel.Lemmas.LPBasic
open Py
set_option linter.unusedSectionVars false
set_option linter.unusedSimpArgs false
set_option linter.unusedVariables false

namespace Mab
variable {α : Type} [DecidableEq α]

/-- does a policy keep its expectation as a pure function of the arm's own statistics? -/
def Kind.localExp : Kind → Bool
  | .greedy _ | .ucb _ => true
  | _ => false

/-- the learned part of a record: status flags dropped, and the expectation dropped for the policies
    whose expectation is a draw (Thompson), a global normalisation (Softmax, Popularity) or unused -/
def ArmSt.strip (kind : Kind) (r : ArmSt α) : ArmSt α :=
  { r with trained := false, warm := false, warmBy := none,
           exp := if kind.localExp then r.exp else .val 0 }

theorem fitRec_strip (kind : Kind) (N : Nat) (rs : List (Rat × Vec)) (r : ArmSt α) :
    (fitRec kind N rs r).strip kind = (fitRec kind N rs (r.strip kind)).strip kind := by
  cases kind <;> simp [fitRec, ArmSt.strip, Kind.localExp] <;> grind

theorem strip_strip (kind : Kind) (r : ArmSt α) : (r.strip kind).strip kind = r.strip kind := by
  cases kind <;> simp [ArmSt.strip, Kind.localExp]

theorem fitRec_nil (kind : Kind) (N : Nat) (nf : Option Nat) (k1 : Bool) :
    fitRec kind N [] (freshRec kind nf k1 : ArmSt α) = freshRec kind nf k1 := by
  cases kind <;> simp [fitRec, freshRec, rsum_nil, Kind.isLinear] <;> grind

theorem resetRec_strip (kind : Kind) (nf : Option Nat) (k1 : Bool) (r : ArmSt α) :
    (resetRec kind nf k1 r).strip kind = (freshRec kind nf k1 : ArmSt α).strip kind := by
  cases kind <;> simp [resetRec, ArmSt.strip, Kind.localExp]

/-! ### the per-arm view of the whole-policy operations -/

theorem expOp_keys (s : LP α) : s.expOp.st.keys = s.st.keys := by
  unfold LP.expOp; split <;> simp

theorem normalize_keys (s : LP α) : s.normalize.st.keys = s.st.keys := by
  unfold LP.normalize; split
  · split <;> simp
  · rfl

theorem setTrained_keys (s : LP α) (b : Batch α) (p : Bool) : (s.setTrained b p).st.keys = s.st.keys := by
  simp [LP.setTrained]

theorem expOp_arms (s : LP α) : s.expOp.arms = s.arms := by unfold LP.expOp; split <;> rfl
theorem normalize_arms (s : LP α) : s.normalize.arms = s.arms := by
  unfold LP.normalize; split
  · split <;> rfl
  · rfl
theorem expOp_kind (s : LP α) : s.expOp.kind = s.kind := by unfold LP.expOp; split <;> rfl
theorem normalize_kind (s : LP α) : s.normalize.kind = s.kind := by
  unfold LP.normalize; split
  · split <;> rfl
  · rfl
theorem expOp_total (s : LP α) : s.expOp.total = s.total := by unfold LP.expOp; split <;> rfl
theorem normalize_total (s : LP α) : s.normalize.total = s.total := by
  unfold LP.normalize; split
  · split <;> rfl
  · rfl

theorem expOp_get_strip (s : LP α) (a : α) :
    (s.expOp.st.get? a).map (·.strip s.kind) = (s.st.get? a).map (·.strip s.kind) := by
  unfold LP.expOp
  split
  · next tau h =>
    simp only [Dict.get?_mapKV, Option.map_map]
    cases s.st.get? a with
    | none => rfl
    | some r => simp [ArmSt.strip, h, Kind.localExp]
  · rfl

theorem normalize_get_strip (s : LP α) (a : α) :
    (s.normalize.st.get? a).map (·.strip s.kind) = (s.st.get? a).map (·.strip s.kind) := by
  unfold LP.normalize
  split
  · next h =>
    split <;>
    · simp only [Dict.get?_mapKV, Option.map_map]
      cases s.st.get? a with
      | none => rfl
      | some r => simp [ArmSt.strip, h, Kind.localExp]
  · rfl

theorem setTrained_get_strip (s : LP α) (b : Batch α) (p : Bool) (a : α) :
    ((s.setTrained b p).st.get? a).map (·.strip s.kind) = (s.st.get? a).map (·.strip s.kind) := by
  simp only [LP.setTrained, Dict.get?_mapKV, Option.map_map]
  cases s.st.get? a with
  | none => rfl
  | some r =>
    simp only [Option.map_some, Function.comp]
    split
    · split <;> simp [ArmSt.strip]
    · rfl

end Mab

namespace Mab
variable {α : Type} [DecidableEq α]

theorem post_kind (s : LP α) (b : Batch α) (p : Bool) : (s.post b p).kind = s.kind := by
  simp [LP.post, normalize_kind, LP.setTrained, expOp_kind]

theorem post_arms (s : LP α) (b : Batch α) (p : Bool) : (s.post b p).arms = s.arms := by
  simp [LP.post, normalize_arms, LP.setTrained, expOp_arms]

theorem post_total (s : LP α) (b : Batch α) (p : Bool) : (s.post b p).total = s.total := by
  simp [LP.post, normalize_total, LP.setTrained, expOp_total]

theorem post_keys (s : LP α) (b : Batch α) (p : Bool) : (s.post b p).st.keys = s.st.keys := by
  simp [LP.post, normalize_keys, setTrained_keys, expOp_keys]

theorem expOp_onlySt (s : LP α) : ∃ st', s.expOp = { s with st := st' } := by
  unfold LP.expOp; split
  · exact ⟨_, rfl⟩
  · exact ⟨s.st, rfl⟩

theorem normalize_onlySt (s : LP α) : ∃ st', s.normalize = { s with st := st' } := by
  unfold LP.normalize; split
  · split <;> exact ⟨_, rfl⟩
  · exact ⟨s.st, rfl⟩

theorem post_onlySt (s : LP α) (b : Batch α) (p : Bool) : ∃ st', s.post b p = { s with st := st' } := by
  unfold LP.post
  obtain ⟨st1, h1⟩ := expOp_onlySt s
  obtain ⟨st3, h3⟩ := normalize_onlySt ((s.expOp).setTrained b p)
  rw [h3, h1]
  exact ⟨st3, rfl⟩

theorem post_numFeatures (s : LP α) (b : Batch α) (p : Bool) : (s.post b p).numFeatures = s.numFeatures := by
  obtain ⟨st', h⟩ := post_onlySt s b p; rw [h]

theorem post_k1 (s : LP α) (b : Batch α) (p : Bool) : (s.post b p).k1fixed = s.k1fixed := by
  obtain ⟨st', h⟩ := post_onlySt s b p; rw [h]

theorem post_binz (s : LP α) (b : Batch α) (p : Bool) : (s.post b p).binz = s.binz := by
  obtain ⟨st', h⟩ := post_onlySt s b p; rw [h]

theorem post_ctxBin (s : LP α) (b : Batch α) (p : Bool) : (s.post b p).ctxBin = s.ctxBin := by
  obtain ⟨st', h⟩ := post_onlySt s b p; rw [h]

theorem post_get_strip (s : LP α) (b : Batch α) (p : Bool) (a : α) :
    ((s.post b p).st.get? a).map (·.strip s.kind) = (s.st.get? a).map (·.strip s.kind) := by
  unfold LP.post
  have h1 := normalize_get_strip ((s.expOp).setTrained b p) a
  have h2 := setTrained_get_strip s.expOp b p a
  have h3 := expOp_get_strip s a
  have k1 : ((s.expOp).setTrained b p).kind = s.kind := by simp [LP.setTrained, expOp_kind]
  have k2 : s.expOp.kind = s.kind := expOp_kind s
  rw [k1] at h1; rw [k2] at h2
  rw [h1, h2, h3]

theorem post_wf (s : LP α) (b : Batch α) (p : Bool) (h : s.WF) : (s.post b p).WF :=
  ⟨by rw [post_keys, post_arms]; exact h.keys, by rw [post_arms]; exact h.nodup⟩

end Mab
