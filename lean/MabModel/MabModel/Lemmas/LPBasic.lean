/-
  Helper lemmas about the learning-policy model: closed forms of `_parallel_fit`, `fit`,
  `partial_fit` at the level of one arm's record.
-/
import MabModel.Core.LP
open Py
set_option linter.unusedSectionVars false
set_option linter.unusedSimpArgs false
set_option linter.unusedVariables false

namespace Mab
variable {α : Type} [DecidableEq α]

/-- the dictionary keys are the arm list, without duplicates -/
structure LP.WF (s : LP α) : Prop where
  keys : s.st.keys = s.arms
  nodup : s.arms.Nodup

theorem LP.WF.keysNodup {s : LP α} (h : s.WF) : s.st.keys.Nodup := by rw [h.keys]; exact h.nodup

/-! ### `_parallel_fit` in any task order -/

theorem parallelFitIn_eq (s : LP α) (b : Batch α) (order : List α) :
    s.parallelFitIn b order =
      { s with st := order.foldl (fun d a => d.modify a (fitRec s.kind s.total (rowsOf b a))) s.st } := by
  unfold LP.parallelFitIn
  induction order generalizing s with
  | nil => rfl
  | cons a l ih =>
    simp only [List.foldl_cons]
    rw [ih (s.fitArm b a)]
    simp [LP.fitArm]

theorem parallelFitIn_closed (s : LP α) (b : Batch α) (order : List α) (ho : order.Nodup)
    (hk : s.st.keys.Nodup) :
    s.parallelFitIn b order =
      { s with st := s.st.mapKV fun c v => if c ∈ order then fitRec s.kind s.total (rowsOf b c) v else v } := by
  rw [parallelFitIn_eq, Dict.foldl_modify order (fun a => fitRec s.kind s.total (rowsOf b a)) ho s.st hk]

theorem parallelFit_closed (s : LP α) (b : Batch α) (h : s.WF) :
    s.parallelFit b =
      { s with st := s.st.mapKV fun c v => fitRec s.kind s.total (rowsOf b c) v } := by
  unfold LP.parallelFit
  rw [parallelFitIn_closed s b s.arms h.nodup h.keysNodup]
  congr 1
  apply Dict.mapKV_congr
  intro k v hkv
  have : k ∈ s.arms := by rw [← h.keys]; exact Dict.mem_keys_of_mem _ _ _ hkv
  simp [this]

end Mab

namespace Mab
set_option linter.unusedSectionVars false
variable {α : Type} [DecidableEq α]

/-! ### one arm's record -/

theorem rsum_nil : rsum ([] : List (Rat × Vec)) = 0 := rfl

theorem rsum_append (a b : List (Rat × Vec)) : rsum (a ++ b) = rsum a + rsum b := by
  simp [rsum, List.map_append, List.sum_append]

theorem addGram_append (A : Mat) (x y : List Vec) : addGram A (x ++ y) = addGram (addGram A x) y := by
  simp [addGram, List.foldl_append]

theorem addXty_append (v : Vec) (x y : List (Rat × Vec)) : addXty v (x ++ y) = addXty (addXty v x) y := by
  simp [addXty, List.foldl_append]

/-- Training an arm on `rs₁` and then on `rs₂` is training it once on `rs₁ ++ rs₂`
    (with the row count current at the second call). -/
theorem fitRec_append (kind : Kind) (N₁ N₂ : Nat) (rs₁ rs₂ : List (Rat × Vec)) (r : ArmSt α) :
    fitRec kind N₂ rs₂ (fitRec kind N₁ rs₁ r) = fitRec kind N₂ (rs₁ ++ rs₂) r := by
  by_cases h1 : rs₁ = []
  · subst h1
    cases kind <;> simp [fitRec, rsum_nil] <;> grind
  · by_cases h2 : rs₂ = []
    · subst h2
      have hl : rs₁.length ≠ 0 := by simpa using h1
      cases kind <;> simp [fitRec, rsum_nil, hl, h1] <;> grind
    · have hl1 : rs₁.length ≠ 0 := by simpa using h1
      have hl2 : rs₂.length ≠ 0 := by simpa using h2
      cases kind <;>
        simp [fitRec, rsum_append, hl1, hl2, h1, h2, List.length_append, addGram_append, addXty_append,
              List.map_append] <;> grind

end Mab
