/-
  The refinement relation `Ref` between the learning-policy model and the log specification, and
  its preservation by every operation (helper lemmas; the property theorems are in Props/).
-/
import MabModel.Lemmas.Refine
import MabModel.Spec.Log
open Py
set_option linter.unusedSectionVars false
set_option linter.unusedSimpArgs false
set_option linter.unusedVariables false

namespace Mab
variable {α : Type} [DecidableEq α]

/-- the statistic a policy of this kind holds for an arm whose log is `log`, `N` rows since fit -/
def statOf (s : LP α) (N : Nat) (log : List (Rat × Vec)) : ArmSt α :=
  fitRec s.kind N log (freshRec s.kind s.numFeatures s.k1fixed)

/-- The refinement relation between a policy state and the specification state. -/
structure Ref (s : LP α) (t : Spec α) : Prop where
  wf : s.WF
  arms : s.arms = t.arms
  total : s.kind = .random ∨ s.total = t.N
  entry : ∀ a ∈ s.arms, (s.st.get? a).map (·.strip s.kind) = some ((statOf s t.N (t.log a)).strip s.kind)

theorem ref_init (kind : Kind) (arms : List α) (k1 : Bool) (h : arms.Nodup) :
    Ref (LP.init kind arms none k1) (Spec.init arms) := by
  refine ⟨⟨by simp [LP.init], h⟩, rfl, Or.inr rfl, ?_⟩
  intro a ha
  have ha' : a ∈ arms := ha
  simp only [LP.init, Spec.init, statOf, fitRec_nil]
  rw [Dict.get?_ofFn _ _ _ ha']
  rfl

/-- `fit` at one arm: the record is the arm's rows of the batch trained into a fresh record. -/
theorem fit_get (s : LP α) (b : Batch α) (w : Option Nat) (h : s.WF) (hk : s.kind ≠ .random)
    (hb : s.binz = none) (a : α) (ha : a ∈ s.arms) :
    ((s.fit b w).st.get? a).map (·.strip s.kind) =
      some ((fitRec s.kind b.length (rowsOf b a) (freshRec s.kind (s.nfFor b w) s.k1fixed)).strip s.kind) := by
  have hbin : s.binarize b = b := by simp [LP.binarize, hb]
  have hfit : s.fit b w = ((s.resetFor b w).parallelFit b).post b false := by
    unfold LP.fit; rw [hbin]; cases hkk : s.kind <;> simp_all
  have hwf : (s.resetFor b w).WF := ⟨by simp [LP.resetFor, h.keys], h.nodup⟩
  rw [hfit]
  have hpk : ((s.resetFor b w).parallelFit b).kind = s.kind := by rw [parallelFit_closed _ _ hwf]; rfl
  have := post_get_strip ((s.resetFor b w).parallelFit b) b false a
  rw [hpk] at this
  rw [this, parallelFit_closed _ _ hwf]
  simp only [LP.resetFor, Dict.get?_mapKV, Option.map_map]
  have hin : (s.st.get? a).isSome := by rw [Dict.get?_isSome_iff, h.keys]; exact ha
  obtain ⟨r, hr⟩ := Option.isSome_iff_exists.mp hin
  rw [hr]
  simp only [Option.map_some, Function.comp]
  rw [fitRec_strip, resetRec_strip, ← fitRec_strip]

theorem partialFit_get (s : LP α) (b : Batch α) (h : s.WF) (hk : s.kind ≠ .random)
    (hb : s.binz = none) (a : α) :
    ((s.partialFit b).st.get? a).map (·.strip s.kind) =
      (s.st.get? a).map fun r => (fitRec s.kind (s.total + b.length) (rowsOf b a) r).strip s.kind := by
  have hbin : s.binarize b = b := by simp [LP.binarize, hb]
  have hfit : s.partialFit b = ((s.bumpTotal b.length).parallelFit b).post b true := by
    unfold LP.partialFit; rw [hbin]; cases hkk : s.kind <;> simp_all
  have hwf : (s.bumpTotal b.length).WF := ⟨h.keys, h.nodup⟩
  rw [hfit]
  have hpk : ((s.bumpTotal b.length).parallelFit b).kind = s.kind := by rw [parallelFit_closed _ _ hwf]; rfl
  have := post_get_strip ((s.bumpTotal b.length).parallelFit b) b true a
  rw [hpk] at this
  rw [this, parallelFit_closed _ _ hwf]
  simp only [LP.bumpTotal, Dict.get?_mapKV, Option.map_map]
  rfl

end Mab

namespace Mab
variable {α : Type} [DecidableEq α]

theorem fit_fields (s : LP α) (b : Batch α) (w : Option Nat) (hk : s.kind ≠ .random) (hb : s.binz = none) :
    (s.fit b w).kind = s.kind ∧ (s.fit b w).arms = s.arms ∧ (s.fit b w).total = b.length ∧
    (s.fit b w).numFeatures = s.nfFor b w ∧ (s.fit b w).k1fixed = s.k1fixed ∧ (s.fit b w).binz = s.binz ∧
    (s.fit b w).st.keys = s.st.keys := by
  have hbin : s.binarize b = b := by simp [LP.binarize, hb]
  have hfit : s.fit b w = ((s.resetFor b w).parallelFit b).post b false := by
    unfold LP.fit; rw [hbin]; cases hkk : s.kind <;> simp_all
  rw [hfit, post_kind, post_arms, post_total, post_numFeatures, post_k1, post_binz, post_keys]
  have e := parallelFitIn_eq (s.resetFor b w) b (s.resetFor b w).arms
  unfold LP.parallelFit
  rw [e]
  refine ⟨rfl, rfl, rfl, rfl, rfl, rfl, ?_⟩
  -- keys: a fold of `modify` keeps the keys
  have : ∀ (l : List α) (d : Dict α (ArmSt α)) (f : α → ArmSt α → ArmSt α),
      (l.foldl (fun d a => d.modify a (f a)) d).keys = d.keys := by
    intro l; induction l with
    | nil => intro d f; rfl
    | cons x l ih => intro d f; simp only [List.foldl_cons]; rw [ih]; simp
  simp only [this]
  simp [LP.resetFor]

theorem partialFit_fields (s : LP α) (b : Batch α) (hk : s.kind ≠ .random) (hb : s.binz = none) :
    (s.partialFit b).kind = s.kind ∧ (s.partialFit b).arms = s.arms ∧
    (s.partialFit b).total = s.total + b.length ∧
    (s.partialFit b).numFeatures = s.numFeatures ∧ (s.partialFit b).k1fixed = s.k1fixed ∧
    (s.partialFit b).binz = s.binz ∧ (s.partialFit b).st.keys = s.st.keys := by
  have hbin : s.binarize b = b := by simp [LP.binarize, hb]
  have hfit : s.partialFit b = ((s.bumpTotal b.length).parallelFit b).post b true := by
    unfold LP.partialFit; rw [hbin]; cases hkk : s.kind <;> simp_all
  rw [hfit, post_kind, post_arms, post_total, post_numFeatures, post_k1, post_binz, post_keys]
  have e := parallelFitIn_eq (s.bumpTotal b.length) b (s.bumpTotal b.length).arms
  unfold LP.parallelFit
  rw [e]
  refine ⟨rfl, rfl, rfl, rfl, rfl, rfl, ?_⟩
  have : ∀ (l : List α) (d : Dict α (ArmSt α)) (f : α → ArmSt α → ArmSt α),
      (l.foldl (fun d a => d.modify a (f a)) d).keys = d.keys := by
    intro l; induction l with
    | nil => intro d f; rfl
    | cons x l ih => intro d f; simp only [List.foldl_cons]; rw [ih]; simp
  simp only [this]
  rfl

theorem statOf_random (s : LP α) (hk : s.kind = .random) (N : Nat) (log : List (Rat × Vec)) :
    statOf s N log = freshRec s.kind s.numFeatures s.k1fixed := by
  simp [statOf, hk, fitRec]

theorem ref_fit (s : LP α) (t : Spec α) (b : Batch α) (w : Option Nat) (hb : s.binz = none) (h : Ref s t) :
    Ref (s.fit b w) (t.step (.fit b w)) := by
  by_cases hk : s.kind = .random
  · have e : s.fit b w = s := by simp [LP.fit, hk]
    rw [e]
    refine ⟨h.wf, h.arms, Or.inl hk, ?_⟩
    intro a ha
    rw [h.entry a ha, statOf_random s hk, statOf_random s hk]
  · obtain ⟨f1, f2, f3, f4, f5, f6, f7⟩ := fit_fields s b w hk hb
    refine ⟨⟨by rw [f7, f2]; exact h.wf.keys, by rw [f2]; exact h.wf.nodup⟩, by rw [f2]; exact h.arms,
            Or.inr (by rw [f3]; rfl), ?_⟩
    intro a ha
    rw [f2] at ha
    have := fit_get s b w h.wf hk hb a ha
    simp only [statOf, f1, f4, f5, Spec.step]
    exact this

theorem ref_partialFit (s : LP α) (t : Spec α) (b : Batch α) (hb : s.binz = none) (h : Ref s t) :
    Ref (s.partialFit b) (t.step (.partialFit b)) := by
  by_cases hk : s.kind = .random
  · have e : s.partialFit b = s := by simp [LP.partialFit, hk]
    rw [e]
    refine ⟨h.wf, h.arms, Or.inl hk, ?_⟩
    intro a ha
    rw [h.entry a ha, statOf_random s hk, statOf_random s hk]
  · obtain ⟨f1, f2, f3, f4, f5, f6, f7⟩ := partialFit_fields s b hk hb
    have htot : s.total = t.N := by
      rcases h.total with e | e
      · exact absurd e hk
      · exact e
    refine ⟨⟨by rw [f7, f2]; exact h.wf.keys, by rw [f2]; exact h.wf.nodup⟩, by rw [f2]; exact h.arms,
            Or.inr (by rw [f3, htot]; rfl), ?_⟩
    intro a ha
    rw [f2] at ha
    have hg := partialFit_get s b h.wf hk hb a
    have he := h.entry a ha
    simp only [statOf, f1, f4, f5, Spec.step] at he ⊢
    rw [hg]
    cases hr : s.st.get? a with
    | none => rw [hr] at he; simp at he
    | some r =>
      rw [hr] at he
      simp only [Option.map_some, Option.some.injEq] at he ⊢
      rw [fitRec_strip, he, ← fitRec_strip, fitRec_append, htot]

end Mab

namespace Mab
variable {α : Type} [DecidableEq α]

/-- a state that differs from `s` only in stripped-away parts of the records refines the same spec -/
theorem ref_transfer (s s' : LP α) (t : Spec α) (h : Ref s t)
    (hk : s'.kind = s.kind) (ha : s'.arms = s.arms) (ht : s'.total = s.total)
    (hn : s'.numFeatures = s.numFeatures) (h1 : s'.k1fixed = s.k1fixed) (hkeys : s'.st.keys = s.st.keys)
    (hg : ∀ x, (s'.st.get? x).map (·.strip s.kind) = (s.st.get? x).map (·.strip s.kind)) : Ref s' t := by
  refine ⟨⟨by rw [hkeys, ha]; exact h.wf.keys, by rw [ha]; exact h.wf.nodup⟩, by rw [ha]; exact h.arms,
          by rw [hk, ht]; exact h.total, ?_⟩
  intro x hx
  rw [ha] at hx
  simp only [statOf, hk, hn, h1]
  rw [hg x]
  exact h.entry x hx

theorem ref_expOp (s : LP α) (t : Spec α) (h : Ref s t) : Ref s.expOp t := by
  obtain ⟨st', e⟩ := expOp_onlySt s
  have hk := expOp_keys s
  have hg := fun x => expOp_get_strip s x
  rw [e] at hk hg ⊢
  exact ref_transfer s _ t h rfl rfl rfl rfl rfl hk hg

theorem ref_normalize (s : LP α) (t : Spec α) (h : Ref s t) : Ref s.normalize t := by
  obtain ⟨st', e⟩ := normalize_onlySt s
  have hk := normalize_keys s
  have hg := fun x => normalize_get_strip s x
  rw [e] at hk hg ⊢
  exact ref_transfer s _ t h rfl rfl rfl rfl rfl hk hg

theorem ref_insertArm (s : LP α) (t : Spec α) (a : α) (ha : a ∉ s.arms) (h : Ref s t) :
    Ref (s.insertArm a none) { t with arms := t.arms ++ [a], log := fun x => if x = a then [] else t.log x } := by
  have hnk : a ∉ s.st.keys := by rw [h.wf.keys]; exact ha
  have hk : (s.insertArm a none).kind = s.kind := rfl
  refine ⟨⟨?_, ?_⟩, ?_, h.total, ?_⟩
  · show (s.st.set a _).keys = s.arms ++ [a]
    rw [Dict.keys_set_not_mem _ _ _ hnk, h.wf.keys]
  · show (s.arms ++ [a]).Nodup
    exact List.nodup_append.mpr ⟨h.wf.nodup, by simp, by intro x hx y hy; simp at hy; subst hy; intro e; subst e; exact ha hx⟩
  · show s.arms ++ [a] = t.arms ++ [a]
    rw [h.arms]
  · intro x hx
    have hx2 : x ∈ s.arms ++ [a] := hx
    show ((s.st.set a (freshRec s.kind s.numFeatures s.k1fixed)).get? x).map (·.strip s.kind) = _
    simp only [statOf]
    show _ = some ((fitRec s.kind t.N (if x = a then [] else t.log x) (freshRec s.kind s.numFeatures s.k1fixed)).strip s.kind)
    by_cases hxa : x = a
    · subst hxa
      rw [Dict.get?_set_eq]
      simp [fitRec_nil]
    · rw [Dict.get?_set_ne _ _ _ _ hxa]
      have hx' : x ∈ s.arms := by
        rcases List.mem_append.mp hx2 with e | e
        · exact e
        · simp at e; exact absurd e hxa
      simp only [hxa, if_false]
      exact h.entry x hx'

theorem ref_dropArm (s : LP α) (t : Spec α) (a : α) (h : Ref s t) :
    Ref (s.dropArm a) { t with arms := t.arms.filter (· != a) } := by
  refine ⟨⟨?_, h.wf.nodup.filter _⟩, ?_, h.total, ?_⟩
  · show (s.st.pop a).keys = s.arms.filter (· != a)
    rw [Dict.keys_pop, h.wf.keys]
  · show s.arms.filter (· != a) = t.arms.filter (· != a)
    rw [h.arms]
  · intro x hx
    have hx' : x ∈ s.arms ∧ x ≠ a := by
      have : x ∈ s.arms.filter (· != a) := hx
      simpa using this
    show ((s.st.pop a).get? x).map (·.strip s.kind) = _
    rw [Dict.get?_pop_ne _ _ _ hx'.2]
    exact h.entry x hx'.1

theorem ref_addArm (s : LP α) (t : Spec α) (a : α) (h : Ref s t) :
    Ref (s.stepOp (.addArm a)) (t.step (.addArm a)) := by
  by_cases ha : a ∈ s.arms
  · have : a ∈ t.arms := h.arms ▸ ha
    simp only [LP.stepOp, Spec.step, ha, this, if_true]; exact h
  · have hat : a ∉ t.arms := h.arms ▸ ha
    simp only [LP.stepOp, Spec.step, ha, hat, if_false]
    exact ref_expOp _ _ (ref_insertArm s t a ha h)

theorem ref_removeArm (s : LP α) (t : Spec α) (a : α) (h : Ref s t) :
    Ref (s.stepOp (.removeArm a)) (t.step (.removeArm a)) := by
  by_cases ha : a ∈ s.arms
  · have hat : a ∈ t.arms := h.arms ▸ ha
    simp only [LP.stepOp, Spec.step, ha, hat, if_true]
    exact ref_normalize _ _ (ref_expOp _ _ (ref_dropArm s t a h))
  · have hat : a ∉ t.arms := h.arms ▸ ha
    simp only [LP.stepOp, Spec.step, ha, hat, if_false]; exact h

theorem expOp_binz (s : LP α) : s.expOp.binz = s.binz := by
  obtain ⟨st', e⟩ := expOp_onlySt s; rw [e]
theorem normalize_binz (s : LP α) : s.normalize.binz = s.binz := by
  obtain ⟨st', e⟩ := normalize_onlySt s; rw [e]



theorem parallelFit_kind (s : LP α) (b : Batch α) : (s.parallelFit b).kind = s.kind := by
  unfold LP.parallelFit; rw [parallelFitIn_eq]

theorem fit_kind (s : LP α) (b : Batch α) (w : Option Nat) : (s.fit b w).kind = s.kind := by
  unfold LP.fit
  split
  · rfl
  · rw [post_kind, parallelFit_kind]; rfl

theorem partialFit_kind (s : LP α) (b : Batch α) : (s.partialFit b).kind = s.kind := by
  unfold LP.partialFit
  split
  · rfl
  · rw [post_kind, parallelFit_kind]; rfl

theorem addArm_kind (s : LP α) (a : α) (bz : Option (α → Rat → Rat)) : (s.addArm a bz).kind = s.kind := by
  unfold LP.addArm; rw [expOp_kind]; rfl

theorem removeArm_kind (s : LP α) (a : α) : (s.removeArm a).kind = s.kind := by
  unfold LP.removeArm; rw [normalize_kind, expOp_kind]; rfl

theorem stepOp_kind (s : LP α) (op : LPOp α) : (s.stepOp op).kind = s.kind := by
  cases op with
  | fit b w => exact fit_kind s b w
  | partialFit b => exact partialFit_kind s b
  | addArm a => simp only [LP.stepOp]; split; rfl; exact addArm_kind s a none
  | removeArm a => simp only [LP.stepOp]; split; exact removeArm_kind s a; rfl

theorem run_kind (s : LP α) (ops : List (LPOp α)) : (s.run ops).kind = s.kind := by
  unfold LP.run
  induction ops generalizing s with
  | nil => rfl
  | cons op ops ih => simp only [List.foldl_cons]; rw [ih, stepOp_kind]


/-! ### configuration fields never change along a history without binarizers -/

theorem fit_config (s : LP α) (b : Batch α) (w : Option Nat) :
    (s.fit b w).binz = s.binz ∧ (s.fit b w).ctxBin = s.ctxBin ∧ (s.fit b w).k1fixed = s.k1fixed ∧
    (s.kind.isLinear = false → (s.fit b w).numFeatures = s.numFeatures) := by
  unfold LP.fit
  split
  · exact ⟨rfl, rfl, rfl, fun _ => rfl⟩
  · rw [post_binz, post_ctxBin, post_k1, post_numFeatures]
    unfold LP.parallelFit
    rw [parallelFitIn_eq]
    refine ⟨rfl, rfl, rfl, ?_⟩
    intro hl
    simp [LP.resetFor, LP.nfFor, hl]

theorem partialFit_config (s : LP α) (b : Batch α) :
    (s.partialFit b).binz = s.binz ∧ (s.partialFit b).ctxBin = s.ctxBin ∧ (s.partialFit b).k1fixed = s.k1fixed ∧
    (s.partialFit b).numFeatures = s.numFeatures := by
  unfold LP.partialFit
  split
  · exact ⟨rfl, rfl, rfl, rfl⟩
  · rw [post_binz, post_ctxBin, post_k1, post_numFeatures]
    unfold LP.parallelFit
    rw [parallelFitIn_eq]
    exact ⟨rfl, rfl, rfl, rfl⟩


theorem fit_numFeatures_linear (u : LP α) (b : Batch α) (wv : Nat) (hl : u.kind.isLinear = true) :
    (u.fit b (some wv)).numFeatures = some wv := by
  unfold LP.fit
  split
  · next h => rw [h] at hl; simp [Kind.isLinear] at hl
  · rw [post_numFeatures]
    unfold LP.parallelFit
    rw [parallelFitIn_eq]
    simp [LP.resetFor, LP.nfFor, hl]

end Mab
