/-
  `MAB`: argument validation, `_is_initial_fit`, the arm list, dispatch to `_imp`.
  Every operation is "all checks, then all writes"; `step` returns the state also when the call
  is rejected, so that "a rejected call changes nothing" is a statement with content.
-/
import MabModel.Core.Bandit
open Py

namespace Mab

inductive Err where
  | type | value | notFit | shape | index
deriving DecidableEq, Repr, Inhabited

/-- What the caller passed as an arm label. -/
inductive ArmArg (α : Type) where
  | ok (a : α) | none | nan | inf
deriving Repr

structure TrainArgs (α : Type) where
  typeOk : Bool := true                 -- decisions / rewards are list, ndarray or Series
  decisions : List α
  rewards : List (Option Rat)           -- `none` = None / NaN / ±inf
  contexts : Option (List Vec) := none  -- `none` = no contexts passed
  ctxTypeOk : Bool := true              -- contexts has an accepted type and is 2-D
deriving Inhabited

structure PredArgs where
  contexts : Option (List Vec) := none
  ctxTypeOk : Bool := true
deriving Inhabited

structure WarmArgs (α : Type) where
  typeOk : Bool := true                 -- dict / float as required
  q : Rat
  keys : List α                         -- keys of `arm_to_features`, in dict order
  raw : α → α → Option Rat              -- `cdist` between feature vectors, `none` = NaN
  featOk : Bool := true                 -- feature vectors have equal lengths (else `cdist` raises)

inductive Op (α : Type) where
  | fit (a : TrainArgs α) | partialFit (a : TrainArgs α)
  | predict (a : PredArgs) | predictExp (a : PredArgs)
  | addArm (a : ArmArg α) (binz : Option (α → Rat → Rat)) (binzCallable : Bool := true)
  | removeArm (a : ArmArg α)
  | warmStart (w : WarmArgs α)

variable {α : Type} [DecidableEq α]

def isBinary (r : Option Rat) : Bool := r == some 0 || r == some 1

/-- the binarizer `MAB.learning_policy` reports -/
def Bandit.currentBinz (b : Bandit α) : Option (α → Rat → Rat) :=
  match b.np with
  | .clusters _ => (b.lps.headD b.lp).binz
  | _ => b.lp.binz

/-- `_validate_fit_args` and the finiteness check -/
def Bandit.validateTrain (b : Bandit α) (a : TrainArgs α) : Option Err :=
  if !a.typeOk then some .type
  else
    let ctxErr : Option Err :=
      match a.contexts with
      | some c =>
        if !a.ctxTypeOk then some .type
        else if !b.isContextual then some .type
        else if a.decisions.length ≠ c.length then some .value
        else none
      | none => if b.isContextual then some .type else none
    match ctxErr with
    | some e => some e
    | none =>
      if a.decisions.length ≠ a.rewards.length then some .value
      else if b.lp.kind = .thompson ∧ b.currentBinz.isNone ∧ !a.rewards.all isBinary then some .value
      else if !a.rewards.all (·.isSome) then some .type
      else none

def TrainArgs.toBatch (a : TrainArgs α) : Batch α :=
  let ctxs := (a.contexts.getD []) 
  (List.zip a.decisions a.rewards).zipIdx.map fun (p : (α × Option Rat) × Nat) =>
    { arm := p.1.1, reward := p.1.2.getD 0, ctx := ctxs.getD p.2 [] }

def Bandit.storedWidth (b : Bandit α) : Option Nat := batchWidth b.hist

/-- shape errors that surface from inside `_imp.fit` / `_imp.partial_fit` *before* any write -/
def Bandit.trainShapeErr (b : Bandit α) (batch : Batch α) (isPartial : Bool) : Option Err :=
  let w := batchWidth batch
  let ragged := batch.any fun r => some r.ctx.length ≠ w
  if ragged then some .type
  else
    match b.np with
    | .radius .. | .knn .. | .lsh .. =>
      if isPartial ∧ batch.length ≠ 0 ∧ b.hist.length ≠ 0 ∧ w ≠ b.storedWidth then some .shape else none
    | .clusters n =>
      if isPartial ∧ batch.length ≠ 0 ∧ b.hist.length ≠ 0 ∧ w ≠ b.storedWidth then some .shape
      else if (if isPartial then b.hist.length + batch.length else batch.length) < n then some .shape
      else none
    | .none =>
      -- `_RidgeRegression.fit`: `A + XᵀX` with incompatible shapes raises for the first arm that has rows
      -- (widths 1 broadcast silently; generators avoid them)
      match b.lp.kind.isLinear, isPartial, b.lp.numFeatures, w with
      | true, true, some d, some d' =>
        if d ≠ d' ∧ d ≠ 1 ∧ d' ≠ 1 ∧ batch.any (fun r => r.arm ∈ b.arms) then some .shape else none
      | _, _, _, _ => none
    | _ => none

structure StepOut (α : Type) where
  err : Option Err := none
  out : PredOut α := {}

def Bandit.train (b : Bandit α) (a : TrainArgs α) (isPartial : Bool) (o : Oracle) (g : Rng) :
    Bandit α × StepOut α × Rng :=
  match b.validateTrain a with
  | some e => (b, { err := some e }, g)
  | none =>
    match b.trainShapeErr a.toBatch (isPartial && b.isFit) with
    | some e => (b, { err := some e }, g)
    | none =>
      if isPartial && b.isFit then
        ((b.impPartialFit a.toBatch o g).1, {}, (b.impPartialFit a.toBatch o g).2)
      else
        ({ (b.impFit a.toBatch o g).1 with isFit := true }, {}, (b.impFit a.toBatch o g).2)

def Bandit.query (le : Expect → Expect → Bool) (b : Bandit α) (a : PredArgs) (isPredict : Bool)
    (o : Oracle) (g : Rng) : Bandit α × StepOut α × Rng :=
  if !b.isFit then (b, { err := some .notFit }, g)
  else if b.isContextual ∧ a.contexts.isNone then (b, { err := some .value }, g)
  else if a.contexts.isSome ∧ !a.ctxTypeOk then (b, { err := some .type }, g)
  else
    ((b.impPredict le isPredict (a.contexts.map (·.length)) (a.contexts.getD []) o g).1,
     { out := (b.impPredict le isPredict (a.contexts.map (·.length)) (a.contexts.getD []) o g).2.1 },
     (b.impPredict le isPredict (a.contexts.map (·.length)) (a.contexts.getD []) o g).2.2)

def Bandit.step (le : Expect → Expect → Bool) (b : Bandit α) (op : Op α) (o : Oracle) (g : Rng) :
    Bandit α × StepOut α × Rng :=
  match op with
  | .fit a => b.train a false o g
  | .partialFit a => b.train a true o g
  | .predict a => b.query le a true o g
  | .predictExp a => b.query le a false o g
  | .addArm arg binz callable =>
    if binz.isSome ∧ b.lp.kind ≠ .thompson then (b, { err := some .value }, g)
    else if binz.isSome ∧ !callable then (b, { err := some .type }, g)
    else
      match arg with
      | .ok a =>
        if a ∈ b.arms then (b, { err := some .value }, g)
        else (b.impAddArm a binz, {}, g)
      | _ => (b, { err := some .value }, g)
  | .removeArm arg =>
    match arg with
    | .ok a =>
      if a ∈ b.arms then (b.impRemoveArm a, {}, g) else (b, { err := some .value }, g)
    | _ => (b, { err := some .value }, g)
  | .warmStart w =>
    if !w.typeOk then (b, { err := some .type }, g)
    else if w.q < 0 ∨ 1 < w.q then (b, { err := some .value }, g)
    else if ¬ (w.keys.all (· ∈ b.arms) ∧ b.arms.all (· ∈ w.keys)) then (b, { err := some .value }, g)
    else
      match b.np with
      | .none =>
        if !w.featOk then (b, { err := some .value }, g)
        else
          match b.lp.warmStart w.keys w.raw w.q with
          | some lp => ({ b with lp }, {}, g)
          | none => (b, { err := some .index }, g)
      | _ => (b, {}, g)

namespace SeriesRule
end SeriesRule

/-- `__convert_context` for a pandas Series holding the values `vals`:
    called from fit / partial_fit with `n` decisions: a column when `n > 1`, one row otherwise;
    called from predict with `numFeatures` known from training: a column when there is a single
    feature, one row otherwise. -/
def convertSeries (vals : List Rat) (fromFit : Bool) (nDecisions numFeatures : Nat) : List (List Rat) :=
  if fromFit then (if nDecisions > 1 then vals.map fun v => [v] else [vals])
  else (if numFeatures = 1 then vals.map fun v => [v] else [vals])


/-- `MAB.cold_arms` -/
def Bandit.coldArms (b : Bandit α) : List α :=
  match b.np with
  | .none => b.lp.coldArms
  | _ => []

end Mab
