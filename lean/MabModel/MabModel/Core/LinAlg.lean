/-
  Exact linear algebra over `Rat` on lists (core Lean only): what `_RidgeRegression` needs.
-/
import MabModel.Core.Types

namespace Mab

def dot (x y : Vec) : Rat := (List.zipWith (· * ·) x y).sum
def vadd (x y : Vec) : Vec := List.zipWith (· + ·) x y
def vsmul (c : Rat) (x : Vec) : Vec := x.map (c * ·)
def madd (A B : Mat) : Mat := List.zipWith vadd A B
def msmul (c : Rat) (A : Mat) : Mat := A.map (vsmul c)
def outer (x y : Vec) : Mat := x.map fun xi => y.map fun yj => xi * yj
def mulVec (A : Mat) (x : Vec) : Vec := A.map fun r => dot r x
def vecMul (x : Vec) (A : Mat) : Vec :=            -- x · A  (row vector times matrix)
  match A with
  | [] => []
  | r :: _ => (List.range r.length).map fun j => (List.zipWith (fun xi row => xi * row.getD j 0) x A).sum
def zeroVec (d : Nat) : Vec := List.replicate d 0
def ident (d : Nat) : Mat := (List.range d).map fun i => (List.range d).map fun j => if i = j then 1 else 0
def matMul (A B : Mat) : Mat := A.map fun r => vecMul r B

/-- `XᵀX` accumulated row by row: `A + Σ x xᵀ`. -/
def addGram (A : Mat) (xs : List Vec) : Mat := xs.foldl (fun M x => madd M (outer x x)) A
/-- `Xᵀy` accumulated row by row: `v + Σ y·x`. -/
def addXty (v : Vec) (rows : List (Rat × Vec)) : Vec := rows.foldl (fun v r => vadd v (vsmul r.1 r.2)) v

/-- Gauss–Jordan elimination on the augmented matrix `[A | I]`; `none` when singular. -/
def gaussJordan (d : Nat) (M : Mat) : Option Mat :=
  (List.range d).foldlM (fun (M : Mat) c =>
    match (List.range d).find? (fun r => decide (c ≤ r) && ((M.getD r []).getD c 0 != 0)) with
    | none => none
    | some r =>
      let rowC := M.getD c []
      let rowR := M.getD r []
      let M1 : Mat := (M.set c rowR).set r (if r = c then rowR else rowC)
      let p := rowR.getD c 0
      let prow := rowR.map (· / p)
      some (M1.mapIdx fun i row =>
        if i = c then prow
        else
          let f := row.getD c 0
          List.zipWith (fun x y => x - f * y) row prow)) M

def inv (A : Mat) : Option Mat :=
  let d := A.length
  let aug := List.zipWith (· ++ ·) A (ident d)
  (gaussJordan d aug).map fun M => M.map (·.drop d)

/-- `np.linalg.inv`, with a certificate check the driver reports when it fails. -/
def invD (A : Mat) : Mat := (inv A).getD []

def isInverse (A B : Mat) : Bool := matMul A B == ident A.length

def isSquare (n : Nat) (A : Mat) : Bool := A.length == n && A.all (·.length == n)

/-- the certificate the driver checks for every fitted per-arm model: both matrices are `n × n`
    and `A · B = I` exactly -/
def isInverseCert (A B : Mat) : Bool := isSquare A.length A && isSquare A.length B && isInverse A B

end Mab
