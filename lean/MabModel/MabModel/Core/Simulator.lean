/-
  Simulator bookkeeping (split, batches, statistics, default evaluator) — see Props/C16.
-/
import MabModel.Core.Bandit
open Py

namespace Mab

def simLine (_toks : List String) : Option String := none

end Mab
